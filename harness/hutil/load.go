// Package hutil has helpers shared by the verification harness commands.
package hutil

import (
	"fmt"
	"go/token"
	"os"
	"sort"

	"github.com/awslabs/ar-go-tools/analysis"
	"golang.org/x/tools/go/packages"
	"golang.org/x/tools/go/ssa"
	"golang.org/x/tools/go/ssa/ssautil"
)

// LoadDir loads the Go package(s) matched by patterns with working directory dir, using the repository's own loader.
func LoadDir(dir string, rewrites bool, patterns ...string) (*ssa.Program, []*packages.Package, error) {
	if len(patterns) == 0 {
		patterns = []string{"."}
	}
	cfg := &packages.Config{Mode: analysis.PkgLoadMode, Tests: false, Dir: dir,
		Env: append(os.Environ(), "GOFLAGS=-mod=mod", "GOPROXY=off", "GOSUMDB=off", "GOTOOLCHAIN=local")}
	opts := analysis.LoadProgramOptions{BuildMode: ssa.InstantiateGenerics, ApplyRewrites: rewrites, PackageConfig: cfg}
	return analysis.LoadProgram(opts, patterns)
}

// SortedFunctions returns all functions of the program in a deterministic order (by String, then position).
func SortedFunctions(p *ssa.Program) []*ssa.Function {
	fs := ssautil.AllFunctions(p)
	out := make([]*ssa.Function, 0, len(fs))
	for f := range fs {
		out = append(out, f)
	}
	sort.Slice(out, func(i, j int) bool {
		a, b := out[i], out[j]
		if a.String() != b.String() {
			return a.String() < b.String()
		}
		pa, pb := PosStr(p.Fset, a.Pos()), PosStr(p.Fset, b.Pos())
		if pa != pb {
			return pa < pb
		}
		return len(a.Blocks) < len(b.Blocks)
	})
	return out
}

// PosStr prints a position as file:line:col, or "-" when invalid.
func PosStr(fset *token.FileSet, pos token.Pos) string {
	if !pos.IsValid() {
		return "-"
	}
	p := fset.Position(pos)
	return fmt.Sprintf("%s:%d:%d", p.Filename, p.Line, p.Column)
}
