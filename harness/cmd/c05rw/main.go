// c05rw cross-checks the T-gen translator of C05 (gentables/gen_rw.go) against the behaviour of the real code: it loads
// program directories, and for every function f of the non-standard-library packages and every global G that some
// instruction of f has among its operands it prints
//
//	RW <function> <global> reads=<lang.FnReadsFrom(f,G)> writes=<lang.FnWritesTo(f,G)> <pos> <pos> ...
//
// where each <pos> is InstrType.Field (the operand position found by comparing the pointers returned by
// Instruction.Operands with the addresses of the instruction's struct fields, e.g. UnOp.X, Call.Call.Args[],
// Store.Addr>FieldAddr.X for a store through a field address of G).  tools/props/c05.py then checks that
// reads/writes are exactly "some position is listed in the regenerated rw_reads_from / rw_writes_to table" and that
// every position occurs in rw_schema.
package main

import (
	"bufio"
	"flag"
	"fmt"
	"os"
	"reflect"
	"sort"
	"strings"

	"github.com/awslabs/ar-go-tools/analysis/lang"
	"github.com/awslabs/ar-go-tools/analysis/summaries"
	"github.com/awslabs/ar-go-tools/verifharness/hutil"
	"golang.org/x/tools/go/ssa"
)

var valueType = reflect.TypeOf((*ssa.Value)(nil)).Elem()

// fieldOf finds the path of the struct field of v (addressable struct) whose address is p
func fieldOf(v reflect.Value, p *ssa.Value, prefix string) (string, bool) {
	t := v.Type()
	for i := 0; i < v.NumField(); i++ {
		f := v.Field(i)
		sf := t.Field(i)
		if !sf.IsExported() {
			continue
		}
		name := prefix + sf.Name
		switch {
		case sf.Type == valueType:
			if f.CanAddr() {
				if q, ok := f.Addr().Interface().(*ssa.Value); ok && q == p {
					return name, true
				}
			}
		case sf.Type.Kind() == reflect.Slice && sf.Type.Elem() == valueType:
			for j := 0; j < f.Len(); j++ {
				if q, ok := f.Index(j).Addr().Interface().(*ssa.Value); ok && q == p {
					return name + "[]", true
				}
			}
		case sf.Type.Kind() == reflect.Slice && sf.Type.Elem().Kind() == reflect.Ptr && sf.Type.Elem().Elem().Kind() == reflect.Struct:
			for j := 0; j < f.Len(); j++ {
				if e := f.Index(j); !e.IsNil() {
					if r, ok := fieldOf(e.Elem(), p, name+"[]."); ok {
						return r, true
					}
				}
			}
		case sf.Type.Kind() == reflect.Struct && sf.Type.PkgPath() == "golang.org/x/tools/go/ssa":
			if r, ok := fieldOf(f, p, name+"."); ok {
				return r, true
			}
		}
	}
	return "", false
}

func typeName(i interface{}) string {
	return strings.TrimPrefix(fmt.Sprintf("%T", i), "*ssa.")
}

func main() {
	out := flag.String("o", "-", "output file")
	flag.Parse()
	w := bufio.NewWriter(os.Stdout)
	if *out != "-" {
		f, err := os.Create(*out)
		if err != nil {
			panic(err)
		}
		defer f.Close()
		w = bufio.NewWriter(f)
	}
	defer w.Flush()
	for _, dir := range flag.Args() {
		prog, _, err := hutil.LoadDir(dir, true, "./...")
		if err != nil {
			fmt.Fprintf(w, "FAIL %s %v\n", dir, err)
			continue
		}
		fmt.Fprintf(w, "P %s\n", dir)
		for _, f := range hutil.SortedFunctions(prog) {
			if f.Pkg == nil || summaries.IsStdFunction(f) || len(f.Blocks) == 0 {
				continue
			}
			occ := map[*ssa.Global]map[string]bool{}
			for _, b := range f.Blocks {
				for _, ins := range b.Instrs {
					var ops []*ssa.Value
					for _, op := range ins.Operands(ops) {
						g, ok := (*op).(*ssa.Global)
						if !ok {
							continue
						}
						pos := "?"
						if p, ok := fieldOf(reflect.ValueOf(ins).Elem(), op, ""); ok {
							pos = typeName(ins) + "." + p
						}
						if occ[g] == nil {
							occ[g] = map[string]bool{}
						}
						occ[g][pos] = true
					}
					// the special case of FnReadsFrom: a store whose address is a field address of the global
					if st, ok := ins.(*ssa.Store); ok {
						if fa, ok := st.Addr.(*ssa.FieldAddr); ok {
							if g, ok := fa.X.(*ssa.Global); ok {
								if occ[g] == nil {
									occ[g] = map[string]bool{}
								}
								occ[g]["Store.Addr>FieldAddr.X"] = true
							}
						}
					}
				}
			}
			gs := make([]*ssa.Global, 0, len(occ))
			for g := range occ {
				gs = append(gs, g)
			}
			sort.Slice(gs, func(i, j int) bool { return gs[i].String() < gs[j].String() })
			for _, g := range gs {
				ps := make([]string, 0, len(occ[g]))
				for p := range occ[g] {
					ps = append(ps, p)
				}
				sort.Strings(ps)
				fmt.Fprintf(w, "RW %s %s reads=%v writes=%v %s\n", strings.ReplaceAll(f.String(), " ", ""), g.String(),
					lang.FnReadsFrom(f, g), lang.FnWritesTo(f, g), strings.Join(ps, " "))
			}
		}
	}
}
