// travdump runs the REAL taint pipeline of /repo on program directories (as analysis/taint/taint.go Analyze does: load,
// NewInitializedAnalyzerState, AnalysisPreamble, RunIntraProceduralPass, BuildGraph + visitor per taint problem) and dumps
//
//   - the LINKED inter-procedural dataflow graph in a canonical line format (nodes by kind, out edges with EdgeInfo,
//     callsites, callee summaries, params/free vars/bound vars/closure links, globals, `Constructed`),
//   - per taint problem: the node/condition predicates used by Visit/addNext (filtered, sink, sanitizer, validator),
//   - per entry point (source node + calling context): the implementation's RESULT, i.e. the recorded visitor-node tree
//     (hook analysis/taint/verif_trav.go: roots + children), from which the visited keys, the enqueue relation and the
//     sink hits are derived, plus the flows the visitor reports (Flows.Sinks).
//
// Protocol: pass 1 runs the visitor exactly like Analyze (this may build summaries on demand and therefore mutate the
// graph); then the graph is dumped; pass 2 re-runs the visitor on every entry point with recording; the graph is
// digested again and `STABLE 1` certifies that the recorded traversals saw exactly the dumped graph.
//
// Line format (ids are decimal, 0 = nil):
//
//	PROG <dir>
//	OPT <name> <value>
//	PATH <pathid> <quoted string>                                    access-path strings, id 1 = ""
//	PFX <pathid a> <pathid b>                                        strings.HasPrefix(a, b)
//	PRANK <pathid> <rank>                                            position of the string in sort.Strings order
//	SF <sfid> <quoted ssa function string>
//	FN <fid> <sfid of Parent> <constructed> <nparams> <nfreevars> <IsPreSummarized>    one per SummaryGraph
//	LB <node>                 the node has labelled marks (kind Param/FreeVar/CallNodeArg/CallNode/BoundVar/AccessGlobal and
//	                          len(df.AccessPathsOfType(node.Type())) > 0): taint hasLabelledMarks, recomputed here
//	FP <fid> <i> <node>      ParamNode of Parent.Params[i] (0 if none);  FV <fid> <i> <node>  likewise for free variables
//	CS <fid> <callnode>...   Callsites;   RM <fid> <closurenode>...   ReferringMakeClosures
//	N <id> P <fid> <idx> | F <fid> <idx> | A <fid> <callnode> <idx> | C <fid> <sfid callee> <fid calleeSummary> <instr> <strclass> <sumclass> <callee reachable>
//	     | R <fid> <idx> | L <fid> <fid closureSummary> <strclass> | B <fid> <closurenode> <idx>
//	     | T <fid> <fid destClosure> <closurenode resolved> <idx> | G <fid> <iswrite> <global> | S <fid> | I <fid>
//	IN <node> <instr>        df.Instr(node) when non-nil
//	ARGS <callnode> <arg>... ;  BV <closurenode> <boundvar>...
//	E <src> <dst> <k> <tupleIndex> <nin> <ee> <conds: c,c|-> <relpath pairs: in>out,...|->     k-th EdgeInfo of Out()[dst]
//	GR <global> <readloc>...
//	PB <p> <quoted tag> skipbl=<0/1> implicit=<0/1>
//	PN <p> <node> <bits>     1 filtered, 2 sink, 4 sanitizer, 8 (IfNode) validator condition, 16 predicate panicked
//	PC <p> <cond>            condition id that isValidatorCondition accepts
//	ENT <p> <e> <node> T:<call trace root-first> alarms=<alarm counter at the start of this Visit, relative to the problem>
//	V <p> <e> <idx> <parent idx|-1> <node> <kind> <depth> <prev node> T:<..> C:<..> S:<fid.idx;..> A:<pathids>
//	HIT <p> <e> <sinknode> T:<..>         derived: visited, not filtered, sink, default tracing
//	FLOW <p> <srcinstr> <quoted srctrace> <sinkinstr> <quoted sinktrace>     Flows.Sinks of the recorded pass
//	FLOW1 ...                              same for pass 1 (the Analyze-equivalent run)
//	PANIC <p> <e> <quoted message>         Visit panicked (recovered) on that entry
//	STABLE <0/1>  ;  XCHK <what> <0/1>
package main

import (
	"bufio"
	"crypto/sha1"
	"flag"
	"fmt"
	"io"
	"os"
	"path/filepath"
	"reflect"
	"runtime"
	"sort"
	"strconv"
	"strings"

	"github.com/awslabs/ar-go-tools/analysis"
	"github.com/awslabs/ar-go-tools/analysis/annotations"
	"github.com/awslabs/ar-go-tools/analysis/config"
	df "github.com/awslabs/ar-go-tools/analysis/dataflow"
	"github.com/awslabs/ar-go-tools/analysis/taint"
	"github.com/awslabs/ar-go-tools/internal/funcutil"
	"github.com/awslabs/ar-go-tools/verifharness/hutil"
	"golang.org/x/tools/go/ssa"
)

type dumper struct {
	w       *bufio.Writer
	prog    *ssa.Program
	state   *df.AnalyzerState
	sums    []*df.SummaryGraph
	fid     map[*df.SummaryGraph]int
	sfid    map[*ssa.Function]int
	sfs     []*ssa.Function
	nid     map[df.GraphNode]int
	nodes   []df.GraphNode
	instrID map[ssa.Instruction]int
	globID  map[*df.GlobalNode]int
	globs   []*df.GlobalNode
	pathID  map[string]int
	paths   []string
	strCl   map[string]int
	sumCl   map[string]int
	condID  map[condKey]int
	conds   []condKey
	warn    []string
	pending int
}

type condKey struct {
	v   ssa.Value
	pos bool
}

func isNil(x interface{}) bool {
	if x == nil {
		return true
	}
	v := reflect.ValueOf(x)
	switch v.Kind() {
	case reflect.Ptr, reflect.Map, reflect.Slice, reflect.Interface, reflect.Func:
		return v.IsNil()
	}
	return false
}

func (d *dumper) sf(f *ssa.Function) int {
	if f == nil {
		return 0
	}
	if id, ok := d.sfid[f]; ok {
		return id
	}
	d.sfs = append(d.sfs, f)
	d.sfid[f] = len(d.sfs)
	return len(d.sfs)
}

func (d *dumper) fn(g *df.SummaryGraph) int {
	if g == nil {
		return 0
	}
	if id, ok := d.fid[g]; ok {
		return id
	}
	d.sums = append(d.sums, g)
	d.fid[g] = len(d.sums)
	return len(d.sums)
}

func (d *dumper) node(n df.GraphNode) int {
	if isNil(n) {
		return 0
	}
	if id, ok := d.nid[n]; ok {
		return id
	}
	d.nodes = append(d.nodes, n)
	d.nid[n] = len(d.nodes)
	return len(d.nodes)
}

func (d *dumper) instr(i ssa.Instruction) int {
	if isNil(i) {
		return 0
	}
	if id, ok := d.instrID[i]; ok {
		return id
	}
	d.instrID[i] = len(d.instrID) + 1
	return len(d.instrID)
}

func (d *dumper) glob(g *df.GlobalNode) int {
	if g == nil {
		return 0
	}
	if id, ok := d.globID[g]; ok {
		return id
	}
	d.globs = append(d.globs, g)
	d.globID[g] = len(d.globs)
	return len(d.globs)
}

func (d *dumper) path(s string) int {
	if id, ok := d.pathID[s]; ok {
		return id
	}
	d.paths = append(d.paths, s)
	d.pathID[s] = len(d.paths)
	return len(d.paths)
}

func classOf(m map[string]int, s string) int {
	if id, ok := m[s]; ok {
		return id
	}
	m[s] = len(m) + 1
	return len(m)
}

func (d *dumper) cond(v ssa.Value, pos bool) int {
	k := condKey{v, pos}
	if id, ok := d.condID[k]; ok {
		return id
	}
	d.conds = append(d.conds, k)
	d.condID[k] = len(d.conds)
	return len(d.conds)
}

// hasLabels is the specification of taint.hasLabelledMarks used by the model: the node kinds that the intra-procedural
// analysis tracks with one labelled mark per access path of their type, when the type has access paths.
func hasLabels(n df.GraphNode) (res bool) {
	defer func() {
		if recover() != nil {
			res = false
		}
	}()
	switch n.(type) {
	case *df.ParamNode, *df.FreeVarNode, *df.CallNodeArg, *df.CallNode, *df.BoundVarNode, *df.AccessGlobalNode:
		t := n.Type()
		return t != nil && len(df.AccessPathsOfType(t)) > 0
	}
	return false
}

func sumLess(p *ssa.Program, a, b *df.SummaryGraph) bool {
	as, bs := "", ""
	if a.Parent != nil {
		as = a.Parent.String() + "@" + hutil.PosStr(p.Fset, a.Parent.Pos())
	}
	if b.Parent != nil {
		bs = b.Parent.String() + "@" + hutil.PosStr(p.Fset, b.Parent.Pos())
	}
	if as != bs {
		return as < bs
	}
	return a.ID < b.ID
}

// allNodes enumerates the nodes of a summary (ForAllNodes + the If nodes), sorted by node id.
func allNodes(g *df.SummaryGraph) []df.GraphNode {
	var ns []df.GraphNode
	g.ForAllNodes(func(n df.GraphNode) { ns = append(ns, n) })
	for _, n := range g.Ifs {
		ns = append(ns, n)
	}
	sort.SliceStable(ns, func(i, j int) bool {
		if ns[i].ID() != ns[j].ID() {
			return ns[i].ID() < ns[j].ID()
		}
		return df.NodeKind(ns[i]) < df.NodeKind(ns[j])
	})
	return ns
}

// register assigns ids to all summaries and nodes reachable from the flow graph, deterministically.
func (d *dumper) register() {
	var base []*df.SummaryGraph
	for _, g := range d.state.FlowGraph.Summaries {
		if g != nil {
			base = append(base, g)
		}
	}
	sort.Slice(base, func(i, j int) bool { return sumLess(d.prog, base[i], base[j]) })
	for _, g := range base {
		d.fn(g)
	}
	d.path("")
	// worklist over summaries: nodes, and the summaries/nodes they refer to
	for i := 0; i < len(d.sums); i++ {
		g := d.sums[i]
		d.sf(g.Parent)
		for _, n := range allNodes(g) {
			d.node(n)
		}
		var cs []*df.CallNode
		for _, c := range g.Callsites {
			cs = append(cs, c)
		}
		for _, c := range cs {
			if c != nil {
				d.fn(c.Graph())
			}
		}
		for _, c := range g.ReferringMakeClosures {
			if c != nil {
				d.fn(c.Graph())
			}
		}
		for _, n := range allNodes(g) {
			switch x := n.(type) {
			case *df.CallNode:
				d.fn(x.CalleeSummary)
			case *df.ClosureNode:
				d.fn(x.ClosureSummary)
			case *df.BoundLabelNode:
				d.fn(x.DestClosure())
			}
		}
	}
	// nodes referred to but not enumerated (registered lazily while printing; a second pass prints them)
}

func q(s string) string { return strconv.Quote(s) }

func ids(xs []int) string {
	if len(xs) == 0 {
		return "-"
	}
	ss := make([]string, len(xs))
	for i, x := range xs {
		ss[i] = strconv.Itoa(x)
	}
	return strings.Join(ss, ",")
}

func (d *dumper) traceIDs(t *df.CallStack) []int {
	var r []int
	for _, c := range t.ToSlice() {
		r = append(r, d.node(c))
	}
	return r
}

func (d *dumper) ctraceIDs(t *df.NodeTree[*df.ClosureNode]) []int {
	var r []int
	for _, c := range t.ToSlice() {
		r = append(r, d.node(c))
	}
	return r
}

// graphLines produces the canonical graph section.
func (d *dumper) graphLines() []string {
	var out []string
	p := func(format string, a ...interface{}) { out = append(out, fmt.Sprintf(format, a...)) }
	printed := 0
	var nodeLines, edgeLines []string
	for printed < len(d.nodes) {
		n := d.nodes[printed]
		id := printed + 1
		printed++
		g := n.Graph()
		f := d.fn(g)
		switch x := n.(type) {
		case *df.ParamNode:
			nodeLines = append(nodeLines, fmt.Sprintf("N %d P %d %d", id, f, x.Index()))
		case *df.FreeVarNode:
			nodeLines = append(nodeLines, fmt.Sprintf("N %d F %d %d", id, f, x.Index()))
		case *df.CallNodeArg:
			nodeLines = append(nodeLines, fmt.Sprintf("N %d A %d %d %d", id, f, d.node(x.ParentNode()), x.Index()))
		case *df.CallNode:
			var ci ssa.Instruction
			if x.CallSite() != nil {
				ci = x.CallSite()
			}
			nodeLines = append(nodeLines, fmt.Sprintf("N %d C %d %d %d %d %d %d %d", id, f, d.sf(x.Callee()), d.fn(x.CalleeSummary),
				d.instr(ci), classOf(d.strCl, x.String()), classOf(d.sumCl, df.NewNodeTree(x).SummaryString()),
				b2i(x.Callee() != nil && d.state.IsReachableFunction(x.Callee()))))
			var as []int
			for _, a := range x.Args() {
				as = append(as, d.node(a))
			}
			nodeLines = append(nodeLines, fmt.Sprintf("ARGS %d %s", id, ids(as)))
		case *df.ReturnValNode:
			nodeLines = append(nodeLines, fmt.Sprintf("N %d R %d %d", id, f, x.Index()))
		case *df.ClosureNode:
			nodeLines = append(nodeLines, fmt.Sprintf("N %d L %d %d %d", id, f, d.fn(x.ClosureSummary), classOf(d.strCl, x.String())))
			var bs []int
			for _, b := range x.BoundVars() {
				bs = append(bs, d.node(b))
			}
			nodeLines = append(nodeLines, fmt.Sprintf("BV %d %s", id, ids(bs)))
		case *df.BoundVarNode:
			nodeLines = append(nodeLines, fmt.Sprintf("N %d B %d %d %d", id, f, d.node(x.ParentNode()), x.Index()))
		case *df.BoundLabelNode:
			dest := x.DestClosure()
			cl := 0
			if dest != nil {
				if c := dest.ReferringMakeClosures[x.DestInfo().MakeClosure]; c != nil {
					cl = d.node(c)
				}
			}
			nodeLines = append(nodeLines, fmt.Sprintf("N %d T %d %d %d %d", id, f, d.fn(dest), cl, x.Index()))
		case *df.AccessGlobalNode:
			w := 0
			if x.IsWrite {
				w = 1
			}
			nodeLines = append(nodeLines, fmt.Sprintf("N %d G %d %d %d", id, f, w, d.glob(x.Global)))
		case *df.SyntheticNode:
			nodeLines = append(nodeLines, fmt.Sprintf("N %d S %d", id, f))
		case *df.IfNode:
			nodeLines = append(nodeLines, fmt.Sprintf("N %d I %d", id, f))
		default:
			nodeLines = append(nodeLines, fmt.Sprintf("N %d X %d", id, f))
		}
		if i := df.Instr(n); !isNil(i) {
			nodeLines = append(nodeLines, fmt.Sprintf("IN %d %d", id, d.instr(i)))
		}
		if hasLabels(n) {
			nodeLines = append(nodeLines, fmt.Sprintf("LB %d", id))
		}
		// out edges
		type oe struct {
			dst int
			eis []df.EdgeInfo
		}
		var oes []oe
		for dst, eis := range n.Out() {
			oes = append(oes, oe{d.node(dst), eis})
		}
		sort.Slice(oes, func(i, j int) bool { return oes[i].dst < oes[j].dst })
		for _, e := range oes {
			for k, ei := range e.eis {
				var cs []int
				if ei.Cond != nil {
					for _, c := range ei.Cond.Conditions {
						cs = append(cs, d.cond(c.Value, c.IsPositive))
					}
				}
				var rps []string
				for in, outs := range ei.RelPath {
					for o := range outs {
						rps = append(rps, fmt.Sprintf("%d>%d", d.path(in), d.path(o)))
					}
				}
				sort.Strings(rps)
				ee := 0
				if ei.RelPath[""][""] {
					ee = 1
				}
				rp := "-"
				if len(rps) > 0 {
					rp = strings.Join(rps, ",")
				}
				edgeLines = append(edgeLines, fmt.Sprintf("E %d %d %d %d %d %d %s %s", id, e.dst, k, ei.Index, len(ei.RelPath), ee, ids(cs), rp))
			}
		}
	}
	for i, s := range d.paths {
		p("PATH %d %s", i+1, q(s))
	}
	sorted := append([]string(nil), d.paths...)
	sort.Strings(sorted)
	for i, a := range d.paths {
		p("PRANK %d %d", i+1, sort.SearchStrings(sorted, a)+1)
	}
	for i, a := range d.paths {
		for j, b := range d.paths {
			if strings.HasPrefix(a, b) {
				p("PFX %d %d", i+1, j+1)
			}
		}
	}
	var fnLines []string
	for i := 0; i < len(d.sums); i++ {
		g := d.sums[i]
		f := i + 1
		c := 0
		if g.Constructed {
			c = 1
		}
		np, nf := 0, 0
		if g.Parent != nil {
			np, nf = len(g.Parent.Params), len(g.Parent.FreeVars)
		}
		fnLines = append(fnLines, fmt.Sprintf("FN %d %d %d %d %d %d", f, d.sf(g.Parent), c, np, nf, b2i(g.IsPreSummarized)))
		if g.Parent != nil {
			for k, sp := range g.Parent.Params {
				fnLines = append(fnLines, fmt.Sprintf("FP %d %d %d", f, k, d.node(g.Params[sp])))
			}
			for k, fv := range g.Parent.FreeVars {
				fnLines = append(fnLines, fmt.Sprintf("FV %d %d %d", f, k, d.node(g.FreeVars[fv])))
			}
		}
		var cs, rm []int
		for _, c := range g.Callsites {
			cs = append(cs, d.node(c))
		}
		sort.Ints(cs)
		for _, c := range g.ReferringMakeClosures {
			rm = append(rm, d.node(c))
		}
		sort.Ints(rm)
		fnLines = append(fnLines, fmt.Sprintf("CS %d %s", f, ids(cs)))
		fnLines = append(fnLines, fmt.Sprintf("RM %d %s", f, ids(rm)))
	}
	for i, f := range d.sfs {
		p("SF %d %s", i+1, q(f.String()))
	}
	out = append(out, fnLines...)
	out = append(out, nodeLines...)
	out = append(out, edgeLines...)
	for i, g := range d.globs {
		var rl []int
		for n := range g.ReadLocations {
			rl = append(rl, d.node(n))
		}
		sort.Ints(rl)
		p("GR %d %s", i+1, ids(rl))
	}
	d.pending = len(d.nodes) - printed // nodes first seen while printing the tables: the caller re-runs graphLines
	return out
}

// digest of the mutable part of the graph, used to certify that the recorded pass saw the dumped graph
func (d *dumper) digest() string {
	h := sha1.New()
	var keys []string
	for _, g := range d.state.FlowGraph.Summaries {
		if g == nil {
			continue
		}
		nn := 0
		ne := 0
		for _, n := range allNodes(g) {
			nn++
			for _, eis := range n.Out() {
				ne += len(eis)
			}
		}
		nm := ""
		if g.Parent != nil {
			nm = g.Parent.String()
		}
		keys = append(keys, fmt.Sprintf("%s|%d|%v|%d|%d|%d|%d", nm, g.ID, g.Constructed, nn, ne, len(g.Callsites), len(g.ReferringMakeClosures)))
	}
	for gl, acc := range d.state.FlowGraph.Globals {
		keys = append(keys, fmt.Sprintf("G%s|%d|%d|%d", gl.String(), len(acc), len(gl.ReadLocations), len(gl.WriteLocations)))
	}
	sort.Strings(keys)
	for _, k := range keys {
		io.WriteString(h, k+"\n")
	}
	return fmt.Sprintf("%x", h.Sum(nil))
}

// ---------------------------------------------------------------------------------------------- recording visitor

type vrec struct {
	idx, parent int
	n           *df.VisitorNode
}

type entryRec struct {
	entry        df.NodeWithTrace
	tree         []vrec
	panic        string
	alarmsBefore int // value of the alarm counter when Visit was called / when it returned
	alarmsAfter  int
}

type recVisitor struct {
	inner   *taint.Visitor
	entries []*entryRec
	record  bool
	novisit bool // only collect the entry points
}

func (r *recVisitor) Visit(s *df.AnalyzerState, e df.NodeWithTrace) {
	er := &entryRec{entry: e}
	r.entries = append(r.entries, er)
	if r.novisit {
		return
	}
	if r.record {
		er.alarmsBefore = probeAlarms(s)
	}
	func() {
		defer func() {
			if x := recover(); x != nil {
				er.panic = fmt.Sprint(x)
			}
		}()
		r.inner.Visit(s, e)
	}()
	if !r.record {
		return
	}
	er.alarmsAfter = probeAlarms(s)
	root := taint.VerifTravRoot(r.inner, e)
	if root == nil {
		return
	}
	// level order = queue order (FIFO queue, children appended in enqueue order)
	er.tree = append(er.tree, vrec{0, -1, root})
	for i := 0; i < len(er.tree); i++ {
		for _, c := range taint.VerifTravChildren(er.tree[i].n) {
			er.tree = append(er.tree, vrec{len(er.tree), i, c})
		}
	}
}

// probeAlarms reads the alarm counter of the analyzer state (unexported atomic field numAlarms) directly, so that the
// observation does not depend on TestAlarmCount / IncrementAndTestAlarms, which are under test.
func probeAlarms(s *df.AnalyzerState) int {
	f := reflect.ValueOf(s).Elem().FieldByName("numAlarms")
	if !f.IsValid() {
		panic("AnalyzerState.numAlarms not found")
	}
	v := f.FieldByName("v")
	if !v.IsValid() {
		panic("atomic.Int32 value field not found")
	}
	return int(v.Int())
}

func tri(flag string, cur bool) bool {
	switch flag {
	case "0":
		return false
	case "1":
		return true
	}
	return cur
}

func b2i(b bool) int {
	if b {
		return 1
	}
	return 0
}

func runDir(w *bufio.Writer, dir string, fs, ondemand, ignoreNS string, maxAlarms, maxDepth int, rewrites bool, norec bool, novisit bool) error {
	cfgFile := filepath.Join(dir, "config.yaml")
	if _, err := os.Stat(cfgFile); err != nil {
		cfgFile = filepath.Join(dir, "config.json")
	}
	cfg, err := config.LoadFromFiles(cfgFile)
	if err != nil {
		return fmt.Errorf("config: %v", err)
	}
	// eager mode / escape analysis off unless asked otherwise
	cfg.SummarizeOnDemand = tri(ondemand, false)
	cfg.UseEscapeAnalysis = false
	cfg.PathSensitive = tri(fs, cfg.PathSensitive)
	if fs == "0" {
		cfg.PathSensitiveFuncs = nil
	}
	cfg.UnsafeIgnoreNonSummarized = tri(ignoreNS, cfg.UnsafeIgnoreNonSummarized)
	cfg.MaxAlarms = 0
	if maxDepth != 0 {
		cfg.UnsafeMaxDepth = maxDepth
	}
	cfg.LogLevel = int(config.ErrLevel)
	cfg.SilenceWarn = true
	prog, pkgs, err := hutil.LoadDir(dir, rewrites)
	if err != nil {
		return fmt.Errorf("load: %v", err)
	}
	lg := config.NewLogGroup(cfg)
	lg.SetAllOutput(io.Discard)
	state, err := df.NewInitializedAnalyzerState(prog, pkgs, lg, cfg)
	if err != nil {
		return fmt.Errorf("state: %v", err)
	}
	if err := taint.AnalysisPreamble(state); err != nil {
		return fmt.Errorf("preamble: %v", err)
	}
	numRoutines := runtime.NumCPU() - 1
	if numRoutines <= 0 {
		numRoutines = 1
	}
	analysis.RunIntraProceduralPass(state, numRoutines, analysis.IntraAnalysisParams{
		ShouldBuildSummary: df.ShouldBuildSummary, ShouldTrack: taint.IsNodeOfInterest})
	tags := map[string]bool{}
	state.Annotations.Iter(func(a annotations.Annotation) {
		if a.Kind == annotations.Source {
			for _, key := range a.Tags {
				if !tags[key] {
					if !funcutil.Exists(state.Config.TaintTrackingProblems, func(spec config.TaintSpec) bool { return spec.Tag == key }) {
						state.Config.TaintTrackingProblems = append(state.Config.TaintTrackingProblems, config.TaintSpec{Tag: key})
					}
					tags[key] = true
				}
			}
		}
	})
	fmt.Fprintf(w, "PROG %s\n", dir)
	fmt.Fprintf(w, "OPT novisit %d\n", b2i(novisit))
	fmt.Fprintf(w, "OPT fieldsensitive %d\nOPT ondemand %d\nOPT ignorenonsummarized %d\nOPT maxdepth %d\nOPT maxalarms %d\nOPT sourcetaintsargs %d\n",
		b2i(cfg.PathSensitive || len(cfg.PathSensitiveFuncs) > 0), b2i(cfg.SummarizeOnDemand), b2i(!cfg.SummarizeOnDemand && cfg.UnsafeIgnoreNonSummarized), cfg.UnsafeMaxDepth, maxAlarms,
		b2i(cfg.SourceTaintsArgs))

	problems := state.Config.TaintTrackingProblems
	withOptions := func(ts *config.TaintSpec, f func()) {
		prev := map[string]string{}
		for name, val := range state.Annotations.Configs[ts.Tag] {
			if pv, err := config.SetOption(state.Config, name, val); err == nil {
				prev[name] = pv
			}
		}
		f()
		for name, val := range prev {
			_, _ = config.SetOption(state.Config, name, val)
		}
	}
	// ---- pass 1: exactly what Analyze does
	pass1 := make([]*recVisitor, len(problems))
	for i := range problems {
		ts := &problems[i]
		rv := &recVisitor{inner: taint.NewVisitor(ts), record: false, novisit: novisit}
		pass1[i] = rv
		withOptions(ts, func() {
			analysis.RunInterProcedural(state, rv, analysis.InterProceduralParams{
				IsEntrypoint: func(node ssa.Node) bool { return taint.IsSourceNode(state, ts, node) }})
		})
	}
	// further warm-up passes until the graph no longer changes (on-demand construction during traversal)
	dg := ""
	d := &dumper{w: w, prog: prog, state: state, fid: map[*df.SummaryGraph]int{}, sfid: map[*ssa.Function]int{},
		nid: map[df.GraphNode]int{}, instrID: map[ssa.Instruction]int{}, globID: map[*df.GlobalNode]int{}, pathID: map[string]int{},
		strCl: map[string]int{}, sumCl: map[string]int{}, condID: map[condKey]int{}}
	for k := 0; k < 3; k++ {
		ndg := d.digest()
		if ndg == dg {
			break
		}
		dg = ndg
		if k == 0 || novisit {
			continue
		}
		for i := range problems {
			ts := &problems[i]
			rv := &recVisitor{inner: taint.NewVisitor(ts), record: false}
			withOptions(ts, func() {
				state.FlowGraph.RunVisitorOnEntryPoints(rv, func(node ssa.Node) bool { return taint.IsSourceNode(state, ts, node) }, nil)
			})
		}
	}
	// ---- graph dump
	d.register()
	lines := d.graphLines()
	for k := 0; k < 5 && d.pending > 0; k++ {
		lines = d.graphLines() // nodes not enumerated by ForAllNodes were registered lazily: print again with complete tables
	}
	if d.pending > 0 {
		d.warn = append(d.warn, "graph registration did not converge")
	}
	for _, l := range lines {
		fmt.Fprintln(w, l)
	}
	fmt.Fprintf(w, "DIGEST %s\n", dg)
	// LongID uniqueness (Key() identifies nodes by LongID)
	lid := map[string]int{}
	uniq := 1
	for i, n := range d.nodes {
		if j, ok := lid[n.LongID()]; ok && j != i {
			uniq = 0
			d.warn = append(d.warn, fmt.Sprintf("LongID collision %s nodes %d %d", n.LongID(), j+1, i+1))
		}
		lid[n.LongID()] = i
	}
	fmt.Fprintf(w, "XCHK longid-unique %d\n", uniq)
	if norec {
		return w.Flush()
	}
	// ---- predicates per problem, pass 2 with recording
	for pi := range problems {
		ts := &problems[pi]
		fmt.Fprintf(w, "PB %d %s skipbl=%d implicit=%d\n", pi, q(ts.Tag), b2i(ts.SkipBoundLabels), b2i(ts.FailOnImplicitFlow))
		bitsOf := func(n df.GraphNode) (bits int) {
			defer func() {
				if recover() != nil {
					bits |= 16
				}
			}()
			if taint.VerifTravIsFiltered(state, ts, n) {
				bits |= 1
			}
			if taint.VerifTravIsSink(state, ts, n) {
				bits |= 2
			}
			if taint.VerifTravIsSanitizer(state, ts, n) {
				bits |= 4
			}
			if in, ok := n.(*df.IfNode); ok && taint.VerifTravIsValidatorCondition(ts, in.SsaNode().Cond, true) {
				bits |= 8
			}
			return bits
		}
		bits := make([]int, len(d.nodes)+1)
		for i, n := range d.nodes {
			bits[i+1] = bitsOf(n)
			if bits[i+1] != 0 {
				fmt.Fprintf(w, "PN %d %d %d\n", pi, i+1, bits[i+1])
			}
		}
		for i, c := range d.conds {
			if taint.VerifTravIsValidatorCondition(ts, c.v, c.pos) {
				fmt.Fprintf(w, "PC %d %d\n", pi, i+1)
			}
		}
		rv := &recVisitor{inner: taint.NewVisitor(ts), record: true, novisit: novisit}
		alarmBase := 0
		withOptions(ts, func() {
			alarmBase = probeAlarms(state)
			if maxAlarms > 0 {
				state.Config.MaxAlarms = alarmBase + maxAlarms
			}
			state.FlowGraph.RunVisitorOnEntryPoints(rv, func(node ssa.Node) bool { return taint.IsSourceNode(state, ts, node) }, nil)
			state.Config.MaxAlarms = 0
		})
		nn := len(d.nodes)
		derived := map[[2]taint.FlowNode]bool{}
		for ei, er := range rv.entries {
			fmt.Fprintf(w, "ENT %d %d %d T:%s alarms=%d\n", pi, ei, d.node(er.entry.Node), ids(d.traceIDs(er.entry.Trace)), er.alarmsBefore-alarmBase)
			sinkVisits := er.alarmsAfter - er.alarmsBefore // sink visits counted by IncrementAndTestAlarms during this Visit
			if er.panic != "" {
				fmt.Fprintf(w, "PANIC %d %d %s\n", pi, ei, q(er.panic))
			}
			for _, v := range er.tree {
				vn := v.n
				prev := 0
				if vn.Prev != nil {
					prev = d.node(vn.Prev.Node)
				}
				var ss []string
				for _, t := range taint.VerifTravTracingStack(vn.Status) {
					ss = append(ss, fmt.Sprintf("%d.%d", d.fn(t.Summary), t.Index))
				}
				st := "-"
				if len(ss) > 0 {
					st = strings.Join(ss, ";")
				}
				var aps []int
				for _, a := range vn.AccessPaths {
					aps = append(aps, d.path(a))
				}
				id := d.node(vn.Node)
				fmt.Fprintf(w, "V %d %d %d %d %d %d %d %d T:%s C:%s S:%s A:%s\n", pi, ei, v.idx, v.parent, id, vn.Status.Kind, vn.Depth, prev,
					ids(d.traceIDs(vn.Trace)), ids(d.ctraceIDs(vn.ClosureTrace)), st, ids(aps))
				if id <= nn && bits[id]&1 == 0 && bits[id]&2 != 0 && vn.Status.Kind == df.DefaultTracing && sinkVisits > 0 {
					// queue order = level order: the first sinkVisits sink nodes are the ones that were dequeued
					sinkVisits--
					fmt.Fprintf(w, "HIT %d %d %d T:%s\n", pi, ei, id, ids(d.traceIDs(vn.Trace)))
					fn := taint.NewFlowNode(vn.NodeWithTrace)
					sn := taint.NewFlowNode(er.entry)
					if fn.Instr != nil && sn.Instr != nil {
						derived[[2]taint.FlowNode{sn, fn}] = true
					}
				}
			}
		}
		dumpFlows := func(tag string, fl *taint.Flows) {
			var ls []string
			for sink, srcs := range fl.Sinks {
				for src := range srcs {
					ls = append(ls, fmt.Sprintf("%s %d %d %s %d %s", tag, pi, d.instr(src.Instr), q(src.Trace), d.instr(sink.Instr), q(sink.Trace)))
				}
			}
			sort.Strings(ls)
			for _, l := range ls {
				fmt.Fprintln(w, l)
			}
		}
		// the flows the visitor reports must be exactly the sink visits derived from the recorded tree
		reported := map[[2]taint.FlowNode]bool{}
		for sink, srcs := range taint.VerifTravFlows(rv.inner).Sinks {
			for src := range srcs {
				reported[[2]taint.FlowNode{src, sink}] = true
			}
		}
		same := len(reported) == len(derived)
		for k := range reported {
			if !derived[k] {
				same = false
			}
		}
		if !novisit {
			fmt.Fprintf(w, "XCHK flows-eq-tree-hits-%d %d\n", pi, b2i(same))
		}
		dumpFlows("FLOW", taint.VerifTravFlows(rv.inner))
		dumpFlows("FLOW1", taint.VerifTravFlows(pass1[pi].inner))
		if len(d.nodes) != nn || len(d.paths) == 0 {
			d.warn = append(d.warn, "nodes outside the dumped graph were visited")
		}
	}
	// instruction positions for the flows (for humans / replays)
	type ip struct {
		id  int
		pos string
	}
	var ips []ip
	for i, id := range d.instrID {
		ips = append(ips, ip{id, hutil.PosStr(prog.Fset, i.Pos())})
	}
	sort.Slice(ips, func(i, j int) bool { return ips[i].id < ips[j].id })
	for _, x := range ips {
		fmt.Fprintf(w, "IPOS %d %s\n", x.id, x.pos)
	}
	fmt.Fprintf(w, "STABLE %d\n", b2i(d.digest() == dg))
	for _, s := range d.warn {
		fmt.Fprintf(w, "W %s\n", q(s))
	}
	return w.Flush()
}

func main() {
	out := flag.String("o", "-", "output file")
	fs := flag.String("fs", "cfg", "field-sensitive: cfg|0|1")
	ondemand := flag.String("ondemand", "0", "summarize-on-demand: cfg|0|1")
	ignoreNS := flag.String("ignore-nonsummarized", "cfg", "unsafe-ignore-non-summarized: cfg|0|1")
	maxAlarms := flag.Int("maxalarms", 0, "max-alarms for the recorded pass")
	maxDepth := flag.Int("maxdepth", 0, "unsafe-max-depth (0 = config)")
	rewrites := flag.Bool("rewrites", true, "apply source rewrites like the CLI")
	norec := flag.Bool("graph-only", false, "dump the graph only")
	novisit := flag.Bool("novisit", false, "do not run the visitor at all (graph as linked by BuildGraph, predicates and entry points only)")
	flag.Parse()
	var f *os.File = os.Stdout
	if *out != "-" {
		var err error
		f, err = os.Create(*out)
		if err != nil {
			fmt.Fprintln(os.Stderr, err)
			os.Exit(2)
		}
		defer f.Close()
	}
	w := bufio.NewWriterSize(f, 1<<20)
	rc := 0
	for _, dir := range flag.Args() {
		if err := runDir(w, dir, *fs, *ondemand, *ignoreNS, *maxAlarms, *maxDepth, *rewrites, *norec, *novisit); err != nil {
			fmt.Fprintf(w, "PROG %s\nERR %s\n", dir, q(err.Error()))
			fmt.Fprintf(os.Stderr, "travdump %s: %v\n", dir, err)
			rc = 1
		}
		w.Flush()
	}
	os.Exit(rc)
}
