// c17dump drives the REAL dataflow graph construction of /repo and prints the resulting graphs (every summary's nodes,
// out/in adjacency with edge infos, call-site / callee registration, closure registration, global read/write sets) in
// a canonical line format read by the extracted Coq model of property C17 (coq/theories/Model/GraphOps.v).
//
//	c17dump graphs [-every n] [-maxsnaps n] dir...   eager taint, on-demand taint, on-demand backtrace (when the dir
//	                                                 has slicing problems); snapshots after construction and after
//	                                                 on-demand construction steps (delta-encoded)
//	c17dump ops -seed s -batches b -n k dir...       seed-generated operation sequences executed on real SummaryGraph
//	                                                 objects through the verif wrappers (analysis/dataflow/verif_c17.go)
//
// Format (one block per summary "B s<sid>" and per global "B g<gid>"; a snapshot lists only blocks that changed):
//
//	PROG <dir> <mode>
//	SNAP <k> <label>
//	B s<sid>
//	S <sid> <constructed> <presummarized> <hasreturns> <name>
//	P <sid> <pos> <node>                        parameter node by position
//	R <sid> <pos> <node>                        return node by tuple position
//	N <node> <kind> <sid> <instr> <global> <write> <link>   kind: P F C A R K B L Y G I; link = callee/closure summary
//	O <src> <dst> <idx> <cond> <paths,>         one line per EdgeInfo of src.Out()[dst], in slice order
//	I <dst> <src> <idx> <cond> <paths,>         dst.In()[src]
//	CS <sid> <instr> <node>                     Callsites
//	RC <sid> <instr> <node>                     ReferringMakeClosures
//	B g<gid>
//	GW <gid> <node> / GR <gid> <node>           WriteLocations / ReadLocations
//	X <key>                                     block disappeared
//	ENDSNAP
package main

import (
	"bufio"
	"bytes"
	"flag"
	"fmt"
	"io"
	"os"
	"path/filepath"
	"sort"
	"strings"

	"github.com/awslabs/ar-go-tools/analysis"
	"github.com/awslabs/ar-go-tools/analysis/backtrace"
	"github.com/awslabs/ar-go-tools/analysis/config"
	df "github.com/awslabs/ar-go-tools/analysis/dataflow"
	"github.com/awslabs/ar-go-tools/analysis/summaries"
	"github.com/awslabs/ar-go-tools/analysis/taint"
	"github.com/awslabs/ar-go-tools/internal/analysisutil"
	"github.com/awslabs/ar-go-tools/verifharness/hutil"
	"golang.org/x/tools/go/ssa"
)

// ------------------------------------------------------------------------------------------------ identities

type ids struct {
	sums    map[*df.SummaryGraph]int
	sumList []*df.SummaryGraph
	nodes   map[df.GraphNode]int
	nodeOf  []df.GraphNode
	instrs  map[any]int
	globals map[*df.GlobalNode]int
	globOf  []*df.GlobalNode
	paths   map[string]int
	conds   map[*df.ConditionInfo]int
	prev    map[string]string
	fset    *ssa.Program
}

func newIDs(p *ssa.Program) *ids {
	return &ids{sums: map[*df.SummaryGraph]int{}, nodes: map[df.GraphNode]int{}, instrs: map[any]int{},
		globals: map[*df.GlobalNode]int{}, paths: map[string]int{}, conds: map[*df.ConditionInfo]int{},
		prev: map[string]string{}, fset: p, sumList: []*df.SummaryGraph{nil}, nodeOf: []df.GraphNode{nil},
		globOf: []*df.GlobalNode{nil}}
}

func isNilNode(n df.GraphNode) bool {
	if n == nil {
		return true
	}
	switch x := n.(type) {
	case *df.ParamNode:
		return x == nil
	case *df.FreeVarNode:
		return x == nil
	case *df.CallNode:
		return x == nil
	case *df.CallNodeArg:
		return x == nil
	case *df.ReturnValNode:
		return x == nil
	case *df.ClosureNode:
		return x == nil
	case *df.BoundVarNode:
		return x == nil
	case *df.BoundLabelNode:
		return x == nil
	case *df.SyntheticNode:
		return x == nil
	case *df.AccessGlobalNode:
		return x == nil
	case *df.IfNode:
		return x == nil
	}
	return false
}

func kindOf(n df.GraphNode) string {
	switch n.(type) {
	case *df.ParamNode:
		return "P"
	case *df.FreeVarNode:
		return "F"
	case *df.CallNode:
		return "C"
	case *df.CallNodeArg:
		return "A"
	case *df.ReturnValNode:
		return "R"
	case *df.ClosureNode:
		return "K"
	case *df.BoundVarNode:
		return "B"
	case *df.BoundLabelNode:
		return "L"
	case *df.SyntheticNode:
		return "Y"
	case *df.AccessGlobalNode:
		return "G"
	case *df.IfNode:
		return "I"
	}
	return "?"
}

func (d *ids) instr(i any) int {
	if i == nil {
		return 0
	}
	switch x := i.(type) {
	case *ssa.Call:
		if x == nil {
			return 0
		}
	case *ssa.MakeClosure:
		if x == nil {
			return 0
		}
	}
	if v, ok := d.instrs[i]; ok {
		return v
	}
	d.instrs[i] = len(d.instrs) + 1
	return d.instrs[i]
}

func (d *ids) path(label, p string) int {
	k := label + "\x00" + p
	if v, ok := d.paths[k]; ok {
		return v
	}
	d.paths[k] = len(d.paths) + 1
	return d.paths[k]
}

func (d *ids) cond(c *df.ConditionInfo) int {
	if c == nil {
		return 0
	}
	if v, ok := d.conds[c]; ok {
		return v
	}
	d.conds[c] = len(d.conds) + 1
	return d.conds[c]
}

func (d *ids) einfo(e df.EdgeInfo) string {
	var ps []int
	for l, m := range e.RelPath {
		for p := range m {
			ps = append(ps, d.path(l, p))
		}
	}
	sort.Ints(ps)
	ss := make([]string, len(ps))
	for i, p := range ps {
		ss[i] = fmt.Sprint(p)
	}
	s := strings.Join(ss, ",")
	if s == "" {
		s = "-"
	}
	return fmt.Sprintf("%d %d %s", e.Index, d.cond(e.Cond), s)
}

// enumerate lists the nodes a summary owns through its public maps (ForAllNodes omits the if-nodes).
func enumerate(g *df.SummaryGraph, f func(df.GraphNode)) {
	for _, n := range g.Params {
		f(n)
	}
	for _, n := range g.FreeVars {
		f(n)
	}
	for _, m := range g.Callees {
		for _, c := range m {
			f(c)
			for _, a := range c.Args() {
				f(a)
			}
		}
	}
	for _, c := range g.CreatedClosures {
		f(c)
		for _, b := range c.BoundVars() {
			f(b)
		}
	}
	for _, t := range g.Returns {
		for _, r := range t {
			if r != nil {
				f(r)
			}
		}
	}
	for _, n := range g.SyntheticNodes {
		f(n)
	}
	for _, m := range g.BoundLabelNodes {
		for _, n := range m {
			f(n)
		}
	}
	for _, m := range g.AccessGlobalNodes {
		for _, n := range m {
			f(n)
		}
	}
	for _, n := range g.Ifs {
		f(n)
	}
}

// callShape describes the call instruction of a call node for the coverage statistics of the check:
// <call|defer|go> <static|closure|method|bound|invoke|value> <#args incl. receiver of invokes excluded> <user-defined callee 0/1>
func callShape(cn *df.CallNode) string {
	kw := "call"
	switch cn.CallSite().(type) {
	case *ssa.Defer:
		kw = "defer"
	case *ssa.Go:
		kw = "go"
	}
	cc := cn.CallSite().Common()
	form := "value"
	nargs := len(cc.Args)
	if cc.IsInvoke() {
		form = "invoke"
	} else if f := cc.StaticCallee(); f != nil {
		switch {
		case strings.HasSuffix(f.Name(), "$bound"):
			form = "bound"
		case f.Parent() != nil:
			form = "closure"
		case f.Signature.Recv() != nil:
			form = "method"
			nargs--
		default:
			form = "static"
		}
	}
	user := 0
	if c := cn.Callee(); c != nil {
		o := c
		for o.Parent() != nil {
			o = o.Parent()
		}
		if o.Origin() != nil {
			o = o.Origin()
		}
		if summaries.IsUserDefinedFunction(o) || strings.HasSuffix(c.Name(), "$bound") || strings.HasSuffix(c.Name(), "$thunk") {
			user = 1
		}
	}
	return fmt.Sprintf("%s %s %d %d", kw, form, nargs, user)
}

func sumName(g *df.SummaryGraph) string {
	if g.Parent == nil {
		return "?"
	}
	return strings.ReplaceAll(g.Parent.String(), " ", "_")
}

// discover computes the closed world reachable from the given summaries: summaries, nodes, globals.
func (d *ids) discover(roots []*df.SummaryGraph) (sums []*df.SummaryGraph, owned map[*df.SummaryGraph][]df.GraphNode, globs []*df.GlobalNode) {
	seenS := map[*df.SummaryGraph]bool{}
	seenN := map[df.GraphNode]bool{}
	seenG := map[*df.GlobalNode]bool{}
	owned = map[*df.SummaryGraph][]df.GraphNode{}
	var work []*df.SummaryGraph
	addS := func(g *df.SummaryGraph) {
		if g != nil && !seenS[g] {
			seenS[g] = true
			work = append(work, g)
			sums = append(sums, g)
		}
	}
	var addN func(n df.GraphNode)
	var pendingN []df.GraphNode
	addN = func(n df.GraphNode) {
		if isNilNode(n) || seenN[n] {
			return
		}
		seenN[n] = true
		g := n.Graph()
		addS(g)
		owned[g] = append(owned[g], n)
		pendingN = append(pendingN, n)
	}
	addG := func(gl *df.GlobalNode) {
		if gl != nil && !seenG[gl] {
			seenG[gl] = true
			globs = append(globs, gl)
			for n := range gl.WriteLocations {
				addN(n)
			}
			for n := range gl.ReadLocations {
				addN(n)
			}
		}
	}
	for _, g := range roots {
		addS(g)
	}
	for len(work) > 0 || len(pendingN) > 0 {
		for len(work) > 0 {
			g := work[len(work)-1]
			work = work[:len(work)-1]
			enumerate(g, addN)
			for _, n := range g.Callsites {
				addN(n)
			}
			for _, n := range g.ReferringMakeClosures {
				addN(n)
			}
		}
		for len(pendingN) > 0 {
			n := pendingN[len(pendingN)-1]
			pendingN = pendingN[:len(pendingN)-1]
			for m := range n.Out() {
				addN(m)
			}
			for m := range n.In() {
				addN(m)
			}
			switch x := n.(type) {
			case *df.CallNode:
				addS(x.CalleeSummary)
				for _, a := range x.Args() {
					addN(a)
				}
			case *df.ClosureNode:
				addS(x.ClosureSummary)
			case *df.AccessGlobalNode:
				addG(x.Global)
			}
		}
	}
	return
}

func (d *ids) assign(sums []*df.SummaryGraph, owned map[*df.SummaryGraph][]df.GraphNode, globs []*df.GlobalNode) {
	var newS []*df.SummaryGraph
	for _, g := range sums {
		if _, ok := d.sums[g]; !ok {
			newS = append(newS, g)
		}
	}
	sort.SliceStable(newS, func(i, j int) bool {
		a, b := newS[i], newS[j]
		if sumName(a) != sumName(b) {
			return sumName(a) < sumName(b)
		}
		return a.ID < b.ID
	})
	for _, g := range newS {
		d.sums[g] = len(d.sumList)
		d.sumList = append(d.sumList, g)
	}
	sorted := append([]*df.SummaryGraph{}, sums...)
	sort.Slice(sorted, func(i, j int) bool { return d.sums[sorted[i]] < d.sums[sorted[j]] })
	for _, g := range sorted {
		var newN []df.GraphNode
		for _, n := range owned[g] {
			if _, ok := d.nodes[n]; !ok {
				newN = append(newN, n)
			}
		}
		sort.SliceStable(newN, func(i, j int) bool {
			if newN[i].ID() != newN[j].ID() {
				return newN[i].ID() < newN[j].ID()
			}
			return kindOf(newN[i]) < kindOf(newN[j])
		})
		for _, n := range newN {
			d.nodes[n] = len(d.nodeOf)
			d.nodeOf = append(d.nodeOf, n)
		}
	}
	var newG []*df.GlobalNode
	for _, gl := range globs {
		if _, ok := d.globals[gl]; !ok {
			newG = append(newG, gl)
		}
	}
	sort.SliceStable(newG, func(i, j int) bool { return newG[i].Value().String() < newG[j].Value().String() })
	for _, gl := range newG {
		d.globals[gl] = len(d.globOf)
		d.globOf = append(d.globOf, gl)
	}
}

// blocks renders the closed world as text blocks keyed by "s<sid>" / "g<gid>".
func (d *ids) blocks(roots []*df.SummaryGraph) map[string]string {
	sums, owned, globs := d.discover(roots)
	d.assign(sums, owned, globs)
	res := map[string]string{}
	for _, g := range sums {
		sid := d.sums[g]
		var b bytes.Buffer
		c, p, hr := 0, 0, 0
		if g.Constructed {
			c = 1
		}
		if g.IsPreSummarized {
			p = 1
		}
		if len(g.Returns) > 0 {
			hr = 1
		}
		fmt.Fprintf(&b, "S %d %d %d %d %s\n", sid, c, p, hr, sumName(g))
		if g.Parent != nil {
			for pos, prm := range g.Parent.Params {
				if n, ok := g.Params[prm]; ok && n != nil {
					fmt.Fprintf(&b, "P %d %d %d\n", sid, pos, d.nodes[df.GraphNode(n)])
				}
			}
		}
		// all entries of Returns share one tuple of nodes; print the tuple of the first non-empty entry, and flag
		// any disagreement
		var tuple []*df.ReturnValNode
		for _, t := range g.Returns {
			if tuple == nil {
				tuple = t
				continue
			}
			for i := range t {
				if i < len(tuple) && t[i] != nil && tuple[i] != nil && t[i] != tuple[i] {
					fmt.Fprintf(&b, "# returns-disagree %d\n", i)
				}
				if i < len(tuple) && tuple[i] == nil {
					tuple[i] = t[i]
				}
			}
		}
		for pos, r := range tuple {
			if r != nil {
				fmt.Fprintf(&b, "R %d %d %d\n", sid, pos, d.nodes[df.GraphNode(r)])
			}
		}
		ns := append([]df.GraphNode{}, owned[g]...)
		sort.Slice(ns, func(i, j int) bool { return d.nodes[ns[i]] < d.nodes[ns[j]] })
		for _, n := range ns {
			ins, gl, wr, link := 0, 0, 0, 0
			switch x := n.(type) {
			case *df.CallNode:
				ins = d.instr(x.CallSite())
				if x.CalleeSummary != nil {
					link = d.sums[x.CalleeSummary]
				}
			case *df.ClosureNode:
				ins = d.instr(x.Instr())
				if x.ClosureSummary != nil {
					link = d.sums[x.ClosureSummary]
				}
			case *df.AccessGlobalNode:
				gl = d.globals[x.Global]
				if x.IsWrite {
					wr = 1
				}
			}
			fmt.Fprintf(&b, "N %d %s %d %d %d %d %d\n", d.nodes[n], kindOf(n), sid, ins, gl, wr, link)
			if cn, ok := n.(*df.CallNode); ok {
				fmt.Fprintf(&b, "# cs %d %s %d\n", d.nodes[n], callShape(cn), link)
			}
		}
		for _, n := range ns {
			out := n.Out()
			ks := make([]df.GraphNode, 0, len(out))
			for m := range out {
				ks = append(ks, m)
			}
			sort.Slice(ks, func(i, j int) bool { return d.nodes[ks[i]] < d.nodes[ks[j]] })
			for _, m := range ks {
				if len(out[m]) == 0 {
					fmt.Fprintf(&b, "O %d %d E 0 -\n", d.nodes[n], d.nodes[m])
				}
				for _, e := range out[m] {
					fmt.Fprintf(&b, "O %d %d %s\n", d.nodes[n], d.nodes[m], d.einfo(e))
				}
			}
		}
		for _, n := range ns {
			in := n.In()
			ks := make([]df.GraphNode, 0, len(in))
			for m := range in {
				ks = append(ks, m)
			}
			sort.Slice(ks, func(i, j int) bool { return d.nodes[ks[i]] < d.nodes[ks[j]] })
			for _, m := range ks {
				fmt.Fprintf(&b, "I %d %d %s\n", d.nodes[n], d.nodes[m], d.einfo(in[m]))
			}
		}
		var ls []string
		for i, n := range g.Callsites {
			if !isNilNode(n) {
				ls = append(ls, fmt.Sprintf("CS %d %d %d\n", sid, d.instr(i), d.nodes[df.GraphNode(n)]))
			}
		}
		for i, n := range g.ReferringMakeClosures {
			if !isNilNode(n) {
				ls = append(ls, fmt.Sprintf("RC %d %d %d\n", sid, d.instr(i), d.nodes[df.GraphNode(n)]))
			}
		}
		sort.Strings(ls)
		for _, l := range ls {
			b.WriteString(l)
		}
		res[fmt.Sprintf("s%d", sid)] = b.String()
	}
	for _, gl := range globs {
		gid := d.globals[gl]
		var ls []string
		for n := range gl.WriteLocations {
			ls = append(ls, fmt.Sprintf("GW %d %d\n", gid, d.nodes[n]))
		}
		for n := range gl.ReadLocations {
			ls = append(ls, fmt.Sprintf("GR %d %d\n", gid, d.nodes[n]))
		}
		sort.Strings(ls)
		res[fmt.Sprintf("g%d", gid)] = fmt.Sprintf("# global %d %s\n", gid, strings.ReplaceAll(gl.Value().String(), " ", "_")) + strings.Join(ls, "")
	}
	return res
}

// snapshot writes the blocks that changed since the previous snapshot of this program.
func (d *ids) snapshot(w io.Writer, k int, label string, roots []*df.SummaryGraph) {
	cur := d.blocks(roots)
	keys := make([]string, 0, len(cur))
	for key := range cur {
		keys = append(keys, key)
	}
	sort.Slice(keys, func(i, j int) bool {
		if keys[i][0] != keys[j][0] {
			return keys[i][0] > keys[j][0]
		}
		if len(keys[i]) != len(keys[j]) {
			return len(keys[i]) < len(keys[j])
		}
		return keys[i] < keys[j]
	})
	fmt.Fprintf(w, "SNAP %d %s\n", k, strings.ReplaceAll(label, " ", "_"))
	for _, key := range keys {
		if d.prev[key] != cur[key] {
			fmt.Fprintf(w, "B %s\n%s", key, cur[key])
		}
	}
	for key := range d.prev {
		if _, ok := cur[key]; !ok {
			fmt.Fprintf(w, "X %s\n", key)
		}
	}
	fmt.Fprintf(w, "ENDSNAP\n")
	d.prev = cur
}

func roots(fg *df.InterProceduralFlowGraph) []*df.SummaryGraph {
	var r []*df.SummaryGraph
	for _, g := range fg.Summaries {
		if g != nil {
			r = append(r, g)
		}
	}
	return r
}

// ------------------------------------------------------------------------------------------------ graphs mode

// stepWriter is installed as the output of every logger; the on-demand construction steps announce themselves at
// debug level ("[On-demand] Summarizing f..." before, a timing line after; "BuildSummary: Finished constructing
// summary for f" after), synchronously in the traversal goroutine, so a snapshot can be taken between steps.
type stepWriter struct {
	state    func() *df.AnalyzerState
	d        *ids
	w        io.Writer
	k        int
	steps    int
	every    int
	maxSnaps int
	pending  string
	active   bool
}

func (s *stepWriter) Write(p []byte) (int, error) {
	if !s.active {
		return len(p), nil
	}
	line := string(p)
	label := ""
	switch {
	case strings.Contains(line, "[On-demand] Summarizing "):
		s.pending = strings.TrimSpace(line[strings.Index(line, "Summarizing ")+12:])
		return len(p), nil
	case s.pending != "" && strings.Contains(line, " s]"):
		label = "step:" + s.pending
		s.pending = ""
	case strings.Contains(line, "BuildSummary: Finished constructing summary for "):
		label = "step:" + strings.TrimSpace(line[strings.Index(line, "summary for ")+12:])
	default:
		return len(p), nil
	}
	s.steps++
	st := s.state()
	if st == nil || st.FlowGraph == nil {
		return len(p), nil
	}
	if s.steps%s.every == 0 && s.k < s.maxSnaps {
		s.k++
		s.d.snapshot(s.w, s.k, label, roots(st.FlowGraph))
	}
	return len(p), nil
}

func loadCfg(dir string) (*config.Config, error) {
	cfg, err := config.LoadFromFiles(filepath.Join(dir, "config.yaml"))
	if err != nil {
		return nil, err
	}
	cfg.ReportPaths, cfg.ReportSummaries, cfg.ReportCoverage, cfg.ReportNoCalleeSites = false, false, false, false
	return cfg, nil
}

func graphsMode(w *bufio.Writer, dirs []string, every, maxSnaps int, modes string) {
	for _, dir := range dirs {
		for _, mode := range strings.Split(modes, ",") {
			cfg, err := loadCfg(dir)
			if err != nil {
				fmt.Fprintf(os.Stderr, "config %s: %v\n", dir, err)
				os.Exit(2)
			}
			if strings.HasPrefix(mode, "backtrace") && len(cfg.SlicingProblems) == 0 {
				continue
			}
			if strings.HasPrefix(mode, "taint") && len(cfg.TaintTrackingProblems) == 0 {
				continue
			}
			prog, pkgs, err := hutil.LoadDir(dir, false)
			if err != nil {
				fmt.Fprintf(os.Stderr, "load %s: %v\n", dir, err)
				os.Exit(2)
			}
			onDemand := strings.HasSuffix(mode, "ondemand")
			cfg.SummarizeOnDemand = onDemand
			cfg.LogLevel = int(config.WarnLevel)
			if onDemand {
				cfg.LogLevel = int(config.DebugLevel)
			}
			fmt.Fprintf(w, "PROG %s %s\n", dir, mode)
			d := newIDs(prog)
			lg := config.NewLogGroup(cfg)
			var state *df.AnalyzerState
			sw := &stepWriter{d: d, w: w, every: every, maxSnaps: maxSnaps, state: func() *df.AnalyzerState { return state }}
			lg.SetAllOutput(sw)
			state, err = df.NewInitializedAnalyzerState(prog, pkgs, lg, cfg)
			if err != nil {
				fmt.Fprintf(os.Stderr, "state %s: %v\n", dir, err)
				os.Exit(2)
			}
			numRoutines := 4
			if strings.HasPrefix(mode, "taint") {
				if err := taint.AnalysisPreamble(state); err != nil {
					fmt.Fprintf(os.Stderr, "preamble %s: %v\n", dir, err)
					os.Exit(2)
				}
				analysis.RunIntraProceduralPass(state, numRoutines, analysis.IntraAnalysisParams{
					ShouldBuildSummary: df.ShouldBuildSummary, ShouldTrack: taint.IsNodeOfInterest})
			} else {
				analysis.RunIntraProceduralPass(state, numRoutines, analysis.IntraAnalysisParams{
					ShouldBuildSummary: df.ShouldBuildSummary, ShouldTrack: backtraceTrack})
			}
			d.snapshot(w, 0, "intra-pass", roots(state.FlowGraph))
			// linking, exactly as BuildAndRunVisitor does it first
			state.FlowGraph.BuildGraph()
			sw.k = 1
			d.snapshot(w, 1, "build-graph", roots(state.FlowGraph))
			sw.active = onDemand
			func() {
				defer func() {
					if r := recover(); r != nil {
						fmt.Fprintf(w, "# traversal panicked: %v\n", strings.ReplaceAll(fmt.Sprint(r), "\n", " "))
					}
				}()
				if strings.HasPrefix(mode, "taint") {
					for i := range state.Config.TaintTrackingProblems {
						spec := state.Config.TaintTrackingProblems[i]
						visitor := taint.NewVisitor(&spec)
						analysis.RunInterProcedural(state, visitor, analysis.InterProceduralParams{
							IsEntrypoint: func(node ssa.Node) bool { return taint.IsSourceNode(state, &spec, node) }})
					}
				} else {
					for i := range cfg.SlicingProblems {
						ps := cfg.SlicingProblems[i]
						visitor := &backtrace.Visitor{SlicingSpec: &ps, Traces: make(map[df.GraphNode][]backtrace.Trace)}
						analysis.RunInterProcedural(state, visitor, analysis.InterProceduralParams{
							IsEntrypoint: func(node ssa.Node) bool {
								return backtrace.IsInterProceduralEntryPoint(state, visitor.SlicingSpec, node)
							}})
					}
				}
			}()
			sw.active = false
			d.snapshot(w, sw.k+1, fmt.Sprintf("final(steps=%d)", sw.steps), roots(state.FlowGraph))
			fmt.Fprintf(w, "ENDPROG steps=%d\n", sw.steps)
			w.Flush()
		}
	}
}

// backtraceTrack mirrors backtrace.isSomeIntraProceduralEntryPoint (unexported): the nodes the backtrace analysis
// tracks in the intra-procedural pass are the call instructions / other nodes matching some backtrace point.
func backtraceTrack(state *df.AnalyzerState, n ssa.Node) bool {
	return analysisutil.IsEntrypointNode(state.PointerAnalysis, n, func(cid config.CodeIdentifier) bool {
		return state.Config.IsSomeBacktracePoint(cid)
	})
}

// ------------------------------------------------------------------------------------------------ ops mode

type lcg struct{ s uint32 }

func (l *lcg) next(n int) int {
	l.s = (l.s*1103515245 + 12345) & 0x7fffffff
	v := int(l.s >> 8)
	if n > 0 {
		return v % n
	}
	return v
}

func opsMode(w *bufio.Writer, dirs []string, seed, batches, nops, maxTargets int) {
	for di, dir := range dirs {
		cfg, err := loadCfg(dir)
		if err != nil {
			fmt.Fprintf(os.Stderr, "config %s: %v\n", dir, err)
			os.Exit(2)
		}
		prog, pkgs, err := hutil.LoadDir(dir, false)
		if err != nil {
			fmt.Fprintf(os.Stderr, "load %s: %v\n", dir, err)
			os.Exit(2)
		}
		cfg.SummarizeOnDemand = true // summaries are created with all their nodes but not built
		cfg.LogLevel = int(config.ErrLevel)
		lg := config.NewLogGroup(cfg)
		lg.SetAllOutput(io.Discard)
		state, err := df.NewInitializedAnalyzerState(prog, pkgs, lg, cfg)
		if err != nil {
			fmt.Fprintf(os.Stderr, "state %s: %v\n", dir, err)
			os.Exit(2)
		}
		analysis.RunIntraProceduralPass(state, 4, analysis.IntraAnalysisParams{
			ShouldBuildSummary: df.ShouldBuildSummary, ShouldTrack: taint.IsNodeOfInterest})
		rnd := &lcg{uint32(seed*7919+di*104729) & 0x7fffffff}
		// target summaries: functions of the main package(s) (user code), deterministic order
		var targets []*df.SummaryGraph
		for _, f := range hutil.SortedFunctions(prog) {
			g := state.FlowGraph.Summaries[f]
			if g == nil || !summaries.IsUserDefinedFunction(f) || f.Pkg == nil {
				continue
			}
			if f.Pkg.Pkg.Name() != "main" && !strings.Contains(f.Pkg.Pkg.Path(), "testdata") {
				continue
			}
			targets = append(targets, g)
		}
		for len(targets) > maxTargets {
			i := rnd.next(len(targets))
			targets = append(targets[:i], targets[i+1:]...)
		}
		// a restricted world: the real linking code (BuildGraph / Sync / resolveCalleeSummary) runs on a flow graph that
		// only knows the target summaries (and what linking adds to it)
		sub := map[*ssa.Function]*df.SummaryGraph{}
		for _, g := range targets {
			sub[g.Parent] = g
		}
		fg := df.NewInterProceduralFlowGraph(sub, state)
		// some targets are built by the real intra-procedural analysis first (real edges, bound-label nodes)
		for _, g := range targets {
			if rnd.next(3) == 0 {
				if _, err := df.RunIntraProcedural(state, g); err != nil {
					fmt.Fprintf(w, "# intra error %v\n", err)
				}
			}
		}
		fmt.Fprintf(w, "PROG %s ops\n", dir)
		d := newIDs(prog)
		tr := func() []*df.SummaryGraph {
			r := append([]*df.SummaryGraph{}, targets...)
			for _, g := range fg.Summaries {
				if g != nil {
					r = append(r, g)
				}
			}
			return r
		}
		d.snapshot(w, 0, "before", tr())
		conds := []*df.ConditionInfo{nil, {Satisfiable: true}, {Satisfiable: true}}
		for b := 1; b <= batches; b++ {
			for k := 0; k < nops; k++ {
				runOp(w, d, rnd, state, &fg, targets, conds)
			}
			d.snapshot(w, b, fmt.Sprintf("after-batch-%d", b), tr())
		}
		fmt.Fprintf(w, "ENDPROG steps=%d\n", batches*nops)
		w.Flush()
	}
}

func nodesOf(d *ids, g *df.SummaryGraph) []df.GraphNode {
	var ns []df.GraphNode
	enumerate(g, func(n df.GraphNode) {
		if _, ok := d.nodes[n]; ok {
			ns = append(ns, n)
		}
	})
	sort.Slice(ns, func(i, j int) bool { return d.nodes[ns[i]] < d.nodes[ns[j]] })
	return ns
}

func pickNode(d *ids, rnd *lcg, g *df.SummaryGraph, ok func(df.GraphNode) bool) df.GraphNode {
	ns := nodesOf(d, g)
	var c []df.GraphNode
	for _, n := range ns {
		if ok(n) {
			c = append(c, n)
		}
	}
	if len(c) == 0 {
		return nil
	}
	return c[rnd.next(len(c))]
}

func isSrcKind(n df.GraphNode) bool {
	k := kindOf(n)
	return k != "R" && k != "G"
}

// runOp executes one seed-chosen operation on the real objects and prints it as a model operation.
func runOp(w io.Writer, d *ids, rnd *lcg, state *df.AnalyzerState, fg *df.InterProceduralFlowGraph,
	targets []*df.SummaryGraph, conds []*df.ConditionInfo) {
	g := targets[rnd.next(len(targets))]
	sid := d.sums[g]
	labels := []string{"", ".A", "[*]"}
	edge := func(global bool, srcOK func(df.GraphNode) bool) (string, func()) {
		g2 := g
		src := pickNode(d, rnd, g2, srcOK)
		dst := pickNode(d, rnd, g2, func(n df.GraphNode) bool {
			if global {
				return kindOf(n) == "G"
			}
			return kindOf(n) != "G"
		})
		if src == nil || dst == nil {
			return "", nil
		}
		idx := rnd.next(4) - 1
		if rnd.next(3) == 0 {
			idx = -1
		}
		l, p := labels[rnd.next(3)], labels[rnd.next(3)]
		c := rnd.next(len(conds))
		txt := fmt.Sprintf("%d,%d,%d,%d,%d", d.nodes[src], d.nodes[dst], idx, d.path(l, p), d.cond(conds[c]))
		return txt, func() {
			if global {
				// the effect of addGlobalEdge on the destination: mark it written, then add the edge
				dst.(*df.AccessGlobalNode).IsWrite = true
			}
			df.VerifUpdateEdgeInfo(src, dst, idx, l, p, conds[c])
		}
	}
	switch k := rnd.next(100); {
	case k < 40: // updateEdgeInfo + addInEdge between two nodes of one summary (any destination kind except global)
		txt, run := edge(false, isSrcKind)
		if run == nil {
			return
		}
		run()
		fmt.Fprintf(w, "OP U %s\n", txt)
	case k < 50: // addParamEdgeByPos
		n := 0
		if g.Parent != nil {
			n = len(g.Parent.Params)
		}
		i, j := rnd.next(n+2)-1, rnd.next(n+2)-1
		r := g.VerifAddParamEdgeByPos(i, j)
		fmt.Fprintf(w, "OP PP %d %d %d %v\n", sid, i, j, r)
	case k < 60: // addReturnEdgeByPos
		n := 0
		if g.Parent != nil {
			n = len(g.Parent.Params)
		}
		i, j := rnd.next(n+2)-1, rnd.next(4)-1
		r := g.VerifAddReturnEdgeByPos(i, j)
		fmt.Fprintf(w, "OP RP %d %d %d %v\n", sid, i, j, r)
	case k < 72: // the edge-adding half of RunIntraProcedural + SyncGlobals + Constructed, guarded like its callers
		if g.Constructed {
			fmt.Fprintf(w, "OP BUILD %d -\n", sid)
			return
		}
		var es []string
		ne := rnd.next(8)
		for i := 0; i < ne; i++ {
			glob := rnd.next(4) == 0
			txt, run := edge(glob, func(n df.GraphNode) bool { return kindOf(n) != "R" })
			if run == nil {
				continue
			}
			run()
			if glob {
				txt = "g" + txt
			}
			es = append(es, txt)
		}
		g.SyncGlobals()
		g.VerifSetConstructed(true)
		s := strings.Join(es, ";")
		if s == "" {
			s = "-"
		}
		fmt.Fprintf(w, "OP BUILD %d %s\n", sid, s)
	case k < 80: // PopulateGraphFromSummary with a random predefined-summary shape
		if g.Constructed {
			return
		}
		np := 0
		if g.Parent != nil {
			np = len(g.Parent.Params)
		}
		sm := summaries.Summary{Args: [][]int{}, Rets: [][]int{}}
		var as, rs []string
		for i := 0; i < np+1; i++ {
			var a, r []int
			for x := rnd.next(3); x > 0; x-- {
				v := rnd.next(np + 1)
				a = append(a, v)
				as = append(as, fmt.Sprintf("%d>%d", i, v))
			}
			for x := rnd.next(3); x > 0; x-- {
				v := rnd.next(3)
				r = append(r, v)
				rs = append(rs, fmt.Sprintf("%d>%d", i, v))
			}
			sm.Args = append(sm.Args, a)
			sm.Rets = append(sm.Rets, r)
		}
		g.PopulateGraphFromSummary(sm, false)
		j := func(x []string) string {
			if len(x) == 0 {
				return "-"
			}
			return strings.Join(x, ",")
		}
		fmt.Fprintf(w, "OP POP %d %s %s\n", sid, j(as), j(rs))
	case k < 92: // linking of one call node: resolveCalleeSummary (registers the call site in the callee)
		n := pickNode(d, rnd, g, func(n df.GraphNode) bool { return kindOf(n) == "C" })
		if n == nil {
			return
		}
		cn := n.(*df.CallNode)
		before := cn.CalleeSummary
		res := fg.VerifResolveCalleeSummary(cn)
		if before != nil || res == nil {
			fmt.Fprintf(w, "OP LINK %d 0\n", d.nodes[n])
			return
		}
		// the summary may be new to the dump: give it ids now so that the op can name it
		sums, owned, globs := d.discover([]*df.SummaryGraph{res})
		d.assign(sums, owned, globs)
		fmt.Fprintf(w, "OP LINK %d %d\n", d.nodes[n], d.sums[res])
	default: // Sync: closure registration for every closure node of the (restricted) flow graph
		var ps []string
		for _, s := range fg.Summaries {
			if s == nil {
				continue
			}
			for _, cn := range s.CreatedClosures {
				if cn.Instr() == nil {
					continue
				}
				t := 0
				if fn, ok := cn.Instr().Fn.(*ssa.Function); ok {
					if cs, ok := fg.Summaries[fn]; ok && cs != nil {
						if _, known := d.sums[cs]; !known {
							sums, owned, globs := d.discover([]*df.SummaryGraph{cs})
							d.assign(sums, owned, globs)
						}
						t = d.sums[cs]
					}
				}
				if _, known := d.nodes[df.GraphNode(cn)]; known {
					ps = append(ps, fmt.Sprintf("%d:%d", d.nodes[df.GraphNode(cn)], t))
				}
			}
		}
		sort.Strings(ps)
		fg.Sync()
		s := strings.Join(ps, ",")
		if s == "" {
			s = "-"
		}
		fmt.Fprintf(w, "OP SYNC %s\n", s)
	}
}

// ------------------------------------------------------------------------------------------------ fb mode

func calleeName(i ssa.Instruction) string {
	if c, ok := i.(ssa.CallInstruction); ok && c != nil {
		if f := c.Common().StaticCallee(); f != nil {
			return f.Name()
		}
	}
	return ""
}

// fbMode runs the forward (taint) and the backward (backtrace) traversal of the real tool on the same program and
// prints which (sink call, source call) pairs each of them connects:  FWD <sink> <source> / BWD <sink> <source>.
func fbMode(w *bufio.Writer, dirs []string, onDemand bool) {
	for _, dir := range dirs {
		fmt.Fprintf(w, "PROG %s fb\n", dir)
		for _, which := range []string{"taint", "backtrace"} {
			cfg, err := loadCfg(dir)
			if err != nil {
				fmt.Fprintf(os.Stderr, "config %s: %v\n", dir, err)
				os.Exit(2)
			}
			cfg.SummarizeOnDemand = onDemand
			cfg.LogLevel = int(config.ErrLevel)
			prog, pkgs, err := hutil.LoadDir(dir, false)
			if err != nil {
				fmt.Fprintf(os.Stderr, "load %s: %v\n", dir, err)
				os.Exit(2)
			}
			lg := config.NewLogGroup(cfg)
			lg.SetAllOutput(io.Discard)
			var lines []string
			if which == "taint" {
				cfgLog := cfg
				res, err := taint.Analyze(cfgLog, prog, pkgs)
				if err != nil {
					fmt.Fprintf(w, "# taint error %v\n", strings.ReplaceAll(err.Error(), "\n", " "))
				}
				if res.TaintFlows != nil {
					for sink, srcs := range res.TaintFlows.Sinks {
						for src := range srcs {
							lines = append(lines, fmt.Sprintf("FWD %s %s", calleeName(sink.Instr), calleeName(src.Instr)))
						}
					}
				}
			} else {
				res, err := backtrace.Analyze(lg, cfg, prog, pkgs)
				if err != nil {
					fmt.Fprintf(w, "# backtrace error %v\n", strings.ReplaceAll(err.Error(), "\n", " "))
				}
				for entry, traces := range res.Traces {
					sink := ""
					if a, ok := entry.(*df.CallNodeArg); ok {
						sink = calleeName(a.ParentNode().CallSite())
					}
					lines = append(lines, fmt.Sprintf("BWDENTRY %s", sink))
					for _, tr := range traces {
						for _, tn := range tr {
							if c, ok := tn.GraphNode.(*df.CallNode); ok && c != nil && c.Callee() != nil {
								lines = append(lines, fmt.Sprintf("BWD %s %s", sink, c.Callee().Name()))
							}
						}
					}
				}
			}
			sort.Strings(lines)
			prev := ""
			for _, l := range lines {
				if l != prev {
					fmt.Fprintln(w, l)
				}
				prev = l
			}
		}
		fmt.Fprintf(w, "ENDPROG fb\n")
		w.Flush()
	}
}

func main() {
	if len(os.Args) < 2 {
		fmt.Fprintln(os.Stderr, "usage: c17dump graphs|ops [flags] dir...")
		os.Exit(2)
	}
	mode := os.Args[1]
	fs := flag.NewFlagSet(mode, flag.ExitOnError)
	out := fs.String("o", "-", "output file")
	every := fs.Int("every", 1, "graphs: snapshot every n-th on-demand step")
	maxSnaps := fs.Int("maxsnaps", 1000000, "graphs: at most this many step snapshots per run")
	modes := fs.String("modes", "taint-eager,taint-ondemand,backtrace-eager,backtrace-ondemand", "graphs: runs to do")
	seed := fs.Int("seed", 1, "ops: seed")
	batches := fs.Int("batches", 4, "ops: number of batches (a snapshot after each)")
	nops := fs.Int("n", 40, "ops: operations per batch")
	maxT := fs.Int("targets", 25, "ops: maximal number of target summaries")
	onDemandFlag := fs.Bool("ondemand", false, "fb: summarize on demand")
	_ = fs.Parse(os.Args[2:])
	w := bufio.NewWriterSize(os.Stdout, 1<<20)
	if *out != "-" {
		f, err := os.Create(*out)
		if err != nil {
			panic(err)
		}
		defer f.Close()
		w = bufio.NewWriterSize(f, 1<<20)
	}
	defer w.Flush()
	switch mode {
	case "graphs":
		graphsMode(w, fs.Args(), *every, *maxSnaps, *modes)
	case "ops":
		opsMode(w, fs.Args(), *seed, *batches, *nops, *maxT)
	case "fb":
		fbMode(w, fs.Args(), *onDemandFlag)
	default:
		fmt.Fprintln(os.Stderr, "unknown mode")
		os.Exit(2)
	}
}
