// c16dump writes, for every function of the loaded program(s), the CFG skeleton the defer analysis sees and the
// result of the real defers.AnalyzeFunction, in a canonical line format read by the extracted Coq model.
package main

import (
	"bufio"
	"flag"
	"fmt"
	"os"
	"sort"
	"strings"
	"time"

	"github.com/awslabs/ar-go-tools/analysis/config"
	"github.com/awslabs/ar-go-tools/analysis/defers"
	"github.com/awslabs/ar-go-tools/verifharness/hutil"
	"golang.org/x/tools/go/ssa"
)

func stackStr(s defers.Stack) string {
	if len(s) == 0 {
		return "e"
	}
	parts := make([]string, len(s))
	for i, x := range s {
		parts[i] = fmt.Sprintf("%d.%d", x.Block, x.Ins)
	}
	return strings.Join(parts, ",")
}

func main() {
	out := flag.String("o", "-", "output file")
	onlyDefer := flag.Bool("only-defer", false, "only dump functions containing a defer or more than one block with rundefers")
	limit := flag.Int("limit", 60, "seconds allowed for the defer analysis of one function")
	pos := flag.Bool("pos", false, "also print source lines of defer/return instructions (P lines)")
	flag.Parse()
	w := bufio.NewWriter(os.Stdout)
	if *out != "-" {
		f, err := os.Create(*out)
		if err != nil {
			panic(err)
		}
		defer f.Close()
		w = bufio.NewWriter(f)
	}
	defer w.Flush()
	lg := config.NewLogGroup(config.NewDefault())
	id := 0
	for _, dir := range flag.Args() {
		prog, _, err := hutil.LoadDir(dir, false)
		if err != nil {
			fmt.Fprintf(os.Stderr, "load %s: %v\n", dir, err)
			os.Exit(2)
		}
		for _, fn := range hutil.SortedFunctions(prog) {
			if len(fn.Blocks) == 0 {
				continue
			}
			hasDefer := false
			for _, b := range fn.Blocks {
				for _, ins := range b.Instrs {
					if _, ok := ins.(*ssa.Defer); ok {
						hasDefer = true
					}
				}
			}
			if *onlyDefer && !hasDefer {
				continue
			}
			// watchdog: the property demands termination; a diverging analysis is reported with the function as input
			resCh := make(chan defers.Results, 1)
			go func() { resCh <- defers.AnalyzeFunction(fn, lg) }()
			var res defers.Results
			select {
			case res = <-resCh:
			case <-time.After(time.Duration(*limit) * time.Second):
				w.Flush()
				fmt.Fprintf(os.Stderr, "NONTERMINATION %s %s\n", dir, strings.ReplaceAll(fn.String(), " ", "_"))
				os.Exit(3)
			}
			id++
			fmt.Fprintf(w, "F %d %s\n", id, strings.ReplaceAll(fn.String(), " ", "_"))
			fmt.Fprintf(w, "N %d\n", len(fn.Blocks))
			ord := []string{}
			for _, b := range fn.DomPreorder() {
				ord = append(ord, fmt.Sprint(b.Index))
			}
			fmt.Fprintf(w, "O %s\n", strings.Join(ord, " "))
			for _, b := range fn.Blocks {
				var sb strings.Builder
				for _, ins := range b.Instrs {
					switch ins.(type) {
					case *ssa.Defer:
						sb.WriteByte('D')
					case *ssa.RunDefers:
						sb.WriteByte('R')
					case *ssa.Return:
						sb.WriteByte('X')
					default:
						sb.WriteByte('_')
					}
				}
				succs := []string{}
				for _, s := range b.Succs {
					succs = append(succs, fmt.Sprint(s.Index))
				}
				fmt.Fprintf(w, "B %d %s | %s\n", b.Index, sb.String(), strings.Join(succs, " "))
				if *pos {
					for j, ins := range b.Instrs {
						switch ins.(type) {
						case *ssa.Defer, *ssa.Return:
							fmt.Fprintf(w, "P %d %d %d\n", b.Index, j, prog.Fset.Position(ins.Pos()).Line)
						}
					}
				}
			}
			bd := 0
			if res.DeferStackBounded {
				bd = 1
			}
			fmt.Fprintf(w, "R %d\n", bd)
			lines := []string{}
			for rd, set := range res.RunDeferSets {
				bi := rd.Block().Index
				ii := -1
				for j, ins := range rd.Block().Instrs {
					if ins == ssa.Instruction(rd) {
						ii = j
					}
				}
				ss := make([]string, len(set))
				for k, s := range set {
					ss[k] = stackStr(s)
				}
				// NOTE: the set is printed in the order the implementation stores it (sorted slice): order is observable
				lines = append(lines, fmt.Sprintf("S %d %d : %s", bi, ii, strings.Join(ss, ";")))
			}
			sort.Strings(lines)
			for _, l := range lines {
				fmt.Fprintln(w, l)
			}
			fmt.Fprintln(w, "E")
		}
	}
}
