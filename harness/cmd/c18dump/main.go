// c18dump runs the REAL reachability.FindReachable of /repo under the four root selections (-nomain / -noinit) on each
// program given as a directory, optionally the pointer-analysis call graph reachability (dataflow.CallGraphReachable),
// and writes, in a canonical line format read by the extracted Coq model (build/bin/c18model):
//
//	P <dir>
//	T <tid> <TypeName>                 ssa struct type names (dumper-local ids)
//	K <kid> <field path>               operand field paths ("X", "Call.Args", "States.Chan")
//	F <fid> <flags> <ninstr> <name>    one function; flags: m = main.main, i = main.init, x = not in ssautil.AllFunctions, - none
//	G <tag>                            (generated programs) the function's body starts with the static call enter(<tag>)
//	V <vid> <tid> <fn> <nf> {<kid> <n> <vid>*}     a value of the function's operand graph; fn = fid when the value is a *ssa.Function (else 0)
//	I <tid> <invoke> <nf> {<kid> <n> <vid>*} M <n> {<mid> <fid>}* J <n> <mid>*
//	                                   an instruction with its operands per field (values from which no *ssa.Function can be reached through
//	                                   ANY operand field are pruned; instructions with nothing left are dropped unless MakeInterface/TypeAssert);
//	                                   M: method set of the operand's type (MakeInterface), J: method names of the interface converted/asserted to
//	A <aid> <n> {<mid> <fid>}*         methods of the runtime types implementing an asserted interface; a TypeAssert to a non-empty
//	                                   interface carries "MA <aid>" instead of "M ..."
//	E
//	R <sel> <n> <fid>*                 result of FindReachable; sel = nomain + 2*noinit
//	C <sel> <n> <fid>*                 dataflow.CallGraphReachable on the pointer-analysis call graph (with -cg)
//	D <sel> <n> <fid>*                 the same restricted to realizable edges (a dynamic edge is followed only once the callee's function value
//	                                   is created by a reached function: function operand, or method of a type converted to an interface)
//	Q <key> <count>                    statistics / cross-checks (operand fields by reflection vs instr.Operands())
//	Z
//
// The operand fields are obtained by reflection over the ssa structs (independently of gentables' go/types schema); the
// model checks them against the generated schema (wf_prog).
package main

import (
	"bufio"
	"flag"
	"fmt"
	"go/constant"
	"go/types"
	"os"
	"reflect"
	"sort"
	"strings"
	"time"

	"github.com/awslabs/ar-go-tools/analysis/config"
	"github.com/awslabs/ar-go-tools/analysis/dataflow"
	"github.com/awslabs/ar-go-tools/analysis/reachability"
	"github.com/awslabs/ar-go-tools/verifharness/hutil"
	"golang.org/x/tools/go/callgraph"
	"golang.org/x/tools/go/ssa"
	"golang.org/x/tools/go/ssa/ssautil"
	"golang.org/x/tools/go/types/typeutil"
)

var (
	valueIface = reflect.TypeOf((*ssa.Value)(nil)).Elem()
	instrIface = reflect.TypeOf((*ssa.Instruction)(nil)).Elem()
	ssaPkgPath = reflect.TypeOf(ssa.Call{}).PkgPath()
)

func valueish(t reflect.Type) bool {
	if t == valueIface {
		return true
	}
	if t.Kind() == reflect.Interface {
		return false
	}
	return t.Implements(valueIface)
}

func directFields(st reflect.Type) int {
	n := 0
	for i := 0; i < st.NumField(); i++ {
		sf := st.Field(i)
		if !sf.IsExported() || sf.Anonymous {
			continue
		}
		t := sf.Type
		if t.Kind() == reflect.Slice {
			t = t.Elem()
		}
		if valueish(t) {
			n++
		}
	}
	return n
}

// helper struct: a struct of package ssa that is neither a Value nor an Instruction and has direct operand fields
func helperStruct(t reflect.Type) reflect.Type {
	if t.Kind() == reflect.Slice {
		t = t.Elem()
	}
	if t.Kind() == reflect.Pointer {
		t = t.Elem()
	}
	if t.Kind() != reflect.Struct || t.PkgPath() != ssaPkgPath {
		return nil
	}
	pt := reflect.PointerTo(t)
	if t.Implements(valueIface) || pt.Implements(valueIface) || t.Implements(instrIface) || pt.Implements(instrIface) {
		return nil
	}
	if directFields(t) == 0 {
		return nil
	}
	return t
}

type fieldVals struct {
	path string
	vals []ssa.Value
}

func asValue(rv reflect.Value) ssa.Value {
	if (rv.Kind() == reflect.Interface || rv.Kind() == reflect.Pointer) && rv.IsNil() {
		return nil
	}
	v, _ := rv.Interface().(ssa.Value)
	return v
}

// fieldPlan is the cached reflection plan of one struct type: which fields hold operands and how
type fieldPlan struct {
	path  string
	index int
	mode  int // 0 single value, 1 slice of values, 2 helper struct (or pointer to one), 3 slice of helper structs
	sub   []fieldPlan
}

var planCache = map[reflect.Type][]fieldPlan{}

func planOf(st reflect.Type, prefix string, depth int) []fieldPlan {
	var out []fieldPlan
	for i := 0; i < st.NumField(); i++ {
		sf := st.Field(i)
		if !sf.IsExported() || sf.Anonymous {
			continue
		}
		t := sf.Type
		switch {
		case valueish(t):
			out = append(out, fieldPlan{path: prefix + sf.Name, index: i, mode: 0})
		case t.Kind() == reflect.Slice && valueish(t.Elem()):
			out = append(out, fieldPlan{path: prefix + sf.Name, index: i, mode: 1})
		case depth > 0 && helperStruct(t) != nil:
			m := 2
			if t.Kind() == reflect.Slice {
				m = 3
			}
			out = append(out, fieldPlan{path: prefix + sf.Name, index: i, mode: m, sub: planOf(helperStruct(t), prefix+sf.Name+".", depth-1)})
		}
	}
	return out
}

func runPlan(rv reflect.Value, plan []fieldPlan, out *[]fieldVals, pos map[string]int) {
	add := func(p string, v ssa.Value) {
		i, ok := pos[p]
		if !ok {
			i = len(*out)
			pos[p] = i
			*out = append(*out, fieldVals{path: p})
		}
		if v != nil {
			(*out)[i].vals = append((*out)[i].vals, v)
		}
	}
	for _, fp := range plan {
		fv := rv.Field(fp.index)
		switch fp.mode {
		case 0:
			add(fp.path, asValue(fv))
		case 1:
			add(fp.path, nil)
			for j := 0; j < fv.Len(); j++ {
				add(fp.path, asValue(fv.Index(j)))
			}
		case 2, 3:
			for _, sp := range fp.sub { // the paths exist even when the helper slice is empty
				add(sp.path, nil)
			}
			n := 1
			if fp.mode == 3 {
				n = fv.Len()
			}
			for j := 0; j < n; j++ {
				e := fv
				if fp.mode == 3 {
					e = fv.Index(j)
				}
				if e.Kind() == reflect.Pointer {
					if e.IsNil() {
						continue
					}
					e = e.Elem()
				}
				runPlan(e, fp.sub, out, pos)
			}
		}
	}
}

// operandFields returns the operand fields of an instruction or value (by reflection)
func operandFields(x interface{}) []fieldVals {
	rv := reflect.ValueOf(x)
	if rv.Kind() == reflect.Pointer {
		if rv.IsNil() {
			return nil
		}
		rv = rv.Elem()
	}
	if rv.Kind() != reflect.Struct {
		return nil
	}
	plan, ok := planCache[rv.Type()]
	if !ok {
		plan = planOf(rv.Type(), "", 1)
		planCache[rv.Type()] = plan
	}
	if len(plan) == 0 {
		return nil
	}
	res := make([]fieldVals, 0, len(plan)+1)
	runPlan(rv, plan, &res, map[string]int{})
	return res
}

func typeName(x interface{}) string {
	t := reflect.TypeOf(x)
	if t.Kind() == reflect.Pointer {
		t = t.Elem()
	}
	return t.Name()
}

type interner struct {
	ids   map[string]int
	names []string
}

func (in *interner) id(s string) int {
	if in.ids == nil {
		in.ids = map[string]int{}
	}
	if i, ok := in.ids[s]; ok {
		return i
	}
	in.names = append(in.names, s)
	in.ids[s] = len(in.names)
	return len(in.names)
}

func ifaceMethodNames(t types.Type) []string {
	it, ok := t.Underlying().(*types.Interface)
	if !ok {
		return nil
	}
	var out []string
	for i := 0; i < it.NumMethods(); i++ {
		out = append(out, it.Method(i).Name())
	}
	sort.Strings(out)
	return out
}

func main() {
	outp := flag.String("o", "-", "output file")
	withCG := flag.Bool("cg", false, "also compute the pointer-analysis call graph and its reachable sets (C lines)")
	names := flag.String("names", "", "write '<program> <fid> <name>' for the functions of the main package and of reported sets to this file")
	verbose := flag.Bool("v", false, "print timings on stderr")
	flag.Parse()
	w := bufio.NewWriterSize(os.Stdout, 1<<20)
	if *outp != "-" {
		f, err := os.Create(*outp)
		if err != nil {
			panic(err)
		}
		defer f.Close()
		w = bufio.NewWriterSize(f, 1<<20)
	}
	defer w.Flush()
	var nw *bufio.Writer
	if *names != "" {
		f, err := os.Create(*names)
		if err != nil {
			panic(err)
		}
		defer f.Close()
		nw = bufio.NewWriter(f)
		defer nw.Flush()
	}
	cfg := config.NewDefault()
	cfg.LogLevel = int(config.ErrLevel)
	lg := config.NewLogGroup(cfg)

	for _, dir := range flag.Args() {
		t0 := time.Now()
		// "dir::pattern,pattern" loads several packages (possibly several main packages) of dir's module as ONE program
		loadDir, patterns := dir, []string(nil)
		if i := strings.Index(dir, "::"); i >= 0 {
			loadDir, patterns = dir[:i], strings.Split(dir[i+2:], ",")
		}
		prog, _, err := hutil.LoadDir(loadDir, true, patterns...)
		if err != nil {
			fmt.Fprintf(os.Stderr, "load %s: %v\n", dir, err)
			os.Exit(2)
		}
		t1 := time.Now()
		dumpProgram(w, nw, dir, prog, lg, *withCG)
		if *verbose {
			fmt.Fprintf(os.Stderr, "c18dump %s: load %.1fs, analyse+dump %.1fs\n", dir, t1.Sub(t0).Seconds(), time.Since(t1).Seconds())
		}
	}
}

func dumpProgram(w, nw *bufio.Writer, dir string, prog *ssa.Program, lg *config.LogGroup, withCG bool) {
	state := &dataflow.AnalyzerState{Program: prog, Logger: lg, Config: config.NewDefault()}
	var results [4]map[*ssa.Function]bool
	for sel := 0; sel < 4; sel++ {
		results[sel] = reachability.FindReachable(state, sel&1 != 0, sel&2 != 0, nil)
	}
	// the dependencies tool calls FindReachable with a dependency graph to fill: the set must be the same
	withGraph := reachability.FindReachable(state, false, false, reachability.NewDependencyGraph())
	depDiff := 0
	for f := range withGraph {
		if !results[0][f] {
			depDiff++
		}
	}
	for f := range results[0] {
		if !withGraph[f] {
			depDiff++
		}
	}
	all := ssautil.AllFunctions(prog)
	fns := hutil.SortedFunctions(prog)
	fid := map[*ssa.Function]int{}
	for i, f := range fns {
		fid[f] = i + 1
	}
	// functions reported (or referenced) but not in AllFunctions get ids after the others
	extra := func(f *ssa.Function) int {
		if f == nil {
			return 0
		}
		if id, ok := fid[f]; ok {
			return id
		}
		fns = append(fns, f)
		fid[f] = len(fns)
		return len(fns)
	}
	nilReported := 0
	for sel := 0; sel < 4; sel++ {
		keys := make([]*ssa.Function, 0, len(results[sel]))
		for f := range results[sel] {
			if f == nil {
				nilReported++
				continue
			}
			keys = append(keys, f)
		}
		sort.Slice(keys, func(i, j int) bool { return keys[i].String() < keys[j].String() })
		for _, f := range keys {
			extra(f)
		}
	}

	var types_, fields_, meths interner
	stats := map[string]int{}
	fmt.Fprintf(w, "P %s\n", dir)

	// entry points as the property states them: main.main and the initializer of package main
	isMain := map[*ssa.Function]bool{}
	isInit := map[*ssa.Function]bool{}
	var enterFn *ssa.Function
	for _, p := range prog.AllPackages() {
		if p.Pkg.Name() == "main" {
			if f := p.Func("main"); f != nil {
				isMain[f] = true
			}
			if f := p.Func("init"); f != nil {
				isInit[f] = true
			}
			if f := p.Func("enter"); f != nil && enterFn == nil {
				enterFn = f
			}
		}
	}

	var body strings.Builder
	for i := 0; i < len(fns); i++ { // fns may grow while functions are dumped (referenced functions outside AllFunctions)
		f := fns[i]
		flags := ""
		if isMain[f] {
			flags += "m"
		}
		if isInit[f] {
			flags += "i"
		}
		if !all[f] {
			flags += "x"
		}
		if flags == "" {
			flags = "-"
		}
		ninstr := 0
		for _, b := range f.Blocks {
			ninstr += len(b.Instrs)
		}
		fmt.Fprintf(&body, "F %d %s %d %s\n", i+1, flags, ninstr, strings.ReplaceAll(f.String(), " ", "_"))
		root := f
		for root.Parent() != nil {
			root = root.Parent()
		}
		if nw != nil && root.Pkg != nil && root.Pkg.Pkg.Name() == "main" {
			fmt.Fprintf(nw, "%s %d %s\n", dir, i+1, strings.ReplaceAll(f.String(), " ", "_"))
		}
		dumpFunction(&body, f, extra, &types_, &fields_, &meths, stats, enterFn, prog)
		body.WriteString("E\n")
	}
	for i, n := range types_.names {
		fmt.Fprintf(w, "T %d %s\n", i+1, n)
	}
	for i, n := range fields_.names {
		fmt.Fprintf(w, "K %d %s\n", i+1, n)
	}
	w.WriteString(body.String())

	emit := func(tag string, sel int, set map[*ssa.Function]bool) {
		ids := make([]int, 0, len(set))
		for f := range set {
			if f != nil {
				ids = append(ids, extra(f))
			}
		}
		sort.Ints(ids)
		fmt.Fprintf(w, "%s %d %d", tag, sel, len(ids))
		for _, id := range ids {
			fmt.Fprintf(w, " %d", id)
		}
		w.WriteString("\n")
	}
	for sel := 0; sel < 4; sel++ {
		emit("R", sel, results[sel])
	}
	if withCG {
		cg, err := dataflow.PointerAnalysis.ComputeCallgraph(prog)
		if err != nil || cg == nil {
			fmt.Fprintf(os.Stderr, "callgraph of %s: %v\n", dir, err)
			os.Exit(2)
		}
		for sel := 0; sel < 4; sel++ {
			raw := dataflow.CallGraphReachable(cg, sel&1 != 0, sel&2 != 0)
			emit("C", sel, raw)
			emit("D", sel, realizableCG(prog, cg, sel&1 != 0, sel&2 != 0))
		}
	}
	stats["nil_reported"] = nilReported
	stats["depgraph_set_diff"] = depDiff
	stats["all_functions"] = len(all)
	keys := make([]string, 0, len(stats))
	for k := range stats {
		keys = append(keys, k)
	}
	sort.Strings(keys)
	for _, k := range keys {
		fmt.Fprintf(w, "Q %s %d\n", k, stats[k])
	}
	w.WriteString("Z\n")
}

func dumpFunction(w *strings.Builder, f *ssa.Function, fidOf func(*ssa.Function) int, types_, fields_, meths *interner,
	stats map[string]int, enterFn *ssa.Function, prog *ssa.Program) {
	if len(f.Blocks) == 0 {
		return
	}
	// 1. the operand graph: values reachable from instruction operands through every operand field
	vid := map[ssa.Value]int{}
	var vals []ssa.Value
	children := map[ssa.Value][]fieldVals{}
	var visit func(v ssa.Value)
	visit = func(v ssa.Value) {
		if v == nil {
			return
		}
		if _, ok := vid[v]; ok {
			return
		}
		vals = append(vals, v)
		vid[v] = len(vals)
		fv := operandFields(v)
		children[v] = fv
		for _, fl := range fv {
			for _, c := range fl.vals {
				visit(c)
			}
		}
	}
	type insRec struct {
		ins ssa.Instruction
		fv  []fieldVals
	}
	var instrs []insRec
	for _, b := range f.Blocks {
		for _, ins := range b.Instrs {
			fv := operandFields(ins)
			instrs = append(instrs, insRec{ins, fv})
			// cross-check with the ssa package's own notion of operands
			want := map[ssa.Value]bool{}
			for _, op := range ins.Operands(nil) {
				if *op != nil {
					want[*op] = true
				}
			}
			got := map[ssa.Value]bool{}
			for _, fl := range fv {
				for _, c := range fl.vals {
					got[c] = true
					visit(c)
				}
			}
			stats["instructions"]++
			if len(want) != len(got) {
				stats["operand_mismatch"]++
			} else {
				for v := range want {
					if !got[v] {
						stats["operand_mismatch"]++
						break
					}
				}
			}
			if tag, ok := enterTag(ins, enterFn); ok {
				fmt.Fprintf(w, "G %d\n", tag)
			}
		}
	}
	// 2. prune: keep the values from which a *ssa.Function is reachable
	rev := map[ssa.Value][]ssa.Value{}
	var work []ssa.Value
	keep := map[ssa.Value]bool{}
	for _, v := range vals {
		for _, fl := range children[v] {
			for _, c := range fl.vals {
				rev[c] = append(rev[c], v)
			}
		}
		if _, ok := v.(*ssa.Function); ok {
			keep[v] = true
			work = append(work, v)
		}
	}
	for len(work) > 0 {
		v := work[len(work)-1]
		work = work[:len(work)-1]
		for _, p := range rev[v] {
			if !keep[p] {
				keep[p] = true
				work = append(work, p)
			}
		}
	}
	stats["values"] += len(vals)
	writeFields := func(fv []fieldVals) (string, int) {
		var sb strings.Builder
		n := 0
		kept := 0
		for _, fl := range fv {
			var ids []int
			for _, c := range fl.vals {
				if keep[c] {
					ids = append(ids, vid[c])
				}
			}
			if len(ids) == 0 {
				continue
			}
			n++
			kept += len(ids)
			fmt.Fprintf(&sb, " %d %d", fields_.id(fl.path), len(ids))
			for _, id := range ids {
				fmt.Fprintf(&sb, " %d", id)
			}
		}
		return fmt.Sprintf("%d%s", n, sb.String()), kept
	}
	for _, v := range vals {
		if !keep[v] {
			continue
		}
		stats["values_kept"]++
		fn := 0
		if g, ok := v.(*ssa.Function); ok {
			fn = fidOf(g)
		}
		s, _ := writeFields(children[v])
		fmt.Fprintf(w, "V %d %d %d %s\n", vid[v], types_.id(typeName(v)), fn, s)
	}
	for _, ir := range instrs {
		s, kept := writeFields(ir.fv)
		var ms, js string
		special := false
		switch x := ir.ins.(type) {
		case *ssa.MakeInterface:
			special = true
			mset := prog.MethodSets.MethodSet(x.X.Type())
			var parts []string
			for i := 0; i < mset.Len(); i++ {
				sel := mset.At(i)
				mf := prog.MethodValue(sel)
				if mf == nil {
					continue
				}
				parts = append(parts, fmt.Sprintf("%d %d", meths.id(sel.Obj().Name()), fidOf(mf)))
			}
			ms = fmt.Sprintf(" M %d", len(parts))
			if len(parts) > 0 {
				ms += " " + strings.Join(parts, " ")
			}
			names := ifaceMethodNames(x.Type())
			js = fmt.Sprintf(" J %d", len(names))
			for _, n := range names {
				js += fmt.Sprintf(" %d", meths.id(n))
			}
			stats["makeinterface"]++
		case *ssa.TypeAssert:
			if names := ifaceMethodNames(x.AssertedType); types.IsInterface(x.AssertedType) {
				if len(names) > 0 {
					special = true
				}
				ms = " M 0"
				if len(names) > 0 {
					// methods of every runtime type (non-interface) implementing the asserted interface: table A, interned per interface
					ms = fmt.Sprintf(" MA %d", assertTable(w, prog, x.AssertedType, fidOf, meths, stats))
				}
				js = fmt.Sprintf(" J %d", len(names))
				for _, n := range names {
					js += fmt.Sprintf(" %d", meths.id(n))
				}
				stats["typeassert_iface"]++
			}
		}
		if kept == 0 && !special {
			continue
		}
		if ms == "" {
			ms, js = " M 0", " J 0"
		}
		invoke := 0
		if ci, ok := ir.ins.(ssa.CallInstruction); ok && ci.Common().IsInvoke() {
			invoke = 1
		}
		stats["instructions_kept"]++
		fmt.Fprintf(w, "I %d %d %s%s%s\n", types_.id(typeName(ir.ins)), invoke, s, ms, js)
	}
}

// realizableCG is call-graph reachability restricted to edges that can occur at run time as far as the existence of the
// callee's function value is concerned.  The pointer analysis generates constraints for EVERY function of the program, so a
// dynamic call site (a helper such as os.ignoringEINTR(fn), an invoke on io.Writer) gets call edges to every function value /
// receiver type that flows there from anywhere, including from functions that are not reachable themselves (os.chmod$1 when
// os.chmod is never called; a $bound method-value wrapper or an io.Writer implementation created only in unreachable code).
// A dynamic edge is therefore followed only once its callee is AVAILABLE: it occurs as a *ssa.Function operand (callee,
// argument, stored value, MakeClosure.Fn - this covers anonymous functions, $bound and $thunk wrappers) of an instruction
// of a reached function, or it is a method of a type that a reached function converts to an interface (MakeInterface).
// Static edges are always followed.
func realizableCG(prog *ssa.Program, cg *callgraph.Graph, excludeMain, excludeInit bool) map[*ssa.Function]bool {
	reached := map[*ssa.Function]bool{}
	avail := map[*ssa.Function]bool{}
	pending := map[*ssa.Function]bool{} // callees of dynamic edges from reached functions, not available yet
	var work []*ssa.Function
	reach := func(f *ssa.Function) {
		if f == nil || reached[f] {
			return
		}
		reached[f] = true
		work = append(work, f)
	}
	makeAvail := func(f *ssa.Function) {
		if f == nil || avail[f] {
			return
		}
		avail[f] = true
		if pending[f] {
			delete(pending, f)
			reach(f)
		}
	}
	for f, n := range cg.Nodes {
		if n.ID != 0 && f != nil && f.Pkg != nil && f.Pkg.Pkg.Name() == "main" &&
			((!excludeMain && f.Name() == "main") || (!excludeInit && f.Name() == "init")) {
			reach(f)
		}
	}
	var ops []*ssa.Value
	for len(work) > 0 {
		f := work[len(work)-1]
		work = work[:len(work)-1]
		for _, b := range f.Blocks {
			for _, ins := range b.Instrs {
				ops = ins.Operands(ops[:0])
				for _, op := range ops {
					if g, ok := (*op).(*ssa.Function); ok {
						makeAvail(g)
					}
				}
				if mi, ok := ins.(*ssa.MakeInterface); ok {
					mset := prog.MethodSets.MethodSet(mi.X.Type())
					for i := 0; i < mset.Len(); i++ {
						makeAvail(prog.MethodValue(mset.At(i)))
					}
				}
			}
		}
		n := cg.Nodes[f]
		if n == nil {
			continue
		}
		for _, e := range n.Out {
			callee := e.Callee.Func
			if callee == nil || reached[callee] {
				continue
			}
			static := e.Site != nil && e.Site.Common().StaticCallee() == callee
			if static || avail[callee] {
				reach(callee)
			} else {
				pending[callee] = true
			}
		}
	}
	return reached
}

// assertTable emits (once per asserted interface type of the program) the line
//
//	A <aid> <n> {<mid> <fid>}*
//
// listing the whole method set of every non-interface runtime type (ssa.Program.RuntimeTypes) that implements the
// interface, and returns aid.  TypeAssert instructions refer to it with "MA <aid>".
var (
	assertIDs   typeutil.Map
	assertProg  *ssa.Program
	runtimeTyps []types.Type
)

func assertTable(w *strings.Builder, prog *ssa.Program, asserted types.Type, fidOf func(*ssa.Function) int, meths *interner,
	stats map[string]int) int {
	if assertProg != prog {
		assertProg = prog
		assertIDs = typeutil.Map{}
		runtimeTyps = prog.RuntimeTypes()
		sort.Slice(runtimeTyps, func(i, j int) bool { return runtimeTyps[i].String() < runtimeTyps[j].String() })
	}
	if id := assertIDs.At(asserted); id != nil {
		return id.(int)
	}
	aid := assertIDs.Len() + 1
	assertIDs.Set(asserted, aid)
	iface := asserted.Underlying().(*types.Interface)
	var parts []string
	for _, t := range runtimeTyps {
		if types.IsInterface(t) || !types.Implements(t, iface) {
			continue
		}
		stats["assert_implementing_types"]++
		mset := prog.MethodSets.MethodSet(t)
		for i := 0; i < mset.Len(); i++ {
			sel := mset.At(i)
			mf := prog.MethodValue(sel)
			if mf == nil {
				continue
			}
			parts = append(parts, fmt.Sprintf("%d %d", meths.id(sel.Obj().Name()), fidOf(mf)))
		}
	}
	fmt.Fprintf(w, "A %d %d", aid, len(parts))
	if len(parts) > 0 {
		w.WriteString(" " + strings.Join(parts, " "))
	}
	w.WriteString("\n")
	return aid
}

// enterTag recognises the static call enter(<int constant>) used by generated programs to log function entry
func enterTag(ins ssa.Instruction, enterFn *ssa.Function) (int64, bool) {
	if enterFn == nil {
		return 0, false
	}
	c, ok := ins.(*ssa.Call)
	if !ok || c.Call.IsInvoke() || c.Call.Value != ssa.Value(enterFn) || len(c.Call.Args) != 1 {
		return 0, false
	}
	k, ok := c.Call.Args[0].(*ssa.Const)
	if !ok || k.Value == nil {
		return 0, false
	}
	n, ok := constant.Int64Val(constant.ToInt(k.Value))
	return n, ok
}
