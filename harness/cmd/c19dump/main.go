// c19dump loads a program exactly as `argot maypanic` does, dumps the mini-IR the lightweight may-panic analysis looks
// at (per function: its go / defer / call instructions and the form of their callee) and the results of the REAL
// analysis stages (findGoFunctions, findRecoverFunctions, doesDeferRecover through the verif hook; the final report by
// running maypanic.MayPanicAnalyzer with -json semantics and parsing what it prints), in a canonical tab-separated
// line format read by the extracted Coq model (build/bin/c19model) and by tools/props/c19.py.
//
//	A  <allow-list entry>
//	W  <cwd>
//	F  <fid> <RelString> <pkg path|-> <file|-> <line> <col> <endline> <synthetic|->
//	I  <fid> <go|defer|call> <static|closure|closureother|invoke|builtin|value> <arg> <posid|->
//	P  <posid> <file:line:col>
//	T  <fid-of-instr-owner> <posid|-> <go|defer> <candidate fid>...      may-targets of a dynamic go/defer (user code only)
//	E  <k> <raw exclude path>...                                           exclude configuration k (k=0: none)
//	IG <fid> <posid>...    IR <fid>    ID <fid>    IX <k> <fid> <posid>...  observables of the real code
package main

import (
	"bufio"
	"encoding/json"
	"flag"
	"fmt"
	"go/token"
	"go/types"
	"io"
	"os"
	"sort"
	"strings"
	"time"

	"github.com/awslabs/ar-go-tools/analysis"
	"github.com/awslabs/ar-go-tools/analysis/maypanic"
	"github.com/awslabs/ar-go-tools/internal/analysisutil"
	"github.com/awslabs/ar-go-tools/verifharness/hutil"
	"golang.org/x/tools/go/packages"
	"golang.org/x/tools/go/ssa"
	"golang.org/x/tools/go/ssa/ssautil"
)

type multi []string

func (m *multi) String() string     { return strings.Join(*m, ";") }
func (m *multi) Set(s string) error { *m = append(*m, s); return nil }

type location struct {
	Function string
	Filename string
	Line     int
	Column   int
}
type finding struct {
	Description string
	GoRoutine   location
	Creators    []location
}

func clean(s string) string {
	s = strings.ReplaceAll(s, "\t", " ")
	s = strings.ReplaceAll(s, "\n", " ")
	if s == "" {
		return "-"
	}
	return s
}

// runReal runs the real analyzer with jsonFlag=true and returns what it printed on stdout.
func runReal(prog *ssa.Program, exclude []string) ([]finding, string, error) {
	tmp, err := os.CreateTemp("", "c19-json-*")
	if err != nil {
		return nil, "", err
	}
	defer os.Remove(tmp.Name())
	saved := os.Stdout
	os.Stdout = tmp
	func() {
		defer func() { os.Stdout = saved }()
		maypanic.MayPanicAnalyzer(prog, exclude, true)
	}()
	if _, err := tmp.Seek(0, io.SeekStart); err != nil {
		return nil, "", err
	}
	raw, err := io.ReadAll(tmp)
	tmp.Close()
	if err != nil {
		return nil, "", err
	}
	var fs []finding
	if err := json.Unmarshal(raw, &fs); err != nil {
		return nil, string(raw), fmt.Errorf("analyzer output is not the expected JSON: %v", err)
	}
	return fs, string(raw), nil
}

// sortedFunctions is hutil.SortedFunctions with the sort keys computed once.
func sortedFunctions(p *ssa.Program) []*ssa.Function {
	type kf struct {
		k string
		f *ssa.Function
	}
	var ks []kf
	for f := range ssautil.AllFunctions(p) {
		ks = append(ks, kf{f.String() + "\x00" + hutil.PosStr(p.Fset, f.Pos()) + "\x00" + fmt.Sprintf("%06d", len(f.Blocks)), f})
	}
	sort.Slice(ks, func(i, j int) bool { return ks[i].k < ks[j].k })
	out := make([]*ssa.Function, len(ks))
	for i := range ks {
		out[i] = ks[i].f
	}
	return out
}

var t0 = time.Now()

func lap(what string) {
	if os.Getenv("C19_TIMING") != "" {
		fmt.Fprintf(os.Stderr, "%6.2fs %s\n", time.Since(t0).Seconds(), what)
	}
}

func main() {
	out := flag.String("o", "-", "output file")
	var excl multi
	flag.Var(&excl, "x", "one exclude configuration: comma-separated paths as given to -exclude (repeatable)")
	flag.Parse()
	if flag.NArg() != 1 {
		fmt.Fprintln(os.Stderr, "usage: c19dump [-o file] [-x a,b]... <program dir>")
		os.Exit(2)
	}
	dir := flag.Arg(0)
	if err := os.Chdir(dir); err != nil {
		fmt.Fprintln(os.Stderr, err)
		os.Exit(2)
	}
	cwd, _ := os.Getwd()
	wr := bufio.NewWriter(os.Stdout)
	if *out != "-" {
		f, err := os.Create(*out)
		if err != nil {
			panic(err)
		}
		defer f.Close()
		wr = bufio.NewWriter(f)
	}
	defer wr.Flush()
	w := func(parts ...string) { fmt.Fprintln(wr, strings.Join(parts, "\t")) }

	// same load options as cmd/argot/maypanic/maypanic.go Run
	cfg := &packages.Config{Mode: packages.LoadAllSyntax, Tests: false,
		Env: append(os.Environ(), "GOFLAGS=-mod=mod", "GOPROXY=off", "GOSUMDB=off", "GOTOOLCHAIN=local")}
	prog, _, err := analysis.LoadProgram(analysis.LoadProgramOptions{PackageConfig: cfg, BuildMode: ssa.InstantiateGenerics,
		LoadTests: false, ApplyRewrites: true}, []string{"."})
	if err != nil {
		fmt.Fprintf(os.Stderr, "load %s: %v\n", dir, err)
		os.Exit(2)
	}

	lap("loaded")
	allow := maypanic.VerifAllowList()
	for _, a := range allow {
		w("A", a)
	}
	w("W", cwd)

	fns := sortedFunctions(prog)
	fid := map[*ssa.Function]int{}
	for i, f := range fns {
		fid[f] = i
	}
	byNamePos := map[string][]int{}
	key := func(name, file string, line, col int) string { return fmt.Sprintf("%s\t%s:%d:%d", name, file, line, col) }
	for i, f := range fns {
		p := prog.Fset.Position(f.Pos())
		end := p.Line
		if syn := f.Syntax(); syn != nil && syn.End().IsValid() {
			end = prog.Fset.Position(syn.End()).Line
		}
		pkg := "-"
		if f.Pkg != nil {
			pkg = f.Pkg.Pkg.Path()
		}
		name := f.RelString(nil)
		w("F", fmt.Sprint(i), clean(name), clean(pkg), clean(p.Filename), fmt.Sprint(p.Line), fmt.Sprint(p.Column), fmt.Sprint(end),
			clean(f.Synthetic))
		k := key(name, p.Filename, p.Line, p.Column)
		byNamePos[k] = append(byNamePos[k], i)
	}

	posID := map[token.Pos]int{}
	posStr := func(p token.Pos) string {
		q := prog.Fset.Position(p)
		return fmt.Sprintf("%s:%d:%d", q.Filename, q.Line, q.Column)
	}
	posByStr := map[string]int{}
	getPos := func(p token.Pos) int {
		if id, ok := posID[p]; ok {
			return id
		}
		id := len(posID)
		posID[p] = id
		posByStr[posStr(p)] = id
		w("P", fmt.Sprint(id), clean(posStr(p)))
		return id
	}

	// candidates for dynamic forms (user code only): declared methods implementing an interface method; functions of a signature
	userPkg := func(f *ssa.Function) bool {
		for g := f; g != nil; g = g.Parent() {
			if g.Pkg != nil {
				return !maypanic.VerifAllowListed(g.Pkg.Pkg.Path())
			}
		}
		return false
	}
	userFn := func(f *ssa.Function) bool {
		if userPkg(f) {
			return true
		}
		if f.Pkg == nil && f.Object() != nil && f.Object().Pkg() != nil {
			return !maypanic.VerifAllowListed(f.Object().Pkg().Path())
		}
		return false
	}
	implementers := func(recv types.Type, name string) []int {
		var res []int
		iface, ok := recv.Underlying().(*types.Interface)
		if !ok {
			return res
		}
		for i, f := range fns {
			r := f.Signature.Recv()
			if r == nil || f.Name() != name || f.Synthetic != "" || len(f.Blocks) == 0 {
				continue
			}
			if _, isIface := r.Type().Underlying().(*types.Interface); isIface {
				continue
			}
			if types.Implements(r.Type(), iface) || types.Implements(types.NewPointer(r.Type()), iface) {
				res = append(res, i)
			}
		}
		return res
	}
	sameSig := func(sig *types.Signature) []int {
		var res []int
		for i, f := range fns {
			if f.Signature.Recv() != nil || len(f.Blocks) == 0 || !userFn(f) {
				continue
			}
			if types.Identical(f.Signature, sig) {
				res = append(res, i)
			}
		}
		return res
	}

	for i, f := range fns {
		user := userPkg(f)
		seenCall := map[string]bool{}
		for _, b := range f.Blocks {
			for _, ins := range b.Instrs {
				var kind string
				var common *ssa.CallCommon
				pid := "-"
				switch v := ins.(type) {
				case *ssa.Go:
					kind, common = "go", &v.Call
					pid = fmt.Sprint(getPos(v.Pos()))
				case *ssa.Defer:
					kind, common = "defer", &v.Call
				case *ssa.Call:
					kind, common = "call", &v.Call
				default:
					continue
				}
				var form, arg string
				var cands []int
				dynamic := false
				if common.IsInvoke() {
					form, arg = "invoke", types.TypeString(common.Value.Type(), nil)+"."+common.Method.Name()
					if kind != "call" && user {
						dynamic = true
						cands = implementers(common.Value.Type(), common.Method.Name())
					}
				} else {
					switch val := common.Value.(type) {
					case *ssa.Function:
						form, arg = "static", fmt.Sprint(fid[val])
					case *ssa.MakeClosure:
						if fn, ok := val.Fn.(*ssa.Function); ok {
							form, arg = "closure", fmt.Sprint(fid[fn])
						} else {
							form, arg = "closureother", fmt.Sprintf("%T", val.Fn)
						}
					case *ssa.Builtin:
						form, arg = "builtin", val.Name()
					default:
						form, arg = "value", fmt.Sprintf("%T", common.Value)
						if kind != "call" && user {
							if sig, ok := common.Value.Type().Underlying().(*types.Signature); ok {
								dynamic = true
								cands = sameSig(sig)
							}
						}
					}
				}
				if kind == "call" && form != "builtin" {
					// plain calls matter to the analysis only when they are builtin calls (recover); keep the dump small
					// but keep one representative of every other form per function so that the model sees them
					arg = "-"
				}
				if kind == "call" {
					if seenCall[form+" "+arg] {
						continue
					}
					seenCall[form+" "+arg] = true
				}
				w("I", fmt.Sprint(i), kind, form, clean(arg), pid)
				if dynamic {
					parts := []string{"T", fmt.Sprint(i), pid, kind}
					for _, c := range cands {
						parts = append(parts, fmt.Sprint(c))
					}
					w(parts...)
				}
			}
		}
	}

	lap("mini-IR dumped")
	// ---- the real stages
	all := ssautil.AllFunctions(prog)
	goFns := maypanic.VerifFindGoFunctions(all)
	for _, f := range fns {
		if ps, ok := goFns[f]; ok {
			ids := []int{}
			for _, p := range ps {
				ids = append(ids, getPos(p))
			}
			sort.Ints(ids)
			parts := []string{"IG", fmt.Sprint(fid[f])}
			for _, id := range ids {
				parts = append(parts, fmt.Sprint(id))
			}
			w(parts...)
		}
	}
	for f := range goFns {
		if _, ok := fid[f]; !ok {
			w("ERR", "findGoFunctions returned a function outside AllFunctions: "+clean(f.String()))
		}
	}
	rec := maypanic.VerifFindRecoverFunctions(all)
	for _, f := range fns {
		if rec[f] != maypanic.VerifDoesRecover(f) {
			w("ERR", "findRecoverFunctions and doesRecover disagree on "+clean(f.String()))
		}
		if rec[f] {
			w("IR", fmt.Sprint(fid[f]))
		}
	}
	for _, f := range fns {
		if maypanic.VerifDoesDeferRecover(f, rec) {
			w("ID", fmt.Sprint(fid[f]))
		}
	}

	lap("stages dumped")
	configs := [][]string{{}}
	for _, e := range excl {
		var c []string
		for _, p := range strings.Split(e, ",") {
			if p != "" {
				c = append(c, p)
			}
		}
		configs = append(configs, c)
	}
	for k, c := range configs {
		w(append([]string{"E", fmt.Sprint(k)}, c...)...)
		findings, raw, err := runReal(prog, analysisutil.MakeAbsolute(c))
		lap("analyzer run")
		if err != nil {
			w("ERR", clean(err.Error()+": "+raw))
			continue
		}
		for _, fd := range findings {
			if fd.Description != "unrecovered panic" {
				w("ERR", "unexpected description "+clean(fd.Description))
			}
			ids := byNamePos[key(fd.GoRoutine.Function, fd.GoRoutine.Filename, fd.GoRoutine.Line, fd.GoRoutine.Column)]
			if len(ids) != 1 {
				w("ERR", fmt.Sprintf("reported goroutine %s at %s:%d:%d matches %d functions", clean(fd.GoRoutine.Function),
					fd.GoRoutine.Filename, fd.GoRoutine.Line, fd.GoRoutine.Column, len(ids)))
				continue
			}
			cs := []int{}
			for _, cr := range fd.Creators {
				id, ok := posByStr[fmt.Sprintf("%s:%d:%d", cr.Filename, cr.Line, cr.Column)]
				if !ok {
					w("ERR", fmt.Sprintf("creator %s:%d:%d of %s is not the position of a go instruction", cr.Filename, cr.Line, cr.Column,
						clean(fd.GoRoutine.Function)))
					continue
				}
				cs = append(cs, id)
			}
			sort.Ints(cs)
			parts := []string{"IX", fmt.Sprint(k), fmt.Sprint(ids[0])}
			for _, id := range cs {
				parts = append(parts, fmt.Sprint(id))
			}
			w(parts...)
		}
	}
}
