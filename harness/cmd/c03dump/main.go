// c03dump runs the REAL backtrace analysis of /repo (backtrace.Analyze) in-process on program directories (each with
// go.mod, *.go and config.yaml) and prints, in canonical line form, (1) the linked inter-procedural dataflow graph the
// backward traversal walked over (state after the run, so on-demand summaries are included), (2) the entry points the
// real entry scan selects and (3) the traces the real visitor reported.  It is the observation side of the C03 tie:
// the extracted Coq model Model/Back.v is run on (1)+(2) and compared with (3); the extracted verified trace checker
// is run on (3).
//
//	P <dir> <mode>
//	CFG <ondemand 0/1> <maxdepth> <skipboundlabels 0/1>
//	G <gid> <constructed> <params> <freevars> <returns> <callsites> <refclosures> <fn>
//	N <nid> <kind> <gid> <idx> <parent> <fa> <fb> <a1> <a2> <a3> <in> <out> <list> <pos> <string...>
//	GL <globalid> <writelocs>
//	E <call nid> <arg nids>
//	T <entry arg nid> <n1,n2,...>          (origin first, entry argument last — the order of backtrace.Trace)
//	B <entry arg nid>                      (event: visit(arg) started — one per ENTRYPOINT log line, in run order)
//	A <nid>                                (event: addNext added this node — one per "Adding" trace line, in run order)
//	V <nid> <call trace> <closure trace>   (event: a popped node reached the switch — from traceNode's "Visiting" /
//	                                        "Element trace" / "Element closure trace" lines; traces root first)
//	X <text>                               (analysis error / panic text; the run continues)
//	END
//
// Lists are comma separated ("-" when empty), absent ids are 0.  kinds: P param, F freevar, A call argument, C call,
// R return value, K closure, V bound variable, L bound label, W global access, S synthetic, I if.
// in  = src:tupleindex;...     out = dst:i1/i2;...
package main

import (
	"bufio"
	"flag"
	"fmt"
	"os"
	"path/filepath"
	"regexp"
	"sort"
	"strings"
	"sync"

	"github.com/awslabs/ar-go-tools/analysis/backtrace"
	"github.com/awslabs/ar-go-tools/analysis/config"
	df "github.com/awslabs/ar-go-tools/analysis/dataflow"
	"github.com/awslabs/ar-go-tools/analysis/lang"
	"github.com/awslabs/ar-go-tools/analysis/taint"
	"github.com/awslabs/ar-go-tools/verifharness/hutil"
	"golang.org/x/tools/go/packages"
	"golang.org/x/tools/go/ssa"
)

type dumper struct {
	w       *bufio.Writer
	state   *df.AnalyzerState
	graphs  []*df.SummaryGraph
	gseen   map[*df.SummaryGraph]bool
	nodes   map[*df.SummaryGraph][]df.GraphNode
	nseen   map[df.GraphNode]bool
	gid     map[*df.SummaryGraph]int
	nid     map[df.GraphNode]int
	fnid    map[*ssa.Function]int
	instrid map[ssa.CallInstruction]int
	globid  map[*df.GlobalNode]int
	globs   []*df.GlobalNode
	work    []df.GraphNode
}

func (d *dumper) addGraph(g *df.SummaryGraph) {
	if g == nil || d.gseen[g] {
		return
	}
	d.gseen[g] = true
	d.graphs = append(d.graphs, g)
	g.ForAllNodes(func(n df.GraphNode) { d.addNode(n) })
	for _, n := range g.Ifs {
		d.addNode(n)
	}
	for _, c := range g.Callsites {
		d.addNode(c)
	}
	for _, c := range g.ReferringMakeClosures {
		d.addNode(c)
	}
}

func isNilNode(n df.GraphNode) bool {
	if n == nil {
		return true
	}
	switch x := n.(type) {
	case *df.ParamNode:
		return x == nil
	case *df.FreeVarNode:
		return x == nil
	case *df.CallNodeArg:
		return x == nil
	case *df.CallNode:
		return x == nil
	case *df.ReturnValNode:
		return x == nil
	case *df.ClosureNode:
		return x == nil
	case *df.BoundVarNode:
		return x == nil
	case *df.BoundLabelNode:
		return x == nil
	case *df.AccessGlobalNode:
		return x == nil
	case *df.SyntheticNode:
		return x == nil
	case *df.IfNode:
		return x == nil
	}
	return false
}

func (d *dumper) addNode(n df.GraphNode) {
	if isNilNode(n) || d.nseen[n] {
		return
	}
	d.nseen[n] = true
	d.work = append(d.work, n)
}

// close discovers every graph and node referenced from the registered ones.
func (d *dumper) close() {
	for len(d.work) > 0 {
		n := d.work[len(d.work)-1]
		d.work = d.work[:len(d.work)-1]
		g := n.Graph()
		d.nodes[g] = append(d.nodes[g], n)
		d.addGraph(g)
		for m := range n.In() {
			d.addNode(m)
		}
		for m := range n.Out() {
			d.addNode(m)
		}
		switch x := n.(type) {
		case *df.CallNodeArg:
			d.addNode(x.ParentNode())
		case *df.CallNode:
			for _, a := range x.Args() {
				d.addNode(a)
			}
			d.addGraph(x.CalleeSummary)
		case *df.ClosureNode:
			for _, b := range x.BoundVars() {
				d.addNode(b)
			}
			d.addGraph(x.ClosureSummary)
		case *df.BoundVarNode:
			d.addNode(x.ParentNode())
		case *df.AccessGlobalNode:
			if x.Global != nil {
				if _, ok := d.globid[x.Global]; !ok {
					d.globid[x.Global] = len(d.globs) + 1
					d.globs = append(d.globs, x.Global)
				}
				for m := range x.Global.WriteLocations {
					d.addNode(m)
				}
			}
		}
	}
}

func kindOf(n df.GraphNode) string {
	switch n.(type) {
	case *df.ParamNode:
		return "P"
	case *df.FreeVarNode:
		return "F"
	case *df.CallNodeArg:
		return "A"
	case *df.CallNode:
		return "C"
	case *df.ReturnValNode:
		return "R"
	case *df.ClosureNode:
		return "K"
	case *df.BoundVarNode:
		return "V"
	case *df.BoundLabelNode:
		return "L"
	case *df.AccessGlobalNode:
		return "W"
	case *df.SyntheticNode:
		return "S"
	case *df.IfNode:
		return "I"
	}
	return "?"
}

func ids(xs []int) string {
	if len(xs) == 0 {
		return "-"
	}
	s := make([]string, len(xs))
	for i, x := range xs {
		s[i] = fmt.Sprint(x)
	}
	return strings.Join(s, ",")
}

func b2i(b bool) int {
	if b {
		return 1
	}
	return 0
}

func (d *dumper) nodeIDs(ns []df.GraphNode, sorted bool) []int {
	out := []int{}
	seen := map[int]bool{}
	for _, n := range ns {
		if isNilNode(n) {
			continue
		}
		i := d.nid[n]
		if !seen[i] {
			seen[i] = true
			out = append(out, i)
		}
	}
	if sorted {
		sort.Ints(out)
	}
	return out
}

func (d *dumper) number() {
	sort.SliceStable(d.graphs, func(i, j int) bool { return d.graphs[i].ID < d.graphs[j].ID })
	next := 1
	for i, g := range d.graphs {
		d.gid[g] = i + 1
		ns := d.nodes[g]
		sort.SliceStable(ns, func(a, b int) bool {
			if ns[a].ID() != ns[b].ID() {
				return ns[a].ID() < ns[b].ID()
			}
			return kindOf(ns[a]) < kindOf(ns[b])
		})
		for _, n := range ns {
			d.nid[n] = next
			next++
		}
	}
}

func (d *dumper) fn(f *ssa.Function) int {
	if f == nil {
		return 0
	}
	if i, ok := d.fnid[f]; ok {
		return i
	}
	d.fnid[f] = len(d.fnid) + 1
	return d.fnid[f]
}

func (d *dumper) instr(c ssa.CallInstruction) int {
	if c == nil {
		return 0
	}
	if i, ok := d.instrid[c]; ok {
		return i
	}
	d.instrid[c] = len(d.instrid) + 1
	return d.instrid[c]
}

func clean(s string) string {
	s = strings.ReplaceAll(s, "\n", " ")
	s = strings.ReplaceAll(s, "\r", " ")
	return s
}

func (d *dumper) dumpGraph() {
	w := d.w
	for _, g := range d.graphs {
		var params, fvs []int
		if g.Parent != nil {
			for _, p := range g.Parent.Params {
				if pn, ok := g.Params[p]; ok && pn != nil {
					params = append(params, d.nid[pn])
				} else {
					params = append(params, 0)
				}
			}
			for _, p := range g.Parent.FreeVars {
				if pn, ok := g.FreeVars[p]; ok && pn != nil {
					fvs = append(fvs, d.nid[pn])
				} else {
					fvs = append(fvs, 0)
				}
			}
		}
		var rets, css, rcs []df.GraphNode
		for _, tup := range g.Returns {
			for _, r := range tup {
				rets = append(rets, r)
			}
		}
		for _, c := range g.Callsites {
			css = append(css, c)
		}
		for _, c := range g.ReferringMakeClosures {
			rcs = append(rcs, c)
		}
		name := "-"
		if g.Parent != nil {
			name = strings.ReplaceAll(g.Parent.String(), " ", "_")
		}
		fmt.Fprintf(w, "G %d %d %s %s %s %s %s %s\n", d.gid[g], b2i(g.Constructed), ids(params), ids(fvs),
			ids(d.nodeIDs(rets, true)), ids(d.nodeIDs(css, true)), ids(d.nodeIDs(rcs, true)), name)
	}
	for _, g := range d.graphs {
		for _, n := range d.nodes[g] {
			idx, parent, fa, fb, a1, a2, a3 := 0, 0, 0, 0, 0, 0, 0
			list := "-"
			out := "-"
			switch x := n.(type) {
			case *df.ParamNode:
				idx = x.Index()
			case *df.FreeVarNode:
				idx = x.Index()
			case *df.CallNodeArg:
				idx = x.Index()
				parent = d.nid[x.ParentNode()]
				fa = b2i(lang.IsNillableType(x.Type()))
				if _, ok := d.state.BoundingInfo[x.Value()]; ok {
					fb = 1
				}
			case *df.CallNode:
				var as []df.GraphNode
				for _, a := range x.Args() {
					as = append(as, a)
				}
				list = ids(d.nodeIDs(as, false))
				if x.CalleeSummary != nil {
					a1 = d.gid[x.CalleeSummary]
				}
				a2 = d.fn(x.Callee())
				a3 = d.instr(x.CallSite())
				fa = b2i(strings.Contains(x.ParentName(), "$bound"))
				if _, isGo := x.CallSite().(*ssa.Go); isGo {
					fb = 1
				} else if _, isDefer := x.CallSite().(*ssa.Defer); isDefer {
					fb = 2
				}
			case *df.ReturnValNode:
				idx = x.Index()
			case *df.ClosureNode:
				var bs []df.GraphNode
				for _, b := range x.BoundVars() {
					bs = append(bs, b)
				}
				list = ids(d.nodeIDs(bs, false))
				if x.ClosureSummary != nil {
					a1 = d.gid[x.ClosureSummary]
				}
			case *df.BoundVarNode:
				idx = x.Index()
				parent = d.nid[x.ParentNode()]
			case *df.AccessGlobalNode:
				fa = b2i(x.IsWrite)
				a1 = d.globid[x.Global]
			}
			// in edges
			var ins []string
			for m, info := range n.In() {
				if isNilNode(m) {
					continue
				}
				ins = append(ins, fmt.Sprintf("%09d:%d", d.nid[m], info.Index))
			}
			sort.Strings(ins)
			for i := range ins {
				ins[i] = strings.TrimLeft(ins[i], "0")
			}
			in := "-"
			if len(ins) > 0 {
				in = strings.Join(ins, ";")
			}
			var outs []string
			for m, infos := range n.Out() {
				if isNilNode(m) {
					continue
				}
				var is []string
				for _, info := range infos {
					is = append(is, fmt.Sprint(info.Index))
				}
				outs = append(outs, fmt.Sprintf("%09d:%s", d.nid[m], strings.Join(is, "/")))
			}
			sort.Strings(outs)
			for i := range outs {
				outs[i] = strings.TrimLeft(outs[i], "0")
			}
			if len(outs) > 0 {
				out = strings.Join(outs, ";")
			}
			pos := n.Position(d.state)
			ps := "-"
			if pos.IsValid() {
				ps = fmt.Sprintf("%s:%d:%d", filepath.Base(pos.Filename), pos.Line, pos.Column)
			}
			fmt.Fprintf(w, "N %d %s %d %d %d %d %d %d %d %d %s %s %s %s %s\n", d.nid[n], kindOf(n), d.gid[g], idx, parent,
				fa, fb, a1, a2, a3, in, out, list, ps, clean(n.String()))
		}
	}
	for i, gl := range d.globs {
		var ws []df.GraphNode
		for m := range gl.WriteLocations {
			ws = append(ws, m)
		}
		fmt.Fprintf(w, "GL %d %s\n", i+1, ids(d.nodeIDs(ws, true)))
	}
}

// evWriter receives everything the analysis logs.  It raises the log level to trace when the inter-procedural pass
// starts and keeps the two kinds of lines that determine the run: "==> Node: <arg>" (visit of an entry argument begins)
// and "Adding <node> at <pos>" (addNext pushed a node).  Go map iteration order is thereby observed, not guessed.
type evWriter struct {
	mu     sync.Mutex
	lg     *config.LogGroup
	events []string // "B g.n" / "A g.n" / "V g.n t,t,..|c,c,.."
	trace  bool
	pendN  string
	pendT  string
}

func allIDs(s string) string {
	ms := idRe.FindAllStringSubmatch(s, -1)
	if len(ms) == 0 {
		return "-"
	}
	out := make([]string, len(ms))
	for i, m := range ms {
		out[i] = m[1] + "." + m[2]
	}
	return strings.Join(out, ",")
}

var idRe = regexp.MustCompile(`\[#(\d+)\.(\d+)\]`)

func (e *evWriter) Write(p []byte) (int, error) {
	e.mu.Lock()
	defer e.mu.Unlock()
	s := string(p)
	if e.trace && !e.lg.LogsTrace() && strings.Contains(s, "Starting inter-procedural pass") {
		e.lg.Level = config.TraceLevel
	}
	if i := strings.Index(s, "==> Node: "); i >= 0 {
		if m := idRe.FindStringSubmatch(s[i:]); m != nil {
			e.events = append(e.events, "B "+m[1]+"."+m[2])
		}
	} else if i := strings.Index(s, "Adding \""); i >= 0 && !strings.Contains(s, "Adding trace") {
		if m := idRe.FindStringSubmatch(s[i:]); m != nil {
			e.events = append(e.events, "A "+m[1]+"."+m[2])
		}
	} else if i := strings.Index(s, "Visiting *"); i >= 0 {
		if m := idRe.FindStringSubmatch(s[i:]); m != nil {
			e.pendN = m[1] + "." + m[2]
		}
	} else if i := strings.Index(s, "Element trace: "); i >= 0 && e.pendN != "" {
		e.pendT = allIDs(s[i:])
	} else if i := strings.Index(s, "Element closure trace: "); i >= 0 && e.pendN != "" {
		e.events = append(e.events, "V "+e.pendN+" "+e.pendT+" "+allIDs(s[i:]))
		e.pendN = ""
	}
	return len(p), nil
}

func runTaint(w *bufio.Writer, dir string, prog *ssa.Program, pkgs []*packages.Package) {
	fmt.Fprintf(w, "P %s taint\n", dir)
	defer fmt.Fprintf(w, "END\n")
	cfg, err := config.LoadFromFiles(filepath.Join(dir, "config.yaml"))
	if err != nil {
		fmt.Fprintf(w, "X config: %s\n", clean(err.Error()))
		return
	}
	cfg.LogLevel = int(config.ErrLevel)
	cfg.SilenceWarn = true
	var res taint.AnalysisResult
	func() {
		defer func() {
			if r := recover(); r != nil {
				err = fmt.Errorf("PANIC %v", r)
			}
		}()
		res, err = taint.Analyze(cfg, prog, pkgs)
	}()
	if err != nil {
		fmt.Fprintf(w, "X %s\n", clean(err.Error()))
	}
	if res.TaintFlows == nil {
		return
	}
	lines := map[string]bool{}
	for sink, sources := range res.TaintFlows.Sinks {
		for source := range sources {
			sp := prog.Fset.Position(source.Instr.Pos())
			kp := prog.Fset.Position(sink.Instr.Pos())
			lines[fmt.Sprintf("F %s %d %s %d", calleeName(source.Instr), sp.Line, calleeName(sink.Instr), kp.Line)] = true
		}
	}
	keys := make([]string, 0, len(lines))
	for k := range lines {
		keys = append(keys, k)
	}
	sort.Strings(keys)
	for _, k := range keys {
		fmt.Fprintln(w, k)
	}
}

func calleeName(i ssa.Instruction) string {
	ci, ok := i.(ssa.CallInstruction)
	if !ok {
		return "?" + strings.ReplaceAll(i.String(), " ", "_")
	}
	c := ci.Common()
	if c.IsInvoke() {
		return c.Method.Name()
	}
	if f := c.StaticCallee(); f != nil {
		return f.Name()
	}
	return c.Value.Name()
}

func runDir(w *bufio.Writer, dir string, onDemand bool, sinksAsBt bool, prog *ssa.Program, pkgs []*packages.Package) (err error) {
	mode := "eager"
	if onDemand {
		mode = "ondemand"
	}
	fmt.Fprintf(w, "P %s %s\n", dir, mode)
	cfg, err := config.LoadFromFiles(filepath.Join(dir, "config.yaml"))
	if err != nil {
		return fmt.Errorf("config: %v", err)
	}
	cfg.SummarizeOnDemand = onDemand
	cfg.LogLevel = int(config.InfoLevel)
	cfg.SilenceWarn = true
	if (sinksAsBt || len(cfg.SlicingProblems) == 0) && len(cfg.TaintTrackingProblems) > 0 {
		cfg.SlicingProblems = []config.SlicingSpec{{BacktracePoints: cfg.TaintTrackingProblems[0].Sinks}}
	}
	logger := config.NewLogGroup(cfg)
	ev := &evWriter{lg: logger, trace: true}
	logger.SetAllOutput(ev)
	var res backtrace.AnalysisResult
	var aerr error
	func() {
		defer func() {
			if r := recover(); r != nil {
				aerr = fmt.Errorf("PANIC %v", r)
			}
		}()
		res, aerr = backtrace.Analyze(logger, cfg, prog, pkgs)
	}()
	skip := 0
	for _, ss := range cfg.SlicingProblems {
		if ss.SkipBoundLabels {
			skip = 1
		}
	}
	fmt.Fprintf(w, "CFG %d %d %d\n", b2i(onDemand), cfg.UnsafeMaxDepth, skip)
	if aerr != nil {
		fmt.Fprintf(w, "X %s\n", clean(aerr.Error()))
	}
	state := res.Graph.AnalyzerState
	if state == nil {
		fmt.Fprintf(w, "END\n")
		return nil
	}
	d := &dumper{w: w, state: state, gseen: map[*df.SummaryGraph]bool{}, nodes: map[*df.SummaryGraph][]df.GraphNode{},
		nseen: map[df.GraphNode]bool{}, gid: map[*df.SummaryGraph]int{}, nid: map[df.GraphNode]int{},
		fnid: map[*ssa.Function]int{}, instrid: map[ssa.CallInstruction]int{}, globid: map[*df.GlobalNode]int{}}
	for _, g := range res.Graph.Summaries {
		d.addGraph(g)
	}
	for arg, traces := range res.Traces {
		d.addNode(arg)
		for _, t := range traces {
			for _, tn := range t {
				d.addNode(tn.GraphNode)
			}
		}
	}
	d.close()
	d.number()
	d.dumpGraph()
	// entries: what the real entry scan (scanEntryPoints with the backtrace predicate) selects
	var entries []string
	for _, g := range d.graphs {
		for _, n := range d.nodes[g] {
			c, ok := n.(*df.CallNode)
			if !ok || c.CallSite() == nil {
				continue
			}
			for si := range cfg.SlicingProblems {
				if backtrace.IsInterProceduralEntryPoint(state, &cfg.SlicingProblems[si], c.CallSite().Value()) {
					var as []df.GraphNode
					for _, a := range c.Args() {
						as = append(as, a)
					}
					entries = append(entries, fmt.Sprintf("E %d %s", d.nid[c], ids(d.nodeIDs(as, false))))
					break
				}
			}
		}
	}
	for _, e := range entries {
		fmt.Fprintln(w, e)
	}
	var tl []string
	for arg, traces := range res.Traces {
		for _, t := range traces {
			var ns []int
			for _, tn := range t {
				ns = append(ns, d.nid[tn.GraphNode])
			}
			tl = append(tl, fmt.Sprintf("T %d %s", d.nid[arg], ids(ns)))
		}
	}
	sort.Strings(tl)
	for _, t := range tl {
		fmt.Fprintln(w, t)
	}
	byLong := map[string]int{}
	for _, g := range d.graphs {
		for _, n := range d.nodes[g] {
			byLong[fmt.Sprintf("%d.%d", g.ID, n.ID())] = d.nid[n]
		}
	}
	mapIDs := func(l string) string {
		if l == "-" {
			return "-"
		}
		parts := strings.Split(l, ",")
		for i, x := range parts {
			parts[i] = fmt.Sprint(byLong[x])
		}
		return strings.Join(parts, ",")
	}
	for _, e := range ev.events {
		f := strings.Fields(e)
		id, ok := byLong[f[1]]
		if !ok {
			fmt.Fprintf(w, "X unknown node in event %s\n", e)
			continue
		}
		if f[0] == "V" {
			fmt.Fprintf(w, "V %d %s %s\n", id, mapIDs(f[2]), mapIDs(f[3]))
		} else {
			fmt.Fprintf(w, "%s %d\n", f[0], id)
		}
	}
	fmt.Fprintf(w, "END\n")
	return nil
}

func main() {
	out := flag.String("o", "-", "output file")
	onDemand := flag.Bool("ondemand", false, "summarize-on-demand")
	both := flag.Bool("both", false, "run every directory eagerly and on demand")
	sinks := flag.Bool("sinks-as-bt", false, "use the sinks of the first taint problem as backtrace points (as the repo's tests do)")
	rewrites := flag.Bool("rewrites", true, "apply the source rewrites the argot CLI applies")
	withTaint := flag.Bool("taint", false, "also run the real taint analysis (config's taint-tracking-problems) and print its flows (F lines)")
	flag.Parse()
	w := bufio.NewWriter(os.Stdout)
	if *out != "-" {
		f, err := os.Create(*out)
		if err != nil {
			panic(err)
		}
		defer f.Close()
		w = bufio.NewWriter(f)
	}
	defer w.Flush()
	rc := 0
	modes := []bool{*onDemand}
	if *both {
		modes = []bool{false, true}
	}
	for _, dir := range flag.Args() {
		prog, pkgs, lerr := hutil.LoadDir(dir, *rewrites)
		if lerr != nil {
			fmt.Fprintf(w, "P %s load\nX FAIL load: %s\nEND\n", dir, clean(lerr.Error()))
			rc = 2
			continue
		}
		if *withTaint {
			func() {
				defer func() {
					if r := recover(); r != nil {
						fmt.Fprintf(w, "X HARNESS-PANIC %v\nEND\n", r)
						rc = 3
					}
				}()
				runTaint(w, dir, prog, pkgs)
			}()
			w.Flush()
		}
		for _, od := range modes {
			func() {
				defer func() {
					if r := recover(); r != nil {
						fmt.Fprintf(w, "X HARNESS-PANIC %v\nEND\n", r)
						rc = 3
					}
				}()
				if err := runDir(w, dir, od, *sinks, prog, pkgs); err != nil {
					fmt.Fprintf(w, "X FAIL %s\nEND\n", clean(err.Error()))
					rc = 2
				}
			}()
			w.Flush()
		}
	}
	w.Flush()
	os.Exit(rc)
}
