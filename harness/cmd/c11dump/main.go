// c11dump runs the REAL pointer analysis the way the repository does (dataflow.NewInitializedAnalyzerState, i.e.
// DoPointerAnalysis with queries on every value of user functions) on an instrumented generated program and prints, in a
// canonical line format:
//
//	FN <fn> <user|synth> <tag|-> <reach 0/1>            functions of the user package, synthetic wrappers met on the way
//	SITE <id> <allocating value key>                    siteX(id, v) calls: allocation-site id -> SSA value that allocates
//	PROBE <id> <kind> <value key> <Q|NOQUERY> | <label>*  probeX(id, v) calls: points-to labels of v (value key + "|" + path)
//	Q <value key> | <label>*                            every queried value of the user functions (model tie)
//	CS <id> <caller fn> <instr key>                     cs(id) markers: the call instruction that follows
//	EDGE <caller fn> <instr key> <callee fn>            call-graph edges out of user functions and synthetic wrappers
//	RES <id> <callee fn>*                               dataflow.ResolveCallee(site, true)
//	MA <id1> <id2> <0|1>                                MayAlias answers for the probe pairs given with -pairs
//	NOEFF <name> <pure 0/1> <signature>                 the built-in no-effect intrinsics present in the program
//
// With -mu it also translates the user functions to muSSA (see mu.go) for the extracted Coq model.
package main

import (
	"bufio"
	"flag"
	"fmt"
	"go/constant"
	"go/types"
	"os"
	"sort"
	"strings"
	"time"

	"github.com/awslabs/ar-go-tools/analysis/config"
	"github.com/awslabs/ar-go-tools/analysis/dataflow"
	"github.com/awslabs/ar-go-tools/internal/pointer"
	"github.com/awslabs/ar-go-tools/verifharness/hutil"
	"golang.org/x/tools/go/callgraph"
	"golang.org/x/tools/go/ssa"
	"golang.org/x/tools/go/ssa/ssautil"
)

func san(s string) string { return strings.ReplaceAll(s, " ", "_") }

func fnKey(f *ssa.Function) string { return san(f.String()) }

// valKey names an SSA value: <fn>:<name> for function-local values, global:<name>, func:<name>.
func valKey(v ssa.Value) string {
	switch v := v.(type) {
	case *ssa.Global:
		return "global:" + san(v.String())
	case *ssa.Function:
		return "func:" + fnKey(v)
	case *ssa.Const:
		return "const:" + san(v.String())
	case *ssa.Builtin:
		return "builtin:" + v.Name()
	}
	if p := v.Parent(); p != nil {
		switch v.(type) {
		case *ssa.FreeVar:
			return fnKey(p) + ":^" + v.Name() // free variables and parameters may share names with registers
		case *ssa.Parameter:
			return fnKey(p) + ":%" + v.Name()
		}
		return fnKey(p) + ":" + v.Name()
	}
	return "?:" + v.Name()
}

func labelKey(l *pointer.Label) string {
	if v := l.Value(); v != nil {
		return valKey(v) + "|" + san(l.Path())
	}
	if t := l.ReflectType(); t != nil {
		return "rtype:" + san(t.String()) + "|"
	}
	return "other:" + san(l.String()) + "|"
}

func labelsOf(p pointer.Pointer) []string {
	seen := map[string]bool{}
	for _, l := range p.PointsTo().Labels() {
		seen[labelKey(l)] = true
	}
	out := make([]string, 0, len(seen))
	for k := range seen {
		out = append(out, k)
	}
	sort.Strings(out)
	return out
}

func instrKey(i ssa.Instruction) string {
	b := i.Block()
	for k, x := range b.Instrs {
		if x == i {
			return fmt.Sprintf("%s:@%d.%d", fnKey(b.Parent()), b.Index, k)
		}
	}
	return fnKey(b.Parent()) + ":@?"
}

func constInt(v ssa.Value) (int64, bool) {
	c, ok := v.(*ssa.Const)
	if !ok || c.Value == nil || c.Value.Kind() != constant.Int {
		return 0, false
	}
	return c.Int64(), true
}

func constStr(v ssa.Value) (string, bool) {
	c, ok := v.(*ssa.Const)
	if !ok || c.Value == nil || c.Value.Kind() != constant.String {
		return "", false
	}
	return constant.StringVal(c.Value), true
}

// isUserFn: function belongs to the user (main) package, including closures, methods and generic instances.
func isUserFn(f *ssa.Function, mainPkg *ssa.Package) bool {
	for g := f; g != nil; g = g.Parent() {
		if g.Pkg == mainPkg {
			return true
		}
		if o := g.Origin(); o != nil && o.Pkg == mainPkg {
			return true
		}
		if g.Pkg == nil && g.Object() != nil && g.Object().Pkg() == mainPkg.Pkg && g.Synthetic == "" {
			return true
		}
	}
	return false
}

// allocRoot strips Slice instructions: make([]T, const) is `slice (new [n]T)`.
func allocRoot(v ssa.Value) ssa.Value {
	for {
		s, ok := v.(*ssa.Slice)
		if !ok {
			return v
		}
		v = s.X
	}
}

type marks struct {
	tagOf   map[*ssa.Function]string
	probes  []probe
	sites   []probe
	callsit []csite
}

type probe struct {
	id       int64
	kind     string
	v        ssa.Value
	indirect bool // the points-to set of *v (Result.IndirectQueries[v]), as the dataflow layer's getIndirectPointer reads it
}

type csite struct {
	id    int64
	instr ssa.CallInstruction
}

func isMarker(name string) bool {
	return name == "cs" || name == "enter" || strings.HasPrefix(name, "probe") || strings.HasPrefix(name, "site") || strings.HasPrefix(name, "iobs")
}

func staticName(c *ssa.CallCommon, mainPkg *ssa.Package) string {
	f := c.StaticCallee()
	if f == nil || f.Pkg != mainPkg || f.Parent() != nil || f.Signature.Recv() != nil {
		return ""
	}
	return f.Name()
}

func scanMarks(fns []*ssa.Function, mainPkg *ssa.Package) *marks {
	m := &marks{tagOf: map[*ssa.Function]string{}}
	for _, f := range fns {
		for _, b := range f.Blocks {
			var pending *int64
			for _, ins := range b.Instrs {
				ci, ok := ins.(ssa.CallInstruction)
				if !ok {
					continue
				}
				c := ci.Common()
				name := staticName(c, mainPkg)
				switch {
				case name == "cs":
					if id, ok := constInt(c.Args[0]); ok {
						x := id
						pending = &x
					}
				case name == "enter":
					if s, ok := constStr(c.Args[0]); ok {
						m.tagOf[f] = s
					}
				case strings.HasPrefix(name, "probe"):
					if id, ok := constInt(c.Args[0]); ok {
						m.probes = append(m.probes, probe{id, name[5:], c.Args[1], false})
					}
				case strings.HasPrefix(name, "site"):
					if id, ok := constInt(c.Args[0]); ok {
						m.sites = append(m.sites, probe{id, name[4:], allocRoot(c.Args[1]), false})
					}
				case strings.HasPrefix(name, "iobs"):
					// observation of *p for the parameter p of accessor acc<N>: handled below
				default:
					if _, isB := c.Value.(*ssa.Builtin); isB {
						continue
					}
					if pending != nil {
						m.callsit = append(m.callsit, csite{*pending, ci})
						pending = nil
					}
				}
			}
		}
	}
	// call-free accessors acc<N>(p **T | *[]*T | *map..): indirect probe 900000+N on their first parameter
	for _, f := range fns {
		if f.Pkg != mainPkg || f.Parent() != nil || !strings.HasPrefix(f.Name(), "acc") || len(f.Params) == 0 {
			continue
		}
		var n int64
		if _, err := fmt.Sscanf(f.Name(), "acc%d", &n); err != nil {
			continue
		}
		kind := "T"
		if pt, ok := f.Params[0].Type().Underlying().(*types.Pointer); ok {
			switch pt.Elem().Underlying().(type) {
			case *types.Slice:
				kind = "S"
			case *types.Map:
				kind = "M"
			}
		}
		m.probes = append(m.probes, probe{900000 + n, kind, f.Params[0], true})
	}
	return m
}

// writeCG dumps the call graph the way dataflow.CallGraphReachable sees it: E from to / ENTRY id (main and init of the
// main package, as findCallgraphEntryPoints selects them) / R id (the implementation's ReachableFunctions()).
func writeCG(path string, cg *callgraph.Graph, reach map[*ssa.Function]bool) error {
	fh, err := os.Create(path)
	if err != nil {
		return err
	}
	w := bufio.NewWriter(fh)
	var lines []string
	for f, n := range cg.Nodes {
		if n.ID != 0 && f != nil && f.Pkg != nil && f.Pkg.Pkg.Name() == "main" && (f.Name() == "main" || f.Name() == "init") {
			lines = append(lines, fmt.Sprintf("ENTRY %d", n.ID+1))
		}
		for _, e := range n.Out {
			lines = append(lines, fmt.Sprintf("E %d %d", n.ID+1, e.Callee.ID+1))
		}
		if f != nil && reach[f] {
			lines = append(lines, fmt.Sprintf("R %d", n.ID+1))
		}
	}
	sort.Strings(lines)
	for _, l := range lines {
		fmt.Fprintln(w, l)
	}
	w.Flush()
	return fh.Close()
}

func main() {
	out := flag.String("o", "-", "output file")
	pairs := flag.String("pairs", "", "file with 'id1 id2' probe pairs to answer MayAlias for")
	cfgFile := flag.String("config", "", "optional argot config file (e.g. pointer no-effect functions)")
	mu := flag.String("mu", "", "write the muSSA translation of the user functions to this file")
	cgOnly := flag.Bool("cgonly", false, "also run the call-graph-only entry point (dataflow.PointerAnalysis.ComputeCallgraph, no queries) and print CGOFN/CGOEDGE lines")
	cgOut := flag.String("cg", "", "write the whole call graph (node ids, edges, entry points, impl reachable set) to this file")
	rewrites := flag.Bool("rewrites", true, "apply the source rewrites the argot CLI applies")
	flag.StringVar(&repoDir, "repo", "/repo", "checkout of ar-go-tools the harness was built against (source of the intrinsics table)")
	flag.Parse()
	w := bufio.NewWriter(os.Stdout)
	if *out != "-" {
		f, err := os.Create(*out)
		if err != nil {
			panic(err)
		}
		defer f.Close()
		w = bufio.NewWriter(f)
	}
	defer w.Flush()
	if flag.NArg() != 1 {
		fmt.Fprintln(os.Stderr, "usage: c11dump [flags] <program dir>")
		os.Exit(2)
	}
	dir := flag.Arg(0)
	cfg := config.NewDefault()
	if *cfgFile != "" {
		c, err := config.LoadFromFiles(*cfgFile)
		if err != nil {
			fmt.Fprintf(os.Stderr, "config: %v\n", err)
			os.Exit(2)
		}
		cfg = c
	}
	cfg.LogLevel = int(config.ErrLevel)
	lg := config.NewLogGroup(cfg)
	lg.SetAllOutput(os.Stderr)
	t0 := time.Now()
	prog, pkgs, err := hutil.LoadDir(dir, *rewrites)
	fmt.Fprintf(os.Stderr, "c11dump: load %.1fs\n", time.Since(t0).Seconds())
	if err != nil {
		fmt.Fprintf(os.Stderr, "load %s: %v\n", dir, err)
		os.Exit(2)
	}
	state, err := dataflow.NewInitializedAnalyzerState(prog, pkgs, lg, cfg)
	if err != nil || state == nil || state.PointerAnalysis == nil {
		fmt.Fprintf(os.Stderr, "analyzer state: %v\n", err)
		os.Exit(3)
	}
	fmt.Fprintf(os.Stderr, "c11dump: state %.1fs\n", time.Since(t0).Seconds())
	mains := ssautil.MainPackages(prog.AllPackages())
	if len(mains) != 1 {
		fmt.Fprintf(os.Stderr, "expected one main package, got %d\n", len(mains))
		os.Exit(2)
	}
	mainPkg := mains[0]
	ptr := state.PointerAnalysis
	cg := ptr.CallGraph
	reach := state.ReachableFunctions()

	var user []*ssa.Function
	for _, f := range hutil.SortedFunctions(prog) {
		if isUserFn(f, mainPkg) {
			user = append(user, f)
		}
	}
	m := scanMarks(user, mainPkg)
	fmt.Fprintf(w, "PROG %s\n", dir)

	// functions: user ones plus synthetic wrappers reachable from them through call-graph edges
	listed := map[*ssa.Function]bool{}
	var order []*ssa.Function
	add := func(f *ssa.Function) {
		if !listed[f] {
			listed[f] = true
			order = append(order, f)
		}
	}
	for _, f := range user {
		add(f)
	}
	type edge struct{ caller, site, callee string }
	var edges []edge
	for i := 0; i < len(order); i++ {
		f := order[i]
		n := cg.Nodes[f]
		if n == nil {
			continue
		}
		for _, e := range n.Out {
			site := "-"
			if e.Site != nil {
				site = instrKey(e.Site)
			}
			edges = append(edges, edge{fnKey(f), site, fnKey(e.Callee.Func)})
			if g := e.Callee.Func; g.Synthetic != "" || isUserFn(g, mainPkg) {
				add(g)
			}
		}
	}
	// wrappers that are only targets of method tables / bound closures also matter for tags: list every function that
	// carries an enter tag or is synthetic and refers to a user method
	for _, f := range order {
		kind := "user"
		if !isUserFn(f, mainPkg) {
			kind = "synth"
		}
		tag := m.tagOf[f]
		if tag == "" {
			tag = "-"
		}
		r := 0
		if reach[f] {
			r = 1
		}
		fmt.Fprintf(w, "FN %s %s %s %d\n", fnKey(f), kind, tag, r)
	}
	for _, s := range m.sites {
		fmt.Fprintf(w, "SITE %d %s %s\n", s.id, s.kind, valKey(s.v))
	}
	probePtr := map[int64]*pointer.Pointer{}
	for _, p := range m.probes {
		q, ok := ptr.Queries[p.v]
		if p.indirect {
			q, ok = ptr.IndirectQueries[p.v]
		}
		if ok {
			qq := q
			probePtr[p.id] = &qq
		} else {
			probePtr[p.id] = nil
		}
		if p.indirect {
			if ok {
				fmt.Fprintf(w, "PROBE %d %s *%s Q | %s\n", p.id, p.kind, valKey(p.v), strings.Join(labelsOf(q), " "))
			} else {
				fmt.Fprintf(w, "PROBE %d %s *%s NOQUERY |\n", p.id, p.kind, valKey(p.v))
			}
			continue
		}
		if ok {
			fmt.Fprintf(w, "PROBE %d %s %s Q | %s\n", p.id, p.kind, valKey(p.v), strings.Join(labelsOf(q), " "))
		} else {
			fmt.Fprintf(w, "PROBE %d %s %s NOQUERY |\n", p.id, p.kind, valKey(p.v))
		}
	}
	// all queried values of user functions
	var qlines []string
	for v, q := range ptr.Queries {
		var f *ssa.Function
		switch v.(type) {
		case *ssa.Global, *ssa.Function, *ssa.Const, *ssa.Builtin:
			continue
		}
		f = v.Parent()
		if f == nil || !isUserFn(f, mainPkg) {
			continue
		}
		qlines = append(qlines, fmt.Sprintf("Q %s | %s", valKey(v), strings.Join(labelsOf(q), " ")))
	}
	sort.Strings(qlines)
	for _, l := range qlines {
		fmt.Fprintln(w, l)
	}
	for _, c := range m.callsit {
		fmt.Fprintf(w, "CS %d %s %s\n", c.id, fnKey(c.instr.Parent()), instrKey(c.instr))
	}
	sort.Slice(edges, func(i, j int) bool {
		a, b := edges[i], edges[j]
		if a.caller != b.caller {
			return a.caller < b.caller
		}
		if a.site != b.site {
			return a.site < b.site
		}
		return a.callee < b.callee
	})
	for _, e := range edges {
		fmt.Fprintf(w, "EDGE %s %s %s\n", e.caller, e.site, e.callee)
	}
	for _, c := range m.callsit {
		res, err := state.ResolveCallee(c.instr, true)
		var names []string
		if err == nil {
			for f := range res {
				names = append(names, fnKey(f))
			}
		}
		sort.Strings(names)
		fmt.Fprintf(w, "RES %d %s\n", c.id, strings.Join(names, " "))
	}
	if *pairs != "" {
		f, err := os.Open(*pairs)
		if err != nil {
			panic(err)
		}
		sc := bufio.NewScanner(f)
		for sc.Scan() {
			var a, b int64
			if n, _ := fmt.Sscanf(sc.Text(), "%d %d", &a, &b); n != 2 {
				continue
			}
			qa, qb := probePtr[a], probePtr[b]
			ans := "NOQUERY"
			if qa != nil && qb != nil {
				ans = "0"
				if qa.MayAlias(*qb) {
					ans = "1"
				}
			}
			fmt.Fprintf(w, "MA %d %d %s\n", a, b, ans)
		}
		f.Close()
	}
	if *cgOnly {
		// the entry point used by `argot render` / `compare`: pointer analysis without any query
		cg2, err := dataflow.PointerAnalysis.ComputeCallgraph(prog)
		if err != nil || cg2 == nil {
			fmt.Fprintf(os.Stderr, "call-graph-only analysis: %v\n", err)
			os.Exit(3)
		}
		reach2 := dataflow.CallGraphReachable(cg2, false, false)
		listed2 := map[*ssa.Function]bool{}
		var order2 []*ssa.Function
		for _, f := range user {
			listed2[f] = true
			order2 = append(order2, f)
		}
		var lines []string
		for i := 0; i < len(order2); i++ {
			f := order2[i]
			n := cg2.Nodes[f]
			if n == nil {
				continue
			}
			for _, e := range n.Out {
				site := "-"
				if e.Site != nil {
					site = instrKey(e.Site)
				}
				lines = append(lines, fmt.Sprintf("CGOEDGE %s %s %s", fnKey(f), site, fnKey(e.Callee.Func)))
				if g := e.Callee.Func; (g.Synthetic != "" || isUserFn(g, mainPkg)) && !listed2[g] {
					listed2[g] = true
					order2 = append(order2, g)
				}
			}
		}
		for _, f := range order2 {
			kind := "user"
			if !isUserFn(f, mainPkg) {
				kind = "synth"
			}
			tag := m.tagOf[f]
			if tag == "" {
				tag = "-"
			}
			r := 0
			if reach2[f] {
				r = 1
			}
			fmt.Fprintf(w, "CGOFN %s %s %s %d\n", fnKey(f), kind, tag, r)
		}
		sort.Strings(lines)
		for _, l := range lines {
			fmt.Fprintln(w, l)
		}
		fmt.Fprintf(os.Stderr, "c11dump: cgonly %.1fs\n", time.Since(t0).Seconds())
	}
	dumpNoEffect(w, prog)
	if *cgOut != "" {
		if err := writeCG(*cgOut, cg, reach); err != nil {
			fmt.Fprintf(os.Stderr, "cg: %v\n", err)
			os.Exit(4)
		}
	}
	if *mu != "" {
		if err := writeMu(*mu, prog, mainPkg, user, m); err != nil {
			fmt.Fprintf(os.Stderr, "mu: %v\n", err)
			os.Exit(4)
		}
	}
	fmt.Fprintf(os.Stderr, "c11dump: done %.1fs\n", time.Since(t0).Seconds())
	_ = callgraph.Graph{}
	_ = types.Typ
}
