package main

// ssa2mu: translation of the user functions of a loaded program from x/tools SSA to muSSA S-expressions (the input of
// the extracted Coq model, coq/theories/Lang/MuSSA.v).  Functions using instructions or types outside the fragment are
// rejected and counted; calls to rejected or external functions become `scalar` (no pointer effect), which can only make
// the model's least solution smaller, i.e. keeps the alarm direction model <= impl meaningful.
//
// Layout chosen by the translator (the model's cell numbering is internal, the tie compares allocation sites only):
// every non-struct type occupies one cell; a struct occupies 1 identity cell + the cells of its fields; arrays, slices and
// channels are array-like objects of stride 1, maps of stride 2 (key cell 0, value cell 1).

import (
	"bufio"
	"fmt"
	"go/constant"
	"go/token"
	"go/types"
	"os"
	"sort"
	"strings"

	"golang.org/x/tools/go/ssa"
)

type reject struct{ why string }

type muFn struct {
	fn     *ssa.Function
	id     int
	key    string // name key (clones share the key of the original)
	clone  int    // 0 = original
	regs   map[ssa.Value]int
	nreg   int
	lines  []string
	siteOf map[ssa.Value]int // per-clone allocation sites
}

type muT struct {
	prog     *ssa.Program
	mainPkg  *ssa.Package
	extern   map[string]bool
	ok       map[*ssa.Function]bool // translatable (local criteria)
	why      map[*ssa.Function]string
	fnID     map[*ssa.Function]int
	fns      []*muFn
	byFn     map[*ssa.Function]*muFn
	queue    []*muFn
	nextFn   int
	siteID   map[ssa.Value]int
	nextSite int
	siteKey  map[int]string
	globals  map[*ssa.Global]int
	globDecl []string
	csKey    map[int]string
	tagID    map[string]int
	tagType  []types.Type
	mnameID  map[string]int
	fnNames  map[int]string
	regNames []string
	cloneN   int
}

func (m *muT) size(t types.Type) (int, bool) {
	switch u := t.Underlying().(type) {
	case *types.Basic, *types.Pointer, *types.Slice, *types.Map, *types.Chan, *types.Signature, *types.Interface:
		return 1, true
	case *types.Struct:
		n := 1
		for i := 0; i < u.NumFields(); i++ {
			s, ok := m.size(u.Field(i).Type())
			if !ok {
				return 0, false
			}
			n += s
		}
		return n, true
	}
	return 0, false
}

func (m *muT) unit(t types.Type) bool {
	switch t.Underlying().(type) {
	case *types.Basic, *types.Pointer, *types.Slice, *types.Map, *types.Chan, *types.Signature, *types.Interface:
		return true
	}
	return false
}

func (m *muT) fieldOff(st *types.Struct, idx int) (int, bool) {
	off := 1
	for i := 0; i < idx; i++ {
		s, ok := m.size(st.Field(i).Type())
		if !ok {
			return 0, false
		}
		off += s
	}
	return off, true
}

// objShape of an object holding a value of type t: kind string and number of cells
func (m *muT) objShape(t types.Type) (string, int, bool) {
	if a, ok := t.Underlying().(*types.Array); ok {
		if !m.unit(a.Elem()) {
			return "", 0, false
		}
		n := int(a.Len())
		if n < 1 {
			n = 1
		}
		if n > 64 {
			n = 64
		}
		return "a1", n, true
	}
	s, ok := m.size(t)
	if !ok {
		return "", 0, false
	}
	return "s", s, true
}

func isTupleOrVoid(t types.Type) (n int, isTuple bool) {
	if tu, ok := t.(*types.Tuple); ok {
		return tu.Len(), true
	}
	return 1, false
}

// local translatability of a function
func (m *muT) checkFn(f *ssa.Function) string {
	if len(f.Blocks) == 0 {
		return "no body"
	}
	if f.TypeParams().Len() > 0 && len(f.TypeArgs()) == 0 {
		return "generic body"
	}
	if f.Recover != nil {
		return "defer/recover"
	}
	if f.Signature.Results().Len() > 1 {
		return "multiple results"
	}
	for _, p := range f.Params {
		if !m.unit(p.Type()) {
			return "non-unit parameter " + p.Type().String()
		}
	}
	for _, p := range f.FreeVars {
		if !m.unit(p.Type()) {
			return "non-unit free variable"
		}
	}
	for _, b := range f.Blocks {
		for _, ins := range b.Instrs {
			if v, ok := ins.(ssa.Value); ok {
				if n, tup := isTupleOrVoid(v.Type()); tup {
					if _, isCall := ins.(*ssa.Call); !(isCall && n == 0) {
						return fmt.Sprintf("tuple value (%T)", ins)
					}
				} else if !m.unit(v.Type()) {
					return fmt.Sprintf("non-unit value %s (%T)", v.Type(), ins)
				}
			}
			switch x := ins.(type) {
			case *ssa.Alloc:
				if _, _, ok := m.objShape(x.Type().Underlying().(*types.Pointer).Elem()); !ok {
					return "alloc of unsupported shape " + x.Type().String()
				}
			case *ssa.MakeSlice:
				if !m.unit(x.Type().Underlying().(*types.Slice).Elem()) {
					return "slice of non-unit elements"
				}
			case *ssa.MakeMap:
				mt := x.Type().Underlying().(*types.Map)
				if !m.unit(mt.Key()) || !m.unit(mt.Elem()) {
					return "map of non-unit key/value"
				}
			case *ssa.MakeChan:
				if !m.unit(x.Type().Underlying().(*types.Chan).Elem()) {
					return "chan of non-unit elements"
				}
			case *ssa.UnOp:
				if x.CommaOk {
					return "comma-ok receive"
				}
			case *ssa.Store:
				if !m.unit(x.Val.Type()) {
					return "store of non-unit value"
				}
			case *ssa.FieldAddr:
				st, ok := x.X.Type().Underlying().(*types.Pointer).Elem().Underlying().(*types.Struct)
				if !ok {
					return "fieldaddr on non-struct"
				}
				if _, ok := m.fieldOff(st, x.Field); !ok {
					return "struct with unsupported field types"
				}
			case *ssa.IndexAddr:
				var el types.Type
				switch u := x.X.Type().Underlying().(type) {
				case *types.Slice:
					el = u.Elem()
				case *types.Pointer:
					if a, ok := u.Elem().Underlying().(*types.Array); ok {
						el = a.Elem()
					}
				}
				if el == nil || !m.unit(el) {
					return "indexaddr on non-unit elements"
				}
			case *ssa.Slice:
				switch u := x.X.Type().Underlying().(type) {
				case *types.Pointer:
					if a, ok := u.Elem().Underlying().(*types.Array); !ok || !m.unit(a.Elem()) {
						return "slice of unsupported array"
					}
				}
			case *ssa.Lookup:
				if x.CommaOk {
					return "comma-ok lookup"
				}
			case *ssa.MapUpdate:
			case *ssa.Send:
			case *ssa.Convert:
				from, to := x.X.Type().Underlying(), x.Type().Underlying()
				_, fb := from.(*types.Basic)
				_, tb := to.(*types.Basic)
				if !(fb && tb) {
					return "convert involving non-basic types"
				}
				if fbk := from.(*types.Basic); fbk.Kind() == types.UnsafePointer {
					return "unsafe"
				}
				if tbk := to.(*types.Basic); tbk.Kind() == types.UnsafePointer {
					return "unsafe"
				}
			case *ssa.MakeInterface:
				if !m.unit(x.X.Type()) {
					return "makeinterface of multi-word value " + x.X.Type().String()
				}
			case *ssa.TypeAssert:
				if x.CommaOk {
					return "comma-ok typeassert"
				}
				if types.IsInterface(x.AssertedType) {
					return "interface-to-interface assert"
				}
				if !m.unit(x.AssertedType) {
					return "assert to multi-word type"
				}
			case *ssa.Call:
				c := x.Common()
				if b, ok := c.Value.(*ssa.Builtin); ok {
					switch b.Name() {
					case "len", "cap", "print", "println", "min", "max", "ssa:wrapnilchk":
					default:
						return "builtin " + b.Name()
					}
				}
				if n, tup := isTupleOrVoid(x.Type()); tup && n > 0 {
					return "call with tuple result"
				}
				for _, a := range c.Args {
					if !m.unit(a.Type()) {
						return "non-unit argument"
					}
				}
			case *ssa.BinOp, *ssa.ChangeType, *ssa.ChangeInterface, *ssa.Phi, *ssa.MakeClosure,
				*ssa.If, *ssa.Jump, *ssa.Return, *ssa.DebugRef:
			default:
				return fmt.Sprintf("instruction %T", ins)
			}
			// operands
			for _, op := range ins.Operands(nil) {
				if *op == nil {
					continue
				}
				if _, ok := (*op).(*ssa.Builtin); ok {
					if _, isCall := ins.(*ssa.Call); !isCall {
						return "builtin as value"
					}
				}
			}
		}
	}
	return ""
}

func (m *muT) isExtern(f *ssa.Function) bool {
	if f == nil {
		return true
	}
	if f.Pkg == m.mainPkg && f.Parent() == nil && f.Signature.Recv() == nil {
		n := f.Name()
		if m.extern[n] || strings.HasPrefix(n, "probe") || strings.HasPrefix(n, "site") || strings.HasPrefix(n, "iobs") {
			return true
		}
	}
	return false
}

// candidate: user function or a synthetic wrapper around user code
func (m *muT) translatable(f *ssa.Function) bool {
	if v, ok := m.ok[f]; ok {
		return v
	}
	res := false
	why := ""
	if m.isExtern(f) {
		why = "prelude (treated as external, no pointer effect)"
	} else if !(isUserFn(f, m.mainPkg) || (f.Synthetic != "" && f.Pkg == nil)) {
		why = "outside the user package"
	} else if why = m.checkFn(f); why == "" {
		res = true
	}
	m.ok[f] = res
	m.why[f] = why
	return res
}

// needsContext mirrors (a *analysis) shouldUseContext of internal/pointer/gen.go for non-intrinsic functions.
func needsContext(fn *ssa.Function) bool {
	if len(fn.Blocks) != 1 {
		return false
	}
	blk := fn.Blocks[0]
	if len(blk.Instrs) > 10 {
		return false
	}
	if fn.Synthetic != "" && (fn.Pkg == nil || fn != fn.Pkg.Func("init")) {
		return true
	}
	for _, instr := range blk.Instrs {
		if ci, ok := instr.(ssa.CallInstruction); ok {
			if _, ok := ci.Common().Value.(*ssa.Builtin); !ok {
				return false
			}
		}
	}
	return true
}

func (m *muT) newMuFn(f *ssa.Function, clone int) *muFn {
	m.nextFn++
	mf := &muFn{fn: f, id: m.nextFn, key: fnKey(f), clone: clone, regs: map[ssa.Value]int{}, siteOf: map[ssa.Value]int{}}
	m.fns = append(m.fns, mf)
	m.queue = append(m.queue, mf)
	m.fnNames[mf.id] = mf.key
	return mf
}

// fnRef returns the muSSA id of f for use as a callee/function value (shared instance), 0 if not translatable
func (m *muT) fnRef(f *ssa.Function) int {
	if !m.translatable(f) {
		// still give it a name so that labels/edges can be printed
		if id, ok := m.fnID[f]; ok {
			return id
		}
		m.nextFn++
		m.fnID[f] = m.nextFn
		m.fnNames[m.nextFn] = fnKey(f)
		return m.nextFn
	}
	if mf, ok := m.byFn[f]; ok {
		return mf.id
	}
	mf := m.newMuFn(f, 0)
	m.byFn[f] = mf
	m.fnID[f] = mf.id
	return mf.id
}

func (m *muT) site(mf *muFn, v ssa.Value) int {
	if mf.clone == 0 {
		if id, ok := m.siteID[v]; ok {
			return id
		}
	} else if id, ok := mf.siteOf[v]; ok {
		return id
	}
	m.nextSite++
	id := m.nextSite
	if mf.clone == 0 {
		m.siteID[v] = id
	} else {
		mf.siteOf[v] = id
	}
	m.siteKey[id] = valKey(v)
	return id
}

func (m *muT) global(g *ssa.Global) (int, bool) {
	if id, ok := m.globals[g]; ok {
		return id, id != 0
	}
	kind, n, ok := m.objShape(g.Type().Underlying().(*types.Pointer).Elem())
	if !ok {
		m.globals[g] = 0
		return 0, false
	}
	m.nextSite++
	id := m.nextSite
	m.globals[g] = id
	m.siteKey[id] = valKey(g)
	m.globDecl = append(m.globDecl, fmt.Sprintf("(g %d %s %d)", id, kind, n))
	return id, true
}

func (mf *muFn) reg(v ssa.Value) int {
	if r, ok := mf.regs[v]; ok {
		return r
	}
	mf.nreg++
	mf.regs[v] = mf.nreg
	return mf.nreg
}

func (mf *muFn) tmp() int {
	mf.nreg++
	return mf.nreg
}

func (m *muT) operand(mf *muFn, v ssa.Value) (string, error) {
	switch x := v.(type) {
	case *ssa.Const:
		return "c", nil
	case *ssa.Global:
		id, ok := m.global(x)
		if !ok {
			return "", fmt.Errorf("global of unsupported shape %s", x.Type())
		}
		return fmt.Sprintf("g%d", id), nil
	case *ssa.Function:
		return fmt.Sprintf("f%d", m.fnRef(x)), nil
	case *ssa.Builtin:
		return "", fmt.Errorf("builtin as value")
	}
	return fmt.Sprintf("r%d", mf.reg(v)), nil
}

func (m *muT) tag(t types.Type) int {
	k := t.String()
	if id, ok := m.tagID[k]; ok {
		return id
	}
	id := len(m.tagID) + 1
	m.tagID[k] = id
	m.tagType = append(m.tagType, t)
	return id
}

func (m *muT) mname(f *types.Func) int {
	k := f.Id()
	if id, ok := m.mnameID[k]; ok {
		return id
	}
	id := len(m.mnameID) + 1
	m.mnameID[k] = id
	return id
}

func constLen(v ssa.Value, dflt int) int {
	if c, ok := v.(*ssa.Const); ok && c.Value != nil && c.Value.Kind() == constant.Int {
		n := int(c.Int64())
		if n >= 1 && n <= 64 {
			return n
		}
	}
	return dflt
}

func (m *muT) emitFn(mf *muFn) error {
	f := mf.fn
	var params, free []string
	for _, p := range f.Params {
		params = append(params, fmt.Sprintf("r%d", mf.reg(p)))
	}
	for _, p := range f.FreeVars {
		free = append(free, fmt.Sprintf("r%d", mf.reg(p)))
	}
	out := []string{fmt.Sprintf("(func %d (params %s) (free %s)", mf.id, strings.Join(params, " "), strings.Join(free, " "))}
	for _, b := range f.Blocks {
		var L []string
		add := func(format string, a ...interface{}) { L = append(L, fmt.Sprintf(format, a...)) }
		for k, ins := range b.Instrs {
			op := func(v ssa.Value) string {
				s, err := m.operand(mf, v)
				if err != nil {
					panic(reject{err.Error()})
				}
				return s
			}
			switch x := ins.(type) {
			case *ssa.DebugRef:
			case *ssa.Alloc:
				kind, n, _ := m.objShape(x.Type().Underlying().(*types.Pointer).Elem())
				add("(alloc r%d %d %s %d)", mf.reg(x), m.site(mf, x), kind, n)
			case *ssa.MakeSlice:
				add("(alloc r%d %d a1 %d)", mf.reg(x), m.site(mf, x), constLen(x.Len, 4))
			case *ssa.MakeMap:
				add("(alloc r%d %d a2 8)", mf.reg(x), m.site(mf, x))
			case *ssa.MakeChan:
				add("(alloc r%d %d a1 %d)", mf.reg(x), m.site(mf, x), constLen(x.Size, 1))
			case *ssa.UnOp:
				switch x.Op {
				case token.MUL:
					add("(load r%d %s)", mf.reg(x), op(x.X))
				case token.ARROW:
					t := mf.tmp()
					add("(indexaddr r%d %s 0)", t, op(x.X))
					add("(load r%d r%d)", mf.reg(x), t)
				default:
					add("(scalar r%d)", mf.reg(x))
				}
			case *ssa.BinOp:
				add("(scalar r%d)", mf.reg(x))
			case *ssa.Convert:
				add("(scalar r%d)", mf.reg(x))
			case *ssa.ChangeType:
				add("(copy r%d %s)", mf.reg(x), op(x.X))
			case *ssa.ChangeInterface:
				add("(copy r%d %s)", mf.reg(x), op(x.X))
			case *ssa.Slice:
				if b, ok := x.X.Type().Underlying().(*types.Basic); ok && b.Info()&types.IsString != 0 {
					add("(scalar r%d)", mf.reg(x))
				} else {
					add("(copy r%d %s)", mf.reg(x), op(x.X))
				}
			case *ssa.Phi:
				var es []string
				for i, e := range x.Edges {
					es = append(es, fmt.Sprintf("(%d %s)", b.Preds[i].Index, op(e)))
				}
				add("(phi r%d %s)", mf.reg(x), strings.Join(es, " "))
			case *ssa.Store:
				add("(store %s %s)", op(x.Addr), op(x.Val))
			case *ssa.FieldAddr:
				st := x.X.Type().Underlying().(*types.Pointer).Elem().Underlying().(*types.Struct)
				off, _ := m.fieldOff(st, x.Field)
				add("(fieldaddr r%d %s %d)", mf.reg(x), op(x.X), off)
			case *ssa.IndexAddr:
				add("(indexaddr r%d %s 0)", mf.reg(x), op(x.X))
			case *ssa.Lookup:
				if _, isMap := x.X.Type().Underlying().(*types.Map); isMap {
					t := mf.tmp()
					add("(indexaddr r%d %s 1)", t, op(x.X))
					add("(load r%d r%d)", mf.reg(x), t)
				} else {
					add("(scalar r%d)", mf.reg(x))
				}
			case *ssa.MapUpdate:
				t1, t2 := mf.tmp(), mf.tmp()
				add("(indexaddr r%d %s 0)", t1, op(x.Map))
				add("(store r%d %s)", t1, op(x.Key))
				add("(indexaddr r%d %s 1)", t2, op(x.Map))
				add("(store r%d %s)", t2, op(x.Value))
			case *ssa.Send:
				t := mf.tmp()
				add("(indexaddr r%d %s 0)", t, op(x.Chan))
				add("(store r%d %s)", t, op(x.X))
			case *ssa.MakeClosure:
				fn := x.Fn.(*ssa.Function)
				var bs []string
				for _, bnd := range x.Bindings {
					if !m.unit(bnd.Type()) {
						panic(reject{"non-unit binding"})
					}
					bs = append(bs, op(bnd))
				}
				add("(closure r%d %d %s)", mf.reg(x), m.fnRef(fn), strings.Join(bs, " "))
			case *ssa.MakeInterface:
				tg := m.tag(x.X.Type())
				add("(mkiface r%d %d %d %s)", mf.reg(x), m.site(mf, x), tg, op(x.X))
			case *ssa.TypeAssert:
				add("(assert r%d %s %d)", mf.reg(x), op(x.X), m.tag(x.AssertedType))
			case *ssa.Call:
				c := x.Common()
				d := 0
				if n, tup := isTupleOrVoid(x.Type()); tup && n == 0 {
					d = mf.tmp()
				} else {
					d = mf.reg(x)
				}
				if _, ok := c.Value.(*ssa.Builtin); ok {
					add("(scalar r%d)", d)
					break
				}
				m.nextSite++
				cs := m.nextSite
				m.csKey[cs] = instrKey(x)
				var args []string
				for _, a := range c.Args {
					args = append(args, op(a))
				}
				as := strings.Join(args, " ")
				if c.IsInvoke() {
					add("(call r%d %d (invoke %s %d) %s)", d, cs, op(c.Value), m.mname(c.Method), as)
				} else if g := c.StaticCallee(); g != nil {
					if _, isClo := c.Value.(*ssa.MakeClosure); isClo {
						// immediately applied closure: dynamic in muSSA (needs the captured environment)
						add("(call r%d %d (dyn %s) %s)", d, cs, op(c.Value), as)
					} else if !m.translatable(g) {
						add("(scalar r%d)", d)
					} else if needsContext(g) {
						m.cloneN++
						cl := m.newMuFn(g, m.cloneN)
						add("(call r%d %d (static %d) %s)", d, cs, cl.id, as)
					} else {
						add("(call r%d %d (static %d) %s)", d, cs, m.fnRef(g), as)
					}
				} else {
					add("(call r%d %d (dyn %s) %s)", d, cs, op(c.Value), as)
				}
			case *ssa.Jump:
				add("(jump %d)", b.Succs[0].Index)
			case *ssa.If:
				add("(if %d %d)", b.Succs[0].Index, b.Succs[1].Index)
			case *ssa.Return:
				if len(x.Results) == 1 {
					add("(ret %s)", op(x.Results[0]))
				} else {
					add("(ret c)")
				}
			default:
				panic(reject{fmt.Sprintf("instruction %T", ins)})
			}
			_ = k
		}
		out = append(out, "  (block "+strings.Join(L, " ")+")")
	}
	out = append(out, ")")
	mf.lines = out
	return nil
}

func writeMu(path string, prog *ssa.Program, mainPkg *ssa.Package, user []*ssa.Function, mk *marks) error {
	m := &muT{prog: prog, mainPkg: mainPkg, ok: map[*ssa.Function]bool{}, why: map[*ssa.Function]string{},
		fnID: map[*ssa.Function]int{}, byFn: map[*ssa.Function]*muFn{}, siteID: map[ssa.Value]int{}, siteKey: map[int]string{},
		globals: map[*ssa.Global]int{}, csKey: map[int]string{}, tagID: map[string]int{}, mnameID: map[string]int{},
		fnNames: map[int]string{},
		extern:  map[string]bool{"cs": true, "enter": true, "setup": true, "flush": true, "setbits": true}}
	var rootIDs []string
	var rootsOK = true
	for _, name := range []string{"init", "main"} {
		f := mainPkg.Func(name)
		if f == nil {
			continue
		}
		if !m.translatable(f) {
			rootsOK = false
			continue
		}
		rootIDs = append(rootIDs, fmt.Sprint(m.fnRef(f)))
	}
	// every translatable user function is translated (unreachable ones generate no constraints in the model)
	for _, f := range user {
		if m.translatable(f) {
			m.fnRef(f)
		}
	}
	type mrow struct{ tag, mn, fn int }
	var mrows []mrow
	doneTag := 0
	var failed []string
	for len(m.queue) > 0 || doneTag < len(m.tagType) {
		for len(m.queue) > 0 {
			mf := m.queue[0]
			m.queue = m.queue[1:]
			func() {
				defer func() {
					if r := recover(); r != nil {
						if rj, ok := r.(reject); ok {
							// late rejection (operand level): keep the function as an empty body that returns at once
							failed = append(failed, mf.key+" "+san(rj.why))
							mf.lines = []string{fmt.Sprintf("(func %d (params) (free) (block (ret c)))", mf.id)}
							return
						}
						panic(r)
					}
				}()
				m.emitFn(mf)
			}()
		}
		for ; doneTag < len(m.tagType); doneTag++ {
			t := m.tagType[doneTag]
			ms := prog.MethodSets.MethodSet(t)
			for i := 0; i < ms.Len(); i++ {
				sel := ms.At(i)
				fn := prog.MethodValue(sel)
				if fn == nil {
					continue
				}
				mrows = append(mrows, mrow{doneTag + 1, m.mname(sel.Obj().(*types.Func)), m.fnRef(fn)})
			}
		}
	}
	fh, err := os.Create(path)
	if err != nil {
		return err
	}
	w := bufio.NewWriter(fh)
	fmt.Fprintln(w, "(prog")
	fmt.Fprintf(w, " (globals %s)\n", strings.Join(m.globDecl, " "))
	var ms []string
	for _, r := range mrows {
		ms = append(ms, fmt.Sprintf("(m %d %d %d)", r.tag, r.mn, r.fn))
	}
	fmt.Fprintf(w, " (mtable %s)\n", strings.Join(ms, " "))
	fmt.Fprintf(w, " (roots %s)\n", strings.Join(rootIDs, " "))
	for _, mf := range m.fns {
		for _, l := range mf.lines {
			fmt.Fprintln(w, " "+l)
		}
	}
	fmt.Fprintln(w, ")")
	w.Flush()
	fh.Close()

	nh, err := os.Create(path + ".names")
	if err != nil {
		return err
	}
	nw := bufio.NewWriter(nh)
	fmt.Fprintf(nw, "ROOTSOK %v\n", rootsOK)
	ids := make([]int, 0, len(m.fnNames))
	for id := range m.fnNames {
		ids = append(ids, id)
	}
	sort.Ints(ids)
	translated := map[int]bool{}
	for _, mf := range m.fns {
		translated[mf.id] = true
	}
	for _, id := range ids {
		t := 0
		if translated[id] {
			t = 1
		}
		fmt.Fprintf(nw, "F %d %s %d\n", id, m.fnNames[id], t)
	}
	for _, mf := range m.fns {
		type rv struct {
			r int
			k string
		}
		var rs []rv
		for v, r := range mf.regs {
			rs = append(rs, rv{r, valKey(v)})
		}
		sort.Slice(rs, func(i, j int) bool { return rs[i].r < rs[j].r })
		for _, x := range rs {
			fmt.Fprintf(nw, "R %d %d %s\n", mf.id, x.r, x.k)
		}
	}
	sids := make([]int, 0, len(m.siteKey))
	for id := range m.siteKey {
		sids = append(sids, id)
	}
	sort.Ints(sids)
	for _, id := range sids {
		fmt.Fprintf(nw, "S %d %s\n", id, m.siteKey[id])
	}
	cids := make([]int, 0, len(m.csKey))
	for id := range m.csKey {
		cids = append(cids, id)
	}
	sort.Ints(cids)
	for _, id := range cids {
		fmt.Fprintf(nw, "CS %d %s\n", id, m.csKey[id])
	}
	// rejected user functions
	var rej []string
	for _, f := range user {
		if !m.translatable(f) {
			rej = append(rej, fmt.Sprintf("REJ %s %s", fnKey(f), san(m.why[f])))
		}
	}
	sort.Strings(rej)
	for _, l := range rej {
		fmt.Fprintln(nw, l)
	}
	for _, l := range failed {
		fmt.Fprintf(nw, "LATE %s\n", l)
	}
	nw.Flush()
	return nh.Close()
}
