package main

import (
	"bufio"
	"fmt"
	"go/ast"
	"go/parser"
	"go/token"
	"go/types"
	"path/filepath"
	"sort"
	"strconv"

	"golang.org/x/tools/go/ssa"
	"golang.org/x/tools/go/ssa/ssautil"
)

var repoDir = "/repo"

// noEffectNames regenerates, from the source of internal/pointer/intrinsics.go, the names mapped to ext۰NoEffect.
func noEffectNames() ([]string, error) {
	fset := token.NewFileSet()
	f, err := parser.ParseFile(fset, filepath.Join(repoDir, "internal/pointer/intrinsics.go"), nil, 0)
	if err != nil {
		return nil, err
	}
	var names []string
	ast.Inspect(f, func(n ast.Node) bool {
		kv, ok := n.(*ast.KeyValueExpr)
		if !ok {
			return true
		}
		k, ok1 := kv.Key.(*ast.BasicLit)
		v, ok2 := kv.Value.(*ast.Ident)
		if ok1 && ok2 && k.Kind == token.STRING && v.Name == "ext۰NoEffect" {
			if s, err := strconv.Unquote(k.Value); err == nil {
				names = append(names, s)
			}
		}
		return true
	})
	sort.Strings(names)
	return names, nil
}

// holdsPtr: a value of type t may contain something the pointer analysis tracks.
func holdsPtr(t types.Type, seen map[types.Type]bool) (bool, bool) {
	if seen[t] {
		return false, false
	}
	seen[t] = true
	switch u := t.Underlying().(type) {
	case *types.Basic:
		return u.Kind() == types.UnsafePointer, u.Kind() == types.UnsafePointer
	case *types.Pointer, *types.Slice, *types.Map, *types.Chan, *types.Signature, *types.Interface:
		return true, false
	case *types.Struct:
		any, uns := false, false
		for i := 0; i < u.NumFields(); i++ {
			a, b := holdsPtr(u.Field(i).Type(), seen)
			any = any || a
			uns = uns || b
		}
		return any, uns && any
	case *types.Array:
		return holdsPtr(u.Elem(), seen)
	case *types.Tuple:
		any := false
		for i := 0; i < u.Len(); i++ {
			a, _ := holdsPtr(u.At(i).Type(), seen)
			any = any || a
		}
		return any, false
	}
	return false, false
}

// classify a signature: "pure" (no result can point, no parameter gives access to memory that can hold pointers),
// "unsafe" (impure only through unsafe.Pointer - excluded by the property), "impure" otherwise.
func classify(sig *types.Signature) string {
	cls := "pure"
	bump := func(any, onlyUnsafe bool) {
		if !any {
			return
		}
		if onlyUnsafe && cls != "impure" {
			cls = "unsafe"
		} else {
			cls = "impure"
		}
	}
	for i := 0; i < sig.Results().Len(); i++ {
		t := sig.Results().At(i).Type()
		a, u := holdsPtr(t, map[types.Type]bool{})
		if b, ok := t.Underlying().(*types.Basic); ok && b.Kind() == types.UnsafePointer {
			u = true
		}
		bump(a, u)
	}
	check := func(t types.Type) {
		switch u := t.Underlying().(type) {
		case *types.Pointer:
			a, un := holdsPtr(u.Elem(), map[types.Type]bool{})
			bump(a, un)
		case *types.Slice:
			a, un := holdsPtr(u.Elem(), map[types.Type]bool{})
			bump(a, un)
		case *types.Map, *types.Chan, *types.Signature, *types.Interface:
			bump(true, false)
		case *types.Struct, *types.Array:
			a, un := holdsPtr(t, map[types.Type]bool{})
			// a struct passed by value cannot be written through, but pointers inside it can
			_ = un
			if a {
				bump(true, false)
			}
		case *types.Basic:
			if u.Kind() == types.UnsafePointer {
				bump(true, true)
			}
		}
	}
	if r := sig.Recv(); r != nil {
		check(r.Type())
	}
	for i := 0; i < sig.Params().Len(); i++ {
		check(sig.Params().At(i).Type())
	}
	return cls
}

// exemptions regenerates, from the source of findIntrinsic, every string literal the function compares a package path
// (or anything else) with: "eq" for == / switch cases, "call:<fn>" for literals passed to a call (HasPrefix, Contains...).
func exemptions() ([]string, error) {
	fset := token.NewFileSet()
	f, err := parser.ParseFile(fset, filepath.Join(repoDir, "internal/pointer/intrinsics.go"), nil, 0)
	if err != nil {
		return nil, err
	}
	var out []string
	for _, d := range f.Decls {
		fd, ok := d.(*ast.FuncDecl)
		if !ok || fd.Name.Name != "findIntrinsic" || fd.Body == nil {
			continue
		}
		ast.Inspect(fd.Body, func(n ast.Node) bool {
			switch x := n.(type) {
			case *ast.BinaryExpr:
				for _, e := range []ast.Expr{x.X, x.Y} {
					if l, ok := e.(*ast.BasicLit); ok && l.Kind == token.STRING {
						op := "eq"
						if x.Op != token.EQL {
							op = "op" + x.Op.String()
						}
						out = append(out, op+" "+l.Value)
					}
				}
			case *ast.CaseClause:
				for _, e := range x.List {
					if l, ok := e.(*ast.BasicLit); ok && l.Kind == token.STRING {
						out = append(out, "eq "+l.Value)
					}
				}
			case *ast.CallExpr:
				name := "?"
				switch fn := x.Fun.(type) {
				case *ast.SelectorExpr:
					name = fn.Sel.Name
				case *ast.Ident:
					name = fn.Name
				}
				for _, e := range x.Args {
					if l, ok := e.(*ast.BasicLit); ok && l.Kind == token.STRING {
						out = append(out, "call:"+name+" "+l.Value)
					}
				}
			}
			return true
		})
	}
	sort.Strings(out)
	return out, nil
}

func dumpNoEffect(w *bufio.Writer, prog *ssa.Program) {
	if ex, err := exemptions(); err == nil {
		for _, e := range ex {
			fmt.Fprintf(w, "EXEMPT %s\n", san(e))
		}
		fmt.Fprintf(w, "EXEMPTDONE %d\n", len(ex))
	}
	names, err := noEffectNames()
	if err != nil {
		fmt.Fprintf(w, "NOEFFERR %s\n", san(err.Error()))
		return
	}
	want := map[string]bool{}
	for _, n := range names {
		want[n] = true
	}
	fmt.Fprintf(w, "NOEFFTABLE %d\n", len(names))
	var lines []string
	for f := range ssautil.AllFunctions(prog) {
		if want[f.String()] {
			body := "nobody"
			if len(f.Blocks) > 0 {
				body = "body"
			}
			resptr := "res-scalar"
			if a, _ := holdsPtr(f.Signature.Results(), map[types.Type]bool{}); a {
				resptr = "res-pointerlike"
			}
			lines = append(lines, fmt.Sprintf("NOEFF %s %s %s %s %s", san(f.String()), classify(f.Signature), san(f.Signature.String()), body, resptr))
		}
	}
	sort.Strings(lines)
	for _, l := range lines {
		fmt.Fprintln(w, l)
	}
}
