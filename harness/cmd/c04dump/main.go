// c04dump drives the REAL code-identifier classification of ar-go-tools for property C04 and dumps, as JSON,
//   - raw SSA facts ("descriptors") of every call-like instruction and every field/alloc/store/receive instruction of
//     the non-standard-library packages of a program (the model's input; no function of /repo is used to compute them),
//   - the verdicts of the real taint.IsSourceNode / analysisutil.IsEntrypointNode, isSink / isSanitizer /
//     isValidatorCondition (hook taint.VerifIs*), backtrace.IsInterProceduralEntryPoint for every taint / slicing
//     problem of the given config file (loaded with the repo's config.LoadFromFiles),
//   - the sources/sinks of the flows reported by the real taint.Analyze, and the sink lists after interface expansion.
//
// Modes:
//
//	c04dump -dir <program dir> -config <config.yaml|json> -o out.json
//	c04dump -regex pairs.json -o table.json      verdicts of Go's regexp for [[pattern,string],...]
//	c04dump -match cases.json -o out.json        direct matcher tie: TaintSpec.IsSource on given (spec, candidate) pairs
package main

import (
	"encoding/json"
	"flag"
	"fmt"
	"go/token"
	"go/types"
	"os"
	"regexp"
	"runtime"
	"sort"
	"strings"

	"github.com/awslabs/ar-go-tools/analysis"
	"github.com/awslabs/ar-go-tools/analysis/backtrace"
	"github.com/awslabs/ar-go-tools/analysis/config"
	"github.com/awslabs/ar-go-tools/analysis/dataflow"
	"github.com/awslabs/ar-go-tools/analysis/taint"
	"github.com/awslabs/ar-go-tools/internal/analysisutil"
	"github.com/awslabs/ar-go-tools/verifharness/hutil"
	"golang.org/x/tools/go/ssa"
)

// Alias is one label of the points-to set of a call's function value.
type Alias struct {
	VKind string  `json:"vkind"`
	Name  string  `json:"name"`
	Pkg   *string `json:"pkg"` // package path of the labelled function (nil: not a function / no package)
}

// FnID identifies a function.
type FnID struct {
	Pkg  string `json:"pkg"`
	Name string `json:"name"`
	Recv string `json:"recv"` // receiver type string ("" for functions)
	Str  string `json:"str"`
	Syn  string `json:"syn"`
}

// CallNodeOut holds the verdicts of one dataflow CallNode (one per callee of a call site).
type CallNodeOut struct {
	Callee  *FnID    `json:"callee"`
	ParamFn *FnID    `json:"param_fn"` // CalleeSummary.Parent, if the callee has a summary
	Sink    string   `json:"sink"`     // per taint problem, '0'/'1'
	San     string   `json:"san"`
	ArgSink []string `json:"arg_sink"` // per argument, per taint problem
	ArgSan  []string `json:"arg_san"`
}

// Site is a call-like instruction.
type Site struct {
	Pos       string        `json:"pos"`
	Line      int           `json:"line"`
	File      string        `json:"file"`
	Instr     string        `json:"instr"` // call | go | defer
	Invoke    bool          `json:"invoke"`
	ValueName string        `json:"value_name"`
	ValueKind string        `json:"value_kind"`
	Parent    string        `json:"parent"`
	StaticPkg *string       `json:"static_pkg"`
	Static    *FnID         `json:"static"`
	InvPkg    *string       `json:"inv_pkg"`
	InvMethod string        `json:"inv_method"`
	RecvType  string        `json:"recv_type"`
	SigRecv   *string       `json:"sig_recv"`
	Str       string        `json:"str"`
	Aliases   []Alias       `json:"aliases"`
	HasQuery  bool          `json:"has_query"`
	CGCallees []FnID        `json:"cg_callees"`
	Src       string        `json:"src"` // per taint problem
	Val       string        `json:"val"` // per taint problem (calls only)
	Bt        string        `json:"bt"`  // per slicing problem
	DirSink   string        `json:"dir_sink"`
	EntrySink string        `json:"entry_sink"` // IsEntrypointNode with the problem's IsSink, per taint problem
	Noi       bool          `json:"noi"`        // taint.IsNodeOfInterest (config-wide IsSomeSource / IsSomeSink)
	Nodes     []CallNodeOut `json:"nodes"`
}

// Ty is the shape of a type as seen by FindEltTypePackage.
type Ty struct {
	K       string  `json:"k"` // ptr named array map slice chan other struct unexpected
	E       *Ty     `json:"e,omitempty"`
	N       int64   `json:"n,omitempty"`
	Key     string  `json:"key,omitempty"`
	PkgName *string `json:"pkgname,omitempty"`
	PkgPath *string `json:"pkgpath,omitempty"`
	Name    string  `json:"name,omitempty"`
	Str     string  `json:"str,omitempty"`
}

// Op is a field read / field address / alloc / store / channel receive.
type Op struct {
	Pos    string `json:"pos"`
	Line   int    `json:"line"`
	File   string `json:"file"`
	Op     string `json:"op"` // field fieldaddr alloc store recv
	Parent string `json:"parent"`
	Ty     *Ty    `json:"ty"`
	Field  string `json:"field"`
	Str    string `json:"str"`
	Src    string `json:"src"`
	Sink   string `json:"sink"`
	Bt     string `json:"bt"`
	EntrySink string `json:"entry_sink"`
	Noi    bool   `json:"noi"`
	Syn    bool   `json:"synthetic_node"`
	SynSnk string `json:"syn_sink"`
}

// FuncOut is the function-level backtrace entry verdict.
type FuncOut struct {
	Fn FnID   `json:"fn"`
	Bt string `json:"bt"`
}

// Flow is one reported taint flow.
type Flow struct {
	SrcPos  string `json:"src_pos"`
	SinkPos string `json:"sink_pos"`
}

// Impl is an entry of ImplementationsByType.
type Impl struct {
	Key   string `json:"key"`
	Impls []FnID `json:"impls"`
}

// Out is the whole dump.
type Out struct {
	NTaint    int                  `json:"ntaint"`
	NSlice    int                  `json:"nslice"`
	Sites     []Site               `json:"sites"`
	Ops       []Op                 `json:"ops"`
	Funcs     []FuncOut            `json:"funcs"`
	Flows     []Flow               `json:"flows"` // reported by taint.Analyze with the e2e config
	BtEntries []string             `json:"bt_entries"`
	BtRan     bool                 `json:"bt_ran"`
	Fvp       [][2]string          `json:"fvp"` // (package path, real FindValuePackage result) samples
	Impls     []Impl               `json:"impls"`
	SinksPost [][]map[string]string `json:"sinks_post"` // per taint problem: sink identifiers after the preamble
	Errors    []string             `json:"errors"`
}

func sp(s string) *string { return &s }

func fnID(f *ssa.Function) *FnID {
	if f == nil {
		return nil
	}
	id := &FnID{Name: f.Name(), Str: f.String(), Syn: f.Synthetic}
	if p := f.Package(); p != nil {
		id.Pkg = p.Pkg.Path()
	} else if f.Object() != nil && f.Object().Pkg() != nil {
		id.Pkg = f.Object().Pkg().Path()
	}
	if f.Signature != nil && f.Signature.Recv() != nil {
		id.Recv = f.Signature.Recv().Type().String()
	}
	return id
}

func tyOf(t types.Type) *Ty {
	switch typ := t.(type) {
	case *types.Pointer:
		return &Ty{K: "ptr", E: tyOf(typ.Elem())}
	case *types.Named:
		r := &Ty{K: "named", Str: typ.String()}
		if o := typ.Obj(); o != nil {
			r.Name = o.Name()
			if o.Pkg() != nil {
				r.PkgName = sp(o.Pkg().Name())
				r.PkgPath = sp(o.Pkg().Path())
			}
		} else {
			r.K = "named-noobj"
		}
		return r
	case *types.Array:
		return &Ty{K: "array", N: typ.Len(), E: tyOf(typ.Elem())}
	case *types.Map:
		return &Ty{K: "map", Key: typ.Key().String(), E: tyOf(typ.Elem())}
	case *types.Slice:
		return &Ty{K: "slice", E: tyOf(typ.Elem())}
	case *types.Chan:
		return &Ty{K: "chan", E: tyOf(typ.Elem())}
	case *types.Basic, *types.Tuple, *types.Interface, *types.Signature:
		return &Ty{K: "other", Str: t.String()}
	case *types.Struct:
		return &Ty{K: "struct", Str: t.String()}
	default:
		return &Ty{K: "unexpected", Str: fmt.Sprintf("%T %v", t, t)}
	}
}

func fieldName(t types.Type, i int) string {
	for k := 0; k < 50; k++ {
		switch typ := t.(type) {
		case *types.Pointer:
			t = typ.Elem().Underlying()
			continue
		case *types.Struct:
			if 0 <= i && i < typ.NumFields() {
				return typ.Field(i).Name()
			}
			return "?"
		default:
			return "?"
		}
	}
	return "?"
}

func bits(n int, f func(i int) bool) string {
	b := make([]byte, n)
	for i := 0; i < n; i++ {
		if f(i) {
			b[i] = '1'
		} else {
			b[i] = '0'
		}
	}
	return string(b)
}

func die(format string, a ...any) {
	fmt.Fprintf(os.Stderr, format+"\n", a...)
	os.Exit(2)
}

func writeJSON(path string, v any) {
	b, err := json.Marshal(v)
	if err != nil {
		die("marshal: %v", err)
	}
	if path == "-" {
		os.Stdout.Write(b)
		return
	}
	if err := os.WriteFile(path, b, 0o644); err != nil {
		die("write: %v", err)
	}
}

func regexMode(in, out string) {
	b, err := os.ReadFile(in)
	if err != nil {
		die("%v", err)
	}
	var pairs [][2]string
	if err := json.Unmarshal(b, &pairs); err != nil {
		die("%v", err)
	}
	cache := map[string]*regexp.Regexp{}
	res := make([]int, len(pairs))
	for i, p := range pairs {
		r, ok := cache[p[0]]
		if !ok {
			r, err = regexp.Compile(p[0])
			if err != nil {
				r = nil
			}
			cache[p[0]] = r
		}
		if r == nil {
			res[i] = 2
		} else if r.MatchString(p[1]) {
			res[i] = 1
		}
	}
	writeJSON(out, res)
}

// matchCase is one direct matcher query.
type matchCase struct {
	Specs    []map[string]string `json:"specs"`
	Problems [][]map[string]string `json:"problems"` // some-* roles: the role's identifier list of each problem, in order
	Compiled bool                `json:"compiled"`
	Role     string              `json:"role"`
	Cand     map[string]string   `json:"cand"`
}

func cidOf(m map[string]string) config.CodeIdentifier {
	return config.CodeIdentifier{Context: m["context"], Package: m["package"], Interface: m["interface"],
		Method: m["method"], Receiver: m["receiver"], Field: m["field"], Type: m["type"], Label: m["label"],
		Kind: m["kind"], ValueMatch: m["value-match"]}
}

func cidMap(c config.CodeIdentifier) map[string]string {
	return map[string]string{"context": c.Context, "package": c.Package, "interface": c.Interface, "method": c.Method,
		"receiver": c.Receiver, "field": c.Field, "type": c.Type, "kind": c.Kind, "value-match": c.ValueMatch}
}

func matchMode(in, out string) {
	b, err := os.ReadFile(in)
	if err != nil {
		die("%v", err)
	}
	var cases []matchCase
	if err := json.Unmarshal(b, &cases); err != nil {
		die("%v", err)
	}
	res := make([]int, len(cases))
	for i, c := range cases {
		specs := make([]config.CodeIdentifier, len(c.Specs))
		for j, s := range c.Specs {
			specs[j] = cidOf(s)
			if c.Compiled {
				specs[j] = config.NewCodeIdentifier(specs[j])
			}
		}
		cand := cidOf(c.Cand)
		var v bool
		switch c.Role {
		case "source":
			v = config.TaintSpec{Sources: specs}.IsSource(cand)
		case "sink":
			v = config.TaintSpec{Sinks: specs}.IsSink(cand)
		case "sanitizer":
			v = config.TaintSpec{Sanitizers: specs}.IsSanitizer(cand)
		case "validator":
			v = config.TaintSpec{Validators: specs}.IsValidator(cand)
		case "backtrace":
			v = config.SlicingSpec{BacktracePoints: specs}.IsBacktracePoint(cand)
		case "some-source", "some-sink", "some-sanitizer", "some-validator", "some-backtrace":
			cfg := config.Config{}
			for _, pl := range c.Problems {
				l := make([]config.CodeIdentifier, len(pl))
				for j, s := range pl {
					l[j] = cidOf(s)
					if c.Compiled {
						l[j] = config.NewCodeIdentifier(l[j])
					}
				}
				switch c.Role {
				case "some-source":
					cfg.TaintTrackingProblems = append(cfg.TaintTrackingProblems, config.TaintSpec{Sources: l})
				case "some-sink":
					cfg.TaintTrackingProblems = append(cfg.TaintTrackingProblems, config.TaintSpec{Sinks: l})
				case "some-sanitizer":
					cfg.TaintTrackingProblems = append(cfg.TaintTrackingProblems, config.TaintSpec{Sanitizers: l})
				case "some-validator":
					cfg.TaintTrackingProblems = append(cfg.TaintTrackingProblems, config.TaintSpec{Validators: l})
				case "some-backtrace":
					cfg.SlicingProblems = append(cfg.SlicingProblems, config.SlicingSpec{BacktracePoints: l})
				}
			}
			switch c.Role {
			case "some-source":
				v = cfg.IsSomeSource(cand)
			case "some-sink":
				v = cfg.IsSomeSink(cand)
			case "some-sanitizer":
				v = cfg.IsSomeSanitizer(cand)
			case "some-validator":
				v = cfg.IsSomeValidator(cand)
			case "some-backtrace":
				v = cfg.IsSomeBacktracePoint(cand)
			}
		default:
			die("unknown role %s", c.Role)
		}
		if v {
			res[i] = 1
		}
	}
	writeJSON(out, res)
}

func main() {
	dir := flag.String("dir", "", "program directory (module root)")
	cfgPath := flag.String("config", "", "config file")
	outPath := flag.String("o", "-", "output")
	regexIn := flag.String("regex", "", "regex mode: JSON list of [pattern, string]")
	matchIn := flag.String("match", "", "match mode: JSON list of cases")
	e2ePath := flag.String("e2e", "", "config for the end-to-end run of taint.Analyze / backtrace.Analyze")
	flag.Parse()
	if *regexIn != "" {
		regexMode(*regexIn, *outPath)
		return
	}
	if *matchIn != "" {
		matchMode(*matchIn, *outPath)
		return
	}
	cfg, err := config.LoadFromFiles(*cfgPath)
	if err != nil {
		die("config: %v", err)
	}
	prog, pkgs, err := hutil.LoadDir(*dir, false, "./...")
	if err != nil {
		die("load: %v", err)
	}
	out := Out{}
	// the state is built exactly as taint.Analyze does (steps 1 and 2 and the graph construction of step 3), without
	// running one visitor per problem
	state, err := dataflow.NewInitializedAnalyzerState(prog, pkgs, config.NewLogGroup(cfg), cfg)
	if err != nil {
		die("state: %v", err)
	}
	if err := taint.AnalysisPreamble(state); err != nil {
		die("preamble: %v", err)
	}
	numRoutines := runtime.NumCPU() - 1
	if numRoutines <= 0 {
		numRoutines = 1
	}
	analysis.RunIntraProceduralPass(state, numRoutines, analysis.IntraAnalysisParams{
		ShouldBuildSummary: dataflow.ShouldBuildSummary, ShouldTrack: taint.IsNodeOfInterest})
	state.FlowGraph.BuildGraph()
	nT := len(state.Config.TaintTrackingProblems)
	nS := len(state.Config.SlicingProblems)
	out.NTaint, out.NSlice = nT, nS
	tsOf := func(i int) *config.TaintSpec { return &state.Config.TaintTrackingProblems[i] }
	ssOf := func(i int) *config.SlicingSpec { return &state.Config.SlicingProblems[i] }

	userPkg := map[*ssa.Package]bool{}
	modPrefix := ""
	for _, p := range pkgs {
		if p.Module != nil && p.Module.Main {
			modPrefix = p.Module.Path
		}
	}
	for _, p := range prog.AllPackages() {
		if modPrefix != "" && (p.Pkg.Path() == modPrefix || strings.HasPrefix(p.Pkg.Path(), modPrefix+"/")) {
			userPkg[p] = true
		}
	}
	posOf := func(pos token.Pos) (string, string, int) {
		if !pos.IsValid() {
			return "-", "", 0
		}
		p := prog.Fset.Position(pos)
		rel := p.Filename
		if strings.HasPrefix(rel, *dir+"/") {
			rel = rel[len(*dir)+1:]
		}
		return fmt.Sprintf("%s:%d:%d", rel, p.Line, p.Column), rel, p.Line
	}

	for _, fn := range hutil.SortedFunctions(prog) {
		inUser := fn.Pkg != nil && userPkg[fn.Pkg]
		if !inUser {
			if par := fn.Parent(); par != nil {
				for par.Parent() != nil {
					par = par.Parent()
				}
				inUser = par.Pkg != nil && userPkg[par.Pkg]
			}
		}
		if !inUser {
			continue
		}
		if fn.Synthetic == "" || strings.HasPrefix(fn.Synthetic, "package init") {
			out.Funcs = append(out.Funcs, FuncOut{Fn: *fnID(fn), Bt: bits(nS, func(i int) bool {
				return backtrace.IsInterProceduralEntryPoint(state, ssOf(i), fn)
			})})
		}
		summary := state.FlowGraph.Summaries[fn]
		for _, b := range fn.Blocks {
			for _, ins := range b.Instrs {
				switch node := ins.(type) {
				case ssa.CallInstruction:
					cc := node.Common()
					if _, isBuiltin := cc.Value.(*ssa.Builtin); isBuiltin {
						continue
					}
					s := Site{Invoke: cc.IsInvoke(), ValueName: cc.Value.Name(), ValueKind: fmt.Sprintf("%T", cc.Value),
						Parent: fn.String(), Str: node.String()}
					s.Pos, s.File, s.Line = posOf(ins.Pos())
					switch ins.(type) {
					case *ssa.Call:
						s.Instr = "call"
					case *ssa.Go:
						s.Instr = "go"
					case *ssa.Defer:
						s.Instr = "defer"
					}
					if cc.IsInvoke() {
						if cc.Method != nil {
							s.InvMethod = cc.Method.Name()
							if cc.Method.Pkg() != nil {
								s.InvPkg = sp(cc.Method.Pkg().Path())
							}
						}
						s.RecvType = cc.Value.Type().String()
					} else {
						if sc := cc.StaticCallee(); sc != nil {
							s.Static = fnID(sc)
							if sc.Pkg != nil {
								s.StaticPkg = sp(sc.Pkg.Pkg.Path())
							}
						}
						if sig := cc.Signature(); sig != nil && sig.Recv() != nil {
							s.SigRecv = sp(sig.Recv().Type().String())
						}
					}
					if state.PointerAnalysis != nil {
						if ptr, ok := state.PointerAnalysis.Queries[cc.Value]; ok {
							s.HasQuery = true
							s.Aliases = []Alias{}
							for _, l := range ptr.PointsTo().Labels() {
								a := Alias{VKind: fmt.Sprintf("%T", l.Value()), Name: l.Value().Name()}
								if f, isF := l.Value().(*ssa.Function); isF {
									pk := f.Package()
									if f.Signature.Recv() != nil {
										pk = f.Params[0].Parent().Package()
									}
									if pk != nil {
										a.Pkg = sp(pk.Pkg.Path())
									}
								}
								s.Aliases = append(s.Aliases, a)
							}
							sort.Slice(s.Aliases, func(i, j int) bool {
								x, y := s.Aliases[i], s.Aliases[j]
								return x.VKind+x.Name < y.VKind+y.Name
							})
						}
						if cgn := state.PointerAnalysis.CallGraph.Nodes[fn]; cgn != nil {
							seen := map[*ssa.Function]bool{}
							for _, e := range cgn.Out {
								if e.Site == node && !seen[e.Callee.Func] {
									seen[e.Callee.Func] = true
									s.CGCallees = append(s.CGCallees, *fnID(e.Callee.Func))
								}
							}
							sort.Slice(s.CGCallees, func(i, j int) bool { return s.CGCallees[i].Str < s.CGCallees[j].Str })
						}
					}
					s.Src = bits(nT, func(i int) bool { return taint.IsSourceNode(state, tsOf(i), ins.(ssa.Node)) })
					s.Bt = bits(nS, func(i int) bool {
						return backtrace.IsInterProceduralEntryPoint(state, ssOf(i), ins.(ssa.Node))
					})
					if call, isCall := ins.(*ssa.Call); isCall {
						s.Val = bits(nT, func(i int) bool { return taint.VerifIsValidatorCondition(tsOf(i), call, true) })
					}
					s.DirSink = bits(nT, func(i int) bool {
						return taint.IsMatchingCodeIDWithCallee(tsOf(i).IsSink, nil, ins.(ssa.Node))
					})
					s.EntrySink = bits(nT, func(i int) bool {
						return analysisutil.IsEntrypointNode(state.PointerAnalysis, ins.(ssa.Node), tsOf(i).IsSink)
					})
					s.Noi = taint.IsNodeOfInterest(state, ins.(ssa.Node))
					if summary != nil {
						type kn struct {
							k string
							n *dataflow.CallNode
						}
						var nodes []kn
						for callee, cn := range summary.Callees[node] {
							k := "<nil>"
							if callee != nil {
								k = callee.String()
							}
							nodes = append(nodes, kn{k, cn})
						}
						sort.Slice(nodes, func(i, j int) bool { return nodes[i].k < nodes[j].k })
						for _, x := range nodes {
							cn := x.n
							o := CallNodeOut{Callee: fnID(cn.Callee())}
							if cn.CalleeSummary != nil {
								o.ParamFn = fnID(cn.CalleeSummary.Parent)
							}
							o.Sink = bits(nT, func(i int) bool { return taint.VerifIsSink(state, tsOf(i), cn) })
							o.San = bits(nT, func(i int) bool { return taint.VerifIsSanitizer(state, tsOf(i), cn) })
							for _, a := range cn.Args() {
								a := a
								o.ArgSink = append(o.ArgSink, bits(nT, func(i int) bool { return taint.VerifIsSink(state, tsOf(i), a) }))
								o.ArgSan = append(o.ArgSan, bits(nT, func(i int) bool { return taint.VerifIsSanitizer(state, tsOf(i), a) }))
							}
							s.Nodes = append(s.Nodes, o)
						}
					}
					out.Sites = append(out.Sites, s)
				}
				var op *Op
				switch node := ins.(type) {
				case *ssa.Field:
					op = &Op{Op: "field", Ty: tyOf(node.X.Type()), Field: fieldName(node.X.Type().Underlying(), node.Field)}
				case *ssa.FieldAddr:
					op = &Op{Op: "fieldaddr", Ty: tyOf(node.X.Type()), Field: fieldName(node.X.Type().Underlying(), node.Field)}
				case *ssa.Alloc:
					op = &Op{Op: "alloc", Ty: tyOf(node.Type())}
				case *ssa.Store:
					if fa, ok := node.Addr.(*ssa.FieldAddr); ok {
						op = &Op{Op: "store", Ty: tyOf(fa.X.Type()), Field: fieldName(fa.X.Type().Underlying(), fa.Field)}
					} else {
						op = &Op{Op: "store-other"}
					}
				case *ssa.UnOp:
					if node.Op == token.ARROW {
						op = &Op{Op: "recv", Ty: tyOf(node.X.Type())}
					}
				}
				if op != nil {
					op.Parent = fn.String()
					op.Str = ins.String()
					pos := ins.Pos()
					if st, ok := ins.(*ssa.Store); ok && !pos.IsValid() {
						pos = st.Addr.Pos()
					}
					op.Pos, op.File, op.Line = posOf(pos)
					n := ins.(ssa.Node)
					op.Src = bits(nT, func(i int) bool { return taint.IsSourceNode(state, tsOf(i), n) })
					op.Sink = bits(nT, func(i int) bool { return taint.IsMatchingCodeIDWithCallee(tsOf(i).IsSink, nil, n) })
					op.Bt = bits(nS, func(i int) bool { return backtrace.IsInterProceduralEntryPoint(state, ssOf(i), n) })
					op.EntrySink = bits(nT, func(i int) bool {
						return analysisutil.IsEntrypointNode(state.PointerAnalysis, n, tsOf(i).IsSink)
					})
					op.Noi = taint.IsNodeOfInterest(state, n)
					if summary != nil {
						if sn, ok := summary.SyntheticNodes[ins]; ok {
							op.Syn = true
							op.SynSnk = bits(nT, func(i int) bool { return taint.VerifIsSink(state, tsOf(i), sn) })
						}
					}
					out.Ops = append(out.Ops, *op)
				}
			}
		}
	}

	// end to end: the real taint.Analyze / backtrace.Analyze with the e2e config (a single problem each)
	if *e2ePath != "" {
		ecfg, err := config.LoadFromFiles(*e2ePath)
		if err != nil {
			die("e2e config: %v", err)
		}
		res, err := taint.Analyze(ecfg, prog, pkgs)
		if err != nil {
			out.Errors = append(out.Errors, "taint.Analyze: "+err.Error())
		}
		out.Flows = []Flow{}
		if res.TaintFlows != nil {
			for sink, srcs := range res.TaintFlows.Sinks {
				for src := range srcs {
					sp1, _, _ := posOf(src.Instr.Pos())
					sp2, _, _ := posOf(sink.Instr.Pos())
					out.Flows = append(out.Flows, Flow{SrcPos: sp1, SinkPos: sp2})
				}
			}
			sort.Slice(out.Flows, func(i, j int) bool {
				a, b := out.Flows[i], out.Flows[j]
				return a.SrcPos+"|"+a.SinkPos < b.SrcPos+"|"+b.SinkPos
			})
		}
		if len(ecfg.SlicingProblems) > 0 {
			bres, err := backtrace.Analyze(config.NewLogGroup(ecfg), ecfg, prog, pkgs)
			if err != nil {
				out.Errors = append(out.Errors, "backtrace.Analyze: "+err.Error())
			}
			seen := map[string]bool{}
			for entry := range bres.Traces {
				ins := dataflow.Instr(entry)
				if ins == nil {
					continue
				}
				_, rel, line := posOf(ins.Pos())
				k := fmt.Sprintf("%s:%d", rel, line)
				if !seen[k] {
					seen[k] = true
					out.BtEntries = append(out.BtEntries, k)
				}
			}
			sort.Strings(out.BtEntries)
			out.BtRan = true
		}
	}
	for _, fn := range hutil.SortedFunctions(prog) {
		if fn.Pkg != nil && userPkg[fn.Pkg] && fn.Synthetic == "" && len(out.Fvp) < 6 {
			got := analysisutil.FindValuePackage(fn)
			g := "<none>"
			if got.IsSome() {
				g = got.Value()
			}
			out.Fvp = append(out.Fvp, [2]string{fn.Pkg.Pkg.Path(), g})
		}
	}
	for k, impls := range state.ImplementationsByType {
		keep := false
		im := Impl{Key: k}
		for f := range impls {
			im.Impls = append(im.Impls, *fnID(f))
			if f.Package() != nil && userPkg[f.Package()] {
				keep = true
			}
		}
		if keep || (modPrefix != "" && strings.HasPrefix(k, modPrefix)) {
			sort.Slice(im.Impls, func(i, j int) bool { return im.Impls[i].Str < im.Impls[j].Str })
			out.Impls = append(out.Impls, im)
		}
	}
	sort.Slice(out.Impls, func(i, j int) bool { return out.Impls[i].Key < out.Impls[j].Key })
	for i := 0; i < nT; i++ {
		var l []map[string]string
		for _, c := range tsOf(i).Sinks {
			l = append(l, cidMap(c))
		}
		out.SinksPost = append(out.SinksPost, l)
	}
	writeJSON(*outPath, out)
}
