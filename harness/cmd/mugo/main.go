// mugo generates batched Go scenario programs for the end-to-end ground truth of the taint analysis (T-gt, DESIGN 4 C01).
//
//	mugo -seed S -n 50 -module p1 -out dir          seed-driven program of n scenarios
//	mugo -spec scenarios.json -module p1 -out dir   program made of exactly the given scenarios (shrinking / replay)
//	mugo -list                                      print the atom catalogue (kind, variant, key) as JSON
//
// A scenario i is a chain of atoms (catalog.go) carrying the unique marker "#<i as 4 digits>#" from source<i>() to
// sink<i>(x), each scenario in its own functions.  The program's main runs every scenario under all valuations of the 6
// opaque conditions c(0..5); sink<i> deep-walks its argument reflectively and prints "HIT <i> <marker number>" for every
// marker found.  Files written: go.mod, main.go, specs.json (dataflow contract making report opaque), config_bt.yaml (backtrace points = the sink calls), config_multi.yaml (the same sources/sinks split over three taint-tracking problems), config.yaml (one taint problem: sources ^source[0-9]+$, sinks
// ^sink[0-9]+$, sanitizers ^sanitize[0-9]+, package regex = module path) and manifest.json (scenarios with their atoms,
// keys and source/sink line numbers).
package main

import (
	"encoding/json"
	"flag"
	"fmt"
	"go/format"
	"os"
	"path/filepath"
	"sort"
	"strings"
)

type atomRef struct {
	Kind    string `json:"kind"`
	Variant string `json:"variant"`
	Key     string `json:"key,omitempty"`
	Flows   bool   `json:"flows"`
	C       int    `json:"c"` // opaque condition indices used for $C / $D
	D       int    `json:"d"`
}

type scenario struct {
	ID         int       `json:"id"`
	Src        string    `json:"src"`
	Atoms      []atomRef `json:"atoms"`
	Wrap       string    `json:"wrap"`
	ExpectFlow bool      `json:"expect_flow"`
	Source2    int       `json:"source2,omitempty"` // id of the second source (5000+ID) when an atom calls one
	SourceLine int       `json:"source_line"`
	SinkLine   int       `json:"sink_line"`
}

type manifest struct {
	Module    string     `json:"module"`
	Seed      int64      `json:"seed"`
	NConds    int        `json:"nconds"`
	Scenarios []scenario `json:"scenarios"`
}

type rng struct{ s uint64 }

func (r *rng) next() uint64 {
	// splitmix64
	r.s += 0x9e3779b97f4a7c15
	z := r.s
	z = (z ^ (z >> 30)) * 0xbf58476d1ce4e5b9
	z = (z ^ (z >> 27)) * 0x94d049bb133111eb
	return z ^ (z >> 31)
}
func (r *rng) n(k int) int { return int(r.next() % uint64(k)) }

func findAtom(kind, variant string) *atomDef {
	for i := range catalog {
		if catalog[i].Kind == kind && catalog[i].Variant == variant {
			return &catalog[i]
		}
	}
	return nil
}
func findWrap(n string) *wrapDef {
	for i := range wraps {
		if wraps[i].Name == n {
			return &wraps[i]
		}
	}
	return nil
}
func findSrc(n string) *srcDef {
	for i := range srcs {
		if srcs[i].Name == n {
			return &srcs[i]
		}
	}
	return nil
}

const nConds = 6

// randomScenarios walks a seed-shuffled copy of the catalogue so that every atom variant is used once per pass.
func randomScenarios(seed int64, n int, stdx bool) []scenario {
	r := &rng{uint64(seed)*2654435761 + 12345}
	var pool []int
	refill := func() {
		p := make([]int, len(catalog))
		for i := range p {
			p[i] = i
		}
		for i := len(p) - 1; i > 0; i-- {
			j := r.n(i + 1)
			p[i], p[j] = p[j], p[i]
		}
		pool = append(pool, p...)
	}
	var out []scenario
	for i := 0; i < n; i++ {
		var l int
		switch k := r.n(10); {
		case k < 2:
			l = 1 // single-atom scenarios keep the classification of misses sharp
		case k < 4:
			l = 2
		default:
			l = 2 + r.n(5) // 2..6
		}
		sc := scenario{ID: i + 1, ExpectFlow: true}
		has2 := false
		for len(sc.Atoms) < l {
			if len(pool) == 0 {
				refill()
			}
			a := catalog[pool[0]]
			pool = pool[1:]
			if a.Kind == "stdx" && !stdx {
				continue
			}
			if strings.Contains(a.Decl+a.Body, "$Q") {
				if has2 {
					continue
				}
				has2 = true
			}
			if !a.Flows && (!sc.ExpectFlow || r.n(3) != 0) {
				// at most one negative atom per scenario, and only a third of the negative draws are used
				continue
			}
			if !a.Flows {
				sc.ExpectFlow = false
			}
			sc.Atoms = append(sc.Atoms, atomRef{Kind: a.Kind, Variant: a.Variant, Key: a.key(), Flows: a.Flows, C: r.n(nConds), D: r.n(nConds)})
		}
		sc.Src = srcs[0].Name
		if r.n(3) == 0 {
			sc.Src = srcs[r.n(len(srcs))].Name
		}
		sc.Wrap = wraps[0].Name
		if r.n(2) == 0 {
			sc.Wrap = wraps[r.n(len(wraps))].Name
		}
		out = append(out, sc)
	}
	return out
}

func subst(t string, m map[string]string) string {
	keys := make([]string, 0, len(m))
	for k := range m {
		keys = append(keys, k)
	}
	// longest placeholder first ($PS before $P is not needed as $P is a pure prefix, but $X/$Y/$C/$D/$N/$S/$R/$M are)
	sort.Slice(keys, func(i, j int) bool { return len(keys[i]) > len(keys[j]) })
	for _, k := range keys {
		if k == "$P" {
			continue
		}
		t = strings.ReplaceAll(t, k, m[k])
	}
	return strings.ReplaceAll(t, "$P", m["$P"])
}

const prelude = `package main

import (
	"bufio"
	"bytes"
	"encoding/json"
	"errors"
	"fmt"
	"io"
	"os"
	"reflect"
	"regexp"
	"sort"
	"strconv"
	"strings"
	"sync"
)

var _ sync.Once
var _ = bufio.NewReader
var _ = bytes.NewBuffer
var _ = json.Marshal
var _ = errors.New
var _ = io.ReadAll
var _ = sort.Strings
var _ = strconv.Itoa
var _ = strings.ToUpper

// opaque conditions: bit k of bits, set by main from the valuation counter (and from the command line)
var bits uint64

func c(k int) bool { return bits>>uint(k)&1 == 1 }

var markerRe = regexp.MustCompile("#[0-9][0-9][0-9][0-9]#")
var hits = map[[2]int]bool{}
var out = bufio.NewWriter(os.Stdout)

func found(sink int, s string) {
	for _, m := range markerRe.FindAllString(s, -1) {
		n, _ := strconv.Atoi(m[1:5])
		if !hits[[2]int{sink, n}] {
			hits[[2]int{sink, n}] = true
			fmt.Fprintf(out, "HIT %d %d\n", sink, n)
		}
	}
}

// report deep-walks x (pointers, slices, arrays, maps, interfaces, struct fields) looking for marker substrings
func report(sink int, x any) {
	walk(sink, reflect.ValueOf(x), map[uintptr]bool{}, 0)
}

func walk(sink int, v reflect.Value, seen map[uintptr]bool, depth int) {
	if !v.IsValid() || depth > 12 {
		return
	}
	switch v.Kind() {
	case reflect.String:
		found(sink, v.String())
	case reflect.Pointer:
		if v.IsNil() || seen[v.Pointer()] {
			return
		}
		seen[v.Pointer()] = true
		walk(sink, v.Elem(), seen, depth+1)
	case reflect.Interface:
		if !v.IsNil() {
			walk(sink, v.Elem(), seen, depth+1)
		}
	case reflect.Slice:
		if v.IsNil() {
			return
		}
		if v.Type().Elem().Kind() == reflect.Uint8 {
			found(sink, string(v.Bytes()))
			return
		}
		for i := 0; i < v.Len(); i++ {
			walk(sink, v.Index(i), seen, depth+1)
		}
	case reflect.Array:
		for i := 0; i < v.Len(); i++ {
			walk(sink, v.Index(i), seen, depth+1)
		}
	case reflect.Map:
		it := v.MapRange()
		for it.Next() {
			walk(sink, it.Key(), seen, depth+1)
			walk(sink, it.Value(), seen, depth+1)
		}
	case reflect.Struct:
		for i := 0; i < v.NumField(); i++ {
			walk(sink, v.Field(i), seen, depth+1)
		}
	}
}

// rec is deferred by every scenario runner so that a run-time panic in one scenario does not stop the others
func rec(id int) {
	if r := recover(); r != nil {
		fmt.Fprintf(out, "PANIC %d %d\n", id, bits)
	}
}
`

func render(module string, seed int64, scs []scenario) (string, string, manifest, error) {
	var b strings.Builder
	b.WriteString(prelude)
	for si := range scs {
		sc := &scs[si]
		id := sc.ID
		marker := fmt.Sprintf("#%04d#", id)
		base := map[string]string{"$N": fmt.Sprint(id), "$S": fmt.Sprintf("sink%d", id), "$R": fmt.Sprintf("source%d", id), "$M": marker,
			"$Q": fmt.Sprintf("%04d", 5000+id)}
		sc.Source2 = 0
		mk := func(prefix, x, y string, cc, dd int) map[string]string {
			m := map[string]string{"$P": prefix, "$X": x, "$Y": y, "$C": fmt.Sprintf("c(%d)", cc), "$D": fmt.Sprintf("c(%d)", dd)}
			for k, v := range base {
				m[k] = v
			}
			return m
		}
		src := findSrc(sc.Src)
		if src == nil {
			return "", "", manifest{}, fmt.Errorf("unknown source shape %q", sc.Src)
		}
		wr := findWrap(sc.Wrap)
		if wr == nil {
			return "", "", manifest{}, fmt.Errorf("unknown wrap %q", sc.Wrap)
		}
		fmt.Fprintf(&b, "\n// ---- scenario %d: src=%s atoms=", id, sc.Src)
		for _, a := range sc.Atoms {
			fmt.Fprintf(&b, "%s:%s ", a.Kind, a.Variant)
		}
		fmt.Fprintf(&b, "wrap=%s\n", sc.Wrap)
		sm := mk(fmt.Sprintf("s%dr", id), "", "", 0, 0)
		if src.SourceDecl != "" {
			b.WriteString(subst(src.SourceDecl, sm))
		} else {
			fmt.Fprintf(&b, "func source%d() string { return %q }\n", id, marker)
		}
		b.WriteString(subst(src.Decl, sm))
		wm := mk(fmt.Sprintf("s%dw", id), fmt.Sprintf("x%d", len(sc.Atoms)), "", 0, 0)
		if wr.SinkDecl != "" {
			b.WriteString(subst(wr.SinkDecl, wm))
		} else {
			fmt.Fprintf(&b, "func sink%d(x any) { report(%d, x) }\n", id, id)
		}
		b.WriteString(subst(wr.Decl, wm))
		var body strings.Builder
		body.WriteString(subst(src.Body, sm) + " // @SRC\n")
		for ai := range sc.Atoms {
			a := &sc.Atoms[ai]
			def := findAtom(a.Kind, a.Variant)
			if def == nil {
				return "", "", manifest{}, fmt.Errorf("unknown atom %s:%s", a.Kind, a.Variant)
			}
			a.Key, a.Flows = def.key(), def.Flows
			if strings.Contains(def.Decl+def.Body, "$Q") {
				if sc.Source2 != 0 {
					return "", "", manifest{}, fmt.Errorf("scenario %d: more than one atom with a second source", id)
				}
				if id >= 5000 {
					return "", "", manifest{}, fmt.Errorf("scenario id %d too large for a second source", id)
				}
				sc.Source2 = 5000 + id
			}
			m := mk(fmt.Sprintf("s%da%d", id, ai), fmt.Sprintf("x%d", ai), fmt.Sprintf("x%d", ai+1), a.C%nConds, a.D%nConds)
			b.WriteString(subst(def.Decl, m))
			body.WriteString(subst(def.Body, m) + "\n")
		}
		lines := strings.Split(subst(wr.Body, wm), "\n")
		for i, l := range lines {
			if strings.Contains(l, fmt.Sprintf("sink%d(", id)) && i == len(lines)-1 {
				l += " // @SNK"
			}
			body.WriteString(l + "\n")
		}
		fmt.Fprintf(&b, "func scen%d() {\n%s}\nfunc run%d() {\ndefer rec(%d)\nscen%d()\n}\n", id, body.String(), id, id, id)
	}
	b.WriteString("\nfunc runAll() {\n")
	for _, sc := range scs {
		fmt.Fprintf(&b, "\trun%d()\n", sc.ID)
	}
	fmt.Fprintf(&b, "}\n\nfunc main() {\n\tdefer out.Flush()\n\tlo, hi := uint64(0), uint64(1)<<%d\n\tif len(os.Args) > 1 {\n\t\tv, _ := strconv.ParseUint(os.Args[1], 10, 64)\n\t\tlo, hi = v, v+1\n\t}\n\tfor v := lo; v < hi; v++ {\n\t\tbits = v\n\t\trunAll()\n\t}\n}\n", nConds)
	srcb, err := format.Source([]byte(b.String()))
	if err != nil {
		return b.String(), "", manifest{}, fmt.Errorf("generated program does not parse: %v", err)
	}
	text := string(srcb)
	// line numbers of the source / sink call sites (the wrap's sink call may live in a helper: then the sink line is the
	// helper's call; we look for the sink<i>( call outside its own declaration)
	ls := strings.Split(text, "\n")
	for si := range scs {
		sc := &scs[si]
		sc.SourceLine, sc.SinkLine = 0, 0
		for i, l := range ls {
			if strings.Contains(l, fmt.Sprintf("source%d()", sc.ID)) && !strings.HasPrefix(strings.TrimSpace(l), "func source") && !strings.HasPrefix(strings.TrimSpace(l), "//") {
				sc.SourceLine = i + 1
			}
			if strings.Contains(l, fmt.Sprintf("sink%d(", sc.ID)) && !strings.HasPrefix(strings.TrimSpace(l), "func sink") && !strings.HasPrefix(strings.TrimSpace(l), "//") {
				sc.SinkLine = i + 1
			}
		}
		exp := true
		for _, a := range sc.Atoms {
			exp = exp && a.Flows
		}
		sc.ExpectFlow = exp
	}
	cfg := fmt.Sprintf(`taint-tracking-problems:
  -
    sources:
      - package: "^%s$"
        method: "^source[0-9]+$"
    sinks:
      - package: "^%s$"
        method: "^sink[0-9]+$"
    sanitizers:
      - package: "^%s$"
        method: "^sanitize[0-9]+"
dataflow-specs:
  - "specs.json"
`, module, module, module)
	return text, cfg, manifest{Module: module, Seed: seed, NConds: nConds, Scenarios: scs}, nil
}

// multiConfig splits the sources/sinks over THREE taint-tracking problems by the last digit of the scenario number (0-3, 4-6,
// 7-9; a scenario's second source 5000+i falls into the same problem): the max-alarms counter is shared by all problems.
func multiConfig(module string) string {
	var b strings.Builder
	b.WriteString("taint-tracking-problems:\n")
	for _, cls := range []string{"[0-3]", "[4-6]", "[7-9]"} {
		fmt.Fprintf(&b, `  -
    sources:
      - package: "^%s$"
        method: "^source[0-9]*%s$"
    sinks:
      - package: "^%s$"
        method: "^sink[0-9]*%s$"
    sanitizers:
      - package: "^%s$"
        method: "^sanitize[0-9]+"
`, module, cls, module, cls, module)
	}
	b.WriteString("dataflow-specs:\n  - \"specs.json\"\n")
	return b.String()
}

// btConfig is the configuration for the backtrace analysis of the same program: every sink<i> call is a backtrace point.
func btConfig(module string) string {
	return fmt.Sprintf(`slicing-problems:
  -
    backtracepoints:
      - package: "^%s$"
        method: "^sink[0-9]+$"
dataflow-specs:
  - "specs.json"
`, module)
}

func main() {
	seed := flag.Int64("seed", 1, "seed")
	n := flag.Int("n", 50, "number of scenarios")
	module := flag.String("module", "p1", "module path of the generated program")
	out := flag.String("out", "", "output directory")
	spec := flag.String("spec", "", "JSON file with an explicit scenario list ([]scenario or a manifest)")
	list := flag.Bool("list", false, "print the catalogue")
	stdx := flag.Bool("stdx", false, "also draw atoms calling std functions without predefined summaries (slow runs)")
	flag.Parse()
	if *list {
		type e struct {
			Kind, Variant, Key string
			Flows              bool
			Tags               []string
		}
		var es []e
		for _, a := range catalog {
			es = append(es, e{a.Kind, a.Variant, a.key(), a.Flows, a.tags()})
		}
		var ws, ss []string
		for _, w := range wraps {
			ws = append(ws, w.Name)
		}
		for _, s := range srcs {
			ss = append(ss, s.Name)
		}
		_ = json.NewEncoder(os.Stdout).Encode(map[string]any{"atoms": es, "wraps": ws, "srcs": ss})
		return
	}
	if *out == "" {
		fmt.Fprintln(os.Stderr, "mugo: -out required")
		os.Exit(2)
	}
	var scs []scenario
	if *spec != "" {
		b, err := os.ReadFile(*spec)
		if err != nil {
			fmt.Fprintln(os.Stderr, err)
			os.Exit(2)
		}
		var m manifest
		if err := json.Unmarshal(b, &m); err != nil || len(m.Scenarios) == 0 {
			if err2 := json.Unmarshal(b, &scs); err2 != nil {
				fmt.Fprintln(os.Stderr, "mugo: cannot parse spec:", err, err2)
				os.Exit(2)
			}
		} else {
			scs = m.Scenarios
		}
		for i := range scs {
			if scs[i].Src == "" {
				scs[i].Src = "direct"
			}
			if scs[i].Wrap == "" {
				scs[i].Wrap = "direct"
			}
			if scs[i].ID == 0 {
				scs[i].ID = i + 1
			}
		}
	} else {
		scs = randomScenarios(*seed, *n, *stdx)
	}
	text, cfg, man, err := render(*module, *seed, scs)
	if err != nil {
		fmt.Fprintln(os.Stderr, "mugo:", err)
		if text != "" {
			_ = os.MkdirAll(*out, 0o755)
			_ = os.WriteFile(filepath.Join(*out, "main.go.broken"), []byte(text), 0o644)
		}
		os.Exit(1)
	}
	if err := os.MkdirAll(*out, 0o755); err != nil {
		fmt.Fprintln(os.Stderr, err)
		os.Exit(1)
	}
	must := func(err error) {
		if err != nil {
			fmt.Fprintln(os.Stderr, err)
			os.Exit(1)
		}
	}
	must(os.WriteFile(filepath.Join(*out, "go.mod"), []byte("module "+*module+"\n\ngo 1.22\n"), 0o644))
	must(os.WriteFile(filepath.Join(*out, "main.go"), []byte(text), 0o644))
	must(os.WriteFile(filepath.Join(*out, "config.yaml"), []byte(cfg), 0o644))
	must(os.WriteFile(filepath.Join(*out, "config_bt.yaml"), []byte(btConfig(*module)), 0o644))
	must(os.WriteFile(filepath.Join(*out, "config_multi.yaml"), []byte(multiConfig(*module)), 0o644))
	// the body of report (the reflective deep walk behind every sink) is declared opaque by a user dataflow contract: a
	// sink is an end point, and keeping the traversal out of package reflect keeps the runs short
	must(os.WriteFile(filepath.Join(*out, "specs.json"), []byte(fmt.Sprintf(`[ { "ObjectPath": %q, "Methods": { "report": { "Args": [ [ 0 ], [ 1 ] ], "Rets": [ [ ], [ ] ] } } } ]
`, *module)), 0o644))
	mb, _ := json.MarshalIndent(man, "", " ")
	must(os.WriteFile(filepath.Join(*out, "manifest.json"), mb, 0o644))
}
