package main

// The atom catalogue.  An atom turns the string variable $X into a new string variable $Y (declared by the atom's body)
// by one Go construct; Decl holds the top-level declarations it needs.  Placeholders:
//
//	$P   unique prefix of this atom instance (s<scenario>a<index>)      $X / $Y  input / output variable
//	$C, $D  two opaque conditions c(k)                                    $N  scenario number   $Q  5000+$N (second source)
//
// Flows says whether the marker natively survives the atom in at least one valuation of the opaque conditions
// (informative only: the ground truth is always the native execution).  Key is the stable finding key of the input class
// (default kind:variant).
type atomDef struct {
	Kind, Variant string
	Flows         bool
	Decl, Body    string
	Key           string
}

// tags are structural properties of an atom used by the classification of minimised misses (tools/props/c01_common.py):
//
//	returns-from-closure-call  the atom's output is a value RETURNED by a call of a closure or bound method that captured it
//	closure-state-consumer     the atom stores its input into / reads it back from the captured state of a closure that is
//	                           created in ANOTHER function (closure stored in a global func variable, setter/getter pair)
func (a atomDef) tags() []string {
	var t []string
	switch a.Kind + ":" + a.Variant {
	case "closure:by-value-after", "closure:ref-taint-after", "closure:returned", "closure:passed", "closure:nested",
		"closure:setter-getter", "closure:iife", "closure:in-struct", "closure:loop-capture",
		"methodval:value", "methodval:iface-value", "methodval:passed":
		t = append(t, "returns-from-closure-call")
	}
	switch a.Kind + ":" + a.Variant {
	case "global:func", "closure:setter-getter":
		t = append(t, "closure-state-consumer")
	}
	return t
}

func (a atomDef) key() string {
	if a.Key != "" {
		return a.Key
	}
	return a.Kind + ":" + a.Variant
}

const sDecl = "type $PS struct{ a, b string }\n"
const tDecl = "type $PT struct{ v string }\nfunc (t $PT) Get() string { return t.v }\nfunc (t *$PT) Set(v string) { t.v = v }\n"
const iDecl = "type $PI interface{ Get() string }\n" + tDecl
const idDecl = "func $Pf(v string) string { return v }\n"
const pairDecl = "func $Pf(a, b string) (string, string) { return a, b }\n"
const tripleDecl = "func $Pt(a, b, c string) (string, string, string) { return a, b, c }\n"
const joinDecl = "func $Pj(a, b string) string { return a + \"/\" + b }\n"

// second source of a scenario: source<5000+N>() returning the marker #<5000+N>#
const src2Decl = "func source$Q() string { return \"#$Q#\" }\n"

var catalog = []atomDef{
	// ------------------------------------------------------------------ copies, concatenation, conversions
	{"copy", "plain", true, "", "$Y := $X", ""},
	{"copy", "var", true, "", "var $Y string\n$Y = $X", ""},
	{"copy", "twice", true, "", "$Pt := $X\n$Y := $Pt", ""},
	{"concat", "lr", true, "", `$Y := "l" + $X + "r"`, ""},
	{"concat", "pluseq", true, "", "$Y := \"p\"\n$Y += $X", ""},
	{"concat", "self", true, "", "$Y := $X + $X", ""},
	{"conv", "bytes", true, "", "$Y := string([]byte($X))", ""},
	{"conv", "runes", true, "", "$Y := string([]rune($X))", ""},
	{"conv", "named", true, "type $PT string\n", "$Y := string($PT($X))", ""},
	{"conv", "byteloop", true, "", "var $Pb []byte\nfor $Pi := 0; $Pi < len($X); $Pi++ {\n$Pb = append($Pb, $X[$Pi])\n}\n$Y := string($Pb)", ""},
	{"conv", "runeloop", true, "", "$Y := \"\"\nfor _, $Pr := range $X {\n$Y += string($Pr)\n}", ""},
	{"conv", "substr", true, "", "$Y := $X[0:len($X)]", ""},
	{"conv", "bytes-var", true, "", "$Pb := []byte($X)\n$Pc := $Pb[:]\n$Y := string($Pc)", ""},

	// ------------------------------------------------------------------ struct fields (value and pointer receivers)
	{"field", "store-load", true, sDecl, "var $Ps $PS\n$Ps.a = $X\n$Y := $Ps.a", ""},
	{"field", "literal", true, sDecl, "$Ps := $PS{a: $X}\n$Y := $Ps.a", ""},
	{"field", "value-getter", true, sDecl + "func (s $PS) getA() string { return s.a }\n", "$Ps := $PS{a: $X}\n$Y := $Ps.getA()", ""},
	{"field", "ptr-setter", true, sDecl + "func (s *$PS) setA(v string) { s.a = v }\n", "var $Ps $PS\n$Ps.setA($X)\n$Y := $Ps.a", ""},
	{"field", "ptr-setter-getter", true, sDecl + "func (s *$PS) setA(v string) { s.a = v }\nfunc (s *$PS) getA() string { return s.a }\n", "$Ps := &$PS{}\n$Ps.setA($X)\n$Y := $Ps.getA()", ""},
	{"field", "copy-struct", true, sDecl, "$Ps := $PS{a: $X}\n$Pt := $Ps\n$Y := $Pt.a", ""},
	{"field", "nested", true, sDecl + "type $PO struct{ in $PS }\n", "var $Po $PO\n$Po.in.a = $X\n$Y := $Po.in.a", ""},
	{"field", "nested-ptr", true, sDecl + "type $PO struct{ in *$PS }\n", "$Po := $PO{in: &$PS{}}\n$Po.in.b = $X\n$Y := $Po.in.b", ""},
	{"field", "embedded", true, sDecl + "type $PE struct{ $PS }\n", "var $Pe $PE\n$Pe.a = $X\n$Y := $Pe.a", ""},
	{"field", "pass-struct", true, sDecl + "func $Pf(s $PS) string { return s.a }\n", "$Y := $Pf($PS{a: $X})", ""},
	{"field", "ret-struct", true, sDecl + "func $Pf(v string) $PS { return $PS{b: v} }\n", "$Y := $Pf($X).b", ""},
	{"field", "ptr-param-store", true, sDecl + "func $Pf(s *$PS, v string) { s.a = v }\n", "var $Ps $PS\n$Pf(&$Ps, $X)\n$Y := $Ps.a", ""},
	{"field", "ptr-local", true, sDecl, "$Ps := &$PS{}\n$Ps.a = $X\n$Y := $Ps.a", ""},
	{"field", "ret-ptr-struct", true, sDecl + "func $Pf(v string) *$PS { return &$PS{a: v} }\n", "$Y := $Pf($X).a", ""},
	{"field", "slice-of-struct", true, sDecl, "$Ps := []$PS{{}, {a: $X}}\n$Y := $Ps[1].a", ""},
	{"field", "map-of-struct", true, sDecl, "$Pm := map[string]$PS{\"k\": {b: $X}}\n$Y := $Pm[\"k\"].b", ""},
	{"neg", "other-field", false, sDecl, "$Ps := $PS{a: $X}\n$Y := $Ps.b + \"clean\"", ""},

	// ------------------------------------------------------------------ pointers
	{"pointer", "local", true, "", "var $Pt string\n$Pp := &$Pt\n*$Pp = $X\n$Y := *$Pp", ""},
	{"pointer", "alias", true, "", "var $Pt string\n$Pp := &$Pt\n*$Pp = $X\n$Y := $Pt", ""},
	{"pointer", "new", true, "", "$Pp := new(string)\n*$Pp = $X\n$Y := *$Pp", ""},
	{"pointer", "param-out", true, "func $Pf(p *string, v string) { *p = v }\n", "var $Pt string\n$Pf(&$Pt, $X)\n$Y := $Pt", ""},
	{"pointer", "param-in", true, "func $Pf(p *string) string { return *p }\n", "$Pt := $X\n$Y := $Pf(&$Pt)", ""},
	{"pointer", "ret-ptr", true, "func $Pf(v string) *string { return &v }\n", "$Y := *$Pf($X)", ""},
	{"pointer", "ptrptr", true, "", "var $Pt string\n$Pp := &$Pt\n$Pq := &$Pp\n**$Pq = $X\n$Y := $Pt", ""},
	{"pointer", "two-aliases", true, "", "var $Pt string\n$Pp := &$Pt\n$Pq := $Pp\n*$Pq = $X\n$Y := *$Pp", ""},
	{"pointer", "cond-alias", true, "", "var $Pt, $Pu string\n$Pp := &$Pt\nif $C {\n$Pp = &$Pu\n}\n*$Pp = $X\n$Y := $Pt + $Pu", ""},

	// ------------------------------------------------------------------ slices and arrays (local, parameter)
	{"slice", "local", true, "", "$Ps := make([]string, 3)\n$Ps[1] = $X\n$Y := $Ps[1]", ""},
	{"slice", "literal", true, "", "$Ps := []string{\"a\", $X}\n$Y := $Ps[1]", ""},
	{"slice", "param-fill", true, "func $Pf(s []string, v string) { s[0] = v }\n", "$Ps := make([]string, 2)\n$Pf($Ps, $X)\n$Y := $Ps[0]", ""},
	{"slice", "param-read", true, "func $Pf(s []string) string { return s[0] }\n", "$Y := $Pf([]string{$X})", ""},
	{"slice", "range", true, "", "$Ps := []string{$X}\n$Y := \"\"\nfor _, $Pv := range $Ps {\n$Y += $Pv\n}", ""},
	{"slice", "range-index", true, "", "$Ps := []string{$X}\n$Y := \"\"\nfor $Pi := range $Ps {\n$Y += $Ps[$Pi]\n}", ""},
	{"slice", "reslice", true, "", "$Ps := []string{\"a\", $X, \"b\"}\n$Pt := $Ps[1:]\n$Y := $Pt[0]", ""},
	{"slice", "of-slices", true, "", "$Ps := [][]string{{\"a\"}, {$X}}\n$Y := $Ps[1][0]", ""},
	{"slice", "ret-slice", true, "func $Pf(v string) []string { return []string{v} }\n", "$Y := $Pf($X)[0]", ""},
	{"array", "local", true, "", "var $Pa [3]string\n$Pa[2] = $X\n$Y := $Pa[2]", ""},
	{"array", "copy", true, "", "var $Pa [3]string\n$Pa[2] = $X\n$Pb := $Pa\n$Y := $Pb[2]", ""},
	{"array", "ptr-param", true, "func $Pf(a *[3]string, v string) { a[1] = v }\n", "var $Pa [3]string\n$Pf(&$Pa, $X)\n$Y := $Pa[1]", ""},
	{"array", "value-param", true, "func $Pf(a [2]string) string { return a[1] }\n", "$Y := $Pf([2]string{\"a\", $X})", ""},
	{"array", "range", true, "", "$Pa := [2]string{\"\", $X}\n$Y := \"\"\nfor _, $Pv := range $Pa {\n$Y += $Pv\n}", ""},
	{"array", "slice-of", true, "", "var $Pa [3]string\n$Pa[0] = $X\n$Ps := $Pa[:]\n$Y := $Ps[0]", ""},
	{"array", "dyn-index", true, "", "var $Pa [4]string\n$Pi := 1\nif $C {\n$Pi = 2\n}\n$Pa[$Pi] = $X\n$Y := $Pa[1] + $Pa[2]", ""},

	// ------------------------------------------------------------------ globals written in one function, read in another
	{"global", "scalar", true, "var $PG string\nfunc $Pw(v string) { $PG = v }\nfunc $Pr() string { return $PG }\n", "$Pw($X)\n$Y := $Pr()", ""},
	{"global", "same-func", true, "var $PG string\n", "$PG = $X\n$Y := $PG", ""},
	{"global", "struct-field", true, "var $PG struct{ a, b string }\nfunc $Pw(v string) { $PG.a = v }\nfunc $Pr() string { return $PG.a }\n", "$Pw($X)\n$Y := $Pr()", "global-indirect:struct-field"},
	{"global", "struct-whole", true, sDecl + "var $PG $PS\nfunc $Pw(v string) { $PG = $PS{a: v} }\nfunc $Pr() string { s := $PG; return s.a }\n", "$Pw($X)\n$Y := $Pr()", "global-indirect:struct-whole"},
	{"global", "slice-elem", true, "var $PG = make([]string, 2)\nfunc $Pw(v string) { $PG[1] = v }\nfunc $Pr() string { return $PG[1] }\n", "$Pw($X)\n$Y := $Pr()", "global-indirect:slice-elem"},
	{"global", "slice-assign", true, "var $PG []string\nfunc $Pw(v string) { $PG = []string{v} }\nfunc $Pr() string { return $PG[0] }\n", "$Pw($X)\n$Y := $Pr()", ""},
	{"global", "slice-append", true, "var $PG []string\nfunc $Pw(v string) { $PG = append($PG, v) }\nfunc $Pr() string { return $PG[len($PG)-1] }\n", "$Pw($X)\n$Y := $Pr()", ""},
	{"global", "array-elem", true, "var $PG [3]string\nfunc $Pw(v string) { $PG[1] = v }\nfunc $Pr() string { return $PG[1] }\n", "$Pw($X)\n$Y := $Pr()", "global-array-index"},
	{"global", "array-elem-same-func", true, "var $PG [3]string\n", "$PG[1] = $X\n$Y := $PG[1]", ""},
	{"global", "array-slice-read", true, "var $PG [3]string\nfunc $Pw(v string) { $PG[1] = v }\nfunc $Pr() string { s := $PG[:]; return s[1] }\n", "$Pw($X)\n$Y := $Pr()", "global-array-index"},
	{"global", "array-whole", true, "var $PG [2]string\nfunc $Pw(v string) { $PG = [2]string{\"a\", v} }\nfunc $Pr() string { a := $PG; return a[1] }\n", "$Pw($X)\n$Y := $Pr()", "global-indirect:array-whole"},
	{"global", "map", true, "var $PG = map[string]string{}\nfunc $Pw(v string) { $PG[\"k\"] = v }\nfunc $Pr() string { return $PG[\"k\"] }\n", "$Pw($X)\n$Y := $Pr()", "global-indirect:map"},
	{"global", "ptr", true, "var $PG *string\nfunc $Pw(v string) { $PG = &v }\nfunc $Pr() string { return *$PG }\n", "$Pw($X)\n$Y := $Pr()", ""},
	{"global", "ptr-store", true, "var $PG = new(string)\nfunc $Pw(v string) { *$PG = v }\nfunc $Pr() string { return *$PG }\n", "$Pw($X)\n$Y := $Pr()", "global-indirect:ptr-store"},
	{"global", "addr-returned", true, "var $PG string\nfunc $Pa() *string { return &$PG }\nfunc $Pw(v string) { $PG = v }\nfunc $Pr() string { return *$Pa() }\n", "$Pw($X)\n$Y := $Pr()", "global-address-returned"},
	{"global", "addr-returned-write", true, "var $PG string\nfunc $Pa() *string { return &$PG }\nfunc $Pw(v string) { *$Pa() = v }\nfunc $Pr() string { return $PG }\n", "$Pw($X)\n$Y := $Pr()", "global-address-returned"},
	{"global", "read-callarg", true, "var $PG string\nfunc $Pu(p *string) string { return *p }\nfunc $Pw(v string) { $PG = v }\nfunc $Pr() string { return $Pu(&$PG) }\n", "$Pw($X)\n$Y := $Pr()", "global-read-callarg"},
	{"global", "write-callarg", true, "var $PG string\nfunc $Ps(p *string, v string) { *p = v }\nfunc $Pw(v string) { $Ps(&$PG, v) }\nfunc $Pr() string { return $PG }\n", "$Pw($X)\n$Y := $Pr()", "global-indirect:write-callarg"},
	{"global", "read-phi", true, "var $PG, $PH string\nfunc $Pw(v string) { $PG = v }\nfunc $Pr() string {\np := &$PG\nif $C {\np = &$PH\n}\nreturn *p\n}\n", "$Pw($X)\n$Y := $Pr()", "global-read-phi"},
	{"global", "read-makeinterface", true, "var $PG string\nfunc $Pw(v string) { $PG = v }\nfunc $Pr() string {\nvar i any = &$PG\nreturn *(i.(*string))\n}\n", "$Pw($X)\n$Y := $Pr()", "global-indirect:read-makeinterface"},
	{"global", "read-storeval", true, "var $PG string\nfunc $Pw(v string) { $PG = v }\nfunc $Pr() string {\np := new(*string)\n*p = &$PG\nreturn **p\n}\n", "$Pw($X)\n$Y := $Pr()", "global-read-storeval"},
	{"global", "iface", true, "var $PG any\nfunc $Pw(v string) { $PG = v }\nfunc $Pr() string { s, _ := $PG.(string); return s }\n", "$Pw($X)\n$Y := $Pr()", ""},
	{"global", "func", true, "var $PG func() string\nfunc $Pw(v string) { $PG = func() string { return v } }\nfunc $Pr() string { return $PG() }\n", "$Pw($X)\n$Y := $Pr()", ""},
	{"global", "struct-ptr", true, sDecl + "var $PG = &$PS{}\nfunc $Pw(v string) { $PG.a = v }\nfunc $Pr() string { return $PG.a }\n", "$Pw($X)\n$Y := $Pr()", "global-indirect:struct-ptr"},
	{"global", "chan", true, "var $PG = make(chan string, 1)\nfunc $Pw(v string) { $PG <- v }\nfunc $Pr() string { return <-$PG }\n", "$Pw($X)\n$Y := $Pr()", "global-indirect:chan"},
	{"global", "closure-read", true, "var $PG string\nfunc $Pw(v string) { $PG = v }\nfunc $Pr() string { f := func() string { return $PG }; return f() }\n", "$Pw($X)\n$Y := $Pr()", ""},
	{"global", "two-hop", true, "var $PG, $PH string\nfunc $Pw(v string) { $PG = v }\nfunc $Pm() { $PH = $PG }\nfunc $Pr() string { return $PH }\n", "$Pw($X)\n$Pm()\n$Y := $Pr()", ""},

	// ------------------------------------------------------------------ globals, continued: context-free arrival at a pointer / slice /
	// map / struct-pointer PARAMETER (an out-parameter filled from a global: the flow reaches the parameter after the jump
	// through the global, i.e. without calling context, and must go on to a caller that nothing else has summarised yet)
	{"global", "outparam-ptr", true, "var $PG string\nfunc $Pw(v string) { $PG = v }\nfunc $Pl(out *string) { *out = $PG }\nfunc $Pr() string {\nvar s string\n$Pl(&s)\nreturn s\n}\n", "$Pw($X)\n$Y := $Pr()", ""},
	{"global", "outparam-ptr-2levels", true, "var $PG string\nfunc $Pw(v string) { $PG = v }\nfunc $Pl(out *string) { *out = $PG }\nfunc $Pm(out *string) { $Pl(out) }\nfunc $Pr() string {\nvar s string\n$Pm(&s)\nreturn s\n}\n", "$Pw($X)\n$Y := $Pr()", ""},
	{"global", "outparam-ptr-reader-2levels", true, "var $PG string\nfunc $Pw(v string) { $PG = v }\nfunc $Pl(out *string) { *out = $PG }\nfunc $Pq() string {\nvar s string\n$Pl(&s)\nreturn s\n}\nfunc $Pr() string { return $Pq() }\n", "$Pw($X)\n$Y := $Pr()", ""},
	{"global", "outparam-slice", true, "var $PG string\nfunc $Pw(v string) { $PG = v }\nfunc $Pl(out []string) { out[0] = $PG }\nfunc $Pr() string {\ns := make([]string, 1)\n$Pl(s)\nreturn s[0]\n}\n", "$Pw($X)\n$Y := $Pr()", ""},
	{"global", "outparam-map", true, "var $PG string\nfunc $Pw(v string) { $PG = v }\nfunc $Pl(out map[string]string) { out[\"k\"] = $PG }\nfunc $Pr() string {\nm := map[string]string{}\n$Pl(m)\nreturn m[\"k\"]\n}\n", "$Pw($X)\n$Y := $Pr()", ""},
	{"global", "outparam-struct", true, sDecl + "var $PG string\nfunc $Pw(v string) { $PG = v }\nfunc $Pl(out *$PS) { out.a = $PG }\nfunc $Pr() string {\nvar s $PS\n$Pl(&s)\nreturn s.a\n}\n", "$Pw($X)\n$Y := $Pr()", ""},
	{"global", "outparam-sink-in-reader", true, "var $PG string\nfunc $Pw(v string) { $PG = v }\nfunc $Pl(out *string) { *out = $PG }\nfunc $Pid(v string) string { return v }\nfunc $Pr() string {\nvar s string\n$Pl(&s)\nt := $Pid(s)\nreturn t\n}\n", "$Pw($X)\n$Y := $Pr()", ""},
	{"global", "inparam-from-global", true, "var $PG string\nfunc $Pw(v string) { $PG = v }\nfunc $Pu(v string) string { return v }\nfunc $Pr() string { return $Pu($PG) }\n", "$Pw($X)\n$Y := $Pr()", ""},
	// readers / writers of the global inside generic function instances, methods of generic types, closures, closures
	// installed by init, methods and method values
	{"global", "read-generic", true, "var $PG string\nfunc $Pw(v string) { $PG = v }\nfunc $Pget[T any]() string { return $PG }\nfunc $Pr() string { return $Pget[int]() }\n", "$Pw($X)\n$Y := $Pr()", ""},
	{"global", "read-generic-param", true, "var $PG string\nfunc $Pw(v string) { $PG = v }\nfunc $Pget[T any](t T) (T, string) { return t, $PG }\nfunc $Pr() string {\n_, s := $Pget(1)\nreturn s\n}\n", "$Pw($X)\n$Y := $Pr()", ""},
	{"global", "write-generic", true, "var $PG string\nfunc $Pset[T any](t T, v string) { $PG = v }\nfunc $Pw(v string) { $Pset(0, v) }\nfunc $Pr() string { return $PG }\n", "$Pw($X)\n$Y := $Pr()", ""},
	{"global", "read-generic-method", true, "var $PG string\nfunc $Pw(v string) { $PG = v }\ntype $PB[T any] struct{ t T }\nfunc (b $PB[T]) get() string { return $PG }\nfunc $Pr() string { return $PB[int]{}.get() }\n", "$Pw($X)\n$Y := $Pr()", ""},
	{"global", "write-generic-method", true, "var $PG string\ntype $PB[T any] struct{ t T }\nfunc (b *$PB[T]) set(v string) { $PG = v }\nfunc $Pw(v string) { (&$PB[int]{}).set(v) }\nfunc $Pr() string { return $PG }\n", "$Pw($X)\n$Y := $Pr()", ""},
	{"global", "write-closure", true, "var $PG string\nfunc $Pw(v string) {\nf := func() { $PG = v }\nf()\n}\nfunc $Pr() string { return $PG }\n", "$Pw($X)\n$Y := $Pr()", ""},
	{"global", "read-init-closure", true, "var $PG string\nfunc $Pw(v string) { $PG = v }\nvar $Pf func() string\nfunc init() { $Pf = func() string { return $PG } }\nfunc $Pr() string { return $Pf() }\n", "$Pw($X)\n$Y := $Pr()", ""},
	{"global", "write-init-closure", true, "var $PG string\nvar $Pset func(string)\nfunc init() { $Pset = func(v string) { $PG = v } }\nfunc $Pw(v string) { $Pset(v) }\nfunc $Pr() string { return $PG }\n", "$Pw($X)\n$Y := $Pr()", ""},
	{"global", "read-method", true, "var $PG string\nfunc $Pw(v string) { $PG = v }\ntype $PT struct{}\nfunc ($PT) get() string { return $PG }\nfunc $Pr() string { return $PT{}.get() }\n", "$Pw($X)\n$Y := $Pr()", ""},
	{"global", "read-method-value", true, "var $PG string\nfunc $Pw(v string) { $PG = v }\ntype $PT struct{}\nfunc ($PT) get() string { return $PG }\nfunc $Pr() string {\ng := $PT{}.get\nreturn g()\n}\n", "$Pw($X)\n$Y := $Pr()", ""},
	{"global", "write-method-value", true, "var $PG string\ntype $PT struct{}\nfunc (*$PT) set(v string) { $PG = v }\nfunc $Pw(v string) {\nf := (&$PT{}).set\nf(v)\n}\nfunc $Pr() string { return $PG }\n", "$Pw($X)\n$Y := $Pr()", ""},
	{"global", "read-iface-method", true, "var $PG string\nfunc $Pw(v string) { $PG = v }\ntype $PI interface{ get() string }\ntype $PT struct{}\nfunc ($PT) get() string { return $PG }\nfunc $Pr() string {\nvar i $PI = $PT{}\nreturn i.get()\n}\n", "$Pw($X)\n$Y := $Pr()", ""},
	{"global", "read-deferred", true, "var $PG string\nfunc $Pw(v string) { $PG = v }\nfunc $Pr() (r string) {\ndefer func() { r = $PG }()\nreturn \"\"\n}\n", "$Pw($X)\n$Y := $Pr()", ""},

	// ------------------------------------------------------------------ flows through callbacks that the source rewrites
	// (internal/rewrite: sort.Sort/Stable/IsSorted -> calls of Len/Less/Swap; sort.Slice/SliceStable, (*sync.Once).Do -> call
	// of the function argument) synthesise; judged with rewrites on AND off
	{"rewrite", "sort.Sort-swap-elems", true, "type $PT struct{ xs []string }\nfunc (t $PT) Len() int { return len(t.xs) }\nfunc (t $PT) Less(i, j int) bool { return len(t.xs[i]) < len(t.xs[j]) }\nfunc (t $PT) Swap(i, j int) { t.xs[i], t.xs[j] = t.xs[j], t.xs[i] }\n", "$Pt := $PT{[]string{$X, \"\"}}\nsort.Sort($Pt)\n$Y := $Pt.xs[1]", ""},
	{"rewrite", "sort.Slice-less", true, "", "var $Pl string\n$Ps := []string{\"b\", \"a\"}\nsort.Slice($Ps, func(i, j int) bool {\n$Pl = $X\nreturn $Ps[i] < $Ps[j]\n})\n$Y := $Pl", ""},
	{"rewrite", "sort.SliceStable-less", true, "", "var $Pl string\n$Ps := []string{\"b\", \"a\"}\nsort.SliceStable($Ps, func(i, j int) bool {\n$Pl = $X\nreturn $Ps[i] < $Ps[j]\n})\n$Y := $Pl", ""},
	{"rewrite", "sort.Slice-elems", true, "", "$Ps := []string{$X, \"\"}\nsort.Slice($Ps, func(i, j int) bool { return len($Ps[i]) < len($Ps[j]) })\n$Y := $Ps[1]", ""},
	{"rewrite", "sync.Once.Do", true, "", "var $Pl string\nvar $Po sync.Once\n$Po.Do(func() { $Pl = $X })\n$Y := $Pl", ""},
	{"rewrite", "sync.Once.Do-named", true, "var $PG string\nvar $PV string\nfunc $Pf() { $PV = $PG }\n", "$PG = $X\nvar $Po sync.Once\n$Po.Do($Pf)\n$Y := $PV", ""},
	{"rewrite", "sync.Once.Do-ptr", true, "", "var $Pl string\n$Po := &sync.Once{}\n$Po.Do(func() { $Pl = $X })\n$Y := $Pl", ""},

	// ------------------------------------------------------------------ taint AFTER insert: a clean slice/map/pointer/struct is stored
	// into a container, its shared memory is tainted afterwards through the original variable, the value is read back
	// through the container (the wraps ai-* sink the container itself)
	{"afterinsert", "map-slice", true, "", "$Pr := make([]string, 1)\n$Pm := map[string][]string{}\n$Pm[\"k\"] = $Pr\n$Pr[0] = $X\n$Y := $Pm[\"k\"][0]", ""},
	{"afterinsert", "map-map", true, "", "$Pr := map[string]string{}\n$Pm := map[string]map[string]string{}\n$Pm[\"k\"] = $Pr\n$Pr[\"i\"] = $X\n$Y := $Pm[\"k\"][\"i\"]", ""},
	{"afterinsert", "map-ptr", true, "", "$Pr := new(string)\n$Pm := map[string]*string{}\n$Pm[\"k\"] = $Pr\n*$Pr = $X\n$Y := *$Pm[\"k\"]", ""},
	{"afterinsert", "map-any-ptr", true, "", "$Pr := new(string)\n$Pm := map[string]any{}\n$Pm[\"k\"] = $Pr\n*$Pr = $X\n$Y := *($Pm[\"k\"].(*string))", ""},
	{"afterinsert", "map-struct-slice", true, "type $PS struct{ xs []string }\n", "$Pr := make([]string, 1)\n$Pm := map[string]$PS{}\n$Pm[\"k\"] = $PS{$Pr}\n$Pr[0] = $X\n$Y := $Pm[\"k\"].xs[0]", ""},
	{"afterinsert", "map-chan", true, "", "$Pr := make(chan string, 1)\n$Pm := map[string]chan string{}\n$Pm[\"k\"] = $Pr\n$Pr <- $X\n$Y := <-$Pm[\"k\"]", ""},
	{"afterinsert", "slice-slice", true, "", "$Pr := make([]string, 1)\n$Pm := make([][]string, 1)\n$Pm[0] = $Pr\n$Pr[0] = $X\n$Y := $Pm[0][0]", ""},
	{"afterinsert", "struct-slice", true, "type $PS struct{ xs []string }\n", "$Pr := make([]string, 1)\nvar $Pm $PS\n$Pm.xs = $Pr\n$Pr[0] = $X\n$Y := $Pm.xs[0]", ""},
	{"afterinsert", "chan-slice", true, "", "$Pr := make([]string, 1)\n$Pm := make(chan []string, 1)\n$Pm <- $Pr\n$Pr[0] = $X\n$Y := (<-$Pm)[0]", ""},
	{"afterinsert", "iface-slice", true, "", "$Pr := make([]string, 1)\nvar $Pm any = $Pr\n$Pr[0] = $X\n$Y := $Pm.([]string)[0]", ""},
	{"afterinsert", "append-slice", true, "", "$Pr := make([]string, 1)\nvar $Pm [][]string\n$Pm = append($Pm, $Pr)\n$Pr[0] = $X\n$Y := $Pm[0][0]", ""},

	{"rewrite", "sort.Sort-ptr-swap", true, "type $PT struct {\nxs []string\nv, log string\n}\nfunc (t *$PT) Len() int {\nreturn len(t.xs)\n}\nfunc (t *$PT) Less(i, j int) bool {\nreturn t.xs[i] < t.xs[j]\n}\nfunc (t *$PT) Swap(i, j int) {\nt.log = t.v\nt.xs[i], t.xs[j] = t.xs[j], t.xs[i]\n}\n", "$Pt := &$PT{xs: []string{\"b\", \"a\", \"c\"}, v: $X}\nsort.Sort($Pt)\n$Y := $Pt.log", ""},
	{"rewrite", "sort.Sort-ptr-less", true, "type $PT struct {\nxs []string\nv, log string\n}\nfunc (t *$PT) Len() int {\nreturn len(t.xs)\n}\nfunc (t *$PT) Less(i, j int) bool {\nt.log = t.v\nreturn t.xs[i] < t.xs[j]\n}\nfunc (t *$PT) Swap(i, j int) {\nt.xs[i], t.xs[j] = t.xs[j], t.xs[i]\n}\n", "$Pt := &$PT{xs: []string{\"b\", \"a\", \"c\"}, v: $X}\nsort.Sort($Pt)\n$Y := $Pt.log", ""},
	{"rewrite", "sort.Sort-ptr-len", true, "type $PT struct {\nxs []string\nv, log string\n}\nfunc (t *$PT) Len() int {\nt.log = t.v\nreturn len(t.xs)\n}\nfunc (t *$PT) Less(i, j int) bool {\nreturn t.xs[i] < t.xs[j]\n}\nfunc (t *$PT) Swap(i, j int) {\nt.xs[i], t.xs[j] = t.xs[j], t.xs[i]\n}\n", "$Pt := &$PT{xs: []string{\"b\", \"a\", \"c\"}, v: $X}\nsort.Sort($Pt)\n$Y := $Pt.log", ""},
	{"rewrite", "sort.Stable-ptr-swap", true, "type $PT struct {\nxs []string\nv, log string\n}\nfunc (t *$PT) Len() int {\nreturn len(t.xs)\n}\nfunc (t *$PT) Less(i, j int) bool {\nreturn t.xs[i] < t.xs[j]\n}\nfunc (t *$PT) Swap(i, j int) {\nt.log = t.v\nt.xs[i], t.xs[j] = t.xs[j], t.xs[i]\n}\n", "$Pt := &$PT{xs: []string{\"b\", \"a\", \"c\"}, v: $X}\nsort.Stable($Pt)\n$Y := $Pt.log", ""},
	{"rewrite", "sort.IsSorted-ptr-less", true, "type $PT struct {\nxs []string\nv, log string\n}\nfunc (t *$PT) Len() int {\nreturn len(t.xs)\n}\nfunc (t *$PT) Less(i, j int) bool {\nt.log = t.v\nreturn t.xs[i] < t.xs[j]\n}\nfunc (t *$PT) Swap(i, j int) {\nt.xs[i], t.xs[j] = t.xs[j], t.xs[i]\n}\n", "$Pt := &$PT{xs: []string{\"b\", \"a\", \"c\"}, v: $X}\n_ = sort.IsSorted($Pt)\n$Y := $Pt.log", ""},
	{"rewrite", "direct-ptr-swap", true, "type $PT struct {\nxs []string\nv, log string\n}\nfunc (t *$PT) Len() int {\nreturn len(t.xs)\n}\nfunc (t *$PT) Less(i, j int) bool {\nreturn t.xs[i] < t.xs[j]\n}\nfunc (t *$PT) Swap(i, j int) {\nt.log = t.v\nt.xs[i], t.xs[j] = t.xs[j], t.xs[i]\n}\n", "$Pt := &$PT{xs: []string{\"b\", \"a\", \"c\"}, v: $X}\n$Pt.Swap(0, 1)\n$Y := $Pt.log", ""},
	{"field", "value-recv-writes-through-ptr-field", true, "type $PT struct {\nlog *string\nv string\n}\nfunc (t $PT) put() { *t.log = t.v }\n", "var $Pl string\n$PT{&$Pl, $X}.put()\n$Y := $Pl", ""},
	// a parameter that receives the taint only through a SELF-recursive call
	{"rec", "acc-via-self-call", true, "func $Pf(acc, x string, n int) string {\nif n <= 0 {\nreturn acc\n}\nreturn $Pf(x, x, n-1)\n}\n", "$Y := $Pf(\"\", $X, 2)", ""},
	{"rec", "acc-via-self-call-concat", true, "func $Pf(acc, x string, n int) string {\nif n <= 0 {\nreturn acc\n}\nreturn $Pf(acc+x, x, n-1)\n}\n", "$Y := $Pf(\"\", $X, 2)", ""},

	// ------------------------------------------------------------------ maps
	{"map", "update-lookup", true, "", "$Pm := map[string]string{}\n$Pm[\"k\"] = $X\n$Y := $Pm[\"k\"]", ""},
	{"map", "literal", true, "", "$Pm := map[string]string{\"k\": $X}\n$Y := $Pm[\"k\"]", ""},
	{"map", "commaok", true, "", "$Pm := map[string]string{\"k\": $X}\n$Y, _ := $Pm[\"k\"]", ""},
	{"map", "range-value", true, "", "$Pm := map[string]string{\"k\": $X}\n$Y := \"\"\nfor _, $Pv := range $Pm {\n$Y += $Pv\n}", ""},
	{"map", "range-key", true, "", "$Pm := map[string]int{$X: 1}\n$Y := \"\"\nfor $Pk := range $Pm {\n$Y += $Pk\n}", ""},
	{"map", "param-fill", true, "func $Pf(m map[string]string, v string) { m[\"k\"] = v }\n", "$Pm := map[string]string{}\n$Pf($Pm, $X)\n$Y := $Pm[\"k\"]", ""},
	{"map", "of-slices", true, "", "$Pm := map[string][]string{}\n$Pm[\"k\"] = append($Pm[\"k\"], $X)\n$Y := $Pm[\"k\"][0]", ""},
	{"map", "int-key", true, "", "$Pm := map[int]string{}\n$Pm[3] = $X\n$Y := $Pm[3]", ""},
	{"neg", "map-delete", false, "", "$Pm := map[string]string{\"k\": $X}\ndelete($Pm, \"k\")\n$Y := $Pm[\"k\"] + \"clean\"", ""},
	{"neg", "map-clear", false, "", "$Pm := map[string]string{\"k\": $X}\nclear($Pm)\n$Y := $Pm[\"k\"] + \"clean\"", ""},

	// ------------------------------------------------------------------ channels (same goroutine)
	{"chan", "buffered", true, "", "$Pc := make(chan string, 1)\n$Pc <- $X\n$Y := <-$Pc", ""},
	{"chan", "commaok", true, "", "$Pc := make(chan string, 1)\n$Pc <- $X\n$Y, _ := <-$Pc", ""},
	{"chan", "range-close", true, "", "$Pc := make(chan string, 1)\n$Pc <- $X\nclose($Pc)\n$Y := \"\"\nfor $Pv := range $Pc {\n$Y += $Pv\n}", ""},
	{"chan", "param-send", true, "func $Pf(c chan string, v string) { c <- v }\n", "$Pc := make(chan string, 1)\n$Pf($Pc, $X)\n$Y := <-$Pc", ""},
	{"chan", "param-recv", true, "func $Pf(c <-chan string) string { return <-c }\n", "$Pc := make(chan string, 1)\n$Pc <- $X\n$Y := $Pf($Pc)", ""},
	{"chan", "select-recv", true, "", "$Pc := make(chan string, 1)\n$Pc <- $X\n$Y := \"\"\nselect {\ncase $Pv := <-$Pc:\n$Y = $Pv\ndefault:\n}", ""},
	{"chan", "select-send", true, "", "$Pc := make(chan string, 1)\nselect {\ncase $Pc <- $X:\ndefault:\n}\n$Y := <-$Pc", ""},
	{"chan", "of-struct", true, sDecl, "$Pc := make(chan $PS, 1)\n$Pc <- $PS{a: $X}\n$Y := (<-$Pc).a", ""},

	// ------------------------------------------------------------------ interfaces
	{"iface", "box-assert", true, "", "var $Pi any = $X\n$Y := $Pi.(string)", ""},
	{"iface", "commaok", true, "", "var $Pi any = $X\n$Y, _ := $Pi.(string)", ""},
	{"iface", "typeswitch", true, "", "var $Pi any = $X\n$Y := \"\"\nswitch $Pv := $Pi.(type) {\ncase string:\n$Y = $Pv\ncase int:\n$Y = \"i\"\n}", ""},
	{"iface", "invoke", true, iDecl, "var $Pi $PI = $PT{$X}\n$Y := $Pi.Get()", ""},
	{"iface", "invoke-ptr", true, iDecl, "var $Pi $PI = &$PT{$X}\n$Y := $Pi.Get()", ""},
	{"iface", "invoke-set", true, "type $PJ interface{ Get() string; Set(string) }\n" + tDecl, "var $Pi $PJ = &$PT{}\n$Pi.Set($X)\n$Y := $Pi.Get()", ""},
	{"iface", "two-impls", true, iDecl + "type $PU struct{ w string }\nfunc (u $PU) Get() string { return \"u\" + u.w }\n", "var $Pi $PI = $PT{$X}\nif $C {\n$Pi = $PU{$X}\n}\n$Y := $Pi.Get()", ""},
	{"iface", "param", true, iDecl + "func $Pf(i $PI) string { return i.Get() }\n", "$Y := $Pf($PT{$X})", ""},
	{"iface", "assert-struct", true, tDecl, "var $Pi any = $PT{$X}\n$Y := $Pi.($PT).v", ""},
	{"iface", "assert-iface", true, iDecl, "var $Pi any = $PT{$X}\n$Y := $Pi.($PI).Get()", ""},
	{"iface", "any-slice", true, "", "$Ps := []any{1, $X}\n$Y := $Ps[1].(string)", ""},
	{"iface", "error", true, "type $PE struct{ m string }\nfunc (e $PE) Error() string { return e.m }\n", "var $Pe error = $PE{$X}\n$Y := $Pe.Error()", ""},
	{"iface", "stringer-sprint", true, "type $PT struct{ v string }\nfunc (t $PT) String() string { return t.v }\n", "$Y := fmt.Sprint($PT{$X})", ""},

	// ------------------------------------------------------------------ closures
	{"closure", "by-value-after", true, "", "$Pf := func() string { return $X }\n$Y := $Pf()", ""},
	{"closure", "ref-taint-after", true, "", "var $Pt string\n$Pf := func() string { return $Pt }\n$Pt = $X\n$Y := $Pf()", ""},
	{"closure", "writes-captured", true, "", "var $Pt string\n$Pf := func() { $Pt = $X }\n$Pf()\n$Y := $Pt", ""},
	{"closure", "writes-captured-param", true, "", "var $Pt string\n$Pf := func(v string) { $Pt = v }\n$Pf($X)\n$Y := $Pt", ""},
	{"closure", "param", true, "", "$Pf := func(v string) string { return v }\n$Y := $Pf($X)", ""},
	{"closure", "returned", true, "func $Pm(v string) func() string { return func() string { return v } }\n", "$Y := $Pm($X)()", ""},
	{"closure", "passed", true, "func $Pa(f func() string) string { return f() }\n", "$Y := $Pa(func() string { return $X })", ""},
	{"closure", "nested", true, "", "$Pf := func() func() string { return func() string { return $X } }\n$Y := $Pf()()", ""},
	{"closure", "setter-getter", true, "func $Pm() (func(string), func() string) {\nvar t string\nreturn func(v string) { t = v }, func() string { return t }\n}\n", "$Ps, $Pg := $Pm()\n$Ps($X)\n$Y := $Pg()", ""},
	{"closure", "iife", true, "", "$Y := func() string { return $X }()", ""},
	{"closure", "in-struct", true, "type $PS struct{ f func() string }\n", "$Ps := $PS{f: func() string { return $X }}\n$Y := $Ps.f()", ""},
	{"closure", "captures-ptr", true, "", "$Pt := new(string)\n$Pf := func() { *$Pt = $X }\n$Pf()\n$Y := *$Pt", ""},
	{"closure", "captured-struct", true, sDecl, "var $Ps $PS\n$Pf := func() { $Ps.a = $X }\n$Pf()\n$Y := $Ps.a", ""},
	{"closure", "loop-capture", true, "", "var $Pfs []func() string\nfor _, $Pv := range []string{\"a\", $X} {\n$Pfs = append($Pfs, func() string { return $Pv })\n}\n$Y := $Pfs[1]()", ""},
	{"closure", "passed-writes", true, "func $Pa(f func(string), v string) { f(v) }\n", "var $Pt string\n$Pa(func(v string) { $Pt = v }, $X)\n$Y := $Pt", ""},

	// ------------------------------------------------------------------ parameters
	{"param", "id", true, idDecl, "$Y := $Pf($X)", ""},
	{"param", "id2", true, idDecl + "func $Pg(v string) string { return $Pf(v) }\n", "$Y := $Pg($X)", ""},
	{"param", "second", true, "func $Pf(a, b string) string { return b }\n", "$Y := $Pf(\"c\", $X)", ""},
	{"param", "named-result", true, "func $Pf(v string) (r string) {\nr = v\nreturn\n}\n", "$Y := $Pf($X)", ""},
	{"param", "many", true, "func $Pf(a, b, c, d, e string) string { return a + e }\n", "$Y := $Pf(\"1\", \"2\", \"3\", \"4\", $X)", ""},
	{"param", "reassigned", true, "func $Pf(v string) string {\nw := \"w\"\nw, v = v, w\nreturn w\n}\n", "$Y := $Pf($X)", ""},
	{"param", "two-calls", true, idDecl, "$Pa := $Pf(\"clean\")\n$Y := $Pf($X) + $Pa", ""},
	// a parameter that is first reached from INSIDE the callee (edge s -> p) and later from the call site through a longer path
	// (finding of builder trav: Prev-dependent expansion of ParamNode + seen dedup)
	{"param", "inside-first", true, idDecl + "func $Pg(s string, p *string) string {\nr := *p\n*p = s\nreturn r\n}\n", "$Pt := $Pf($Pf($X))\n$Y := $Pg($X, &$Pt)", "param-reached-from-inside-first"},
	{"neg", "other-param", false, "func $Pf(a, b string) string { return b }\n", "$Y := $Pf($X, \"clean\")", ""},

	// ------------------------------------------------------------------ 1-4 result returns (rN = number of return statements)
	{"ret", "n1j0r1", true, "func $Pf(v string) string { return v }\n", "$Y := $Pf($X)", ""},
	{"ret", "n2j0r1", true, "func $Pf(v string) (string, string) { return v, \"b\" }\n", "$Y, _ := $Pf($X)", ""},
	{"ret", "n2j1r1", true, "func $Pf(v string) (string, string) { return \"a\", v }\n", "_, $Y := $Pf($X)", ""},
	{"ret", "n3j0r1", true, "func $Pf(v string) (string, int, string) { return v, 1, \"c\" }\n", "$Y, _, _ := $Pf($X)", ""},
	{"ret", "n3j1r1", true, "func $Pf(v string) (int, string, string) { return 1, v, \"c\" }\n", "_, $Y, _ := $Pf($X)", ""},
	{"ret", "n3j2r1", true, "func $Pf(v string) (int, int, string) { return 1, 2, v }\n", "_, _, $Y := $Pf($X)", "return-tuple-index-bound"},
	{"ret", "n4j2r1", true, "func $Pf(v string) (int, int, string, int) { return 1, 2, v, 4 }\n", "_, _, $Y, _ := $Pf($X)", "return-tuple-index-bound"},
	{"ret", "n4j3r1", true, "func $Pf(v string) (int, int, int, string) { return 1, 2, 3, v }\n", "_, _, _, $Y := $Pf($X)", "return-tuple-index-bound"},
	{"ret", "n3j2r2", true, "func $Pf(v string) (int, int, string) {\nif $C {\nreturn 3, 4, v\n}\nreturn 1, 2, v\n}\n", "_, _, $Y := $Pf($X)", ""},
	{"ret", "n4j3r2", true, "func $Pf(v string) (int, int, int, string) {\nif $C {\nreturn 3, 4, 5, v\n}\nreturn 1, 2, 3, v\n}\n", "_, _, _, $Y := $Pf($X)", "return-tuple-index-bound"},
	{"ret", "n4j3r3", true, "func $Pf(v string) (int, int, int, string) {\nif $C {\nreturn 3, 4, 5, v\n}\nif $D {\nreturn 6, 7, 8, v\n}\nreturn 1, 2, 3, v\n}\n", "_, _, _, $Y := $Pf($X)", ""},
	{"ret", "n3j2-named", true, "func $Pf(v string) (a int, b int, c string) {\nc = v\nreturn\n}\n", "_, _, $Y := $Pf($X)", "return-tuple-index-bound"},
	{"ret", "tuple-forward", true, "func $Pf(v string) (string, string) { return \"a\", v }\nfunc $Pg(v string) (string, string) { return $Pf(v) }\n", "_, $Y := $Pg($X)", ""},
	{"ret", "tuple-as-args", true, "func $Pf(v string) (string, string) { return \"a\", v }\nfunc $Ph(a, b string) string { return b }\n", "$Y := $Ph($Pf($X))", ""},
	{"ret", "n2-error", true, "func $Pf(v string) (string, error) { return v, nil }\n", "$Y, $Pe := $Pf($X)\nif $Pe != nil {\n$Y = \"\"\n}", ""},

	// ------------------------------------------------------------------ two or three results of ONE call merged into one value or
	// argument (the summary out-edge from the call node to the merging node carries one EdgeInfo per tuple index); taint in
	// result 0 / 1 / 2; variants 2src-* call a SECOND source (source$Q, marker #$Q#) so that two different sources arrive
	// through two results of the same call: both (source, sink) pairs must be reported
	{"multires", "concat-r0", true, pairDecl, "$Pa, $Pb := $Pf($X, \"c\")\n$Y := $Pa + \"/\" + $Pb", ""},
	{"multires", "concat-r1", true, pairDecl, "$Pa, $Pb := $Pf(\"c\", $X)\n$Y := $Pa + \"/\" + $Pb", ""},
	{"multires", "concat-both", true, pairDecl, "$Pa, $Pb := $Pf($X, $X+\"2\")\n$Y := $Pa + \"/\" + $Pb", ""},
	{"multires", "concat3-r0", true, tripleDecl, "$Pa, $Pb, $Pc := $Pt($X, \"c\", \"d\")\n$Y := $Pa + $Pb + $Pc", ""},
	{"multires", "concat3-r1", true, tripleDecl, "$Pa, $Pb, $Pc := $Pt(\"c\", $X, \"d\")\n$Y := $Pa + $Pb + $Pc", ""},
	{"multires", "concat3-r2", true, tripleDecl, "$Pa, $Pb, $Pc := $Pt(\"c\", \"d\", $X)\n$Y := $Pa + $Pb + $Pc", ""},
	{"multires", "struct-r0", true, pairDecl + sDecl, "$Pa, $Pb := $Pf($X, \"c\")\n$Ps := $PS{$Pa, $Pb}\n$Y := $Ps.a + $Ps.b", ""},
	{"multires", "struct-r1", true, pairDecl + sDecl, "$Pa, $Pb := $Pf(\"c\", $X)\n$Ps := $PS{$Pa, $Pb}\n$Y := $Ps.a + $Ps.b", ""},
	{"multires", "slice-r0", true, pairDecl, "$Pa, $Pb := $Pf($X, \"c\")\n$Ps := []string{$Pa, $Pb}\n$Y := $Ps[0] + $Ps[1]", ""},
	{"multires", "slice-r1", true, pairDecl, "$Pa, $Pb := $Pf(\"c\", $X)\n$Ps := []string{$Pa, $Pb}\n$Y := strings.Join($Ps, \"/\")", ""},
	{"multires", "join-callee-r0", true, pairDecl + joinDecl, "$Pa, $Pb := $Pf($X, \"c\")\n$Y := $Pj($Pa, $Pb)", ""},
	{"multires", "join-callee-r1", true, pairDecl + joinDecl, "$Pa, $Pb := $Pf(\"c\", $X)\n$Y := $Pj($Pa, $Pb)", ""},
	{"multires", "join-tuple-args-r1", true, pairDecl + joinDecl, "$Y := $Pj($Pf(\"c\", $X))", ""},
	{"multires", "join-tuple-args-r0", true, pairDecl + joinDecl, "$Y := $Pj($Pf($X, \"c\"))", ""},
	{"multires", "rereturn-r0", true, pairDecl + "func $Pg(a, b string) (string, string) {\nx, y := $Pf(a, b)\nreturn y, x\n}\n", "$Pa, $Pb := $Pg($X, \"c\")\n$Y := $Pa + $Pb", ""},
	{"multires", "rereturn-r1", true, pairDecl + "func $Pg(a, b string) (string, string) {\nx, y := $Pf(a, b)\nreturn y, x\n}\n", "$Pa, $Pb := $Pg(\"c\", $X)\n$Y := $Pa + $Pb", ""},
	{"multires", "rereturn-forward-r1", true, pairDecl + "func $Pg(a, b string) (string, string) { return $Pf(a, b) }\n", "$Pa, $Pb := $Pg(\"c\", $X)\n$Y := $Pa + \"-\" + $Pb", ""},
	{"multires", "sprintf-r1", true, pairDecl, "$Pa, $Pb := $Pf(\"c\", $X)\n$Y := fmt.Sprintf(\"%s/%s\", $Pa, $Pb)", ""},
	{"multires", "triple-struct-r2", true, tripleDecl + "type $PU struct{ a, b, c string }\n", "$Pa, $Pb, $Pc := $Pt(\"c\", \"d\", $X)\n$Pu := $PU{$Pa, $Pb, $Pc}\n$Y := $Pu.a + $Pu.b + $Pu.c", ""},
	{"multires", "2src-concat", true, pairDecl + src2Decl, "$Pa, $Pb := $Pf($X, source$Q())\n$Y := $Pa + \"/\" + $Pb", ""},
	{"multires", "2src-concat-swapped", true, pairDecl + src2Decl, "$Pa, $Pb := $Pf(source$Q(), $X)\n$Y := $Pa + \"/\" + $Pb", ""},
	{"multires", "2src-struct", true, pairDecl + src2Decl + sDecl, "$Pa, $Pb := $Pf($X, source$Q())\n$Ps := $PS{$Pa, $Pb}\n$Y := $Ps.a + $Ps.b", ""},
	{"multires", "2src-join-callee", true, pairDecl + src2Decl + joinDecl, "$Pa, $Pb := $Pf(source$Q(), $X)\n$Y := $Pj($Pa, $Pb)", ""},
	{"multires", "2src-slice", true, pairDecl + src2Decl, "$Pa, $Pb := $Pf($X, source$Q())\n$Ps := []string{$Pa, $Pb}\n$Y := $Ps[0] + $Ps[1]", ""},
	{"multires", "2src-rereturn", true, pairDecl + src2Decl + "func $Pg(a, b string) (string, string) {\nx, y := $Pf(a, b)\nreturn y, x\n}\n", "$Pa, $Pb := $Pg($X, source$Q())\n$Y := $Pa + $Pb", ""},
	{"multires", "2src-triple", true, tripleDecl + src2Decl, "$Pa, $Pb, $Pc := $Pt($X, \"c\", source$Q())\n$Y := $Pa + $Pb + $Pc", ""},

	// ------------------------------------------------------------------ variadics
	{"variadic", "last", true, "func $Pf(xs ...string) string { return xs[len(xs)-1] }\n", "$Y := $Pf(\"a\", $X)", ""},
	{"variadic", "only", true, "func $Pf(xs ...string) string { return xs[0] }\n", "$Y := $Pf($X)", ""},
	{"variadic", "spread", true, "func $Pf(xs ...string) string { return xs[1] }\n", "$Y := $Pf([]string{\"a\", $X}...)", ""},
	{"variadic", "join", true, "func $Pf(xs ...string) string {\nr := \"\"\nfor _, x := range xs {\nr += x\n}\nreturn r\n}\n", "$Y := $Pf(\"a\", $X, \"b\")", ""},
	{"variadic", "fixed-plus", true, "func $Pf(p string, xs ...string) string { return p + xs[0] }\n", "$Y := $Pf(\"p\", $X)", ""},
	{"variadic", "any", true, "func $Pf(xs ...any) string { return xs[1].(string) }\n", "$Y := $Pf(1, $X)", ""},
	{"variadic", "forward", true, "func $Pf(xs ...string) string { return xs[0] }\nfunc $Pg(xs ...string) string { return $Pf(xs...) }\n", "$Y := $Pg($X)", ""},

	// ------------------------------------------------------------------ builtins with 1-4 operands
	{"builtin", "append1", true, "", "$Ps := []string{$X}\n$Pt := append($Ps)\n$Y := $Pt[0]", ""},
	{"builtin", "append2", true, "", "var $Ps []string\n$Ps = append($Ps, $X)\n$Y := $Ps[0]", ""},
	{"builtin", "append3", true, "", "var $Ps []string\n$Ps = append($Ps, \"a\", $X)\n$Y := $Ps[1]", ""},
	{"builtin", "append4", true, "", "var $Ps []string\n$Ps = append($Ps, \"a\", \"b\", $X)\n$Y := $Ps[2]", ""},
	{"builtin", "append-spread", true, "", "$Pt := []string{$X}\n$Ps := append([]string{\"a\"}, $Pt...)\n$Y := $Ps[1]", ""},
	{"builtin", "append-base", true, "", "$Ps := append([]string{$X}, \"a\")\n$Y := $Ps[0]", ""},
	{"builtin", "append-bytes-string", true, "", "$Pb := append([]byte(\"a\"), $X...)\n$Y := string($Pb)", ""},
	{"builtin", "append-alias", true, "", "$Ps := make([]string, 0, 4)\n$Pt := append($Ps, $X)\n$Y := $Ps[:1][0] + $Pt[0][:0]", ""},
	{"builtin", "copy-slice", true, "", "$Pd := make([]string, 1)\ncopy($Pd, []string{$X})\n$Y := $Pd[0]", ""},
	{"builtin", "copy-bytes-string", true, "", "$Pd := make([]byte, len($X))\ncopy($Pd, $X)\n$Y := string($Pd)", ""},
	{"builtin", "copy-bytes", true, "", "$Pd := make([]byte, len($X))\ncopy($Pd, []byte($X))\n$Y := string($Pd)", ""},
	{"builtin", "max1", true, "", "$Y := max($X)", "builtin-minmax-arity"},
	{"builtin", "max2", true, "", "$Y := max(\"!\", $X)", ""},
	{"builtin", "max2-first", true, "", "$Y := max($X, \"!\")", ""},
	{"builtin", "max3", true, "", "$Y := max(\"!\", \"!!\", $X)", "builtin-minmax-arity"},
	{"builtin", "max3-first", true, "", "$Y := max($X, \"!\", \"!!\")", "builtin-minmax-arity"},
	{"builtin", "max3-mid", true, "", "$Y := max(\"!\", $X, \"!!\")", "builtin-minmax-arity"},
	{"builtin", "max4", true, "", "$Y := max(\"!\", \"!!\", \"!!!\", $X)", "builtin-minmax-arity"},
	{"builtin", "min2", true, "", "$Y := min(\"~\", $X)", ""},
	{"builtin", "min3", true, "", "$Y := min(\"~\", \"~~\", $X)", "builtin-minmax-arity"},
	{"builtin", "min4", true, "", "$Y := min(\"~\", $X, \"~~\", \"~~~\")", "builtin-minmax-arity"},
	{"neg", "len", false, "", "$Y := strconv.Itoa(len($X))", ""},
	{"neg", "cap", false, "", "$Y := strconv.Itoa(cap([]byte($X)))", ""},

	// ------------------------------------------------------------------ method values / expressions, function values
	{"methodval", "value", true, tDecl, "$Pt := $PT{$X}\n$Pg := $Pt.Get\n$Y := $Pg()", ""},
	{"methodval", "expr", true, tDecl, "$Y := $PT.Get($PT{$X})", ""},
	{"methodval", "ptr-expr", true, tDecl, "var $Pt $PT\n(*$PT).Set(&$Pt, $X)\n$Y := $Pt.v", ""},
	{"methodval", "bound-set", true, tDecl, "$Pt := &$PT{}\n$Ps := $Pt.Set\n$Ps($X)\n$Y := $Pt.v", ""},
	{"methodval", "iface-value", true, iDecl, "var $Pi $PI = $PT{$X}\n$Pg := $Pi.Get\n$Y := $Pg()", ""},
	{"methodval", "passed", true, tDecl + "func $Pa(f func() string) string { return f() }\n", "$Pt := $PT{$X}\n$Y := $Pa($Pt.Get)", ""},
	{"funcval", "var", true, idDecl, "var $Pv func(string) string = $Pf\n$Y := $Pv($X)", ""},
	{"funcval", "apply", true, idDecl + "func $Pa(f func(string) string, v string) string { return f(v) }\n", "$Y := $Pa($Pf, $X)", ""},
	{"funcval", "table", true, idDecl, "$Pm := map[string]func(string) string{\"k\": $Pf}\n$Y := $Pm[\"k\"]($X)", ""},
	{"funcval", "slice", true, idDecl, "$Ps := []func(string) string{$Pf}\n$Y := $Ps[0]($X)", ""},
	{"funcval", "struct-field", true, idDecl + "type $PS struct{ f func(string) string }\n", "$Ps := $PS{f: $Pf}\n$Y := $Ps.f($X)", ""},
	{"funcval", "returned", true, idDecl + "func $Pg() func(string) string { return $Pf }\n", "$Y := $Pg()($X)", ""},
	{"funcval", "cond", true, idDecl + "func $Ph(v string) string { return \"h\" + v }\n", "$Pv := $Pf\nif $C {\n$Pv = $Ph\n}\n$Y := $Pv($X)", ""},

	// ------------------------------------------------------------------ recursion depth 1-3
	{"rec", "depth1", true, "func $Pf(n int, v string) string {\nif n <= 0 {\nreturn v\n}\nreturn $Pf(n-1, v)\n}\n", "$Y := $Pf(1, $X)", ""},
	{"rec", "depth2", true, "func $Pf(n int, v string) string {\nif n <= 0 {\nreturn v\n}\nreturn $Pf(n-1, v)\n}\n", "$Y := $Pf(2, $X)", ""},
	{"rec", "depth3", true, "func $Pf(n int, v string) string {\nif n <= 0 {\nreturn v\n}\nreturn $Pf(n-1, v)\n}\n", "$Y := $Pf(3, $X)", ""},
	{"rec", "accumulate", true, "func $Pf(n int, v string) string {\nif n <= 0 {\nreturn v\n}\nreturn $Pf(n-1, v+\"r\")\n}\n", "$Y := $Pf(2, $X)", ""},
	{"rec", "mutual", true, "func $Pf(n int, v string) string {\nif n <= 0 {\nreturn v\n}\nreturn $Pg(n-1, v)\n}\nfunc $Pg(n int, v string) string { return $Pf(n, \"g\"+v) }\n", "$Y := $Pf(2, $X)", ""},
	{"rec", "out-param", true, "func $Pf(n int, v string, out *string) {\nif n <= 0 {\n*out = v\nreturn\n}\n$Pf(n-1, v, out)\n}\n", "var $Pt string\n$Pf(2, $X, &$Pt)\n$Y := $Pt", ""},
	{"rec", "swap-args", true, "func $Pf(n int, a, b string) string {\nif n <= 0 {\nreturn a\n}\nreturn $Pf(n-1, b, a)\n}\n", "$Y := $Pf(1, \"c\", $X)", ""},
	{"rec", "closure", true, "", "var $Pf func(n int, v string) string\n$Pf = func(n int, v string) string {\nif n <= 0 {\nreturn v\n}\nreturn $Pf(n-1, v)\n}\n$Y := $Pf(2, $X)", ""},

	// ------------------------------------------------------------------ defer (incl. in loops)
	{"defer", "named-result", true, "func $Pf(v string) (r string) {\ndefer func() { r = v }()\nreturn \"\"\n}\n", "$Y := $Pf($X)", ""},
	{"defer", "call-args", true, "func $Ps(p *string, v string) { *p = v }\nfunc $Pf(v string) (r string) {\ndefer $Ps(&r, v)\nreturn \"\"\n}\n", "$Y := $Pf($X)", ""},
	{"defer", "loop", true, "func $Pf(v string) (r string) {\nfor i := 0; i < 2; i++ {\ndefer func() { r += v }()\n}\nreturn \"\"\n}\n", "$Y := $Pf($X)", ""},
	{"defer", "loop-args", true, "func $Ps(p *string, v string) { *p += v }\nfunc $Pf(v string) (r string) {\nfor i := 0; i < 2; i++ {\ndefer $Ps(&r, v)\n}\nreturn \"\"\n}\n", "$Y := $Pf($X)", ""},
	{"defer", "order", true, "func $Pf(v string) (r string) {\ndefer func() { r = v }()\ndefer func() { r = \"clean\" }()\nreturn \"\"\n}\n", "$Y := $Pf($X)", ""},
	{"defer", "early-arg", true, "func $Pf(v string) (r string) {\nx := v\ndefer func(a string) { r = a }(x)\nx = \"clean\"\nreturn x\n}\n", "$Y := $Pf($X)", ""},
	{"defer", "cond", true, "func $Pf(v string) (r string) {\nif $C {\ndefer func() { r = v }()\n}\nreturn \"\"\n}\n", "$Y := $Pf($X)", ""},
	{"defer", "method", true, tDecl + "func $Pf(v string) string {\nt := &$PT{}\nfunc() {\ndefer t.Set(v)\n}()\nreturn t.v\n}\n", "$Y := $Pf($X)", ""},
	{"defer", "local-write", true, "", "var $Pt string\nfunc() {\ndefer func() { $Pt = $X }()\n}()\n$Y := $Pt", ""},
	{"neg", "defer-order", false, "func $Pf(v string) (r string) {\ndefer func() { r = \"clean\" }()\ndefer func() { r = v }()\nreturn \"\"\n}\n", "$Y := $Pf($X)", ""},

	// ------------------------------------------------------------------ standard library calls.  kind std: every std function
	// called has a predefined summary in analysis/summaries (at the pinned tree); kind stdx: some callee has none, the
	// tool then analyses the std body on demand, which is sound in principle but makes runs very long - stdx atoms are
	// only generated with -stdx
	{"std", "strings.ToUpper", true, "", "$Y := strings.ToUpper($X)", ""},
	{"std", "strings.ToLower", true, "", "$Y := strings.ToLower($X)", ""},
	{"std", "strings.TrimSpace", true, "", "$Y := strings.TrimSpace($X)", ""},
	{"stdx", "strings.Trim", true, "", "$Y := strings.Trim($X, \" \")", ""},
	{"std", "strings.TrimPrefix", true, "", "$Y := strings.TrimPrefix($X, \"zz\")", ""},
	{"std", "strings.Repeat", true, "", "$Y := strings.Repeat($X, 2)", ""},
	{"std", "strings.Replace", true, "", "$Y := strings.Replace($X, \"zz\", \"y\", 1)", ""},
	{"std", "strings.ReplaceAll-new", true, "", "$Y := strings.ReplaceAll(\"a-b\", \"-\", $X)", ""},
	{"std", "strings.Split", true, "", "$Y := strings.Split($X, \",\")[0]", ""},
	{"std", "strings.SplitN", true, "", "$Y := strings.SplitN($X, \",\", 2)[0]", ""},
	{"std", "strings.Join", true, "", "$Y := strings.Join([]string{\"a\", $X}, \",\")", ""},
	{"std", "strings.Join-sep", true, "", "$Y := strings.Join([]string{\"a\", \"b\"}, $X)", ""},
	{"stdx", "strings.Fields", true, "", "$Y := strings.Fields($X)[0]", ""},
	{"stdx", "strings.Builder", true, "", "var $Pb strings.Builder\n$Pb.WriteString($X)\n$Y := $Pb.String()", ""},
	{"stdx", "strings.Builder-ptr", true, "", "$Pb := &strings.Builder{}\n$Pb.WriteString(\"a\")\n$Pb.WriteString($X)\n$Y := $Pb.String()", ""},
	{"stdx", "strings.Builder-fprintf", true, "", "var $Pb strings.Builder\nfmt.Fprintf(&$Pb, \"%s\", $X)\n$Y := $Pb.String()", ""},
	{"stdx", "strings.Cut", true, "", "$Y, _, _ := strings.Cut($X, \",\")", ""},
	{"std", "strings.Clone", true, "", "$Y := strings.Clone($X)", ""},
	{"stdx", "strings.Map", true, "", "$Y := strings.Map(func(r rune) rune { return r }, $X)", ""},
	{"stdx", "strings.NewReplacer", true, "", "$Y := strings.NewReplacer(\"zz\", \"y\").Replace($X)", ""},
	{"stdx", "strings.NewReader", true, "", "$Pb, _ := io.ReadAll(strings.NewReader($X))\n$Y := string($Pb)", ""},
	{"stdx", "strings.Title", true, "", "$Y := strings.ToTitle($X)", ""},
	{"std", "fmt.Sprintf-s", true, "", "$Y := fmt.Sprintf(\"%s\", $X)", ""},
	{"std", "fmt.Sprintf-v2", true, "", "$Y := fmt.Sprintf(\"%d-%v\", 1, $X)", ""},
	{"std", "fmt.Sprintf-format", true, "", "$Y := fmt.Sprintf($X+\"%d\", 1)", ""},
	{"std", "fmt.Sprintf-struct", true, sDecl, "$Y := fmt.Sprintf(\"%v\", $PS{a: $X})", ""},
	{"std", "fmt.Sprintf-ptr", true, sDecl, "$Y := fmt.Sprintf(\"%+v\", &$PS{b: $X})", ""},
	{"std", "fmt.Sprint", true, "", "$Y := fmt.Sprint(\"a\", $X)", ""},
	{"stdx", "fmt.Sprintln", true, "", "$Y := fmt.Sprintln($X)", ""},
	{"std", "fmt.Errorf", true, "", "$Y := fmt.Errorf(\"e: %s\", $X).Error()", ""},
	{"std", "fmt.Errorf-wrap", true, "", "$Y := fmt.Errorf(\"w: %w\", errors.New($X)).Error()", ""},
	{"stdx", "fmt.Sscanf", true, "", "var $Pt string\nfmt.Sscanf($X, \"%s\", &$Pt)\n$Y := $Pt", ""},
	{"std", "fmt.Fprint-buffer", true, "", "var $Pb bytes.Buffer\nfmt.Fprint(&$Pb, $X)\n$Y := $Pb.String()", ""},
	{"std", "errors.New", true, "", "$Y := errors.New($X).Error()", ""},
	{"std", "bytes.Buffer-WriteString", true, "", "var $Pb bytes.Buffer\n$Pb.WriteString($X)\n$Y := $Pb.String()", ""},
	{"std", "bytes.Buffer-Write-Bytes", true, "", "var $Pb bytes.Buffer\n$Pb.Write([]byte($X))\n$Y := string($Pb.Bytes())", ""},
	{"std", "bytes.NewBufferString", true, "", "$Y := bytes.NewBufferString($X).String()", ""},
	{"stdx", "bytes.NewBuffer-Read", true, "", "$Pb := bytes.NewBuffer([]byte($X))\n$Pd := make([]byte, len($X))\n$Pb.Read($Pd)\n$Y := string($Pd)", ""},
	{"stdx", "bytes.Buffer-ReadFrom", true, "", "var $Pb bytes.Buffer\n$Pb.ReadFrom(strings.NewReader($X))\n$Y := $Pb.String()", ""},
	{"std", "bytes.Buffer-WriteTo", true, "", "var $Pb, $Pc bytes.Buffer\n$Pb.WriteString($X)\n$Pb.WriteTo(&$Pc)\n$Y := $Pc.String()", ""},
	{"stdx", "bytes.ToUpper", true, "", "$Y := string(bytes.ToUpper([]byte($X)))", ""},
	{"stdx", "bytes.Join", true, "", "$Y := string(bytes.Join([][]byte{[]byte(\"a\"), []byte($X)}, []byte(\",\")))", ""},
	{"stdx", "bytes.TrimSpace", true, "", "$Y := string(bytes.TrimSpace([]byte($X)))", ""},
	{"std", "strconv.Quote", true, "", "$Y := strconv.Quote($X)", ""},
	{"std", "strconv.Unquote", true, "", "$Y, _ := strconv.Unquote(strconv.Quote($X))", ""},
	{"stdx", "strconv.AppendQuote", true, "", "$Y := string(strconv.AppendQuote(nil, $X))", ""},
	{"stdx", "strconv.AppendQuote-dst", true, "", "$Y := string(strconv.AppendQuote([]byte($X), \"q\"))", ""},
	{"std", "sort.Strings", true, "", "$Ps := []string{$X, \"zzz\"}\nsort.Strings($Ps)\n$Y := $Ps[0]", ""},
	{"stdx", "io.WriteString", true, "", "var $Pb bytes.Buffer\nio.WriteString(&$Pb, $X)\n$Y := $Pb.String()", ""},
	{"std", "io.Copy", true, "", "var $Pb bytes.Buffer\nio.Copy(&$Pb, strings.NewReader($X))\n$Y := $Pb.String()", ""},
	{"std", "bufio.Scanner", true, "", "$Psc := bufio.NewScanner(strings.NewReader($X))\n$Y := \"\"\nfor $Psc.Scan() {\n$Y += $Psc.Text()\n}", ""},
	{"stdx", "bufio.Reader", true, "", "$Y, _ := bufio.NewReader(strings.NewReader($X + \"\\n\")).ReadString('\\n')", ""},
	{"std", "json.Marshal", true, "", "$Pb, _ := json.Marshal($X)\n$Y := string($Pb)", ""},
	{"std", "json.Unmarshal", true, "", "$Pb, _ := json.Marshal($X)\nvar $Pt string\njson.Unmarshal($Pb, &$Pt)\n$Y := $Pt", ""},
	{"std", "json.Decoder", true, "", "$Pb, _ := json.Marshal($X)\nvar $Pt string\njson.NewDecoder(bytes.NewReader($Pb)).Decode(&$Pt)\n$Y := $Pt", ""},
	{"neg", "strconv.Itoa-len", false, "", "$Y := strconv.Itoa(len($X)) + strconv.FormatBool(strings.Contains($X, \"zz\"))", ""},

	// ------------------------------------------------------------------ loops, phis
	{"loop", "accumulate", true, "", "$Y := \"\"\nfor $Pi := 0; $Pi < 2; $Pi++ {\n$Y = $Y + $X\n}", ""},
	{"loop", "swap", true, "", "$Pa, $Pb := $X, \"\"\nfor $Pi := 0; $Pi < 1; $Pi++ {\n$Pa, $Pb = $Pb, $Pa\n}\n$Y := $Pb + $Pa[:0]", ""},
	{"loop", "id-call", true, idDecl, "$Y := $X\nfor $Pi := 0; $Pi < 2; $Pi++ {\n$Y = $Pf($Y)\n}", ""},
	{"loop", "shift", true, "", "$Pa, $Pb, $Pc := $X, \"\", \"\"\nfor $Pi := 0; $Pi < 2; $Pi++ {\n$Pc = $Pb\n$Pb = $Pa\n}\n$Y := $Pc", ""},
	{"loop", "while-cond", true, "", "$Y := \"\"\n$Pi := 0\nfor $Y == \"\" && $Pi < 3 {\n$Y = $X\n$Pi++\n}", ""},
	{"loop", "goto", true, "", "$Y := \"\"\n$Pi := 0\n$PL:\nif $Pi < 2 {\n$Y += $X\n$Pi++\ngoto $PL\n}", ""},

	// ------------------------------------------------------------------ decoy branches on opaque conditions
	{"decoy", "if", true, "", "$Y := \"clean\"\nif $C {\n$Y = $X\n}", ""},
	{"decoy", "else", true, "", "var $Y string\nif $C {\n$Y = \"c\"\n} else {\n$Y = $X\n}", ""},
	{"decoy", "switch", true, "", "var $Y string\nswitch {\ncase $C:\n$Y = $X\ncase $D:\n$Y = \"b\"\ndefault:\n$Y = \"c\"\n}", ""},
	{"decoy", "and", true, "", "$Y := \"clean\"\nif $C && $D {\n$Y = $X\n}", ""},
	{"decoy", "or-else", true, "", "$Y := \"clean\"\nif $C || $D {\n$Y = \"other\"\n} else {\n$Y = $X\n}", ""},
	{"decoy", "early-return", true, "func $Pf(v string, k bool) string {\nif k {\nreturn \"clean\"\n}\nreturn v\n}\n", "$Y := $Pf($X, $C)", ""},
	{"decoy", "cond-callee", true, idDecl + "func $Ph(v string) string { return \"clean\" }\n", "var $Y string\nif $C {\n$Y = $Pf($X)\n} else {\n$Y = $Ph($X)\n}", ""},
	{"decoy", "nested", true, "", "$Y := \"clean\"\nif $C {\nif !$D {\n$Y = $X\n}\n}", ""},

	// ------------------------------------------------------------------ generics
	{"generic", "id", true, "func $Pf[T any](v T) T { return v }\n", "$Y := $Pf($X)", ""},
	{"generic", "box", true, "type $PB[T any] struct{ v T }\nfunc (b $PB[T]) Get() T { return b.v }\n", "$Y := $PB[string]{$X}.Get()", ""},
	{"generic", "slice-first", true, "func $Pf[T any](s []T) T { return s[0] }\n", "$Y := $Pf([]string{$X})", ""},
	{"generic", "map-fn", true, "func $Pf[T, U any](s []T, f func(T) U) []U {\nvar r []U\nfor _, x := range s {\nr = append(r, f(x))\n}\nreturn r\n}\n", "$Y := $Pf([]string{$X}, func(s string) string { return s })[0]", ""},
	{"generic", "constraint", true, "func $Pf[T ~string](v T) string { return string(v) }\n", "$Y := $Pf($X)", ""},

	// ------------------------------------------------------------------ negative atoms: no native flow
	{"neg", "overwrite", false, "", "$Y := $X\n$Y = \"clean\"", ""},
	{"neg", "overwrite-ptr", false, "", "var $Pt string\n$Pp := &$Pt\n*$Pp = $X\n*$Pp = \"clean\"\n$Y := $Pt", ""},
	{"neg", "sanitize", false, "func sanitize$N$P(v string) string { return strings.ReplaceAll(v, \"#\", \"\") }\n", "$Y := sanitize$N$P($X)", ""},
	{"neg", "dead-branch", false, "", "$Y := \"clean\"\nif len($Y) > 100 {\n$Y = $X\n}", ""},
	{"neg", "other-index", false, "", "$Ps := []string{\"a\", $X}\n$Y := $Ps[0]", ""},
	{"neg", "other-key", false, "", "$Pm := map[string]string{\"k\": $X}\n$Y := $Pm[\"j\"] + \"clean\"", ""},
	{"neg", "const", false, "", "_ = $X\n$Y := \"clean\"", ""},
	{"neg", "compare", false, "", "$Y := \"no\"\nif $X == \"zz\" {\n$Y = \"yes\"\n}", ""},
}

// wraps: how the final value reaches the sink call.  $S = sink function name.  SinkDecl declares the sink (default:
// func $S(x any) { report($N, x) }).
type wrapDef struct {
	Name           string
	Decl, Body     string
	SinkDecl       string
	SinkReachesMem bool
}

var wraps = []wrapDef{
	{"direct", "", "$S($X)", "", false},
	{"direct-typed", "", "$S($X)", "func $S(x string) { report($N, x) }\n", false},
	{"bytes", "", "$S([]byte($X))", "", false},
	{"ptr", "", "$S(&$X)", "", true},
	{"struct", "", "$S(struct{ a string }{$X})", "", false},
	{"struct-ptr-nested", "type $PI struct{ v string }\ntype $PW struct{ in *$PI }\n", "$S(&$PW{in: &$PI{v: $X}})", "", true},
	{"slice", "", "$S([]string{\"a\", $X})", "", true},
	{"map-val", "", "$S(map[string]string{\"k\": $X})", "", true},
	{"map-key", "", "$S(map[string]int{$X: 1})", "", true},
	{"any-slice", "", "$S([]any{1, $X})", "", true},
	{"array", "", "$S([2]string{\"a\", $X})", "", false},
	{"deep-call", "func $Pd(v string) { $S(v) }\n", "$Pd($X)", "", false},
	{"deep-call2", "func $Pd(v string) { $S(v) }\nfunc $Pe(v string) { $Pd(v) }\n", "$Pe($X)", "", false},
	{"defer", "", "defer $S($X)", "", false},
	{"closure", "", "func() { $S($X) }()", "", false},
	{"variadic-sink", "", "$S(\"t\", $X)", "func $S(xs ...any) { report($N, xs) }\n", false},
	{"second-arg", "", "$S(\"tag\", $X)", "func $S(tag string, x any) { report($N, x) }\n", false},
	{"stored-then-sink", "", "$Pv := []string{\"\"}\n$Pv[0] = $X\n$S($Pv)", "", true},
	{"ptr-written-after", "", "$Pv := new(string)\n$Pq := $Pv\n*$Pq = $X\n$S($Pv)", "", true},
	// taint AFTER insert, container sunk: a clean value is stored into the container, tainted afterwards through the original alias
	{"ai-map-slice", "", "$Pr := make([]string, 1)\n$Pm := map[string][]string{}\n$Pm[\"k\"] = $Pr\n$Pr[0] = $X\n$S($Pm)", "", true},
	{"ai-map-map", "", "$Pr := map[string]string{}\n$Pm := map[string]map[string]string{\"k\": $Pr}\n$Pr[\"i\"] = $X\n$S($Pm)", "", true},
	{"ai-map-ptr", "", "$Pr := new(string)\n$Pm := map[string]*string{}\n$Pm[\"k\"] = $Pr\n*$Pr = $X\n$S($Pm)", "", true},
	{"ai-map-any-ptr", "", "$Pr := new(string)\n$Pm := map[string]any{}\n$Pm[\"k\"] = $Pr\n*$Pr = $X\n$S($Pm)", "", true},
	{"ai-map-any-slice", "", "$Pr := make([]string, 1)\n$Pm := map[string]any{}\n$Pm[\"k\"] = $Pr\n$Pr[0] = $X\n$S($Pm)", "", true},
	{"ai-map-struct-slice", "type $PS struct{ xs []string }\n", "$Pr := make([]string, 1)\n$Pm := map[string]$PS{}\n$Pm[\"k\"] = $PS{$Pr}\n$Pr[0] = $X\n$S($Pm)", "", true},
	{"ai-slice-slice", "", "$Pr := make([]string, 1)\n$Pm := make([][]string, 1)\n$Pm[0] = $Pr\n$Pr[0] = $X\n$S($Pm)", "", true},
	{"ai-struct-slice", "type $PS struct{ xs []string }\n", "$Pr := make([]string, 1)\nvar $Pm $PS\n$Pm.xs = $Pr\n$Pr[0] = $X\n$S($Pm)", "", true},
	{"ai-chan-slice", "", "$Pr := make([]string, 1)\n$Pm := make(chan []string, 1)\n$Pm <- $Pr\n$Pr[0] = $X\n$S(<-$Pm)", "", true},
	{"ai-iface-slice", "", "$Pr := make([]string, 1)\nvar $Pm any = $Pr\n$Pr[0] = $X\n$S($Pm)", "", true},
	{"ai-ptr-struct-map", "type $PS struct{ m map[string][]string }\n", "$Pr := make([]string, 1)\n$Pm := &$PS{m: map[string][]string{}}\n$Pm.m[\"k\"] = $Pr\n$Pr[0] = $X\n$S($Pm)", "", true},
	// the sink is reached inside a self-recursive function whose parameter acc is tainted only by the recursive call
	{"rec-acc-self-call", "func $PF(acc, x string, n int) {\nif n <= 0 {\n$S(acc)\nreturn\n}\n$PF(x, x, n-1)\n}\n", "$PF(\"\", $X, 2)", "", false},
	{"rec-acc-self-call-after", "func $PF(acc, x string, n int) {\nif n > 0 {\n$PF(x, x, n-1)\n}\n$S(acc)\n}\n", "$PF(\"\", $X, 2)", "", false},
	{"rec-acc-self-call-plain", "func $PF(acc, x string, n int) {\nif n > 0 {\n$PF(x, x, n-1)\nreturn\n}\n$S(acc)\n}\n", "$PF(\"clean\", $X, 1)", "", false},
	// builder trav's finding param-reached-from-inside-first: the sink reads *p inside F before F overwrites *p with s; p is
	// tainted through a longer path than s, so param p is first reached from inside F (edge s -> p) and is not expanded again
	{"param-inside-first", "func $Pi(v string) string { return v }\nfunc $PF(s string, p *string) {\n$S(*p)\n*p = s\n}\n", "$Pv := $Pi($Pi($X))\n$PF($X, &$Pv)", "", false},
}

// source shapes: how the source value is obtained.  Body declares x0.
type srcDef struct {
	Name             string
	Decl, Body       string
	SourceDecl       string
	sourceReturnsTup bool
}

var srcs = []srcDef{
	{"direct", "", "x0 := $R()", "", false},
	{"direct2", "", "x0 := $R()", "", false},
	{"helper", "func $Ph() string { return $R() }\n", "x0 := $Ph()", "", false},
	{"arg", "func $Ph(v string) string { return v }\n", "x0 := $Ph($R())", "", false},
	{"tuple2", "", "x0, _ := $R()", "func $R() (string, error) { return \"$M\", nil }\n", true},
	{"field", "type $PR struct{ n int; s string }\n", "x0 := $R().s", "func $R() $PR { return $PR{1, \"$M\"} }\n", false},
	{"ptr", "", "x0 := *$R()", "func $R() *string { m := \"$M\"; return &m }\n", false},
	{"bytes", "", "x0 := string($R())", "func $R() []byte { return []byte(\"$M\") }\n", false},
}
