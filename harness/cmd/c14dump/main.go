// c14dump runs the REAL escape analysis (and optionally the real taint analysis with use-escape-analysis) of /repo
// in-process on program directories and prints canonical lines.
//
// Locality part (C14).  Through the public dataflow.EscapeAnalysisState interface only, it enumerates every context the
// analysis derives:
//   - the arbitrary context (ComputeArbitraryContext) of main, of every init function and of every go-callee
//     (callees of every *ssa.Go instruction of a summarised function) and of every deferred callee (the taint visitor
//     falls back to the arbitrary context there because CallSiteInfo only has *ssa.Call keys),
//   - then ComputeInstructionLocalityAndCallsites and Resolve transitively along call sites,
//     de-duplicated per function with Matches.
//
// Output:
//
//	P <dir>
//	F <function> <number of contexts> [CAP]
//	I <file>:<line>:<col> <block>.<index> <kind> <verdict per context: L or N> | <first non-local rationale>
//	G <file>:<line> <callee> ...                       go statements and their resolved callees
//	FLOW <source name> <source line> <sink name> <sink line>       (with -taint)
//	ESC <source name> <source line> <escape line> <kind of the escaping instruction>
//	E <error text>
//
// kind = SSA instruction type with a sub-kind where the locality switch distinguishes one (UnOp:load, UnOp:recv,
// UnOp:arith, Call:builtin:<name>, Call:static, Call:invoke, Call:dynamic, Range:map, Range:string, Next:map,
// Next:string, Convert:<from>-><to> for slice/string conversions, Slice:<base>).
package main

import (
	"bufio"
	"flag"
	"fmt"
	"go/token"
	"go/types"
	"os"
	"path/filepath"
	"runtime/debug"
	"sort"
	"strings"

	"github.com/awslabs/ar-go-tools/analysis/config"
	"github.com/awslabs/ar-go-tools/analysis/dataflow"
	"github.com/awslabs/ar-go-tools/analysis/escape"
	"github.com/awslabs/ar-go-tools/analysis/taint"
	"github.com/awslabs/ar-go-tools/verifharness/hutil"
	"golang.org/x/tools/go/ssa"
)

func typeTag(t types.Type) string {
	switch u := t.Underlying().(type) {
	case *types.Slice:
		return "slice"
	case *types.Basic:
		if u.Info()&types.IsString != 0 {
			return "string"
		}
		return "basic"
	case *types.Pointer:
		if _, ok := u.Elem().Underlying().(*types.Array); ok {
			return "ptrarray"
		}
		return "ptr"
	case *types.Map:
		return "map"
	case *types.Chan:
		return "chan"
	case *types.Array:
		return "array"
	case *types.Struct:
		return "struct"
	case *types.Interface:
		return "iface"
	case *types.Signature:
		return "func"
	}
	return "other"
}

// Kind returns the canonical kind string of an SSA instruction.
func Kind(i ssa.Instruction) string {
	name := strings.TrimPrefix(fmt.Sprintf("%T", i), "*ssa.")
	switch v := i.(type) {
	case *ssa.UnOp:
		switch v.Op {
		case token.MUL:
			return "UnOp:load"
		case token.ARROW:
			return "UnOp:recv"
		}
		return "UnOp:arith"
	case *ssa.Call:
		c := v.Common()
		if b, ok := c.Value.(*ssa.Builtin); ok {
			arg := ""
			if len(c.Args) > 0 {
				arg = ":" + typeTag(c.Args[0].Type())
			}
			return "Call:builtin:" + b.Name() + arg
		}
		if c.IsInvoke() {
			return "Call:invoke"
		}
		if c.StaticCallee() != nil {
			return "Call:static"
		}
		return "Call:dynamic"
	case *ssa.Range:
		return "Range:" + typeTag(v.X.Type())
	case *ssa.Next:
		if v.IsString {
			return "Next:string"
		}
		return "Next:map"
	case *ssa.Convert:
		return "Convert:" + typeTag(v.X.Type()) + "->" + typeTag(v.Type())
	case *ssa.Slice:
		return "Slice:" + typeTag(v.X.Type())
	case *ssa.Index:
		return "Index:" + typeTag(v.X.Type())
	case *ssa.IndexAddr:
		return "IndexAddr:" + typeTag(v.X.Type())
	case *ssa.Lookup:
		return "Lookup:" + typeTag(v.X.Type())
	}
	return name
}

func instrPos(fset *token.FileSet, i ssa.Instruction) token.Position {
	p := i.Pos()
	if !p.IsValid() {
		// loads/stores generated for composite operations have no position of their own: use an operand's
		var ops []*ssa.Value
		for _, o := range i.Operands(ops) {
			if *o != nil && (*o).Pos().IsValid() {
				p = (*o).Pos()
				break
			}
		}
	}
	return fset.Position(p)
}

type fctx struct {
	ctxs []dataflow.EscapeCallContext
	locs []map[ssa.Instruction]*dataflow.EscapeRationale
	cap  bool
}

const maxCtx = 40

func sortedCalls(m map[*ssa.Call]dataflow.EscapeCallsiteInfo) []*ssa.Call {
	out := make([]*ssa.Call, 0, len(m))
	for c := range m {
		out = append(out, c)
	}
	sort.Slice(out, func(i, j int) bool {
		if out[i].Block().Index != out[j].Block().Index {
			return out[i].Block().Index < out[j].Block().Index
		}
		return idxIn(out[i]) < idxIn(out[j])
	})
	return out
}

func idxIn(i ssa.Instruction) int {
	for k, x := range i.Block().Instrs {
		if x == i {
			return k
		}
	}
	return -1
}

func sortedCallees(m map[*ssa.Function]dataflow.CalleeInfo) []*ssa.Function {
	out := make([]*ssa.Function, 0, len(m))
	for f := range m {
		out = append(out, f)
	}
	sort.Slice(out, func(i, j int) bool { return out[i].String() < out[j].String() })
	return out
}

func localityDump(w *bufio.Writer, state *dataflow.AnalyzerState, prog *ssa.Program, dir string) {
	ea := state.EscapeAnalysisState
	all := hutil.SortedFunctions(prog)
	absdir, _ := filepath.Abs(dir)
	inDir := func(f *ssa.Function) bool {
		if f == nil {
			return false
		}
		p := f.Pos()
		if !p.IsValid() && f.Synthetic != "" && f.Pkg != nil {
			// package initialisers and wrappers have no position
			for _, m := range f.Pkg.Members {
				if m.Pos().IsValid() {
					p = m.Pos()
					break
				}
			}
		}
		if !p.IsValid() {
			return false
		}
		fn := prog.Fset.Position(p).Filename
		return strings.HasPrefix(fn, absdir+string(filepath.Separator)) || strings.HasPrefix(fn, dir+string(filepath.Separator))
	}
	table := map[*ssa.Function]*fctx{}
	type item struct {
		f   *ssa.Function
		ctx dataflow.EscapeCallContext
	}
	var work []item
	add := func(f *ssa.Function, mk func() dataflow.EscapeCallContext) {
		if f == nil || !ea.IsSummarized(f) || len(f.Blocks) == 0 {
			return
		}
		fc := table[f]
		if fc == nil {
			fc = &fctx{}
			table[f] = fc
		}
		if fc.cap {
			return
		}
		ctx := mk()
		for _, c := range fc.ctxs {
			if c.Matches(ctx) {
				return
			}
		}
		if len(fc.ctxs) >= maxCtx {
			fc.cap = true
			return
		}
		fc.ctxs = append(fc.ctxs, ctx)
		fc.locs = append(fc.locs, nil)
		work = append(work, item{f, ctx})
	}
	arbitrary := func(f *ssa.Function) func() dataflow.EscapeCallContext {
		return func() dataflow.EscapeCallContext { return ea.ComputeArbitraryContext(f) }
	}
	// roots: main, init, go-callees and deferred callees of functions of the program directory (the analysed user code)
	var goLines []string
	for _, f := range all {
		if !inDir(f) {
			continue
		}
		if (f.Name() == "main" || f.Name() == "init" || strings.HasPrefix(f.Name(), "init#")) && f.Parent() == nil && f.Signature.Recv() == nil {
			add(f, arbitrary(f))
		}
		for _, b := range f.Blocks {
			for _, i := range b.Instrs {
				var ci ssa.CallInstruction
				switch v := i.(type) {
				case *ssa.Go:
					ci = v
				case *ssa.Defer:
					ci = v
				}
				if ci == nil {
					continue
				}
				if _, isB := ci.Common().Value.(*ssa.Builtin); isB {
					continue
				}
				callees, err := state.ResolveCallee(ci, true)
				if err != nil {
					fmt.Fprintf(w, "E resolve %s: %v\n", hutil.PosStr(prog.Fset, i.Pos()), err)
					continue
				}
				names := []string{}
				for _, c := range sortedCallees(callees) {
					add(c, arbitrary(c))
					names = append(names, c.String())
				}
				if _, ok := i.(*ssa.Go); ok {
					p := prog.Fset.Position(i.Pos())
					goLines = append(goLines, fmt.Sprintf("G %s:%d %s", filepath.Base(p.Filename), p.Line, strings.Join(names, " ")))
				}
			}
		}
	}
	for len(work) > 0 {
		it := work[0]
		work = work[1:]
		loc, calls := ea.ComputeInstructionLocalityAndCallsites(it.f, it.ctx)
		fc := table[it.f]
		for k, c := range fc.ctxs {
			if c == it.ctx {
				fc.locs[k] = loc
			}
		}
		for _, cs := range sortedCalls(calls) {
			if _, isB := cs.Common().Value.(*ssa.Builtin); isB {
				continue
			}
			callees, err := state.ResolveCallee(cs, true)
			if err != nil {
				continue
			}
			info := calls[cs]
			for _, callee := range sortedCallees(callees) {
				callee := callee
				if !ea.IsSummarized(callee) || len(callee.Blocks) == 0 {
					continue
				}
				add(callee, func() (c dataflow.EscapeCallContext) {
					defer func() {
						if r := recover(); r != nil {
							fmt.Fprintf(w, "E resolve-panic %s -> %s: %v\n", hutil.PosStr(prog.Fset, cs.Pos()), callee.String(), r)
							c = ea.ComputeArbitraryContext(callee)
						}
					}()
					return info.Resolve(callee)
				})
			}
		}
	}
	for _, f := range all {
		fc := table[f]
		if fc == nil || !inDir(f) {
			continue
		}
		capS := ""
		if fc.cap {
			capS = " CAP"
		}
		fmt.Fprintf(w, "F %s %d%s\n", f.String(), len(fc.ctxs), capS)
		for _, b := range f.Blocks {
			for k, i := range b.Instrs {
				if _, ok := i.(*ssa.DebugRef); ok {
					continue
				}
				v := make([]byte, 0, len(fc.ctxs))
				rat := ""
				for _, loc := range fc.locs {
					r, ok := loc[i]
					switch {
					case !ok:
						v = append(v, '?')
					case r == nil:
						v = append(v, 'L')
					default:
						v = append(v, 'N')
						if rat == "" {
							rat = strings.ReplaceAll(r.String(), "\n", " ")
						}
					}
				}
				p := instrPos(prog.Fset, i)
				fmt.Fprintf(w, "I %s:%d:%d %d.%d %s %s | %s\n", filepath.Base(p.Filename), p.Line, p.Column, b.Index, k, Kind(i), v, rat)
			}
		}
	}
	sort.Strings(goLines)
	for _, l := range goLines {
		fmt.Fprintln(w, l)
	}
}

func calleeName(i ssa.Instruction) string {
	ci, ok := i.(ssa.CallInstruction)
	if !ok {
		return "?" + strings.ReplaceAll(Kind(i), " ", "_")
	}
	c := ci.Common()
	if c.IsInvoke() {
		return c.Method.Name()
	}
	if f := c.StaticCallee(); f != nil {
		return f.Name()
	}
	return c.Value.Name()
}

func loadCfg(dir string) (*config.Config, error) {
	p := filepath.Join(dir, "config.yaml")
	if _, err := os.Stat(p); err != nil {
		c := config.NewDefault()
		c.UseEscapeAnalysis = true
		return c, nil
	}
	return config.LoadFromFiles(p)
}

func runDir(w *bufio.Writer, dir string, doTaint, doLoc bool) error {
	fmt.Fprintf(w, "P %s\n", dir)
	if doLoc {
		cfg, err := loadCfg(dir)
		if err != nil {
			return fmt.Errorf("config: %v", err)
		}
		cfg.UseEscapeAnalysis = true
		cfg.LogLevel = int(config.ErrLevel)
		prog, pkgs, err := hutil.LoadDir(dir, true)
		if err != nil {
			return fmt.Errorf("load: %v", err)
		}
		state, err := dataflow.NewInitializedAnalyzerState(prog, pkgs, config.NewLogGroup(cfg), cfg)
		if err != nil {
			return fmt.Errorf("state: %v", err)
		}
		if err := escape.InitializeEscapeAnalysisState(state); err != nil {
			return fmt.Errorf("escape: %v", err)
		}
		localityDump(w, state, prog, dir)
	}
	if doTaint {
		cfg, err := loadCfg(dir)
		if err != nil {
			return fmt.Errorf("config: %v", err)
		}
		cfg.LogLevel = int(config.ErrLevel)
		prog, pkgs, err := hutil.LoadDir(dir, true)
		if err != nil {
			return fmt.Errorf("load: %v", err)
		}
		res, err := taint.Analyze(cfg, prog, pkgs)
		if err != nil {
			fmt.Fprintf(w, "E %s\n", strings.ReplaceAll(err.Error(), "\n", " | "))
		}
		if res.TaintFlows != nil {
			lines := map[string]bool{}
			for sink, sources := range res.TaintFlows.Sinks {
				for source := range sources {
					sp := prog.Fset.Position(source.Instr.Pos())
					kp := prog.Fset.Position(sink.Instr.Pos())
					lines[fmt.Sprintf("FLOW %s %d %s %d", calleeName(source.Instr), sp.Line, calleeName(sink.Instr), kp.Line)] = true
				}
			}
			for esc, sources := range res.TaintFlows.Escapes {
				for source := range sources {
					sp := prog.Fset.Position(source.Pos())
					ep := instrPos(prog.Fset, esc)
					lines[fmt.Sprintf("ESC %s %d %d %s", calleeName(source), sp.Line, ep.Line, Kind(esc))] = true
				}
			}
			keys := make([]string, 0, len(lines))
			for k := range lines {
				keys = append(keys, k)
			}
			sort.Strings(keys)
			for _, k := range keys {
				fmt.Fprintln(w, k)
			}
		}
	}
	return nil
}

func main() {
	out := flag.String("o", "-", "output file")
	doTaint := flag.Bool("taint", false, "also run taint.Analyze (config.yaml of the directory) and print FLOW/ESC lines")
	noLoc := flag.Bool("noloc", false, "skip the locality dump")
	flag.Parse()
	w := bufio.NewWriter(os.Stdout)
	if *out != "-" {
		f, err := os.Create(*out)
		if err != nil {
			panic(err)
		}
		defer f.Close()
		w = bufio.NewWriter(f)
	}
	defer w.Flush()
	rc := 0
	for _, dir := range flag.Args() {
		func() {
			defer func() {
				if r := recover(); r != nil {
					fmt.Fprintf(w, "PANIC %s %v | %s\n", dir, r, strings.ReplaceAll(string(debug.Stack()), "\n", " / "))
					rc = 3
				}
			}()
			if err := runDir(w, dir, *doTaint, !*noLoc); err != nil {
				fmt.Fprintf(w, "FAIL %s %v\n", dir, err)
				rc = 2
			}
		}()
		w.Flush()
	}
	w.Flush()
	os.Exit(rc)
}
