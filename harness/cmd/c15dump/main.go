// Command c15dump drives the REAL escape analysis of /repo on test programs (through the add-only hook
// analysis/escape/verif_c15.go) for property C15:
//
//   - runs EscapeAnalysis with the built-in per-instruction monotonicity self-check switched on and collects the
//     violating (pre1 <= pre2, post1 !<= post2) pairs,
//   - captures the graphs that arise (initial, block-end, instruction pre/post, final) and derives weakened variants
//     and random graphs over the same nodes,
//   - writes test cases (cases.txt) for the extracted Coq model together with what the real
//     Merge / LessEqual / Matches / AddEdge / MergeNodeStatus / WeakAssign / computeEdgeClosure compute (go.txt),
//   - evaluates the algebraic laws and the monotonicity of the primitives and of the real transferFunction on
//     weakened inputs on the Go side (viol.txt),
//   - re-runs the block and function worklists in permuted orders and compares the final summaries (perm section).
//
// Output directory: cases.txt go.txt viol.txt stats.json
package main

import (
	"bytes"
	"encoding/json"
	"flag"
	"fmt"
	"os"
	"path/filepath"
	"reflect"
	"sort"
	"strings"
	"sync/atomic"
	"syscall"
	"time"

	"github.com/awslabs/ar-go-tools/analysis/config"
	"github.com/awslabs/ar-go-tools/analysis/dataflow"
	"github.com/awslabs/ar-go-tools/analysis/escape"
	"github.com/awslabs/ar-go-tools/verifharness/hutil"
	"golang.org/x/tools/go/ssa"
)

type G = escape.EscapeGraph
type N = escape.Node

// ---------------------------------------------------------------------------------------------- PRNG (one per run)
type rng struct{ s uint64 }

func (r *rng) next() uint64 {
	r.s = r.s*6364136223846793005 + 1442695040888963407
	return r.s >> 33
}
func (r *rng) n(k int) int {
	if k <= 0 {
		return 0
	}
	return int(r.next() % uint64(k))
}

// ---------------------------------------------------------------------------------------------- output
type out struct {
	cases, gores, viol *os.File
	nextID             int
	stats              map[string]int
	opCount            map[string]int
	violations         []violation
}

type violation struct {
	Key    string `json:"key"`
	What   string `json:"what"`
	Detail string `json:"detail"`
}

func (o *out) addViolation(key, what, detail string) {
	o.stats["violations"]++
	if len(o.violations) < 200 {
		o.violations = append(o.violations, violation{key, what, detail})
	}
	fmt.Fprintf(o.viol, "VIOL %s\n%s\n%s\n----\n", key, what, detail)
}

func num(n *N) int { return escape.VerifInfo(n).Number }

func graphLines(g *G) string { return escape.VerifSerialize(g) }

// emitCase writes a case: op with node arguments (as numbers) and extra integer args, the graphs, and the intrinsic
// status of every node involved.
func (o *out) emitCase(op string, nodeArgs []*N, intArgs []int, graphs []*G) int {
	id := o.nextID
	o.nextID++
	o.opCount[op]++
	fmt.Fprintf(o.cases, "C %d %s", id, op)
	for _, n := range nodeArgs {
		fmt.Fprintf(o.cases, " %d", num(n))
	}
	for _, a := range intArgs {
		fmt.Fprintf(o.cases, " %d", a)
	}
	fmt.Fprintln(o.cases)
	seen := map[*N]bool{}
	var all []*N
	add := func(n *N) {
		if !seen[n] {
			seen[n] = true
			all = append(all, n)
		}
	}
	for _, n := range nodeArgs {
		add(n)
	}
	for _, g := range graphs {
		for _, n := range escape.VerifNodes(g) {
			add(n)
		}
	}
	sort.Slice(all, func(i, j int) bool { return num(all[i]) < num(all[j]) })
	for _, n := range all {
		fmt.Fprintf(o.cases, "i %d %d\n", num(n), escape.VerifInfo(n).Intrinsic)
	}
	for _, g := range graphs {
		fmt.Fprintf(o.cases, "g\n%s", graphLines(g))
	}
	fmt.Fprintln(o.cases, ".")
	return id
}

func (o *out) resGraph(id int, g *G) {
	fmt.Fprintf(o.gores, "C %d\n%s.\n", id, graphLines(g))
}
func (o *out) resBool(id int, b bool) {
	v := 0
	if b {
		v = 1
	}
	fmt.Fprintf(o.gores, "C %d\nb %d\n.\n", id, v)
}

// ---------------------------------------------------------------------------------------------- invariant (Go side)

func st(g *G, n *N) int {
	s, _ := escape.VerifStatus(g, n)
	return s
}

// invOK: well-formed (every node mentioned has a status entry and an edge key, flags in 1..7, status in 0..2 and
// >= intrinsic) and closed (edge a->b implies status a <= status b).
func invOK(g *G) (wf bool, closed bool) {
	wf, closed = true, true
	for _, n := range escape.VerifNodes(g) {
		s, ok := escape.VerifStatus(g, n)
		if !ok || !escape.VerifHasEdgeKey(g, n) || s < escape.VerifInfo(n).Intrinsic || s > 2 {
			wf = false
		}
		ds, fs := escape.VerifOut(g, n)
		for i, d := range ds {
			if fs[i] < 1 || fs[i] > 7 {
				wf = false
			}
			if st(g, n) > st(g, d) {
				closed = false
			}
		}
	}
	return
}

// closeRaw raises statuses along edges until closed (independent re-implementation, used to build inputs).
func closeRaw(g *G) {
	for changed := true; changed; {
		changed = false
		for _, n := range escape.VerifNodes(g) {
			ds, _ := escape.VerifOut(g, n)
			for _, d := range ds {
				if st(g, n) > st(g, d) {
					escape.VerifRawSetStatus(g, d, st(g, n))
					changed = true
				}
			}
		}
	}
}

// weaken builds a graph below g: drops some edge bits / entries / nodes' statuses down towards the intrinsic
// status, keeps the node set, then re-closes.  Result satisfies the invariant when g does.
func weaken(r *rng, g *G) *G {
	w := escape.NewEmptyEscapeGraph(escape.VerifNodeGroupOf(g))
	nodes := escape.VerifNodes(g)
	dropRate := 1 + r.n(4) // drop 1/(dropRate+1) ..
	for _, n := range nodes {
		s, ok := escape.VerifStatus(g, n)
		if ok {
			in := escape.VerifInfo(n).Intrinsic
			if r.n(3) == 0 && s > in {
				s = in + r.n(s-in)
			}
			escape.VerifRawSetStatus(w, n, s)
		}
		if escape.VerifHasEdgeKey(g, n) {
			escape.VerifRawEdgeKey(w, n)
		}
	}
	for _, n := range nodes {
		ds, fs := escape.VerifOut(g, n)
		for i, d := range ds {
			f := fs[i]
			if r.n(dropRate+1) == 0 {
				// drop one bit or the whole entry
				if r.n(2) == 0 {
					f = 0
				} else {
					bits := []int{}
					for _, b := range []int{1, 2, 4} {
						if f&b != 0 {
							bits = append(bits, b)
						}
					}
					f &^= bits[r.n(len(bits))]
				}
			}
			if f != 0 {
				escape.VerifRawSetEdge(w, n, d, f)
			}
		}
	}
	// sometimes drop nodes that are left without any incident edge (the result is still below g)
	if r.n(2) == 0 {
		incident := map[*N]bool{}
		for _, n := range nodes {
			ds, _ := escape.VerifOut(w, n)
			for _, d := range ds {
				incident[n] = true
				incident[d] = true
			}
		}
		for _, n := range nodes {
			if !incident[n] && r.n(2) == 0 {
				escape.VerifRawDelStatus(w, n)
				escape.VerifRawDelEdgeKey(w, n)
			}
		}
	}
	closeRaw(w)
	return w
}

// focus keeps only the part of g within `hops` out-edge steps of the given nodes (plus the direct predecessors of
// those nodes): the induced subgraph with unchanged statuses.  It satisfies the invariant when g does and is below g.
func focus(g *G, roots []*N, hops int) *G {
	keep := map[*N]bool{}
	frontier := []*N{}
	for _, r := range roots {
		if _, ok := escape.VerifStatus(g, r); ok && !keep[r] {
			keep[r] = true
			frontier = append(frontier, r)
		}
	}
	for h := 0; h < hops; h++ {
		var next []*N
		for _, n := range frontier {
			ds, _ := escape.VerifOut(g, n)
			for _, d := range ds {
				if !keep[d] {
					keep[d] = true
					next = append(next, d)
				}
			}
		}
		frontier = next
	}
	w := escape.NewEmptyEscapeGraph(escape.VerifNodeGroupOf(g))
	for _, n := range escape.VerifNodes(g) {
		if !keep[n] {
			continue
		}
		if s, ok := escape.VerifStatus(g, n); ok {
			escape.VerifRawSetStatus(w, n, s)
		}
		if escape.VerifHasEdgeKey(g, n) {
			escape.VerifRawEdgeKey(w, n)
		}
		ds, fs := escape.VerifOut(g, n)
		for i, d := range ds {
			if keep[d] {
				escape.VerifRawSetEdge(w, n, d, fs[i])
			}
		}
	}
	return w
}

// perturb makes a graph that is NOT necessarily well-formed or closed, i.e. possibly OUTSIDE Inv (used only to
// exercise the faithful model; every case records per input graph whether it satisfies Inv: Go side invOK, model side
// the driver's "I <case> <graph> <wf> <closed>" lines, and only all-Inv cases can raise a tie alarm).  weaken, focus and
// randomGraph(inv=true) produce graphs INSIDE Inv whenever their input is.
func perturb(r *rng, g *G) *G {
	w := g.Clone()
	nodes := escape.VerifNodes(w)
	if len(nodes) == 0 {
		return w
	}
	k := 1 + r.n(3)
	for i := 0; i < k; i++ {
		n := nodes[r.n(len(nodes))]
		switch r.n(4) {
		case 0:
			escape.VerifRawSetStatus(w, n, r.n(3))
		case 1:
			// a node with an edge key but no status entry makes AddNode destructive and Merge order-dependent;
			// such graphs are outside the differential test (Go map order is not controllable), so drop the key too
			escape.VerifRawDelStatus(w, n)
			escape.VerifRawDelEdgeKey(w, n)
		case 2:
			// only from a node that has a status entry: an edge key without a status entry (see case 1) is exactly
			// the shape that makes Merge order-dependent
			if _, ok := escape.VerifStatus(w, n); ok {
				m := nodes[r.n(len(nodes))]
				escape.VerifRawSetEdge(w, n, m, 1+r.n(7))
			}
		case 3:
			ds, _ := escape.VerifOut(w, n)
			if len(ds) > 0 {
				escape.VerifRawSetEdge(w, n, ds[r.n(len(ds))], 0)
			}
		}
	}
	return w
}

// randomGraph builds a random graph over the given nodes; closed/well-formed when inv is set.
func randomGraph(r *rng, ng *escape.NodeGroup, nodes []*N, inv bool) *G {
	g := escape.NewEmptyEscapeGraph(ng)
	k := 1 + r.n(len(nodes))
	var sel []*N
	for i := 0; i < k; i++ {
		sel = append(sel, nodes[r.n(len(nodes))])
	}
	for _, n := range sel {
		in := escape.VerifInfo(n).Intrinsic
		escape.VerifRawSetStatus(g, n, in+r.n(3-in))
		escape.VerifRawEdgeKey(g, n)
	}
	ne := r.n(2*k + 1)
	for i := 0; i < ne; i++ {
		escape.VerifRawSetEdge(g, sel[r.n(len(sel))], sel[r.n(len(sel))], 1+r.n(7))
	}
	if inv {
		closeRaw(g)
	} else if r.n(2) == 0 {
		return perturb(r, g)
	}
	return g
}

// ---------------------------------------------------------------------------------------------- Go-side operations

func merged(g, h *G) *G {
	c := g.Clone()
	c.Merge(h)
	return c
}
func le(g, h *G) bool { b, _ := g.LessEqual(h); return b }

func safely(f func()) (panicked bool, msg string) {
	defer func() {
		if r := recover(); r != nil {
			panicked = true
			msg = fmt.Sprint(r)
		}
	}()
	f()
	return
}

func twoGraphs(a, b *G) string {
	return "graph 1:\n" + graphLines(a) + "graph 2:\n" + graphLines(b)
}
func threeGraphs(a, b, c *G) string {
	return twoGraphs(a, b) + "graph 3:\n" + graphLines(c)
}

// stableGraph evaluates f (which depends on Go's map iteration order) several times; all results must agree.
// On inputs inside the invariant a disagreement is a violation (results must not depend on iteration order); on
// other inputs the case is only marked unstable and skipped by the comparison with the model.
func (o *out) stableGraph(op string, inv bool, inputs string, f func() *G) (*G, bool) {
	first := f()
	want := graphLines(first)
	for i := 0; i < 2; i++ {
		if graphLines(f()) != want {
			if inv {
				o.addViolation("order-dependent-"+op, op+" gives different results for different map iteration orders on invariant-satisfying input", inputs)
			}
			o.stats["unstable_"+op]++
			return first, false
		}
	}
	return first, true
}

func (o *out) resUnstable(id int) { fmt.Fprintf(o.gores, "C %d\nu\n.\n", id) }

// differential cases for a pair (model vs Go)
func (o *out) pairCases(g, h *G) {
	wf1, cl1 := invOK(g)
	wf2, cl2 := invOK(h)
	mg, stable := o.stableGraph("merge", wf1 && cl1 && wf2 && cl2, twoGraphs(g, h), func() *G { return merged(g, h) })
	if id := o.emitCase("merge", nil, nil, []*G{g, h}); stable {
		o.resGraph(id, mg)
	} else {
		o.resUnstable(id)
	}
	o.resBool(o.emitCase("le", nil, nil, []*G{g, h}), le(g, h))
	o.resBool(o.emitCase("matches", nil, nil, []*G{g, h}), g.Matches(h))
}

// laws on a pair of invariant-satisfying graphs
func (o *out) pairLaws(tag string, g, h *G) {
	o.stats["law_pairs"]++
	gh, hg := merged(g, h), merged(h, g)
	fail := func(law, what string) {
		o.addViolation("law-"+law, fmt.Sprintf("%s: %s (%s)", law, what, tag), twoGraphs(g, h))
	}
	if !merged(g, g).Matches(g) {
		fail("idem", "g.Merge(g) does not match g")
	}
	if !gh.Matches(hg) {
		fail("comm", "g.Merge(h) does not match h.Merge(g)")
	}
	if !le(g, gh) || !le(h, gh) {
		fail("ub", "operand not <= merge")
	}
	if wf, cl := invOK(gh); !wf || !cl {
		fail("inv", fmt.Sprintf("merge of two invariant graphs violates the invariant (wf=%v closed=%v)", wf, cl))
	}
	if !le(g, g) {
		fail("le-refl", "g <= g is false")
	}
	// g <= h  <=>  merge(g,h) matches h
	if le(g, h) != gh.Matches(h) {
		fail("le-merge", fmt.Sprintf("LessEqual(g,h)=%v but Merge(g,h).Matches(h)=%v", le(g, h), gh.Matches(h)))
	}
	if le(g, h) && le(h, g) && !g.Matches(h) {
		fail("antisym", "g<=h and h<=g but not Matches")
	}
	if g.Matches(h) && !(le(g, h) && le(h, g)) {
		fail("matches-le", "Matches but not <= both ways")
	}
	// Clone is the identity
	if !g.Clone().Matches(g) {
		fail("clone", "Clone does not match")
	}
}

func (o *out) tripleLaws(tag string, g, h, k *G) {
	o.stats["law_triples"]++
	fail := func(law, what string) {
		o.addViolation("law-"+law, fmt.Sprintf("%s: %s (%s)", law, what, tag), threeGraphs(g, h, k))
	}
	l := merged(merged(g, h), k)
	r := merged(g, merged(h, k))
	if !l.Matches(r) {
		fail("assoc", "(g+h)+k does not match g+(h+k)")
	}
	// least upper bound: any upper bound u of g and h is above the merge
	u := merged(merged(k, g), h) // an upper bound of g and h
	if le(g, u) && le(h, u) && !le(merged(g, h), u) {
		fail("lub", "g<=u, h<=u but merge(g,h) !<= u")
	}
	if le(g, k) && le(h, k) && !le(merged(g, h), k) {
		fail("lub", "g<=k, h<=k but merge(g,h) !<= k")
	}
	if le(g, h) && le(h, k) && !le(g, k) {
		fail("le-trans", "g<=h, h<=k but not g<=k")
	}
	// Merge is monotone in both arguments
	if le(g, h) && !le(merged(g, k), merged(h, k)) {
		fail("merge-mono-left", "g<=h but g+k !<= h+k")
	}
	if le(g, h) && !le(merged(k, g), merged(k, h)) {
		fail("merge-mono-right", "g<=h but k+g !<= k+h")
	}
}

// primitive operations: differential case + monotonicity on (w <= g)
func (o *out) primCases(r *rng, g *G, w *G, extra []*N) {
	nodes := escape.VerifNodes(g)
	pool := append([]*N{}, nodes...)
	pool = append(pool, extra...)
	if len(pool) == 0 {
		return
	}
	pick := func() *N { return pool[r.n(len(pool))] }
	gwf, gcl := invOK(g)
	apply := func(op string, na []*N, ia []int, f func(x *G)) {
		c, stable := o.stableGraph(op, gwf && gcl, twoGraphs(g, g), func() *G { x := g.Clone(); f(x); return x })
		if id := o.emitCase(op, na, ia, []*G{g}); stable {
			o.resGraph(id, c)
		} else {
			o.resUnstable(id)
		}
		if w != nil {
			wwf, wcl := invOK(w)
			cw, stablew := o.stableGraph(op, wwf && wcl, twoGraphs(w, w), func() *G { x := w.Clone(); f(x); return x })
			if id := o.emitCase(op, na, ia, []*G{w}); stablew {
				o.resGraph(id, cw)
			} else {
				o.resUnstable(id)
			}
			o.stats["prim_mono_checked"]++
			if le(w, g) && !le(cw, c) {
				o.addViolation("prim-mono-"+op, fmt.Sprintf("w<=g but %s(w) !<= %s(g) args %v %v", op, op, nums(na), ia), twoGraphs(w, g))
			}
			argPresent := true
			for _, a := range na {
				if _, ok := escape.VerifStatus(g, a); !ok {
					argPresent = false
				}
			}
			if wf, cl := invOK(g); wf && cl && ((op != "mstatus" && op != "closure") || argPresent) {
				// (MergeNodeStatus / computeEdgeClosure on a node that is not in the graph create a status entry without an edge key; the
				// code calls AddNode first, so that case is outside the primitive's precondition)
				if wf2, cl2 := invOK(c); !wf2 || !cl2 {
					o.addViolation("prim-inv-"+op, fmt.Sprintf("%s breaks the invariant (wf=%v closed=%v) args %v %v", op, wf2, cl2, nums(na), ia), twoGraphs(g, c))
				}
			}
		}
	}
	a, b := pick(), pick()
	f := 1 << r.n(3)
	apply("addedge", []*N{a, b}, []int{f}, func(x *G) { escape.VerifAddEdge(x, a, b, f) })
	n := pick()
	s := r.n(3)
	apply("mstatus", []*N{n}, []int{s}, func(x *G) { escape.VerifMergeNodeStatus(x, n, s) })
	m := pick()
	apply("addnode", []*N{m}, nil, func(x *G) { x.AddNode(m) })
	// flat weak assign: the source must not have subnode out-edges (then the node group's subnode tables are not used)
	for try := 0; try < 4; try++ {
		d, sr := pick(), pick()
		if escape.VerifHasSubnodeEdge(g, sr) || (w != nil && escape.VerifHasSubnodeEdge(w, sr)) {
			continue
		}
		apply("wassign", []*N{d, sr}, nil, func(x *G) { x.WeakAssign(d, sr) })
		break
	}
	ca, cb := pick(), pick()
	apply("closure", []*N{ca, cb}, nil, func(x *G) { escape.VerifComputeEdgeClosure(x, ca, cb) })
}

func nums(ns []*N) []int {
	r := make([]int, len(ns))
	for i, n := range ns {
		r[i] = num(n)
	}
	return r
}

// ---------------------------------------------------------------------------------------------- per program

type progResult struct {
	Dir            string         `json:"dir"`
	Functions      int            `json:"functions_summarized"`
	Blocks         int            `json:"block_graphs"`
	MonoRecords    int            `json:"mono_records"`
	MonoInstrs     int            `json:"mono_instructions"`
	MonoPairs      int            `json:"mono_pairs_checked"`
	MonoComparable int            `json:"mono_pairs_comparable"`
	MonoForward    int            `json:"mono_violations_forward"`
	MonoReverse    int            `json:"mono_violations_reverse"`
	MonoLogged     int            `json:"mono_violations_logged_by_builtin_check"`
	NotInv         int            `json:"captured_graphs_violating_inv"`
	Captured       int            `json:"captured_graphs_distinct"`
	PermRuns       int            `json:"perm_runs"`
	PermMismatch   int            `json:"perm_mismatches"`
	PermSteps      []int          `json:"perm_function_steps"`
	BaselineSec    float64        `json:"baseline_seconds"`
	MaxNodes       int            `json:"max_nodes"`
	InstrKinds     map[string]int `json:"instr_kinds"`
	WeakTransfer   int            `json:"weakened_transfer_checked"`
	WeakPanics     int            `json:"weakened_transfer_panics"`
}

type logCounter struct {
	buf   bytes.Buffer
	count int
}

func (l *logCounter) Write(p []byte) (int, error) {
	l.count += bytes.Count(p, []byte("Monotonicity violation"))
	return len(p), nil
}

func describeInstr(prog *ssa.Program, i ssa.Instruction) string {
	fn := "?"
	if i.Parent() != nil {
		fn = i.Parent().String()
	}
	return fmt.Sprintf("%s: %s [%s] at %s", fn, i.String(), strings.TrimPrefix(reflect.TypeOf(i).String(), "*ssa."), hutil.PosStr(prog.Fset, i.Pos()))
}

func instrKind(i ssa.Instruction) string {
	return strings.TrimPrefix(reflect.TypeOf(i).String(), "*ssa.")
}

func run(dir string, o *out, r *rng, opt options) (progResult, error) {
	res := progResult{Dir: dir, InstrKinds: map[string]int{}}
	prog, pkgs, err := hutil.LoadDir(dir, true)
	if err != nil {
		return res, fmt.Errorf("load %s: %v", dir, err)
	}
	cfg, err := config.LoadFromFiles(filepath.Join(dir, "config.yaml"))
	if err != nil {
		return res, fmt.Errorf("config %s: %v", dir, err)
	}
	cfg.LogLevel = int(config.WarnLevel)
	if cfg.EscapeConfig.PkgFilter == "" {
		// restrict summarisation to the program's own packages (the escape tests do the same through their filters)
		for _, p := range pkgs {
			cfg.EscapeConfig.PkgFilter = p.PkgPath
		}
	}
	lc := &logCounter{}
	logger := config.NewLogGroup(cfg)
	logger.SetAllOutput(lc)
	state, err := dataflow.NewInitializedAnalyzerState(prog, pkgs, logger, cfg)
	if err != nil {
		return res, fmt.Errorf("state %s: %v", dir, err)
	}
	// ---- baseline run with the built-in monotonicity check switched on
	escape.VerifMonoEnable(true)
	t0 := time.Now()
	beginPhase("EscapeAnalysis (the code's own worklist order) on " + dir)
	base, err := escape.EscapeAnalysis(state, state.PointerAnalysis.CallGraph.Root)
	endPhase()
	res.BaselineSec = time.Since(t0).Seconds()
	if err != nil {
		return res, fmt.Errorf("escape analysis %s: %v", dir, err)
	}
	res.MonoLogged = lc.count
	records := escape.VerifMonoRecords()
	viols, pairs, comparable := escape.VerifMonoViolations(true, opt.monoCap)
	res.MonoPairs, res.MonoComparable = pairs, comparable
	res.MonoInstrs = len(records)
	for _, rs := range records {
		res.MonoRecords += len(rs)
		if len(rs) > 0 {
			res.InstrKinds[instrKind(rs[0].Instr)] += len(rs)
		}
	}
	for _, v := range viols {
		detail := fmt.Sprintf("instruction: %s\nobservation %d vs %d (forward=%v): %s\nA (pre 1):\n%sB (pre 2):\n%sC (post 1):\n%sD (post 2):\n%s",
			describeInstr(prog, v.Instr), v.OldIndex, v.NewIndex, v.Forward, v.Reason,
			graphLines(v.Old.Pre), graphLines(v.New.Pre), graphLines(v.Old.Post), graphLines(v.New.Post))
		if v.Forward {
			res.MonoForward++
			o.addViolation(monoKey(v), "transfer function not monotone at "+describeInstr(prog, v.Instr), detail)
		} else {
			res.MonoReverse++
			o.stats["mono_reverse_violations"]++
			if o.stats["mono_reverse_violations"] <= 20 {
				fmt.Fprintf(o.viol, "INFO reverse-direction monotonicity difference (not an alarm: node group state and callee summaries grow over time)\n%s\n----\n", detail)
			}
		}
	}
	if res.MonoLogged > 0 && res.MonoForward == 0 {
		o.addViolation("mono-logged", fmt.Sprintf("the built-in self-check logged %d monotonicity violations in %s", res.MonoLogged, dir), "")
	}

	// ---- capture graphs
	type cap struct {
		g   *G
		tag string
	}
	seen := map[string]bool{}
	var pool []cap
	perFunc := map[string][]cap{}
	addCap := func(fn string, tag string, g *G) {
		if g == nil {
			return
		}
		key := graphLines(g)
		if seen[key] {
			return
		}
		seen[key] = true
		if n := len(escape.VerifNodes(g)); n > res.MaxNodes {
			res.MaxNodes = n
		}
		if wf, cl := invOK(g); !wf || !cl {
			res.NotInv++
			if res.NotInv <= 3 {
				fmt.Fprintf(o.viol, "INFO captured graph outside the invariant (wf=%v closed=%v) %s %s\n%s----\n", wf, cl, fn, tag, key)
			}
		}
		c := cap{g, fn + ":" + tag}
		pool = append(pool, c)
		perFunc[fn] = append(perFunc[fn], c)
	}
	var joinPairs [][2]cap
	var extraNodes []*N
	for _, f := range escape.VerifFunctions(base) {
		if escape.VerifSummaryType(base, f) != "summarize" {
			continue
		}
		res.Functions++
		fn := f.String()
		addCap(fn, "initial", escape.VerifInitialGraph(base, f))
		bg := escape.VerifBlockGraphs(base, f)
		for i, g := range bg {
			if g != nil {
				res.Blocks++
				addCap(fn, fmt.Sprintf("block%d", i), g)
			}
		}
		for _, b := range f.Blocks {
			if len(b.Preds) >= 2 {
				for i := 0; i+1 < len(b.Preds); i++ {
					g1, g2 := bg[b.Preds[i].Index], bg[b.Preds[i+1].Index]
					if g1 != nil && g2 != nil {
						joinPairs = append(joinPairs, [2]cap{{g1, fn + ":join-pred"}, {g2, fn + ":join-pred"}})
					}
				}
			}
		}
		fg, _ := escape.VerifFinalGraph(base, f)
		addCap(fn, "final", fg)
	}
	// instruction pre/post graphs (sampled)
	var monoSamples []escape.VerifMonoRecord
	for _, rs := range records {
		for k, rec := range rs {
			if k < 2 || r.n(4) == 0 {
				fn := rec.Instr.Parent().String()
				addCap(fn, "pre", rec.Pre)
				addCap(fn, "post", rec.Post)
			}
			if len(monoSamples) < 20000 || r.n(8) == 0 {
				monoSamples = append(monoSamples, rec)
			}
		}
	}
	res.Captured = len(pool)
	if len(pool) == 0 {
		return res, nil
	}
	for _, c := range pool {
		if len(extraNodes) < 12 {
			ns := escape.VerifNodes(c.g)
			if len(ns) > 0 {
				extraNodes = append(extraNodes, ns[r.n(len(ns))])
			}
		}
	}

	// ---- differential cases and Go-side laws
	isInv := func(g *G) bool { wf, cl := invOK(g); return wf && cl }
	doPair := func(tag string, g, h *G) {
		o.pairCases(g, h)
		if isInv(g) && isInv(h) {
			o.pairLaws(tag, g, h)
		} else {
			o.stats["pairs_outside_inv"]++
		}
	}
	for _, jp := range joinPairs {
		if o.stats["join_pairs"] >= opt.pairs {
			break
		}
		o.stats["join_pairs"]++
		doPair(jp[0].tag, jp[0].g, jp[1].g)
	}
	pickPair := func() (cap, cap) {
		// mostly within a function (same node group), sometimes across
		if r.n(5) != 0 {
			c := pool[r.n(len(pool))]
			fn := c.tag[:strings.LastIndex(c.tag, ":")]
			l := perFunc[fn]
			return c, l[r.n(len(l))]
		}
		return pool[r.n(len(pool))], pool[r.n(len(pool))]
	}
	for i := 0; i < opt.pairs; i++ {
		a, b := pickPair()
		o.stats["captured_pairs"]++
		doPair(a.tag+"|"+b.tag, a.g, b.g)
		// weakened variants
		wa, wb := weaken(r, a.g), weaken(r, b.g)
		o.stats["weakened_pairs"]++
		doPair("weakened "+a.tag, wa, a.g)
		doPair("weakened "+a.tag+"|"+b.tag, wa, wb)
		if isInv(a.g) && !le(wa, a.g) {
			o.addViolation("law-le-weakened", "a graph obtained by removing edges and lowering statuses is not <= the original ("+a.tag+")", twoGraphs(wa, a.g))
		}
		if i%3 == 0 {
			// outside the invariant: only model vs Go
			o.stats["perturbed_pairs"]++
			o.pairCases(perturb(r, a.g), b.g)
			o.pairCases(a.g, perturb(r, b.g))
		}
		o.primCases(r, a.g, wa, extraNodes)
		if i%3 == 1 {
			p := perturb(r, a.g)
			o.primCases(r, p, nil, extraNodes)
		}
	}
	for i := 0; i < opt.triples; i++ {
		a, b := pickPair()
		fn := a.tag[:strings.LastIndex(a.tag, ":")]
		l := perFunc[fn]
		c := l[r.n(len(l))]
		gs := []*G{a.g, b.g, c.g}
		if i%2 == 1 {
			gs = []*G{weaken(r, a.g), b.g, weaken(r, c.g)}
		}
		if isInv(gs[0]) && isInv(gs[1]) && isInv(gs[2]) {
			o.tripleLaws(a.tag+"|"+b.tag+"|"+c.tag, gs[0], gs[1], gs[2])
		}
		// associativity is also compared with the model: merge (merge g h) k
		gh := merged(gs[0], gs[1])
		o.resGraph(o.emitCase("merge", nil, nil, []*G{gh, gs[2]}), merged(gh, gs[2]))
	}
	// random graphs over nodes of the program (all node kinds occur among them)
	allNodes := map[*N]bool{}
	for _, c := range pool {
		for _, n := range escape.VerifNodes(c.g) {
			allNodes[n] = true
		}
	}
	var nodeList []*N
	for n := range allNodes {
		nodeList = append(nodeList, n)
	}
	sort.Slice(nodeList, func(i, j int) bool { return num(nodeList[i]) < num(nodeList[j]) })
	ng := escape.VerifNodeGroupOf(pool[0].g)
	for i := 0; i < opt.random; i++ {
		// a small sub-universe so that random graphs overlap
		k := 2 + r.n(7)
		var sub []*N
		for j := 0; j < k; j++ {
			sub = append(sub, nodeList[r.n(len(nodeList))])
		}
		inv := i%3 != 0
		a, b, c := randomGraph(r, ng, sub, inv), randomGraph(r, ng, sub, inv), randomGraph(r, ng, sub, inv)
		o.stats["random_pairs"]++
		doPair("random", a, b)
		if inv {
			o.tripleLaws("random", a, b, c)
			o.primCases(r, a, weaken(r, a), sub)
		} else {
			o.primCases(r, a, nil, sub)
		}
	}

	// ---- the real transfer function on smaller and larger inputs:  lo <= hi  =>  T(lo) <= T(hi)
	//      (a) lo = random weakening of a recorded pre-graph, hi = the pre-graph
	//      (b) lo = the part of the pre-graph around the instruction's operands, hi = the pre-graph
	//      (c) lo = the pre-graph, hi = the pre-graph merged with another captured graph of the same function
	// stratified by instruction kind (round-robin over the kinds), so that rare kinds are exercised in every run
	byKind := map[string][]escape.VerifMonoRecord{}
	for _, rec := range monoSamples {
		byKind[instrKind(rec.Instr)] = append(byKind[instrKind(rec.Instr)], rec)
	}
	var kinds []string
	for k := range byKind {
		kinds = append(kinds, k)
	}
	sort.Strings(kinds)
	perKind := 0
	if len(kinds) > 0 {
		perKind = opt.weakTransfer / (5 * len(kinds))
		if perKind < 2 {
			perKind = 2
		}
	}
	type trial struct {
		rec     escape.VerifMonoRecord
		variant int
	}
	var trials []trial
	for _, k := range kinds {
		l := byKind[k]
		// a random selection of perKind records of this kind, each tried in all three variants
		idx := make([]int, len(l))
		for j := range idx {
			idx[j] = j
		}
		for j := len(idx) - 1; j > 0; j-- {
			q := r.n(j + 1)
			idx[j], idx[q] = idx[q], idx[j]
		}
		for j := 0; j < len(idx) && j < 2*perKind; j++ {
			for v := 0; v < 4; v++ {
				if v < 3 && j >= perKind {
					continue // the cheap "enlarged by foreign graphs" variant is tried on twice as many records
				}
				trials = append(trials, trial{l[idx[j]], v})
			}
		}
	}
	for _, tr := range trials {
		rec := tr.rec
		if !isInv(rec.Pre) {
			continue
		}
		lo, hi := rec.Pre, rec.Pre
		variant := "weakened"
		switch tr.variant {
		case 0:
			lo = weaken(r, rec.Pre)
		case 1:
			variant = "focused"
			lo = focus(rec.Pre, escape.VerifOperandNodes(base, rec.Instr), 1+r.n(2))
		case 2:
			variant = "enlarged"
			l := perFunc[rec.Instr.Parent().String()]
			if len(l) == 0 {
				continue
			}
			other := l[r.n(len(l))].g
			if !isInv(other) {
				continue
			}
			hi = merged(rec.Pre, other)
		case 3:
			// merged with graphs of arbitrary functions of the program: a much larger graph whose additional part is
			// unrelated to the instruction
			variant = "enlarged"
			hi = rec.Pre
			for k := 0; k < 3; k++ {
				other := pool[r.n(len(pool))].g
				if isInv(other) {
					hi = merged(hi, other)
				}
			}
		}
		if !isInv(lo) || !isInv(hi) || !le(lo, hi) {
			o.stats["transfer_variant_skipped"]++
			continue
		}
		var thi, tlo, thi2 *G
		panicked, msg := safely(func() {
			thi = escape.VerifTransfer(base, rec.Instr, hi)
			tlo = escape.VerifTransfer(base, rec.Instr, lo)
			thi2 = escape.VerifTransfer(base, rec.Instr, hi)
		})
		res.WeakTransfer++
		o.stats["transfer_"+variant]++
		if panicked {
			res.WeakPanics++
			o.stats["weak_transfer_panics"]++
			if o.stats["weak_transfer_panics"] <= 5 {
				fmt.Fprintf(o.viol, "INFO transfer function panicked on a %s graph at %s: %s\n----\n", variant, describeInstr(prog, rec.Instr), msg)
			}
			continue
		}
		if !thi.Matches(thi2) {
			o.stats["weak_transfer_unstable"]++
			continue
		}
		if !le(tlo, thi2) {
			_, reason := tlo.LessEqual(thi2)
			key := "mono-" + variant + "-" + instrKind(rec.Instr)
			if k := monoKey(escape.VerifMonoViolation{Instr: rec.Instr, Old: escape.VerifMonoRecord{Instr: rec.Instr, Pre: lo, Post: tlo},
				New: escape.VerifMonoRecord{Instr: rec.Instr, Pre: hi, Post: thi2}}); !strings.HasPrefix(k, "mono-"+instrKind(rec.Instr)) {
				key = k
			}
			o.addViolation(key, "A <= B but T(A) !<= T(B) ("+variant+" input) at "+describeInstr(prog, rec.Instr)+": "+reason,
				fmt.Sprintf("instruction: %s\nA (smaller pre):\n%sB (larger pre):\n%sC (T(A)):\n%sD (T(B)):\n%s", describeInstr(prog, rec.Instr),
					graphLines(lo), graphLines(hi), graphLines(tlo), graphLines(thi2)))
		}
	}
	escape.VerifMonoEnable(false)

	// ---- worklist permutations
	canon := func(p *escape.ProgramAnalysisState) map[string]string {
		nm := escape.VerifNewNamer(p)
		m := map[string]string{}
		for _, f := range escape.VerifFunctions(p) {
			if escape.VerifSummaryType(p, f) != "summarize" {
				continue
			}
			fg, ov := escape.VerifFinalGraph(p, f)
			m[f.String()] = fmt.Sprintf("overflow=%v\n%s", ov, uniqLines(nm.VerifCanonical(fg)))
			for i, bgr := range escape.VerifBlockGraphs(p, f) {
				if bgr != nil {
					m[fmt.Sprintf("%s#block%d", f.String(), i)] = uniqLines(nm.VerifCanonical(bgr))
				}
			}
		}
		return m
	}
	want := canon(base)
	for k := 0; k < opt.perms; k++ {
		pr := &rng{uint64(opt.seed)*1000003 + uint64(k)*7919 + 17}
		mode := "scc"
		if k%2 == 1 {
			mode = "any"
		}
		monoOn := k < opt.permMono
		if monoOn {
			escape.VerifMonoEnable(true)
		}
		beginPhase(fmt.Sprintf("permuted worklists run %d (%s) on %s", k, mode, dir))
		p, stats, err := escape.VerifEscapeAnalysisPermuted(state, func(n int) int { return pr.n(n) }, mode, 200000)
		endPhase()
		res.PermRuns++
		res.PermSteps = append(res.PermSteps, stats.FunctionSteps)
		if err != nil {
			o.addViolation("perm-nontermination", fmt.Sprintf("%s perm %d (%s): %v", dir, k, mode, err), "")
			escape.VerifMonoEnable(false)
			continue
		}
		if monoOn {
			vs, _, _ := escape.VerifMonoViolations(false, opt.monoCap)
			for _, v := range vs {
				res.MonoForward++
				o.addViolation(monoKey(v), fmt.Sprintf("transfer function not monotone (permuted run %d) at %s", k, describeInstr(prog, v.Instr)),
					fmt.Sprintf("instruction: %s\n%s\nA (pre 1):\n%sB (pre 2):\n%sC (post 1):\n%sD (post 2):\n%s", describeInstr(prog, v.Instr), v.Reason,
						graphLines(v.Old.Pre), graphLines(v.New.Pre), graphLines(v.Old.Post), graphLines(v.New.Post)))
			}
			escape.VerifMonoEnable(false)
		}
		got := canon(p)
		keys := map[string]bool{}
		for k2 := range want {
			keys[k2] = true
		}
		for k2 := range got {
			keys[k2] = true
		}
		var ks []string
		for k2 := range keys {
			ks = append(ks, k2)
		}
		sort.Strings(ks)
		for _, k2 := range ks {
			if want[k2] != got[k2] {
				res.PermMismatch++
				fname := k2
				if i := strings.Index(k2, "#block"); i >= 0 {
					fname = k2[:i]
				}
				o.addViolation("perm-"+fname, fmt.Sprintf("result for %s differs between the code's worklist order and permutation %d (%s, seed %d) of %s", k2, k, mode, opt.seed, dir),
					"baseline:\n"+want[k2]+"permuted:\n"+got[k2])
				break // one per run is enough
			}
		}
	}
	return res, nil
}

// uniqLines removes duplicate lines (nodes without a structural name, e.g. the per-application "tmp" nodes of
// invokeMethodDirectly, all print alike; their multiplicity depends on how often a block was processed).
func uniqLines(s string) string {
	ls := strings.Split(s, "\n")
	out := ls[:0]
	for i, l := range ls {
		if i == 0 || l != ls[i-1] {
			out = append(out, l)
		}
	}
	return strings.Join(out, "\n")
}

// monoKey classifies a collected monotonicity violation.  One class is a known defect with its own stable key:
// invokeMethodDirectly (escape.go) allocates a brand-new "tmp" node on every application of the transfer function
// of a json.Marshal/Unmarshal call with a custom pointer-receiver (Un)MarshalJSON, so the old output contains a node
// the new output lacks.  The class is recognised structurally: every node of the old output that the new output
// lacks is such a tmp node (kind Var, debug string "tmp") and the old output without them IS below the new one.
func monoKey(v escape.VerifMonoViolation) string {
	generic := "mono-" + instrKind(v.Instr)
	if k := freshTmpClass(v); k != "" {
		return k
	}
	if k := freshSubnodeLoadClass(v); k != "" {
		return k
	}
	return generic
}

func freshTmpClass(v escape.VerifMonoViolation) string {
	inNew := map[*N]bool{}
	for _, n := range escape.VerifNodes(v.New.Post) {
		inNew[n] = true
	}
	reduced := v.Old.Post.Clone()
	var missing []*N
	for _, n := range escape.VerifNodes(v.Old.Post) {
		if !inNew[n] {
			info := escape.VerifInfo(n)
			if info.Debug != "tmp" || info.Kind != 5 {
				return ""
			}
			missing = append(missing, n)
		}
	}
	if len(missing) == 0 {
		return ""
	}
	removeNodes(reduced, missing)
	if le(reduced, v.New.Post) {
		return "mono-fresh-tmp-node"
	}
	return ""
}

func removeNodes(g *G, ms []*N) {
	for _, m := range ms {
		escape.VerifRawDelStatus(g, m)
		escape.VerifRawDelEdgeKey(g, m)
		for _, n := range escape.VerifNodes(g) {
			if escape.VerifHasEdgeKey(g, n) {
				escape.VerifRawSetEdge(g, n, m, 0)
			}
		}
	}
}

// freshSubnodeLoadClass recognises the second known defect class (EscapeGraph.Call, rule "propagate load nodes
// that are referenced by escaped nodes"): the old output has an EXTERNAL edge src -> L to a load node L where src did
// not exist in the old input (it was created by the call itself, so the rule consulted the status in the partially
// updated graph) but exists with status Local in the new input (so the rule consulted pre.status and skipped it).
// The class is accepted only if the old output without these edges (and without load nodes that only they reach)
// IS below the new output.
func freshSubnodeLoadClass(v escape.VerifMonoViolation) string {
	kind := instrKind(v.Instr)
	if kind != "Call" && kind != "Go" && kind != "Defer" {
		return ""
	}
	reduced := v.Old.Post.Clone()
	found := false
	for _, src := range escape.VerifNodes(v.Old.Post) {
		ds, fs := escape.VerifOut(v.Old.Post, src)
		for i, d := range ds {
			if fs[i]&2 == 0 || escape.VerifInfo(d).Kind != 2 {
				continue
			}
			if nf, ok := flagsOf(v.New.Post, src, d); ok && nf&2 != 0 {
				continue // the edge is present in the new output
			}
			_, inOldPre := escape.VerifStatus(v.Old.Pre, src)
			sNew, inNewPre := escape.VerifStatus(v.New.Pre, src)
			if inOldPre || !inNewPre || sNew != 0 {
				return ""
			}
			found = true
			escape.VerifRawSetEdge(reduced, src, d, fs[i]&^2)
		}
	}
	if !found {
		return ""
	}
	// load nodes of the old output that are absent from the new output and no longer referenced
	inNew := map[*N]bool{}
	for _, n := range escape.VerifNodes(v.New.Post) {
		inNew[n] = true
	}
	var drop []*N
	for _, n := range escape.VerifNodes(reduced) {
		if inNew[n] || escape.VerifInfo(n).Kind != 2 {
			continue
		}
		referenced := false
		for _, m := range escape.VerifNodes(reduced) {
			if _, ok := flagsOf(reduced, m, n); ok {
				referenced = true
			}
		}
		if !referenced {
			drop = append(drop, n)
		}
	}
	removeNodes(reduced, drop)
	if le(reduced, v.New.Post) {
		return "mono-call-load-on-fresh-subnode"
	}
	return ""
}

func flagsOf(g *G, a, b *N) (int, bool) {
	ds, fs := escape.VerifOut(g, a)
	for i, d := range ds {
		if d == b {
			return fs[i], true
		}
	}
	return 0, false
}

// ---------------------------------------------------------------------------------------------- CPU-time watchdog
// A fixpoint iteration that does not converge burns CPU without end.  Wall-clock limits are useless on a loaded
// machine, so the dump measures the CPU time (user+system, whole process) consumed since the start of the current
// escape-analysis phase; beyond the limit it records the phase in nonterm.txt and exits with status 4.
var phaseName atomic.Value
var phaseStart atomic.Int64 // CPU milliseconds at phase start, -1 = no phase running

func cpuMillis() int64 {
	var ru syscall.Rusage
	if err := syscall.Getrusage(syscall.RUSAGE_SELF, &ru); err != nil {
		return 0
	}
	return (ru.Utime.Sec+ru.Stime.Sec)*1000 + int64(ru.Utime.Usec+ru.Stime.Usec)/1000
}

func beginPhase(name string) { phaseName.Store(name); phaseStart.Store(cpuMillis()) }
func endPhase()              { phaseStart.Store(-1) }

func watchdog(outDir string, limitSec int) {
	for {
		time.Sleep(500 * time.Millisecond)
		st := phaseStart.Load()
		if st < 0 {
			continue
		}
		if used := cpuMillis() - st; used > int64(limitSec)*1000 {
			name, _ := phaseName.Load().(string)
			msg := fmt.Sprintf("escape analysis phase %q consumed %d CPU-seconds without reaching its fixpoint (limit %d)\n", name, used/1000, limitSec)
			_ = os.WriteFile(filepath.Join(outDir, "nonterm.txt"), []byte(msg), 0o644)
			fmt.Fprint(os.Stderr, msg)
			os.Exit(4)
		}
	}
}

type options struct {
	seed, pairs, triples, random, perms, permMono, monoCap, weakTransfer, cpuLimit int
}

func main() {
	var opt options
	outDir := flag.String("out", "", "output directory")
	flag.IntVar(&opt.seed, "seed", 1, "seed")
	flag.IntVar(&opt.pairs, "pairs", 60, "captured pairs per program")
	flag.IntVar(&opt.triples, "triples", 30, "triples per program")
	flag.IntVar(&opt.random, "random", 40, "random graph pairs per program")
	flag.IntVar(&opt.perms, "perms", 5, "worklist permutations per program")
	flag.IntVar(&opt.permMono, "perm-mono", 1, "number of permuted runs with the monotonicity check on")
	flag.IntVar(&opt.monoCap, "mono-cap", 30, "max observations per instruction compared pairwise (0 = all)")
	flag.IntVar(&opt.weakTransfer, "weak-transfer", 150, "transfer-function applications on weakened graphs per program")
	flag.IntVar(&opt.cpuLimit, "cpu-limit", 240, "CPU seconds one escape-analysis run may consume before it is declared non-terminating")
	flag.Parse()
	if *outDir == "" || flag.NArg() == 0 {
		fmt.Fprintln(os.Stderr, "usage: c15dump -out DIR [options] programdir...")
		os.Exit(2)
	}
	must := func(err error) {
		if err != nil {
			fmt.Fprintln(os.Stderr, err)
			os.Exit(2)
		}
	}
	must(os.MkdirAll(*outDir, 0o755))
	phaseStart.Store(-1)
	go watchdog(*outDir, opt.cpuLimit)
	o := &out{stats: map[string]int{}, opCount: map[string]int{}}
	var err error
	o.cases, err = os.Create(filepath.Join(*outDir, "cases.txt"))
	must(err)
	o.gores, err = os.Create(filepath.Join(*outDir, "go.txt"))
	must(err)
	o.viol, err = os.Create(filepath.Join(*outDir, "viol.txt"))
	must(err)
	r := &rng{uint64(opt.seed)*2654435761 + 12345}
	var results []progResult
	for _, dir := range flag.Args() {
		pr, err := run(dir, o, r, opt)
		if err != nil {
			fmt.Fprintln(os.Stderr, "c15dump:", err)
			os.Exit(3)
		}
		results = append(results, pr)
	}
	o.cases.Close()
	o.gores.Close()
	o.viol.Close()
	js, _ := json.MarshalIndent(map[string]any{"programs": results, "stats": o.stats, "ops": o.opCount, "cases": o.nextID,
		"violations": o.violations}, "", " ")
	must(os.WriteFile(filepath.Join(*outDir, "stats.json"), js, 0o644))
}
