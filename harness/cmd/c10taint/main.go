// c10taint runs the REAL taint analysis of /repo in-process on program directories (each with go.mod, *.go, config.yaml
// and optional dataflow-specs JSON files named by the config) and prints the reported flows in canonical form:
//
//	P <dir>
//	FLOW <source callee name> <sink callee name> <source line> <sink line>
//	E <analysis error text>            (analysis errors; the run continues)
//
// It is the observation side of the C10 tie (contracts applied exactly as written) and the confirmation step of the C09
// semantic search (is a natively observed flow reported by the tool?).
package main

import (
	"bufio"
	"flag"
	"fmt"
	"os"
	"path/filepath"
	"sort"
	"strings"

	"github.com/awslabs/ar-go-tools/analysis/config"
	"github.com/awslabs/ar-go-tools/analysis/taint"
	"github.com/awslabs/ar-go-tools/verifharness/hutil"
	"golang.org/x/tools/go/ssa"
)

func calleeName(i ssa.Instruction) string {
	ci, ok := i.(ssa.CallInstruction)
	if !ok {
		return "?" + strings.ReplaceAll(i.String(), " ", "_")
	}
	c := ci.Common()
	if c.IsInvoke() {
		return c.Method.Name()
	}
	if f := c.StaticCallee(); f != nil {
		return f.Name()
	}
	return c.Value.Name()
}

func runDir(w *bufio.Writer, dir string, rewrites bool) error {
	cfg, err := config.LoadFromFiles(filepath.Join(dir, "config.yaml"))
	if err != nil {
		return fmt.Errorf("config: %v", err)
	}
	prog, pkgs, err := hutil.LoadDir(dir, rewrites)
	if err != nil {
		return fmt.Errorf("load: %v", err)
	}
	res, err := taint.Analyze(cfg, prog, pkgs)
	fmt.Fprintf(w, "P %s\n", dir)
	if err != nil {
		fmt.Fprintf(w, "E %s\n", strings.ReplaceAll(err.Error(), "\n", " | "))
	}
	if res.TaintFlows == nil {
		return nil
	}
	lines := map[string]bool{}
	for sink, sources := range res.TaintFlows.Sinks {
		for source := range sources {
			sp := prog.Fset.Position(source.Instr.Pos())
			kp := prog.Fset.Position(sink.Instr.Pos())
			lines[fmt.Sprintf("FLOW %s %s %d %d", calleeName(source.Instr), calleeName(sink.Instr), sp.Line, kp.Line)] = true
		}
	}
	keys := make([]string, 0, len(lines))
	for k := range lines {
		keys = append(keys, k)
	}
	sort.Strings(keys)
	for _, k := range keys {
		fmt.Fprintln(w, k)
	}
	return nil
}

func main() {
	out := flag.String("o", "-", "output file")
	rewrites := flag.Bool("rewrites", true, "apply the source rewrites the argot CLI applies")
	flag.Parse()
	w := bufio.NewWriter(os.Stdout)
	if *out != "-" {
		f, err := os.Create(*out)
		if err != nil {
			panic(err)
		}
		defer f.Close()
		w = bufio.NewWriter(f)
	}
	defer w.Flush()
	rc := 0
	for _, dir := range flag.Args() {
		func() {
			defer func() {
				if r := recover(); r != nil {
					fmt.Fprintf(w, "P %s\nPANIC %v\n", dir, r)
					rc = 3
				}
			}()
			if err := runDir(w, dir, *rewrites); err != nil {
				fmt.Fprintf(w, "P %s\nFAIL %v\n", dir, err)
				rc = 2
			}
		}()
		w.Flush()
	}
	w.Flush()
	os.Exit(rc)
}
