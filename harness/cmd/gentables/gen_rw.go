package main

// gen_rw: T-gen for C05.  Regenerates coq/gen/GenRW.v from
//
//   - the Operands methods of the golang.org/x/tools/go/ssa version that /repo/go.mod pins (the "operand schema":
//     every (instruction type, operand field) through which an ssa.Value - hence a *ssa.Global - can be referenced;
//     the eager analysis creates a global access node for every such occurrence, function_summary_graph.go
//     "Add global nodes"), and
//   - the behaviour of the real lang.FnReadsFrom / lang.FnWritesTo of the tree the harness is built against (which
//     operand positions the on-demand mode takes into account when it decides which functions to pre-build): for every
//     operand position of the schema a one-instruction function is synthesised whose instruction references a fresh
//     *ssa.Global at exactly that position, and the real functions are asked.  (Probing instead of reading the case
//     lists keeps the table right when the functions are rewritten, e.g. as a loop over Instruction.Operands.)
//
// The role column is a hand-written classification of operand positions (below); an operand position that is not in
// the table gets role "use" (the conservative choice: it must then be covered by FnReadsFrom, otherwise the finite
// theorem rw_cover_except_known of Properties/C05.v stops compiling).

import (
	"fmt"
	"go/ast"
	"go/parser"
	"go/token"
	"os"
	"os/exec"
	"path/filepath"
	"reflect"
	"sort"
	"strings"

	"github.com/awslabs/ar-go-tools/analysis/lang"
	"golang.org/x/tools/go/ssa"
)

func init() { generators["rw"] = genRW }

// roles:
//
//	read    the operand is an address that the instruction dereferences for reading (a *ssa.Global here is a read)
//	write   the operand is an address / map / channel the instruction writes through (a *ssa.Global here is a write)
//	use     the operand's VALUE is copied somewhere (stored, passed, returned, boxed, offset...): a *ssa.Global here
//	        makes the function a potential reader (the eager mode creates a read access node for it)
//	nonptr  the operand's static type can never be a pointer (int index, bool condition, tuple, interface, map, string,
//	        struct value, iterator), so it can never be a *ssa.Global (whose type is always a pointer)
//	debug   only present in debug builds of the SSA (DebugRef)
var rwRoles = map[string]string{
	"UnOp.X": "read", "Store.Addr": "write", "MapUpdate.Map": "write", "Send.Chan": "write",
	"Store.Val": "use", "BinOp.X": "use", "BinOp.Y": "use", "FieldAddr.X": "use", "IndexAddr.X": "use", "Slice.X": "use",
	"Call.Call.Args[]": "use", "Go.Call.Args[]": "use", "Defer.Call.Args[]": "use", "Phi.Edges[]": "use",
	"MakeInterface.X": "use", "Return.Results[]": "use", "ChangeType.X": "use", "Convert.X": "use", "MultiConvert.X": "use",
	"MakeClosure.Bindings[]": "use", "Send.X": "use", "MapUpdate.Key": "use", "MapUpdate.Value": "use",
	"Lookup.Index": "use", "Select.States[].Send": "use",
	"Call.Call.Value": "nonptr", "Go.Call.Value": "nonptr", "Defer.Call.Value": "nonptr", "Defer.DeferStack": "nonptr",
	"MakeClosure.Fn": "nonptr", "ChangeInterface.X": "nonptr", "SliceToArrayPointer.X": "nonptr", "Extract.Tuple": "nonptr",
	"Field.X": "nonptr", "If.Cond": "nonptr", "Index.X": "nonptr", "Index.Index": "nonptr", "IndexAddr.Index": "nonptr",
	"Lookup.X": "nonptr", "MakeChan.Size": "nonptr", "MakeMap.Reserve": "nonptr", "MakeSlice.Len": "nonptr",
	"MakeSlice.Cap": "nonptr", "Next.Iter": "nonptr", "Panic.X": "nonptr", "Range.X": "nonptr",
	"Select.States[].Chan": "nonptr", "Slice.Low": "nonptr", "Slice.High": "nonptr", "Slice.Max": "nonptr",
	"TypeAssert.X": "nonptr", "DebugRef.X": "debug",
}

// selPath renders recv.F, recv.F[i], recv.F[i].G as "F", "F[]", "F[].G"; ok=false when the expression is not rooted at recv.
func selPath(e ast.Expr, recv string) (string, bool) {
	switch x := e.(type) {
	case *ast.Ident:
		if x.Name == recv {
			return "", true
		}
		return "", false
	case *ast.SelectorExpr:
		p, ok := selPath(x.X, recv)
		if !ok {
			return "", false
		}
		if p == "" {
			return x.Sel.Name, true
		}
		return p + "." + x.Sel.Name, true
	case *ast.IndexExpr:
		p, ok := selPath(x.X, recv)
		return p + "[]", ok
	case *ast.ParenExpr:
		return selPath(x.X, recv)
	}
	return "", false
}

func ssaDir(repo string) (string, error) {
	cmd := exec.Command("go", "list", "-m", "-f", "{{.Dir}}", "golang.org/x/tools")
	cmd.Dir = repo
	cmd.Env = append(os.Environ(), "GOFLAGS=-mod=mod", "GOPROXY=off", "GOSUMDB=off", "GOTOOLCHAIN=local")
	out, err := cmd.Output()
	if err != nil {
		return "", fmt.Errorf("go list -m golang.org/x/tools: %v", err)
	}
	return filepath.Join(strings.TrimSpace(string(out)), "go", "ssa"), nil
}

// operandSchema parses every `func (r *T) Operands(rands []*Value) []*Value` of package ssa.
func operandSchema(dir string) (map[string][]string, error) {
	fset := token.NewFileSet()
	pkgs, err := parser.ParseDir(fset, dir, func(fi os.FileInfo) bool { return !strings.HasSuffix(fi.Name(), "_test.go") }, 0)
	if err != nil {
		return nil, err
	}
	raw := map[string][]string{}      // type -> direct operand paths
	delegate := map[string][]string{} // type -> embedded paths whose Operands are called (s.Call.Operands(rands))
	instr := map[string]bool{}        // types with a Block() or setBlock method are instructions (embed anInstruction) - found via struct fields
	for _, pkg := range pkgs {
		for _, f := range pkg.Files {
			for _, d := range f.Decls {
				switch fd := d.(type) {
				case *ast.FuncDecl:
					if fd.Name.Name != "Operands" || fd.Recv == nil || len(fd.Recv.List) != 1 || fd.Body == nil {
						continue
					}
					st, ok := fd.Recv.List[0].Type.(*ast.StarExpr)
					if !ok {
						continue
					}
					tn, ok := st.X.(*ast.Ident)
					if !ok {
						continue
					}
					recv := ""
					if len(fd.Recv.List[0].Names) == 1 {
						recv = fd.Recv.List[0].Names[0].Name
					}
					if _, seen := raw[tn.Name]; !seen {
						raw[tn.Name] = nil
					}
					ast.Inspect(fd.Body, func(n ast.Node) bool {
						switch x := n.(type) {
						case *ast.UnaryExpr:
							if x.Op == token.AND {
								if p, ok := selPath(x.X, recv); ok && p != "" {
									raw[tn.Name] = append(raw[tn.Name], p)
								}
							}
						case *ast.CallExpr:
							if se, ok := x.Fun.(*ast.SelectorExpr); ok && se.Sel.Name == "Operands" {
								if p, ok := selPath(se.X, recv); ok && p != "" {
									delegate[tn.Name] = append(delegate[tn.Name], p)
								}
							}
						}
						return true
					})
				case *ast.GenDecl:
					for _, s := range fd.Specs {
						ts, ok := s.(*ast.TypeSpec)
						if !ok {
							continue
						}
						stt, ok := ts.Type.(*ast.StructType)
						if !ok {
							continue
						}
						for _, fl := range stt.Fields.List {
							if len(fl.Names) == 0 {
								if id, ok := fl.Type.(*ast.Ident); ok && (id.Name == "anInstruction" || id.Name == "register") {
									instr[ts.Name.Name] = true
								}
							}
						}
					}
				}
			}
		}
	}
	out := map[string][]string{}
	for t := range instr {
		ops, ok := raw[t]
		if !ok {
			continue
		}
		var all []string
		all = append(all, ops...)
		for _, dp := range delegate[t] {
			// the only delegation in ssa is to the embedded CallCommon
			for _, p := range raw["CallCommon"] {
				all = append(all, dp+"."+p)
			}
		}
		sort.Strings(all)
		out[t] = all
	}
	if len(out) < 20 {
		return nil, fmt.Errorf("operand schema suspiciously small (%d instruction types) - ssa source layout changed?", len(out))
	}
	return out, nil
}

// rwInstrTypes: the concrete instruction types that can be synthesised for probing.  A type of the schema that is missing
// here is reported as not covered (conservative).
var rwInstrTypes = map[string]reflect.Type{
	"Alloc": reflect.TypeOf(ssa.Alloc{}), "BinOp": reflect.TypeOf(ssa.BinOp{}), "Call": reflect.TypeOf(ssa.Call{}),
	"ChangeInterface": reflect.TypeOf(ssa.ChangeInterface{}), "ChangeType": reflect.TypeOf(ssa.ChangeType{}),
	"Convert": reflect.TypeOf(ssa.Convert{}), "DebugRef": reflect.TypeOf(ssa.DebugRef{}), "Defer": reflect.TypeOf(ssa.Defer{}),
	"Extract": reflect.TypeOf(ssa.Extract{}), "Field": reflect.TypeOf(ssa.Field{}), "FieldAddr": reflect.TypeOf(ssa.FieldAddr{}),
	"Go": reflect.TypeOf(ssa.Go{}), "If": reflect.TypeOf(ssa.If{}), "Index": reflect.TypeOf(ssa.Index{}),
	"IndexAddr": reflect.TypeOf(ssa.IndexAddr{}), "Jump": reflect.TypeOf(ssa.Jump{}), "Lookup": reflect.TypeOf(ssa.Lookup{}),
	"MakeChan": reflect.TypeOf(ssa.MakeChan{}), "MakeClosure": reflect.TypeOf(ssa.MakeClosure{}),
	"MakeInterface": reflect.TypeOf(ssa.MakeInterface{}), "MakeMap": reflect.TypeOf(ssa.MakeMap{}),
	"MakeSlice": reflect.TypeOf(ssa.MakeSlice{}), "MapUpdate": reflect.TypeOf(ssa.MapUpdate{}),
	"MultiConvert": reflect.TypeOf(ssa.MultiConvert{}), "Next": reflect.TypeOf(ssa.Next{}), "Panic": reflect.TypeOf(ssa.Panic{}),
	"Phi": reflect.TypeOf(ssa.Phi{}), "Range": reflect.TypeOf(ssa.Range{}), "Return": reflect.TypeOf(ssa.Return{}),
	"RunDefers": reflect.TypeOf(ssa.RunDefers{}), "Select": reflect.TypeOf(ssa.Select{}), "Send": reflect.TypeOf(ssa.Send{}),
	"Slice": reflect.TypeOf(ssa.Slice{}), "SliceToArrayPointer": reflect.TypeOf(ssa.SliceToArrayPointer{}),
	"Store": reflect.TypeOf(ssa.Store{}), "TypeAssert": reflect.TypeOf(ssa.TypeAssert{}), "UnOp": reflect.TypeOf(ssa.UnOp{}),
}

var rwValueType = reflect.TypeOf((*ssa.Value)(nil)).Elem()

// setPath stores val at the operand position path ("X", "Call.Args[]", "States[].Send") of the addressable struct v
func setPath(v reflect.Value, path string, val ssa.Value) error {
	head, rest := path, ""
	if i := strings.Index(path, "."); i >= 0 {
		head, rest = path[:i], path[i+1:]
	}
	isSlice := strings.HasSuffix(head, "[]")
	head = strings.TrimSuffix(head, "[]")
	f := v.FieldByName(head)
	if !f.IsValid() || !f.CanSet() {
		return fmt.Errorf("no settable field %s", head)
	}
	if isSlice {
		sl := reflect.MakeSlice(f.Type(), 1, 1)
		f.Set(sl)
		e := sl.Index(0)
		if rest == "" {
			e.Set(reflect.ValueOf(&val).Elem())
			return nil
		}
		if e.Kind() == reflect.Ptr {
			e.Set(reflect.New(e.Type().Elem()))
			e = e.Elem()
		}
		return setPath(e, rest, val)
	}
	if rest == "" {
		if f.Type() != rwValueType {
			return fmt.Errorf("field %s is not an ssa.Value", head)
		}
		f.Set(reflect.ValueOf(&val).Elem())
		return nil
	}
	if f.Kind() == reflect.Ptr {
		f.Set(reflect.New(f.Type().Elem()))
		f = f.Elem()
	}
	return setPath(f, rest, val)
}

// probeRW asks the real FnReadsFrom/FnWritesTo about a function consisting of one instruction of type t that references a
// fresh global at position path; (reads, writes, ok)
func probeRW(t, path string) (r, w, ok bool) {
	rt, known := rwInstrTypes[t]
	if !known {
		return false, false, false
	}
	defer func() {
		if e := recover(); e != nil {
			r, w, ok = false, false, false
		}
	}()
	g := &ssa.Global{}
	iv := reflect.New(rt)
	if err := setPath(iv.Elem(), path, g); err != nil {
		return false, false, false
	}
	instr, isInstr := iv.Interface().(ssa.Instruction)
	if !isInstr {
		return false, false, false
	}
	fn := &ssa.Function{Blocks: []*ssa.BasicBlock{{Instrs: []ssa.Instruction{instr}}}}
	return lang.FnReadsFrom(fn, g), lang.FnWritesTo(fn, g), true
}

// probeStoreFieldAddr: the special case "store through a field address of the global" (Store.Addr = FieldAddr{X: G})
func probeStoreFieldAddr() (r, w bool) {
	defer func() {
		if e := recover(); e != nil {
			r, w = false, false
		}
	}()
	g := &ssa.Global{}
	fa := &ssa.FieldAddr{X: g}
	st := &ssa.Store{Addr: fa}
	fn := &ssa.Function{Blocks: []*ssa.BasicBlock{{Instrs: []ssa.Instruction{st}}}}
	return lang.FnReadsFrom(fn, g), lang.FnWritesTo(fn, g)
}

func coqPair(s string) string {
	i := strings.Index(s, ".")
	return fmt.Sprintf("(%q, %q)", s[:i], s[i+1:])
}

func genRW(repo, out string) error {
	dir, err := ssaDir(repo)
	if err != nil {
		return err
	}
	schema, err := operandSchema(dir)
	if err != nil {
		return err
	}
	var reads, writes, unprobed []string
	var tsorted []string
	for t := range schema {
		tsorted = append(tsorted, t)
	}
	sort.Strings(tsorted)
	for _, t := range tsorted {
		for _, f := range schema[t] {
			r, w, ok := probeRW(t, f)
			if !ok {
				unprobed = append(unprobed, t+"."+f)
				continue
			}
			if r {
				reads = append(reads, t+"."+f)
			}
			if w {
				writes = append(writes, t+"."+f)
			}
		}
	}
	if r, w := probeStoreFieldAddr(); r || w {
		if r {
			reads = append(reads, "Store.Addr>FieldAddr.X")
		}
		if w {
			writes = append(writes, "Store.Addr>FieldAddr.X")
		}
	}
	sort.Strings(reads)
	sort.Strings(writes)
	if len(reads) == 0 && len(writes) == 0 {
		return fmt.Errorf("probing FnReadsFrom/FnWritesTo found no covered operand position at all (unprobed: %v)", unprobed)
	}
	var b strings.Builder
	b.WriteString("(* GENERATED by harness/cmd/gentables (gen_rw.go) from golang.org/x/tools/go/ssa (Operands methods) and by probing\n   the real lang.FnReadsFrom / lang.FnWritesTo on one synthesised instruction per operand position.  Do not edit. *)\n")
	fmt.Fprintf(&b, "(* operand positions that could not be synthesised (counted as not covered): %v *)\n", unprobed)
	b.WriteString("From Coq Require Import List String.\nImport ListNotations.\nOpen Scope string_scope.\n\n")
	b.WriteString("(* (instruction type, operand field, role) for every operand position of every ssa.Instruction *)\n")
	b.WriteString("Definition rw_schema : list (string * string * string) := [\n")
	var ts []string
	for t := range schema {
		ts = append(ts, t)
	}
	sort.Strings(ts)
	first := true
	for _, t := range ts {
		for _, f := range schema[t] {
			role, ok := rwRoles[t+"."+f]
			if !ok {
				role = "use"
			}
			if !first {
				b.WriteString(";\n")
			}
			first = false
			fmt.Fprintf(&b, "  (%q, %q, %q)", t, f, role)
		}
	}
	b.WriteString("\n].\n\n(* operand positions at which lang.FnReadsFrom sees the global *)\nDefinition rw_reads_from : list (string * string) := [\n  ")
	var rs []string
	for _, r := range reads {
		rs = append(rs, coqPair(r))
	}
	b.WriteString(strings.Join(rs, ";\n  "))
	b.WriteString("\n].\n\n(* operand positions at which lang.FnWritesTo sees the global *)\nDefinition rw_writes_to : list (string * string) := [\n  ")
	var ws []string
	for _, w := range writes {
		ws = append(ws, coqPair(w))
	}
	b.WriteString(strings.Join(ws, ";\n  "))
	b.WriteString("\n].\n")
	return os.WriteFile(filepath.Join(out, "GenRW.v"), []byte(b.String()), 0o644)
}
