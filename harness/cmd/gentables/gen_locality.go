package main

// gen_locality: T-gen for C13/C14.  Regenerates coq/gen/GenLocality.v from the current source of
//   analysis/escape/escape.go   instructionLocality (type switch: which SSA instruction types are guarded by
//                               derefsAreLocal on which operand, which return nil = always local, the default) and
//                               transferFunction (which instruction types have a case that returns),
//   analysis/taint/dataflow_visitor.go   checkEscape (does it skip call instructions),
// plus the list of concrete types implementing ssa.Instruction in the x/tools version /repo pins.

import (
	"bytes"
	"fmt"
	"go/ast"
	"go/parser"
	"go/printer"
	"go/token"
	"go/types"
	"os"
	"path/filepath"
	"sort"
	"strings"

	"golang.org/x/tools/go/packages"
)

func init() { generators["locality"] = genLocality }

type locEntry struct{ kind, sub, verdict string }

func exprText(fset *token.FileSet, e ast.Node) string {
	var b bytes.Buffer
	printer.Fprint(&b, fset, e)
	return strings.Join(strings.Fields(b.String()), " ")
}

// subKind maps the text of an if-condition of instructionLocality to a symbolic sub-kind.
func subKind(cond string) string {
	switch {
	case strings.Contains(cond, "token.MUL"):
		return "MUL"
	case strings.Contains(cond, "token.ARROW"):
		return "ARROW"
	case strings.Contains(cond, "IsString"):
		if strings.HasPrefix(strings.TrimSpace(cond), "!") {
			return "!IsString"
		}
		return "IsString"
	case strings.Contains(cond, "(*types.Map)"):
		return "Map"
	case strings.Contains(cond, "(*types.Slice)"):
		return "Slice"
	case strings.Contains(cond, "(*ssa.Builtin)"):
		return "builtin"
	}
	return "?" + cond
}

// guardOperand recognises derefsAreLocal(g, g.nodes.ValueNode(<recv>.<Field>)) and returns the field path.
func guardOperand(fset *token.FileSet, e ast.Expr) (string, bool) {
	c, ok := e.(*ast.CallExpr)
	if !ok {
		return "", false
	}
	if id, ok := c.Fun.(*ast.Ident); !ok || id.Name != "derefsAreLocal" || len(c.Args) != 2 {
		return "", false
	}
	in, ok := c.Args[1].(*ast.CallExpr)
	if !ok || len(in.Args) != 1 || !strings.HasSuffix(exprText(fset, in.Fun), "ValueNode") {
		return "?" + exprText(fset, c.Args[1]), true
	}
	t := exprText(fset, in.Args[0])
	if i := strings.Index(t, "."); i >= 0 {
		t = t[i+1:]
	}
	return t, true
}

func verdictOf(fset *token.FileSet, e ast.Expr, vars map[string]string) string {
	if id, ok := e.(*ast.Ident); ok {
		if id.Name == "nil" {
			return "LLocal"
		}
		if v, ok := vars[id.Name]; ok {
			return v
		}
		return "LUnknown"
	}
	if op, ok := guardOperand(fset, e); ok {
		return fmt.Sprintf("LGuard %q", op)
	}
	if strings.Contains(exprText(fset, e), "NewBaseRationale") {
		return "LNonLocal"
	}
	return "LUnknown"
}

// clauseEntries interprets the body of one case clause as a decision list (sub-kind, verdict).
func clauseEntries(fset *token.FileSet, stmts []ast.Stmt, vars map[string]string) (out []struct{ sub, verdict string }, terminated bool) {
	for _, st := range stmts {
		switch s := st.(type) {
		case *ast.ReturnStmt:
			if len(s.Results) == 1 {
				out = append(out, struct{ sub, verdict string }{"", verdictOf(fset, s.Results[0], vars)})
			}
			return out, true
		case *ast.IfStmt:
			for cur := s; cur != nil; {
				condText := exprText(fset, cur.Cond)
				if cur.Init != nil {
					condText = exprText(fset, cur.Init) + " ; " + condText
				}
				sub := subKind(condText)
				inner, _ := clauseEntries(fset, cur.Body.List, vars)
				for _, e := range inner {
					if e.sub == "" {
						out = append(out, struct{ sub, verdict string }{sub, e.verdict})
					} else {
						out = append(out, struct{ sub, verdict string }{sub + "&" + e.sub, e.verdict})
					}
				}
				switch el := cur.Else.(type) {
				case *ast.IfStmt:
					cur = el
				case *ast.BlockStmt:
					inner, term := clauseEntries(fset, el.List, vars)
					out = append(out, inner...)
					if term {
						return out, true
					}
					cur = nil
				default:
					cur = nil
				}
			}
		case *ast.SwitchStmt:
			// switch builtin.Name() { case "append", "copy": ... }: one sub-kind per listed name
			if s.Tag == nil || !strings.Contains(exprText(fset, s.Tag), "Name()") {
				continue
			}
			for _, c := range s.Body.List {
				cc := c.(*ast.CaseClause)
				inner, _ := clauseEntries(fset, cc.Body, vars)
				for _, ne := range cc.List {
					name := strings.Trim(exprText(fset, ne), "\"")
					for _, e := range inner {
						out = append(out, struct{ sub, verdict string }{"name=" + name, e.verdict})
					}
				}
			}
		case *ast.RangeStmt:
			// for _, state := range instrType.States { r := derefsAreLocal(.. state.Chan ..); if r != nil { return r } }
			local := map[string]string{}
			for k, v := range vars {
				local[k] = v
			}
			ast.Inspect(s.Body, func(n ast.Node) bool {
				if as, ok := n.(*ast.AssignStmt); ok && len(as.Lhs) == 1 && len(as.Rhs) == 1 {
					if id, ok := as.Lhs[0].(*ast.Ident); ok {
						if op, ok := guardOperand(fset, as.Rhs[0]); ok {
							rng := exprText(fset, s.X)
							if i := strings.Index(rng, "."); i >= 0 {
								rng = rng[i+1:]
							}
							local[id.Name] = fmt.Sprintf("LGuard %q", rng+"."+op)
						}
					}
				}
				return true
			})
			// "each" only if every element is guarded: no continue/break in the loop body and the derefsAreLocal call is
			// a direct statement of the body (or the init of an if directly in the body); otherwise "filtered"
			all := true
			ast.Inspect(s.Body, func(n ast.Node) bool {
				if b, ok := n.(*ast.BranchStmt); ok && (b.Tok == token.CONTINUE || b.Tok == token.BREAK || b.Tok == token.GOTO) {
					all = false
				}
				return true
			})
			direct := false
			for _, bs := range s.Body.List {
				var as *ast.AssignStmt
				switch x := bs.(type) {
				case *ast.AssignStmt:
					as = x
				case *ast.IfStmt:
					if i, ok := x.Init.(*ast.AssignStmt); ok {
						as = i
					}
				}
				if as != nil && len(as.Rhs) == 1 {
					if _, ok := guardOperand(fset, as.Rhs[0]); ok {
						direct = true
					}
				}
			}
			subName := "each"
			if !all || !direct {
				subName = "filtered"
			}
			ast.Inspect(s.Body, func(n ast.Node) bool {
				if r, ok := n.(*ast.ReturnStmt); ok && len(r.Results) == 1 {
					v := verdictOf(fset, r.Results[0], local)
					if strings.HasPrefix(v, "LGuard") {
						out = append(out, struct{ sub, verdict string }{subName, v})
					}
				}
				return true
			})
		}
	}
	return out, false
}

func findFunc(f *ast.File, name string) *ast.FuncDecl {
	for _, d := range f.Decls {
		if fd, ok := d.(*ast.FuncDecl); ok && fd.Name.Name == name {
			return fd
		}
	}
	return nil
}

func firstTypeSwitch(fd *ast.FuncDecl) *ast.TypeSwitchStmt {
	var ts *ast.TypeSwitchStmt
	ast.Inspect(fd.Body, func(n ast.Node) bool {
		if ts != nil {
			return false
		}
		if t, ok := n.(*ast.TypeSwitchStmt); ok {
			ts = t
			return false
		}
		return true
	})
	return ts
}

func typeName(fset *token.FileSet, e ast.Expr) string {
	t := exprText(fset, e)
	t = strings.TrimPrefix(t, "*")
	return strings.TrimPrefix(t, "ssa.")
}

func ssaInstructionTypes(repo string) ([]string, error) {
	cfg := &packages.Config{Mode: packages.NeedTypes | packages.NeedName, Dir: repo,
		Env: append(os.Environ(), "GOFLAGS=-mod=mod", "GOPROXY=off", "GOSUMDB=off", "GOTOOLCHAIN=local")}
	pkgs, err := packages.Load(cfg, "golang.org/x/tools/go/ssa")
	if err != nil {
		return nil, err
	}
	if len(pkgs) != 1 || pkgs[0].Types == nil {
		return nil, fmt.Errorf("cannot load golang.org/x/tools/go/ssa types")
	}
	scope := pkgs[0].Types.Scope()
	io := scope.Lookup("Instruction")
	if io == nil {
		return nil, fmt.Errorf("ssa.Instruction not found")
	}
	iface := io.Type().Underlying().(*types.Interface)
	var out []string
	for _, n := range scope.Names() {
		tn, ok := scope.Lookup(n).(*types.TypeName)
		if !ok || !tn.Exported() {
			continue
		}
		if _, isI := tn.Type().Underlying().(*types.Interface); isI {
			continue
		}
		if types.Implements(types.NewPointer(tn.Type()), iface) {
			out = append(out, n)
		}
	}
	sort.Strings(out)
	return out, nil
}

func genLocality(repo, out string) error {
	fset := token.NewFileSet()
	ef, err := parser.ParseFile(fset, filepath.Join(repo, "analysis/escape/escape.go"), nil, 0)
	if err != nil {
		return err
	}
	il := findFunc(ef, "instructionLocality")
	if il == nil {
		return fmt.Errorf("instructionLocality not found")
	}
	ts := firstTypeSwitch(il)
	if ts == nil {
		return fmt.Errorf("instructionLocality: no type switch")
	}
	var entries []locEntry
	for _, c := range ts.Body.List {
		cc := c.(*ast.CaseClause)
		if cc.List == nil {
			continue // default: falls through to the statements after the switch
		}
		es, term := clauseEntries(fset, cc.Body, map[string]string{})
		for _, te := range cc.List {
			k := typeName(fset, te)
			for _, e := range es {
				entries = append(entries, locEntry{k, e.sub, e.verdict})
			}
			if !term {
				entries = append(entries, locEntry{k, "", "LFallthrough"})
			}
		}
	}
	// default verdict: the return after the switch
	def := "LUnknown"
	for _, st := range il.Body.List {
		if r, ok := st.(*ast.ReturnStmt); ok && len(r.Results) == 1 {
			def = verdictOf(fset, r.Results[0], map[string]string{})
		}
	}
	// transferFunction cases
	tf := findFunc(ef, "transferFunction")
	if tf == nil {
		return fmt.Errorf("transferFunction not found")
	}
	tts := firstTypeSwitch(tf)
	type tcase struct {
		kind    string
		handled bool
	}
	var tcases []tcase
	for _, c := range tts.Body.List {
		cc := c.(*ast.CaseClause)
		hasRet := false
		for _, st := range cc.Body {
			ast.Inspect(st, func(n ast.Node) bool {
				if _, ok := n.(*ast.ReturnStmt); ok {
					hasRet = true
				}
				if _, ok := n.(*ast.FuncLit); ok {
					return false
				}
				return true
			})
		}
		for _, te := range cc.List {
			tcases = append(tcases, tcase{typeName(fset, te), hasRet})
		}
	}
	// checkEscape: does the visitor skip call instructions?
	vf, err := parser.ParseFile(fset, filepath.Join(repo, "analysis/taint/dataflow_visitor.go"), nil, 0)
	if err != nil {
		return err
	}
	ce := findFunc(vf, "checkEscape")
	if ce == nil {
		return fmt.Errorf("checkEscape not found")
	}
	skipsCalls, iteratesMarks, reports, exemptsBuiltins := false, false, false, false
	ast.Inspect(ce.Body, func(n ast.Node) bool {
		switch x := n.(type) {
		case *ast.IfStmt:
			t := exprText(fset, x.Cond)
			if strings.Contains(t, "!isCall") {
				skipsCalls = true
			}
		case *ast.RangeStmt:
			if strings.Contains(exprText(fset, x.X), "Marks()") {
				iteratesMarks = true
			}
		case *ast.AssignStmt:
			// isCall = false inside `if _, isBuiltin := call.Call.Value.(*ssa.Builtin); isBuiltin { ... }`
			if len(x.Lhs) == 1 && len(x.Rhs) == 1 && exprText(fset, x.Lhs[0]) == "isCall" && exprText(fset, x.Rhs[0]) == "false" {
				exemptsBuiltins = true
			}
		case *ast.CallExpr:
			if strings.Contains(exprText(fset, x.Fun), "addNewEscape") {
				reports = true
			}
		}
		return true
	})
	instrs, err := ssaInstructionTypes(repo)
	if err != nil {
		return err
	}
	var b strings.Builder
	b.WriteString("(* GENERATED by harness/cmd/gentables (gen_locality.go) from analysis/escape/escape.go and\n   analysis/taint/dataflow_visitor.go -- do not edit *)\n")
	b.WriteString("From Coq Require Import List String.\nFrom Argot Require Import Model.EscTable.\nImport ListNotations.\nOpen Scope string_scope.\n\n")
	b.WriteString("Definition locality_table : list (string * string * lverdict) :=\n  [")
	for i, e := range entries {
		if i > 0 {
			b.WriteString(";\n   ")
		}
		fmt.Fprintf(&b, "(%q, %q, %s)", e.kind, e.sub, e.verdict)
	}
	b.WriteString("].\n\n")
	fmt.Fprintf(&b, "Definition locality_default : lverdict := %s.\n\n", def)
	b.WriteString("Definition transfer_table : list (string * bool) :=\n  [")
	for i, c := range tcases {
		if i > 0 {
			b.WriteString("; ")
		}
		fmt.Fprintf(&b, "(%q, %v)", c.kind, c.handled)
	}
	b.WriteString("].\n\n")
	b.WriteString("Definition ssa_instruction_types : list string :=\n  [")
	for i, n := range instrs {
		if i > 0 {
			b.WriteString("; ")
		}
		fmt.Fprintf(&b, "%q", n)
	}
	b.WriteString("].\n\n")
	fmt.Fprintf(&b, "Definition check_escape_skips_calls : bool := %v.\nDefinition check_escape_iterates_marks : bool := %v.\nDefinition check_escape_reports : bool := %v.\n",
		skipsCalls, iteratesMarks, reports)
	fmt.Fprintf(&b, "(* calls are skipped (their callees are checked in their own contexts) but builtin calls are not *)\nDefinition check_escape_skips_builtins : bool := %v.\n",
		skipsCalls && !exemptsBuiltins)
	return os.WriteFile(filepath.Join(out, "GenLocality.v"), []byte(b.String()), 0o644)
}
