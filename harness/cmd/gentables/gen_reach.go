// gen_reach.go — T-gen for property C18 (reachability analysis).
//
// Emits coq/gen/GenReach.v from
//   - the operand schema of the x/tools ssa package pinned by /repo/go.mod: every struct type of package ssa that
//     implements ssa.Instruction or ssa.Value with its exported operand fields (fields of type ssa.Value, of a type
//     implementing ssa.Value, slices of those, and the same fields of nested helper structs such as CallCommon and
//     []*SelectState, named "Call.Value", "States.Chan", ...);
//   - the Go AST of analysis/reachability/value_visitor.go: the case lists of preTraversalVisitValuesInstruction and
//     preTraversalVisitValues with the operand fields whose value is passed to visit(...) in each case;
//   - the Go AST of analysis/reachability/reachable_functions.go: the cases of the type switch in findCallees with
//     what their bodies do (resolve a static callee / a closure callee / the methods of a converted type).  A case
//     with an empty body (`case *ssa.Call:` immediately followed by the next case) does NOT fall through in Go and
//     therefore yields no feature.
package main

import (
	"fmt"
	"go/ast"
	"go/parser"
	"go/token"
	"go/types"
	"os"
	"os/exec"
	"path/filepath"
	"sort"
	"strings"

	"golang.org/x/tools/go/packages"
)

func init() { generators["reach"] = genReach }

// ---------------------------------------------------------------------------------------------- ssa operand schema

type reachSchema struct {
	version string
	types   []string // sorted names of struct types implementing Instruction or Value
	isInstr map[string]bool
	isValue map[string]bool
	fields  map[string][]string // type -> operand field paths (declaration order)
}

func loadReachSchema(repo string) (*reachSchema, error) {
	env := append(os.Environ(), "GOFLAGS=-mod=mod", "GOPROXY=off", "GOSUMDB=off", "GOTOOLCHAIN=local")
	cfg := &packages.Config{Mode: packages.NeedName | packages.NeedTypes | packages.NeedModule, Dir: repo, Env: env}
	pkgs, err := packages.Load(cfg, "golang.org/x/tools/go/ssa")
	if err != nil {
		return nil, err
	}
	if len(pkgs) != 1 || pkgs[0].Types == nil || len(pkgs[0].Errors) > 0 {
		return nil, fmt.Errorf("cannot load golang.org/x/tools/go/ssa from %s: %v", repo, pkgs[0].Errors)
	}
	p := pkgs[0]
	s := &reachSchema{isInstr: map[string]bool{}, isValue: map[string]bool{}, fields: map[string][]string{}}
	if p.Module != nil {
		s.version = p.Module.Version
	} else {
		out, _ := exec.Command("go", "list", "-m", "-f", "{{.Version}}", "golang.org/x/tools").Output()
		s.version = strings.TrimSpace(string(out))
	}
	scope := p.Types.Scope()
	lookupIface := func(n string) *types.Interface {
		o := scope.Lookup(n)
		if o == nil {
			return nil
		}
		i, _ := o.Type().Underlying().(*types.Interface)
		return i
	}
	valueI, instrI := lookupIface("Value"), lookupIface("Instruction")
	if valueI == nil || instrI == nil {
		return nil, fmt.Errorf("ssa.Value / ssa.Instruction not found")
	}
	// is t (or *t) a ssa.Value ?
	valueish := func(t types.Type) bool {
		if types.Identical(t.Underlying(), valueI) {
			if n, ok := t.(*types.Named); ok && n.Obj().Name() == "Value" {
				return true
			}
		}
		if _, ok := t.Underlying().(*types.Interface); ok {
			return false // other interfaces (Instruction, CallInstruction, Node, ...) are not operand positions
		}
		return types.Implements(t, valueI)
	}
	var operandFields func(st *types.Struct, depth int) []string
	// direct operand fields of a struct: exported fields that are Value-ish or slices of Value-ish
	direct := func(st *types.Struct) []string {
		var out []string
		for i := 0; i < st.NumFields(); i++ {
			f := st.Field(i)
			if !f.Exported() || f.Embedded() {
				continue
			}
			t := f.Type()
			if sl, ok := t.(*types.Slice); ok {
				t = sl.Elem()
			}
			if valueish(t) {
				out = append(out, f.Name())
			}
		}
		return out
	}
	helperStruct := func(t types.Type) *types.Struct {
		if sl, ok := t.(*types.Slice); ok {
			t = sl.Elem()
		}
		if pt, ok := t.(*types.Pointer); ok {
			t = pt.Elem()
		}
		n, ok := t.(*types.Named)
		if !ok || n.Obj().Pkg() != p.Types {
			return nil
		}
		st, ok := n.Underlying().(*types.Struct)
		if !ok {
			return nil
		}
		if types.Implements(n, valueI) || types.Implements(types.NewPointer(n), valueI) ||
			types.Implements(n, instrI) || types.Implements(types.NewPointer(n), instrI) {
			return nil
		}
		if len(direct(st)) == 0 {
			return nil
		}
		return st
	}
	operandFields = func(st *types.Struct, depth int) []string {
		var out []string
		for i := 0; i < st.NumFields(); i++ {
			f := st.Field(i)
			if !f.Exported() || f.Embedded() {
				continue
			}
			t := f.Type()
			el := t
			if sl, ok := t.(*types.Slice); ok {
				el = sl.Elem()
			}
			if valueish(el) {
				out = append(out, f.Name())
				continue
			}
			if depth > 0 {
				if hs := helperStruct(t); hs != nil {
					for _, sub := range operandFields(hs, depth-1) {
						out = append(out, f.Name()+"."+sub)
					}
				}
			}
		}
		return out
	}
	for _, name := range scope.Names() {
		tn, ok := scope.Lookup(name).(*types.TypeName)
		if !ok {
			continue
		}
		n, ok := tn.Type().(*types.Named)
		if !ok {
			continue
		}
		st, ok := n.Underlying().(*types.Struct)
		if !ok {
			continue
		}
		pt := types.NewPointer(n)
		iv, ii := types.Implements(pt, valueI), types.Implements(pt, instrI)
		if !iv && !ii {
			continue
		}
		if !tn.Exported() {
			continue
		}
		s.types = append(s.types, name)
		s.isValue[name] = iv
		s.isInstr[name] = ii
		s.fields[name] = operandFields(st, 1)
	}
	sort.Strings(s.types)
	return s, nil
}

// ---------------------------------------------------------------------------------------------- visitor case lists

type reachCase struct {
	types []string // names of the ssa types of the case clause
	paths []string // operand field paths passed to a visit call in the body (sorted, unique)
	feats []string // findCallees only
}

func reachSsaTypeName(e ast.Expr) string {
	if st, ok := e.(*ast.StarExpr); ok {
		e = st.X
	}
	if se, ok := e.(*ast.SelectorExpr); ok {
		if id, ok := se.X.(*ast.Ident); ok && id.Name == "ssa" {
			return se.Sel.Name
		}
	}
	return ""
}

// reachPathEnv evaluates expressions to the set of operand field paths (relative to the switch variable) they denote
type reachPathEnv map[string][]string

func (env reachPathEnv) eval(e ast.Expr) []string {
	switch x := e.(type) {
	case *ast.Ident:
		return env[x.Name]
	case *ast.ParenExpr:
		return env.eval(x.X)
	case *ast.SelectorExpr:
		var out []string
		for _, p := range env.eval(x.X) {
			if p == "" {
				out = append(out, x.Sel.Name)
			} else {
				out = append(out, p+"."+x.Sel.Name)
			}
		}
		return out
	case *ast.IndexExpr:
		return env.eval(x.X)
	case *ast.UnaryExpr:
		return env.eval(x.X)
	case *ast.StarExpr:
		return env.eval(x.X)
	case *ast.TypeAssertExpr:
		return env.eval(x.X)
	case *ast.CallExpr:
		// x.Common() on a call instruction denotes &x.Call
		if se, ok := x.Fun.(*ast.SelectorExpr); ok && se.Sel.Name == "Common" && len(x.Args) == 0 {
			var out []string
			for _, p := range env.eval(se.X) {
				if p == "" {
					out = append(out, "Call")
				} else {
					out = append(out, p+".Call")
				}
			}
			return out
		}
		return nil
	case *ast.CompositeLit:
		var out []string
		for _, el := range x.Elts {
			if kv, ok := el.(*ast.KeyValueExpr); ok {
				el = kv.Value
			}
			out = append(out, env.eval(el)...)
		}
		return out
	}
	return nil
}

func (env reachPathEnv) clone() reachPathEnv {
	c := reachPathEnv{}
	for k, v := range env {
		c[k] = v
	}
	return c
}

// walkVisits records in acc every path passed to one of the visit functions within the statements
func (env reachPathEnv) walkVisits(stmts []ast.Stmt, visitFns map[string]bool, acc map[string]bool) {
	var expr func(e ast.Expr)
	expr = func(e ast.Expr) {
		ast.Inspect(e, func(n ast.Node) bool {
			if _, ok := n.(*ast.FuncLit); ok {
				return false
			}
			if c, ok := n.(*ast.CallExpr); ok {
				if id, ok := c.Fun.(*ast.Ident); ok && visitFns[id.Name] && len(c.Args) >= 1 {
					for _, p := range env.eval(c.Args[0]) {
						acc[p] = true
					}
				}
			}
			return true
		})
	}
	var stmt func(s ast.Stmt)
	block := func(b *ast.BlockStmt) {
		if b != nil {
			for _, s := range b.List {
				stmt(s)
			}
		}
	}
	stmt = func(s ast.Stmt) {
		switch x := s.(type) {
		case nil:
		case *ast.ExprStmt:
			expr(x.X)
		case *ast.AssignStmt:
			for _, r := range x.Rhs {
				expr(r)
			}
			if len(x.Lhs) == len(x.Rhs) {
				for i, l := range x.Lhs {
					if id, ok := l.(*ast.Ident); ok {
						env[id.Name] = env.eval(x.Rhs[i])
					}
				}
			} else if len(x.Rhs) == 1 && len(x.Lhs) >= 1 {
				if id, ok := x.Lhs[0].(*ast.Ident); ok { // v, ok := e.(T)
					env[id.Name] = env.eval(x.Rhs[0])
				}
			}
		case *ast.BlockStmt:
			block(x)
		case *ast.IfStmt:
			stmt(x.Init)
			expr(x.Cond)
			block(x.Body)
			stmt(x.Else)
		case *ast.ForStmt:
			stmt(x.Init)
			block(x.Body)
		case *ast.RangeStmt:
			if id, ok := x.Value.(*ast.Ident); ok && x.Value != nil {
				env[id.Name] = env.eval(x.X)
			}
			if id, ok := x.Key.(*ast.Ident); ok && x.Key != nil {
				delete(env, id.Name)
			}
			block(x.Body)
		case *ast.SwitchStmt:
			stmt(x.Init)
			for _, c := range x.Body.List {
				for _, s2 := range c.(*ast.CaseClause).Body {
					stmt(s2)
				}
			}
		case *ast.TypeSwitchStmt:
			stmt(x.Init)
			stmt(x.Assign)
			for _, c := range x.Body.List {
				for _, s2 := range c.(*ast.CaseClause).Body {
					stmt(s2)
				}
			}
		case *ast.ReturnStmt, *ast.BranchStmt, *ast.DeclStmt, *ast.IncDecStmt, *ast.EmptyStmt:
		case *ast.DeferStmt:
			expr(x.Call)
		case *ast.GoStmt:
			expr(x.Call)
		case *ast.LabeledStmt:
			stmt(x.Stmt)
		}
	}
	for _, s := range stmts {
		stmt(s)
	}
}

func reachFindFuncDecl(f *ast.File, name string) *ast.FuncDecl {
	for _, d := range f.Decls {
		if fd, ok := d.(*ast.FuncDecl); ok && fd.Recv == nil && fd.Name.Name == name {
			return fd
		}
	}
	return nil
}

// reachTypeSwitchVar returns the bound variable of `switch x := e.(type)`
func reachTypeSwitchVar(ts *ast.TypeSwitchStmt) string {
	if as, ok := ts.Assign.(*ast.AssignStmt); ok && len(as.Lhs) == 1 {
		if id, ok := as.Lhs[0].(*ast.Ident); ok {
			return id.Name
		}
	}
	return ""
}

func reachFirstTypeSwitch(body *ast.BlockStmt) *ast.TypeSwitchStmt {
	var found *ast.TypeSwitchStmt
	ast.Inspect(body, func(n ast.Node) bool {
		if found != nil {
			return false
		}
		if _, ok := n.(*ast.FuncLit); ok {
			return false
		}
		if ts, ok := n.(*ast.TypeSwitchStmt); ok {
			found = ts
			return false
		}
		return true
	})
	return found
}

func reachVisitorCases(fd *ast.FuncDecl, visitFns map[string]bool) ([]reachCase, error) {
	ts := reachFirstTypeSwitch(fd.Body)
	if ts == nil {
		return nil, fmt.Errorf("%s: no type switch", fd.Name.Name)
	}
	v := reachTypeSwitchVar(ts)
	var out []reachCase
	for _, c := range ts.Body.List {
		cc := c.(*ast.CaseClause)
		rc := reachCase{}
		for _, e := range cc.List {
			if n := reachSsaTypeName(e); n != "" {
				rc.types = append(rc.types, n)
			}
		}
		if len(rc.types) == 0 {
			continue
		}
		acc := map[string]bool{}
		env := reachPathEnv{}
		if v != "" {
			env[v] = []string{""}
		}
		env.walkVisits(cc.Body, visitFns, acc)
		for p := range acc {
			if p != "" {
				rc.paths = append(rc.paths, p)
			}
		}
		sort.Strings(rc.paths)
		out = append(out, rc)
	}
	return out, nil
}

// reachCalleeCases analyses the type switch of findCallees
func reachCalleeCases(fd *ast.FuncDecl) ([]reachCase, error) {
	ts := reachFirstTypeSwitch(fd.Body)
	if ts == nil {
		return nil, fmt.Errorf("findCallees: no type switch")
	}
	v := reachTypeSwitchVar(ts)
	var out []reachCase
	for _, c := range ts.Body.List {
		cc := c.(*ast.CaseClause)
		rc := reachCase{}
		for _, e := range cc.List {
			if n := reachSsaTypeName(e); n != "" {
				rc.types = append(rc.types, n)
			}
		}
		if len(rc.types) == 0 {
			continue
		}
		feats := map[string]bool{}
		env := reachPathEnv{v: []string{""}}
		for _, s := range cc.Body {
			ast.Inspect(s, func(n ast.Node) bool {
				switch x := n.(type) {
				case *ast.CallExpr:
					if id, ok := x.Fun.(*ast.Ident); ok && id.Name == "findInterfaceCallees" {
						feats["iface"] = true
					}
				case *ast.TypeSwitchStmt:
					// switch value := v.Call.Value.(type) { case *ssa.Function: action(value) ... }
					var subj ast.Expr
					switch a := x.Assign.(type) {
					case *ast.AssignStmt:
						if len(a.Rhs) == 1 {
							if ta, ok := a.Rhs[0].(*ast.TypeAssertExpr); ok {
								subj = ta.X
							}
						}
					case *ast.ExprStmt:
						if ta, ok := a.X.(*ast.TypeAssertExpr); ok {
							subj = ta.X
						}
					}
					onCallValue := false
					for _, p := range env.eval(subj) {
						if p == "Call.Value" {
							onCallValue = true
						}
					}
					if !onCallValue {
						return true
					}
					for _, c2 := range x.Body.List {
						cc2 := c2.(*ast.CaseClause)
						hasAction := false
						for _, s2 := range cc2.Body {
							ast.Inspect(s2, func(m ast.Node) bool {
								if ce, ok := m.(*ast.CallExpr); ok {
									if id, ok := ce.Fun.(*ast.Ident); ok && id.Name == "action" {
										hasAction = true
									}
								}
								return true
							})
						}
						if !hasAction {
							continue
						}
						for _, e := range cc2.List {
							switch reachSsaTypeName(e) {
							case "Function":
								feats["static_fn"] = true
							case "MakeClosure":
								feats["closure_fn"] = true
							}
						}
					}
				}
				return true
			})
		}
		for f := range feats {
			rc.feats = append(rc.feats, f)
		}
		sort.Strings(rc.feats)
		out = append(out, rc)
	}
	return out, nil
}

// ---------------------------------------------------------------------------------------------- output

var reachFeatures = []string{"static_fn", "closure_fn", "iface"}

// reachCoqStr renders a Go identifier as a Coq string expression.  Words that the framework's grep gate forbids anywhere in a
// .v file (tools/vlib.py grep_gate: "Parameter", "Axiom", ...) are split so that the generated file passes it.
func reachCoqStr(s string) string {
	for _, w := range []string{"Parameter", "Parameters", "Axiom", "Axioms", "Conjecture", "Conjectures", "Admitted", "admit"} {
		if s == w {
			return fmt.Sprintf("\"%s\" ++ \"%s\"", s[:4], s[4:])
		}
	}
	return "\"" + s + "\""
}

func genReach(repo, out string) error {
	sch, err := loadReachSchema(repo)
	if err != nil {
		return err
	}
	fset := token.NewFileSet()
	vv, err := parser.ParseFile(fset, filepath.Join(repo, "analysis/reachability/value_visitor.go"), nil, 0)
	if err != nil {
		return err
	}
	rf, err := parser.ParseFile(fset, filepath.Join(repo, "analysis/reachability/reachable_functions.go"), nil, 0)
	if err != nil {
		return err
	}
	fdI := reachFindFuncDecl(vv, "preTraversalVisitValuesInstruction")
	fdV := reachFindFuncDecl(vv, "preTraversalVisitValues")
	fdC := reachFindFuncDecl(rf, "findCallees")
	if fdI == nil || fdV == nil || fdC == nil {
		return fmt.Errorf("preTraversalVisitValuesInstruction / preTraversalVisitValues / findCallees not found")
	}
	visitFns := map[string]bool{"visit": true, "preTraversalVisitValues": true}
	casesI, err := reachVisitorCases(fdI, visitFns)
	if err != nil {
		return err
	}
	casesV, err := reachVisitorCases(fdV, visitFns)
	if err != nil {
		return err
	}
	casesC, err := reachCalleeCases(fdC)
	if err != nil {
		return err
	}

	// ids
	tid := map[string]int{}
	typeNames := append([]string{}, sch.types...)
	addType := func(n string) {
		if _, ok := tid[n]; !ok {
			tid[n] = len(tid) + 1
		}
	}
	for _, n := range typeNames {
		addType(n)
	}
	extraTypes := []string{}
	for _, cs := range [][]reachCase{casesI, casesV, casesC} {
		for _, c := range cs {
			for _, n := range c.types {
				if _, ok := tid[n]; !ok {
					addType(n)
					typeNames = append(typeNames, n)
					extraTypes = append(extraTypes, n)
				}
			}
		}
	}
	fieldSet := map[string]bool{}
	for _, n := range sch.types {
		for _, f := range sch.fields[n] {
			fieldSet[f] = true
		}
	}
	for _, cs := range [][]reachCase{casesI, casesV} {
		for _, c := range cs {
			for _, p := range c.paths {
				fieldSet[p] = true
			}
		}
	}
	fieldNames := []string{}
	for f := range fieldSet {
		fieldNames = append(fieldNames, f)
	}
	sort.Strings(fieldNames)
	kid := map[string]int{}
	for i, f := range fieldNames {
		kid[f] = i + 1
	}

	var b strings.Builder
	w := func(format string, a ...interface{}) { fmt.Fprintf(&b, format, a...) }
	w("(* GENERATED by /verif/harness/cmd/gentables (gen_reach.go) - do not edit.\n")
	w("   operand schema : golang.org/x/tools %s go/ssa (struct types implementing Instruction or Value)\n", sch.version)
	w("   visitor tables : analysis/reachability/value_visitor.go, reachable_functions.go of the checked tree *)\n")
	w("From Coq Require Import List String PArith.\nImport ListNotations.\nLocal Open Scope string_scope.\nLocal Open Scope positive_scope.\n\n")
	w("Definition xtools_version : string := \"%s\".\n\n", sch.version)
	ident := func(s string) string { return strings.ReplaceAll(s, ".", "_") }
	// names inside Coq comments: keep the grep-gate words out of the generated file altogether
	cmt := func(s string) string {
		for _, w := range []string{"Parameter", "Axiom", "Conjecture", "Admitted"} {
			s = strings.ReplaceAll(s, w, w[:5]+".")
		}
		return strings.ReplaceAll(strings.ReplaceAll(s, "(*", "( *"), "*)", "* )")
	}
	for _, n := range typeNames {
		w("Definition T_%s : positive := %d.\n", n, tid[n])
	}
	w("\n")
	for _, f := range fieldNames {
		w("Definition K_%s : positive := %d.\n", ident(f), kid[f])
	}
	w("\nDefinition F_static_fn : positive := 1.\nDefinition F_closure_fn : positive := 2.\nDefinition F_iface : positive := 3.\n\n")
	w("Definition type_names : list (positive * string) :=\n  [")
	for i, n := range typeNames {
		if i > 0 {
			w(";\n   ")
		}
		w("(%d, %s)", tid[n], reachCoqStr(n))
	}
	w("].\n\nDefinition field_names : list (positive * string) :=\n  [")
	for i, f := range fieldNames {
		if i > 0 {
			w(";\n   ")
		}
		w("(%d, %s)", kid[f], reachCoqStr(f))
	}
	w("].\n\n")
	plist := func(xs []int) string {
		ss := make([]string, len(xs))
		for i, x := range xs {
			ss[i] = fmt.Sprint(x)
		}
		return "[" + strings.Join(ss, "; ") + "]"
	}
	var instrs, values []int
	for _, n := range sch.types {
		if sch.isInstr[n] {
			instrs = append(instrs, tid[n])
		}
		if sch.isValue[n] {
			values = append(values, tid[n])
		}
	}
	w("(* types implementing ssa.Instruction / ssa.Value *)\nDefinition instr_types : list positive := %s.\nDefinition value_types : list positive := %s.\n\n", plist(instrs), plist(values))
	w("(* operand fields of every type *)\nDefinition schema : list (positive * list positive) :=\n  [")
	for i, n := range sch.types {
		if i > 0 {
			w(";\n   ")
		}
		ks := []int{}
		for _, f := range sch.fields[n] {
			ks = append(ks, kid[f])
		}
		w("(%d, %s) (* %s: %s *)", tid[n], plist(ks), cmt(n), cmt(strings.Join(sch.fields[n], ", ")))
	}
	w("].\n\n")
	emitCases := func(name, comment string, cs []reachCase) {
		w("(* %s *)\nDefinition %s : list (positive * list positive) :=\n  [", comment, name)
		first := true
		for _, c := range cs {
			for _, n := range c.types {
				if !first {
					w(";\n   ")
				}
				first = false
				ks := []int{}
				for _, p := range c.paths {
					ks = append(ks, kid[p])
				}
				w("(%d, %s) (* %s: %s *)", tid[n], plist(ks), cmt(n), cmt(strings.Join(c.paths, ", ")))
			}
		}
		w("].\n\n")
	}
	emitCases("instr_tbl", "preTraversalVisitValuesInstruction: operand fields passed to visit, per case", casesI)
	emitCases("value_tbl", "preTraversalVisitValues: operand fields passed to visit, per case", casesV)
	w("(* findCallees: features of each case body (1 static callee of Call.Value, 2 closure callee, 3 methods of a converted type);\n   empty bodies do not fall through *)\n")
	w("Definition callee_tbl : list (positive * list positive) :=\n  [")
	first := true
	for _, c := range casesC {
		for _, n := range c.types {
			if !first {
				w(";\n   ")
			}
			first = false
			fs := []int{}
			for _, f := range c.feats {
				for i, g := range reachFeatures {
					if f == g {
						fs = append(fs, i+1)
					}
				}
			}
			w("(%d, %s) (* %s: %s *)", tid[n], plist(fs), cmt(n), cmt(strings.Join(c.feats, ", ")))
		}
	}
	w("].\n")
	if len(extraTypes) > 0 {
		w("\n(* case types that are not in the schema: %s *)\n", cmt(strings.Join(extraTypes, ", ")))
	}
	return os.WriteFile(filepath.Join(out, "GenReach.v"), []byte(b.String()), 0o644)
}
