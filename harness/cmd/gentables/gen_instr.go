package main

// gen_instr: T-gen for C07 `dispatch_total`.
//
// Emits coq/gen/GenInstr.v with
//   - the concrete types of the pinned golang.org/x/tools/go/ssa that implement ssa.Instruction (and ssa.Value),
//   - every type switch over an interface value in the files anchored by C07 (+ the files of the analyses it lists):
//     position, enclosing function, interface switched on, whether the default clause panics (or there is no default and
//     the switch is followed by nothing, flagged separately), the domain (concrete implementers of the interface declared in
//     the interface's package) and the set of domain types covered by the case list (a case naming an interface covers all
//     its implementers).
//
// Types are computed with go/types on the real sources (go/packages), so the table follows both the repository code and
// the x/tools version pinned by /repo/go.mod.

import (
	"fmt"
	"go/ast"
	"go/token"
	"go/types"
	"os"
	"path/filepath"
	"sort"
	"strings"

	"golang.org/x/tools/go/packages"
)

func init() { generators["instr"] = genInstr }

var instrAnchoredFiles = []string{
	"analysis/lang/instructions.go",
	"analysis/lang/visitors.go",
	"analysis/taint/dataflow_visitor.go",
	"analysis/backtrace/backtrace.go",
	"analysis/dataflow/trace.go",
	"analysis/dataflow/callctx.go",
	"analysis/dataflow/intra_procedural_instruction_ops.go",
	"analysis/dataflow/function_summary_graph.go",
	"analysis/escape/escape.go",
	"analysis/defers/defer.go",
	"analysis/maypanic/lightweight.go",
	"analysis/reachability/reachable_functions.go",
	"analysis/reachability/value_visitor.go",
	"internal/pointer/solve.go",
	"internal/pointer/gen.go",
}

type instrSwRec struct {
	pos, fn, iface     string
	panics, hasDefault bool
	domain, covered    []string
}

func instrCoqStr(s string) string { return "\"" + strings.ReplaceAll(s, "\"", "\"\"") + "\"" }

func instrCoqList(xs []string) string {
	q := make([]string, len(xs))
	for i, x := range xs {
		q[i] = instrCoqStr(x)
	}
	return "[" + strings.Join(q, "; ") + "]"
}

func genInstr(repo, out string) error {
	cfg := &packages.Config{
		Mode: packages.NeedName | packages.NeedFiles | packages.NeedCompiledGoFiles | packages.NeedSyntax | packages.NeedTypes | packages.NeedTypesInfo |
			packages.NeedImports | packages.NeedDeps,
		Dir:        repo,
		Env:        append(os.Environ(), "GOFLAGS=-mod=mod", "GOPROXY=off", "GOSUMDB=off", "GOTOOLCHAIN=local"),
		BuildFlags: []string{},
	}
	dirs := map[string]bool{}
	for _, f := range instrAnchoredFiles {
		dirs["./"+filepath.Dir(f)] = true
	}
	patterns := []string{"golang.org/x/tools/go/ssa"}
	for d := range dirs {
		patterns = append(patterns, d)
	}
	sort.Strings(patterns)
	pkgs, err := packages.Load(cfg, patterns...)
	if err != nil {
		return err
	}
	var ssaPkg *types.Package
	byPath := map[string]*packages.Package{}
	for _, p := range pkgs {
		if len(p.Errors) > 0 {
			return fmt.Errorf("package %s: %v", p.PkgPath, p.Errors[0])
		}
		byPath[p.PkgPath] = p
		if p.PkgPath == "golang.org/x/tools/go/ssa" {
			ssaPkg = p.Types
		}
	}
	if ssaPkg == nil {
		return fmt.Errorf("ssa package not loaded")
	}
	qual := func(p *types.Package) string { return p.Name() }
	// concrete implementers (declared in the interface's own package) of an interface
	implementers := func(iface *types.Interface, in *types.Package) []string {
		var res []string
		sc := in.Scope()
		for _, n := range sc.Names() {
			tn, ok := sc.Lookup(n).(*types.TypeName)
			if !ok || tn.IsAlias() {
				continue
			}
			nt, ok := tn.Type().(*types.Named)
			if !ok || nt.TypeParams().Len() > 0 {
				continue
			}
			if _, isI := nt.Underlying().(*types.Interface); isI {
				continue
			}
			if types.Implements(nt, iface) {
				res = append(res, types.TypeString(nt, qual))
			} else if types.Implements(types.NewPointer(nt), iface) {
				res = append(res, types.TypeString(types.NewPointer(nt), qual))
			}
		}
		sort.Strings(res)
		return res
	}
	lookupIface := func(name string) *types.Interface {
		return ssaPkg.Scope().Lookup(name).Type().Underlying().(*types.Interface)
	}
	instrTypes := implementers(lookupIface("Instruction"), ssaPkg)
	valueTypes := implementers(lookupIface("Value"), ssaPkg)

	var sws []instrSwRec
	for _, rel := range instrAnchoredFiles {
		abs := filepath.Join(repo, rel)
		var pk *packages.Package
		var file *ast.File
		for _, p := range pkgs {
			for i, gf := range p.CompiledGoFiles {
				if gf == abs && i < len(p.Syntax) {
					pk, file = p, p.Syntax[i]
				}
			}
		}
		if file == nil {
			if _, err := os.Stat(abs); err != nil {
				continue // file does not exist in this tree
			}
			return fmt.Errorf("anchored file %s not found in loaded packages", rel)
		}
		var stack []ast.Node
		ast.Inspect(file, func(n ast.Node) bool {
			if n == nil {
				stack = stack[:len(stack)-1]
				return true
			}
			stack = append(stack, n)
			ts, ok := n.(*ast.TypeSwitchStmt)
			if !ok {
				return true
			}
			fn := "?"
			for i := len(stack) - 1; i >= 0; i-- {
				if fd, ok := stack[i].(*ast.FuncDecl); ok {
					fn = fd.Name.Name
					if fd.Recv != nil && len(fd.Recv.List) > 0 {
						fn = types.ExprString(fd.Recv.List[0].Type) + "." + fn
					}
					break
				}
			}
			var ta *ast.TypeAssertExpr
			switch a := ts.Assign.(type) {
			case *ast.AssignStmt:
				ta, _ = a.Rhs[0].(*ast.TypeAssertExpr)
			case *ast.ExprStmt:
				ta, _ = a.X.(*ast.TypeAssertExpr)
			}
			if ta == nil {
				return true
			}
			xt := pk.TypesInfo.TypeOf(ta.X)
			if xt == nil {
				return true
			}
			iface, ok := xt.Underlying().(*types.Interface)
			if !ok {
				return true
			}
			var ipkg *types.Package
			if nt, ok := xt.(*types.Named); ok && nt.Obj().Pkg() != nil {
				ipkg = nt.Obj().Pkg()
			}
			rec := instrSwRec{pos: fmt.Sprintf("%s:%d", rel, pk.Fset.Position(ts.Pos()).Line), fn: fn, iface: types.TypeString(xt, qual)}
			if ipkg != nil {
				rec.domain = implementers(iface, ipkg)
			}
			inDomain := map[string]bool{}
			for _, d := range rec.domain {
				inDomain[d] = true
			}
			cov := map[string]bool{}
			for _, cl := range ts.Body.List {
				cc := cl.(*ast.CaseClause)
				if cc.List == nil {
					rec.hasDefault = true
					ast.Inspect(cc, func(m ast.Node) bool {
						if ce, ok := m.(*ast.CallExpr); ok {
							if id, ok := ce.Fun.(*ast.Ident); ok && id.Name == "panic" {
								rec.panics = true
							}
						}
						return true
					})
					continue
				}
				for _, e := range cc.List {
					ct := pk.TypesInfo.TypeOf(e)
					if ct == nil {
						continue
					}
					if ci, ok := ct.Underlying().(*types.Interface); ok {
						// an interface case covers every domain type implementing it
						if ipkg != nil {
							for _, d := range implementers(ci, ipkg) {
								if inDomain[d] {
									cov[d] = true
								}
							}
						}
					} else {
						cov[types.TypeString(ct, qual)] = true
					}
				}
			}
			for c := range cov {
				rec.covered = append(rec.covered, c)
			}
			sort.Strings(rec.covered)
			sws = append(sws, rec)
			return true
		})
	}
	sort.Slice(sws, func(i, j int) bool { return sws[i].pos < sws[j].pos })

	var b strings.Builder
	b.WriteString("(* GENERATED by harness/cmd/gentables (gen_instr.go) from /repo's sources and the pinned x/tools - do not edit *)\n")
	b.WriteString("From Coq Require Import List String Bool.\nImport ListNotations.\nOpen Scope string_scope.\n\n")
	b.WriteString("(* concrete types of golang.org/x/tools/go/ssa implementing ssa.Instruction / ssa.Value *)\n")
	b.WriteString("Definition ssa_instruction_types : list string :=\n  " + instrCoqList(instrTypes) + ".\n\n")
	b.WriteString("Definition ssa_value_types : list string :=\n  " + instrCoqList(valueTypes) + ".\n\n")
	b.WriteString("Record tswitch := mkSw {\n  sw_pos : string; sw_func : string; sw_iface : string; sw_has_default : bool; sw_panics : bool;\n" +
		"  sw_domain : list string; sw_covered : list string }.\n\n")
	b.WriteString("(* every type switch on an interface value in the anchored files *)\nDefinition type_switches : list tswitch := [\n")
	for i, s := range sws {
		sep := ";"
		if i == len(sws)-1 {
			sep = ""
		}
		fmt.Fprintf(&b, "  mkSw %s %s %s %v %v\n    %s\n    %s%s\n", instrCoqStr(s.pos), instrCoqStr(s.fn), instrCoqStr(s.iface), s.hasDefault, s.panics,
			instrCoqList(s.domain), instrCoqList(s.covered), sep)
	}
	b.WriteString("].\n")
	_ = token.NoPos
	return os.WriteFile(filepath.Join(out, "GenInstr.v"), []byte(b.String()), 0o644)
}
