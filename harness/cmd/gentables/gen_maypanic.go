package main

// T-gen for C19: reads analysis/maypanic/lightweight.go and internal/analysisutil/paths.go with go/parser and writes
// coq/gen/GenMayPanic.v:
//   go_switch / recover_switch / defer_switch : list (instr type * callee form * action)
//       one entry per branch of the (nested) type switches of findGoFunctions / doesRecover / doesDeferRecover;
//       the form is "invoke" for the IsInvoke() branch, the case type of the switch on Call.Value otherwise, with
//       "/<type>" appended for the inner switch on MakeClosure.Fn; the action classifies the branch body:
//       "empty", "add" (calls addGoFunction), "lookup-recover" (returns true when found in recoverFunctions),
//       "name-in:a,b" (switch on the builtin's name returning true for these names), "return-true",
//       or "other:<normalised source>" for anything else.
//   *_switch_guards : statements beside the switch that filter what reaches it (expected: none)
//   allow_list      : the allowList string slice
//   exclude_rules   : isExcludedOne as (suffix tested, rule) with rule in eq | prefix | prefix-slash | other:<src>
//   allow_rule      : allowListed's test, classified (eq-or-prefix-slash)
//   filter_shape    : (guard, condition, action) of the filter loop of MayPanicAnalyzer, classified
// Proofs/MayPanic.v proves by vm_compute that the Coq model dispatches exactly as these tables say.

import (
	"bytes"
	"fmt"
	"go/ast"
	"go/parser"
	"go/printer"
	"go/token"
	"os"
	"path/filepath"
	"sort"
	"strconv"
	"strings"
)

func init() { generators["maypanic"] = genMayPanic }

type mpEntry struct{ instr, form, action string }

type mpGen struct {
	fset *token.FileSet
}

func (g *mpGen) src(n ast.Node) string {
	var b bytes.Buffer
	printer.Fprint(&b, g.fset, n)
	return strings.Join(strings.Fields(b.String()), " ")
}

func (g *mpGen) srcStmts(ss []ast.Stmt) string {
	parts := []string{}
	for _, s := range ss {
		parts = append(parts, g.src(s))
	}
	return strings.Join(parts, "; ")
}

func mpIsCallTo(e ast.Expr, name string) bool {
	c, ok := e.(*ast.CallExpr)
	if !ok {
		return false
	}
	switch f := c.Fun.(type) {
	case *ast.Ident:
		return f.Name == name
	case *ast.SelectorExpr:
		return f.Sel.Name == name
	}
	return false
}

func mpReturnsTrue(s ast.Stmt) bool {
	r, ok := s.(*ast.ReturnStmt)
	if !ok || len(r.Results) != 1 {
		return false
	}
	id, ok := r.Results[0].(*ast.Ident)
	return ok && id.Name == "true"
}

// onlyCommentsAndReturnTrue: the statement list is exactly `return true`
func mpOnlyReturnTrue(ss []ast.Stmt) bool { return len(ss) == 1 && mpReturnsTrue(ss[0]) }

// classifyLeaf names the effect of a branch body that contains no further type switch / IsInvoke test.
func (g *mpGen) classifyLeaf(ss []ast.Stmt) string {
	if len(ss) == 0 {
		return "empty"
	}
	if mpOnlyReturnTrue(ss) {
		return "return-true"
	}
	// addGoFunction(x, v.Pos(), result)
	if len(ss) == 1 {
		if es, ok := ss[0].(*ast.ExprStmt); ok && mpIsCallTo(es.X, "addGoFunction") {
			c := es.X.(*ast.CallExpr)
			if len(c.Args) == 3 && mpIsCallTo(c.Args[1], "Pos") {
				return "add"
			}
		}
	}
	// _, found := recoverFunctions[x]; if found { return true }
	if len(ss) == 2 {
		as, ok1 := ss[0].(*ast.AssignStmt)
		is, ok2 := ss[1].(*ast.IfStmt)
		if ok1 && ok2 && len(as.Lhs) == 2 && len(as.Rhs) == 1 && is.Init == nil && is.Else == nil {
			ix, ok3 := as.Rhs[0].(*ast.IndexExpr)
			okv, ok4 := as.Lhs[1].(*ast.Ident)
			blank, ok5 := as.Lhs[0].(*ast.Ident)
			cond, ok6 := is.Cond.(*ast.Ident)
			if ok3 && ok4 && ok5 && ok6 && blank.Name == "_" && cond.Name == okv.Name && mpOnlyReturnTrue(is.Body.List) {
				if m, ok := ix.X.(*ast.Ident); ok && m.Name == "recoverFunctions" {
					return "lookup-recover"
				}
			}
		}
	}
	// builtinName := value.Name(); switch builtinName { case "recover": return true }
	if len(ss) == 2 {
		as, ok1 := ss[0].(*ast.AssignStmt)
		sw, ok2 := ss[1].(*ast.SwitchStmt)
		if ok1 && ok2 && len(as.Lhs) == 1 && len(as.Rhs) == 1 && mpIsCallTo(as.Rhs[0], "Name") && sw.Init == nil {
			v, okv := as.Lhs[0].(*ast.Ident)
			tag, okt := sw.Tag.(*ast.Ident)
			if okv && okt && v.Name == tag.Name {
				names := []string{}
				good := true
				for _, c := range sw.Body.List {
					cc := c.(*ast.CaseClause)
					if len(cc.Body) == 0 {
						continue
					}
					if !mpOnlyReturnTrue(cc.Body) || cc.List == nil {
						good = false
						break
					}
					for _, e := range cc.List {
						lit, ok := e.(*ast.BasicLit)
						if !ok || lit.Kind != token.STRING {
							good = false
							break
						}
						s, _ := strconv.Unquote(lit.Value)
						names = append(names, s)
					}
				}
				if good {
					sort.Strings(names)
					if len(names) == 0 {
						return "empty"
					}
					return "name-in:" + strings.Join(names, ",")
				}
			}
		}
	}
	return "other:" + g.srcStmts(ss)
}

// walkBranch descends through `if x.IsInvoke() {..} else {..}` and type switches, producing one entry per leaf.
func (g *mpGen) walkBranch(instr, prefix string, ss []ast.Stmt, out *[]mpEntry) {
	if len(ss) == 1 {
		switch s := ss[0].(type) {
		case *ast.IfStmt:
			if s.Init == nil && mpIsCallTo(s.Cond, "IsInvoke") {
				g.walkBranch(instr, prefix+"invoke", s.Body.List, out)
				if s.Else != nil {
					if blk, ok := s.Else.(*ast.BlockStmt); ok {
						g.walkBranch(instr, prefix, blk.List, out)
					} else {
						g.walkBranch(instr, prefix, []ast.Stmt{s.Else}, out)
					}
				} else {
					*out = append(*out, mpEntry{instr, prefix + "non-invoke", "empty"})
				}
				return
			}
		case *ast.TypeSwitchStmt:
			for _, c := range s.Body.List {
				cc := c.(*ast.CaseClause)
				if cc.List == nil {
					g.walkBranch(instr, prefix+"default", cc.Body, out)
					continue
				}
				for _, t := range cc.List {
					tn := g.src(t)
					// inner switch on MakeClosure.Fn: keep descending with "<type>/"
					if len(cc.Body) == 1 {
						if _, ok := cc.Body[0].(*ast.TypeSwitchStmt); ok {
							g.walkBranch(instr, prefix+tn+"/", cc.Body, out)
							continue
						}
					}
					g.walkBranch(instr, prefix+tn, cc.Body, out)
				}
			}
			return
		}
	}
	*out = append(*out, mpEntry{instr, prefix, g.classifyLeaf(ss)})
}

// switchTable finds the type switch over the instruction in fn and tabulates its branches.
func (g *mpGen) switchTable(fn *ast.FuncDecl) ([]mpEntry, error) {
	var out []mpEntry
	found := 0
	ast.Inspect(fn.Body, func(n ast.Node) bool {
		ts, ok := n.(*ast.TypeSwitchStmt)
		if !ok {
			return true
		}
		// the outermost type switch: on instr.(type)
		found++
		for _, c := range ts.Body.List {
			cc := c.(*ast.CaseClause)
			if cc.List == nil {
				g.walkBranch("default", "", cc.Body, &out)
				continue
			}
			for _, t := range cc.List {
				g.walkBranch(g.src(t), "", cc.Body, &out)
			}
		}
		return false
	})
	if found != 1 {
		return nil, fmt.Errorf("%s: expected exactly one top-level type switch over the instruction, found %d", fn.Name.Name, found)
	}
	// anything in the loop body besides that switch would escape the table: record the enclosing statement shapes
	return out, nil
}

// matchRule classifies a boolean expression relating the file name variable and the exclude/allow pattern variable:
// file == pat -> eq ; HasPrefix(file, pat) -> prefix ; HasPrefix(file, pat+"/") -> prefix-slash.
func (g *mpGen) matchRule(e ast.Expr, fileVar, patVar string) string {
	if be, ok := e.(*ast.BinaryExpr); ok && be.Op == token.EQL {
		a, b := g.src(be.X), g.src(be.Y)
		if (a == fileVar && b == patVar) || (a == patVar && b == fileVar) {
			return "eq"
		}
	}
	if c, ok := e.(*ast.CallExpr); ok && mpIsCallTo(c, "HasPrefix") && len(c.Args) == 2 && g.src(c.Args[0]) == fileVar {
		if g.src(c.Args[1]) == patVar {
			return "prefix"
		}
		if be, ok := c.Args[1].(*ast.BinaryExpr); ok && be.Op == token.ADD && g.src(be.X) == patVar && g.src(be.Y) == `"/"` {
			return "prefix-slash"
		}
	}
	return "other:" + g.src(e)
}

// prefixRule classifies the condition of allowListed: `p == path || strings.HasPrefix(path, p+"/")` for the range
// variable p and the parameter path.
func (g *mpGen) prefixRule(e ast.Expr, pathVar string) string {
	be, ok := e.(*ast.BinaryExpr)
	if !ok || be.Op != token.LOR {
		return "other:" + g.src(e)
	}
	eq, ok := be.X.(*ast.BinaryExpr)
	if !ok || eq.Op != token.EQL {
		return "other:" + g.src(e)
	}
	p := g.src(eq.X)
	if p == pathVar {
		p = g.src(eq.Y)
	}
	if g.matchRule(be.X, pathVar, p) == "eq" && g.matchRule(be.Y, pathVar, p) == "prefix-slash" {
		return "eq-or-prefix-slash"
	}
	return "other:" + g.src(e)
}

// loopGuards lists every statement of fn that sits beside the instruction type switch and can change which functions,
// blocks or instructions reach it (an early `continue`, `break`, `return`, a filtering `if`, a re-slicing assignment):
// the scans are expected to be plain nested range loops around the switch.  Expression statements (logging) and the
// declaration / final return at the top level are not control flow and are ignored.
func (g *mpGen) loopGuards(fn *ast.FuncDecl) []string {
	var out []string
	var walk func(ss []ast.Stmt, depth int)
	walk = func(ss []ast.Stmt, depth int) {
		for _, s := range ss {
			switch x := s.(type) {
			case *ast.RangeStmt:
				walk(x.Body.List, depth+1)
			case *ast.TypeSwitchStmt, *ast.ExprStmt, *ast.EmptyStmt:
			case *ast.AssignStmt, *ast.DeclStmt, *ast.ReturnStmt:
				if depth > 0 {
					out = append(out, fmt.Sprintf("depth %d: %s", depth, g.src(x)))
				}
			default:
				out = append(out, fmt.Sprintf("depth %d: %s", depth, g.src(x)))
			}
		}
	}
	walk(fn.Body.List, 0)
	return out
}

func mpCoqStr(s string) string { return `"` + strings.ReplaceAll(s, `"`, `""`) + `"` }

func genMayPanic(repo, out string) error {
	g := &mpGen{fset: token.NewFileSet()}
	file := filepath.Join(repo, "analysis", "maypanic", "lightweight.go")
	f, err := parser.ParseFile(g.fset, file, nil, 0)
	if err != nil {
		return err
	}
	decls := map[string]*ast.FuncDecl{}
	var allow []string
	haveAllow := false
	for _, d := range f.Decls {
		switch x := d.(type) {
		case *ast.FuncDecl:
			decls[x.Name.Name] = x
		case *ast.GenDecl:
			for _, sp := range x.Specs {
				vs, ok := sp.(*ast.ValueSpec)
				if !ok {
					continue
				}
				for i, n := range vs.Names {
					if n.Name == "allowList" && i < len(vs.Values) {
						cl, ok := vs.Values[i].(*ast.CompositeLit)
						if !ok {
							return fmt.Errorf("allowList is not a composite literal")
						}
						haveAllow = true
						for _, e := range cl.Elts {
							lit, ok := e.(*ast.BasicLit)
							if !ok || lit.Kind != token.STRING {
								return fmt.Errorf("allowList element is not a string literal")
							}
							s, _ := strconv.Unquote(lit.Value)
							allow = append(allow, s)
						}
					}
				}
			}
		}
	}
	if !haveAllow {
		return fmt.Errorf("allowList not found in %s", file)
	}
	var b strings.Builder
	b.WriteString("(* GENERATED by harness/cmd/gentables (gen_maypanic.go) from analysis/maypanic/lightweight.go and\n   internal/analysisutil/paths.go -- do not edit. *)\n")
	b.WriteString("From Coq Require Import List String.\nImport ListNotations.\nLocal Open Scope string_scope.\n\n")
	for _, it := range []struct{ coq, fn string }{{"go_switch", "findGoFunctions"}, {"recover_switch", "doesRecover"}, {"defer_switch", "doesDeferRecover"}} {
		fn := decls[it.fn]
		if fn == nil {
			return fmt.Errorf("function %s not found in %s", it.fn, file)
		}
		tab, err := g.switchTable(fn)
		if err != nil {
			return err
		}
		fmt.Fprintf(&b, "Definition %s : list (string * string * string) :=\n  [", it.coq)
		for i, e := range tab {
			if i > 0 {
				b.WriteString(";\n   ")
			}
			fmt.Fprintf(&b, "(%s, %s, %s)", mpCoqStr(e.instr), mpCoqStr(e.form), mpCoqStr(e.action))
		}
		b.WriteString("].\n")
		fmt.Fprintf(&b, "Definition %s_guards : list string :=\n  [", it.coq)
		for i, gd := range g.loopGuards(fn) {
			if i > 0 {
				b.WriteString("; ")
			}
			b.WriteString(mpCoqStr(gd))
		}
		b.WriteString("].\n\n")
	}
	b.WriteString("Definition allow_list : list string :=\n  [")
	for i, a := range allow {
		if i > 0 {
			b.WriteString("; ")
		}
		b.WriteString(mpCoqStr(a))
	}
	b.WriteString("].\n\n")

	// allowListed: p == path || strings.HasPrefix(path, p+"/")
	if fn := decls["allowListed"]; fn != nil {
		rule := "other:" + g.srcStmts(fn.Body.List)
		ast.Inspect(fn.Body, func(n ast.Node) bool {
			is, ok := n.(*ast.IfStmt)
			if !ok {
				return true
			}
			if len(fn.Type.Params.List) == 1 && len(fn.Type.Params.List[0].Names) == 1 && mpOnlyReturnTrue(is.Body.List) {
				rule = g.prefixRule(is.Cond, fn.Type.Params.List[0].Names[0].Name)
			}
			return false
		})
		fmt.Fprintf(&b, "Definition allow_rule : string := %s.\n\n", mpCoqStr(rule))
	} else {
		return fmt.Errorf("allowListed not found")
	}

	// the filter loop of MayPanicAnalyzer
	guard, cond, action := "missing", "missing", "missing"
	if fn := decls["MayPanicAnalyzer"]; fn != nil {
		ast.Inspect(fn.Body, func(n ast.Node) bool {
			is, ok := n.(*ast.IfStmt)
			if !ok {
				return true
			}
			c := g.src(is.Cond)
			if strings.Contains(c, "allowListed") || strings.Contains(c, "IsExcluded") {
				cond = "other:" + c
				if be, ok := is.Cond.(*ast.BinaryExpr); ok && be.Op == token.LOR {
					l, r := be.X, be.Y
					if mpIsCallTo(r, "allowListed") {
						l, r = r, l
					}
					if mpIsCallTo(l, "allowListed") && mpIsCallTo(r, "IsExcluded") {
						cond = "allowlisted-or-excluded"
					}
				}
				if len(is.Body.List) == 1 && g.src(is.Body.List[0]) == "delete(goFunctions, f)" && is.Else == nil {
					action = "delete"
				} else {
					action = "other:" + g.srcStmts(is.Body.List)
				}
				return false
			}
			if strings.Contains(c, "Pkg") {
				if c == "f.Pkg != nil" && is.Else == nil {
					guard = "pkg-non-nil"
				} else {
					guard = "other:" + c
				}
			}
			return true
		})
	}
	fmt.Fprintf(&b, "Definition filter_shape : string * string * string := (%s, %s, %s).\n\n", mpCoqStr(guard), mpCoqStr(cond), mpCoqStr(action))

	// isExcludedOne
	pfile := filepath.Join(repo, "internal", "analysisutil", "paths.go")
	pf, err := parser.ParseFile(g.fset, pfile, nil, 0)
	if err != nil {
		return err
	}
	var rules []([2]string)
	var fileVar, exclVar string
	classifyRet := func(ss []ast.Stmt) string {
		if len(ss) != 1 {
			return "other:" + g.srcStmts(ss)
		}
		r, ok := ss[0].(*ast.ReturnStmt)
		if !ok || len(r.Results) != 1 {
			return "other:" + g.srcStmts(ss)
		}
		return g.matchRule(r.Results[0], fileVar, exclVar)
	}
	foundEx := false
	fileExpr := ""
	fileVar, exclVar = "filename", "exclude"
	for _, d := range pf.Decls {
		if fn, ok := d.(*ast.FuncDecl); ok && fn.Name.Name == "isExcludedOne" {
			var names []string
			for _, fl := range fn.Type.Params.List {
				for _, n := range fl.Names {
					names = append(names, n.Name)
				}
			}
			if len(names) == 3 {
				exclVar = names[2]
			}
			for _, st := range fn.Body.List {
				if as, ok := st.(*ast.AssignStmt); ok && len(as.Lhs) == 1 && len(as.Rhs) == 1 {
					if sel, ok := as.Rhs[0].(*ast.SelectorExpr); ok && sel.Sel.Name == "Filename" {
						fileVar = g.src(as.Lhs[0])
					}
				}
			}
		}
	}
	for _, d := range pf.Decls {
		fn, ok := d.(*ast.FuncDecl)
		if !ok || fn.Name.Name != "isExcludedOne" {
			continue
		}
		foundEx = true
		for _, s := range fn.Body.List {
			if as, ok := s.(*ast.AssignStmt); ok && len(as.Lhs) == 1 && g.src(as.Lhs[0]) == fileVar {
				if sel, ok := as.Rhs[0].(*ast.SelectorExpr); ok {
					fileExpr = "position." + sel.Sel.Name
				} else {
					fileExpr = g.src(as.Rhs[0])
				}
			}
			is, ok := s.(*ast.IfStmt)
			if !ok {
				continue
			}
			for is != nil {
				c := g.src(is.Cond)
				tested := "other:" + c
				if call, ok := is.Cond.(*ast.CallExpr); ok && mpIsCallTo(call, "HasSuffix") && len(call.Args) == 2 && g.src(call.Args[0]) == exclVar {
					if lit, ok := call.Args[1].(*ast.BasicLit); ok {
						tested, _ = strconv.Unquote(lit.Value)
					}
				}
				rules = append(rules, [2]string{tested, classifyRet(is.Body.List)})
				switch e := is.Else.(type) {
				case *ast.IfStmt:
					is = e
				case *ast.BlockStmt:
					rules = append(rules, [2]string{"", classifyRet(e.List)})
					is = nil
				default:
					is = nil
				}
			}
		}
	}
	if !foundEx {
		return fmt.Errorf("isExcludedOne not found in %s", pfile)
	}
	b.WriteString("Definition exclude_rules : list (string * string) :=\n  [")
	for i, r := range rules {
		if i > 0 {
			b.WriteString("; ")
		}
		fmt.Fprintf(&b, "(%s, %s)", mpCoqStr(r[0]), mpCoqStr(r[1]))
	}
	b.WriteString("].\n")
	fmt.Fprintf(&b, "Definition exclude_filename : string := %s.\n", mpCoqStr(fileExpr))
	return os.WriteFile(filepath.Join(out, "GenMayPanic.v"), []byte(b.String()), 0o644)
}
