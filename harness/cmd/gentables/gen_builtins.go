package main

// gen_builtins: T-gen for C08 / C01 `builtins_transfer_all`.
//
// Reads analysis/dataflow/builtins.go with go/parser and emits coq/gen/GenBuiltins.v with
//   - handled_table : the case list of isHandledBuiltinCall (name, arity guard),
//   - do_table      : the case list of doBuiltinCall: per case the arity guard `len(callCommon.Args) == N`, whether the
//                     case transfers from ALL operands by a loop over callCommon.Args, and the operand positions that are
//                     transferred to the call's value by explicit simpleTransfer(t, instruction, <Args[k]>, callValue),
//   - go_builtins   : the predeclared builtin functions of the Go version in use (go/types.Universe) with: does a call
//                     return a value, and the arities the call can have as an ssa.Builtin call (x/tools packs variadic
//                     arguments of append into one slice); an unknown builtin is emitted with returns-value = true and
//                     arities 0.. so that the finite theorem fails until the table below is extended.
// Unrecognised statement shapes are simply not counted as transfers, which makes the Coq theorem fail (conservative).

import (
	"fmt"
	"go/ast"
	"go/parser"
	"go/token"
	"go/types"
	"os"
	"path/filepath"
	"sort"
	"strconv"
	"strings"
)

func init() { generators["builtins"] = genBuiltins }

type builtinRow struct {
	name  string
	arity int // -1: no guard
	all   bool
	pos   []int
	ret   bool // the guarded block ends in `return true`
}

// ssaArity: (returns a value, minimal arity, maximal arity or -1 for variadic) of a builtin call in SSA form
var builtinSsaInfo = map[string][3]int{
	"append": {1, 2, 2}, "cap": {1, 1, 1}, "clear": {0, 1, 1}, "close": {0, 1, 1}, "complex": {1, 2, 2}, "copy": {1, 2, 2},
	"delete": {0, 2, 2}, "imag": {1, 1, 1}, "len": {1, 1, 1}, "max": {1, 1, -1}, "min": {1, 1, -1}, "panic": {0, 1, 1},
	"print": {0, 0, -1}, "println": {0, 0, -1}, "real": {1, 1, 1}, "recover": {1, 0, 0},
	// make and new never appear as ssa.Builtin calls (MakeSlice/MakeMap/MakeChan/Alloc instructions)
	"make": {0, 0, 0}, "new": {0, 0, 0},
	"ssa:wrapnilchk": {1, 3, 3},
}

func builtinsLenArgsGuard(e ast.Expr) (int, bool) {
	b, ok := e.(*ast.BinaryExpr)
	if !ok || b.Op != token.EQL {
		return 0, false
	}
	c, ok := b.X.(*ast.CallExpr)
	if !ok {
		return 0, false
	}
	if id, ok := c.Fun.(*ast.Ident); !ok || id.Name != "len" || len(c.Args) != 1 {
		return 0, false
	}
	if s, ok := c.Args[0].(*ast.SelectorExpr); !ok || s.Sel.Name != "Args" {
		return 0, false
	}
	lit, ok := b.Y.(*ast.BasicLit)
	if !ok || lit.Kind != token.INT {
		return 0, false
	}
	n, err := strconv.Atoi(lit.Value)
	return n, err == nil
}

func builtinsReturnsTrue(stmts []ast.Stmt) bool {
	if len(stmts) == 0 {
		return false
	}
	r, ok := stmts[len(stmts)-1].(*ast.ReturnStmt)
	if !ok || len(r.Results) != 1 {
		return false
	}
	id, ok := r.Results[0].(*ast.Ident)
	return ok && id.Name == "true"
}

// builtinsBlock analyses a statement list of doBuiltinCall: bindings v := X.Args[k], loops over X.Args, simpleTransfer calls
func builtinsBlock(stmts []ast.Stmt, row *builtinRow) {
	bind := map[string]int{}
	var transfer func(call *ast.CallExpr, loopVar string)
	transfer = func(call *ast.CallExpr, loopVar string) {
		id, ok := call.Fun.(*ast.Ident)
		if !ok || id.Name != "simpleTransfer" || len(call.Args) != 4 {
			return
		}
		dst, ok := call.Args[3].(*ast.Ident)
		if !ok || dst.Name != "callValue" {
			return
		}
		switch src := call.Args[2].(type) {
		case *ast.Ident:
			if loopVar != "" && src.Name == loopVar {
				row.all = true
			} else if k, ok := bind[src.Name]; ok {
				row.pos = append(row.pos, k)
			}
		case *ast.SelectorExpr:
			if src.Sel.Name == "Value" { // the receiver of an invoke: operand 0 of the call as the analysis sees it
				row.pos = append(row.pos, 0)
			}
		case *ast.IndexExpr:
			if s, ok := src.X.(*ast.SelectorExpr); ok && s.Sel.Name == "Args" {
				if lit, ok := src.Index.(*ast.BasicLit); ok {
					if k, err := strconv.Atoi(lit.Value); err == nil {
						row.pos = append(row.pos, k)
					}
				}
			}
		}
	}
	for _, st := range stmts {
		switch s := st.(type) {
		case *ast.AssignStmt:
			if len(s.Lhs) == 1 && len(s.Rhs) == 1 {
				if id, ok := s.Lhs[0].(*ast.Ident); ok {
					if ix, ok := s.Rhs[0].(*ast.IndexExpr); ok {
						if sel, ok := ix.X.(*ast.SelectorExpr); ok && sel.Sel.Name == "Args" {
							if lit, ok := ix.Index.(*ast.BasicLit); ok {
								if k, err := strconv.Atoi(lit.Value); err == nil {
									bind[id.Name] = k
								}
							}
						}
					}
				}
			}
		case *ast.RangeStmt:
			if sel, ok := s.X.(*ast.SelectorExpr); ok && sel.Sel.Name == "Args" {
				if v, ok := s.Value.(*ast.Ident); ok {
					for _, b := range s.Body.List {
						if es, ok := b.(*ast.ExprStmt); ok {
							if c, ok := es.X.(*ast.CallExpr); ok {
								transfer(c, v.Name)
							}
						}
					}
				}
			}
		case *ast.ExprStmt:
			if c, ok := s.X.(*ast.CallExpr); ok {
				transfer(c, "")
			}
		}
	}
	row.ret = builtinsReturnsTrue(stmts)
}

func builtinsNameSwitch(fd *ast.FuncDecl) *ast.SwitchStmt {
	var sw *ast.SwitchStmt
	ast.Inspect(fd, func(n ast.Node) bool {
		if s, ok := n.(*ast.SwitchStmt); ok && sw == nil {
			if c, ok := s.Tag.(*ast.CallExpr); ok {
				if sel, ok := c.Fun.(*ast.SelectorExpr); ok && sel.Sel.Name == "Name" {
					sw = s
					return false
				}
			}
		}
		return true
	})
	return sw
}

func builtinsMentionsError(n ast.Node) bool {
	found := false
	ast.Inspect(n, func(x ast.Node) bool {
		if l, ok := x.(*ast.BasicLit); ok && l.Kind == token.STRING && l.Value == "\"Error\"" {
			found = true
		}
		return true
	})
	return found
}

// builtinsConjuncts flattens a && b && c
func builtinsConjuncts(e ast.Expr) []ast.Expr {
	if p, ok := e.(*ast.ParenExpr); ok {
		return builtinsConjuncts(p.X)
	}
	if b, ok := e.(*ast.BinaryExpr); ok && b.Op == token.LAND {
		return append(builtinsConjuncts(b.X), builtinsConjuncts(b.Y)...)
	}
	return []ast.Expr{e}
}

// builtinsGuardAtom names one conjunct of the "invoke of Error()" special case: invoke | method-name=<lit> | nargs=<n> | other
func builtinsGuardAtom(e ast.Expr) string {
	if c, ok := e.(*ast.CallExpr); ok {
		if sel, ok := c.Fun.(*ast.SelectorExpr); ok && sel.Sel.Name == "IsInvoke" && len(c.Args) == 0 {
			return "invoke"
		}
	}
	if n, ok := builtinsLenArgsGuard(e); ok {
		return fmt.Sprintf("nargs=%d", n)
	}
	if b, ok := e.(*ast.BinaryExpr); ok && b.Op == token.EQL {
		if lit, ok := b.Y.(*ast.BasicLit); ok && lit.Kind == token.STRING {
			if c, ok := b.X.(*ast.CallExpr); ok {
				if sel, ok := c.Fun.(*ast.SelectorExpr); ok && sel.Sel.Name == "Name" {
					if inner, ok := sel.X.(*ast.SelectorExpr); ok && inner.Sel.Name == "Method" {
						if s, err := strconv.Unquote(lit.Value); err == nil {
							return "method-name=" + s
						}
					}
				}
			}
		}
	}
	return "other"
}

// builtinsErrorGuards collects, in fd, every condition (if condition or returned boolean) that mentions the literal "Error",
// as the sorted list of its conjunct atoms
func builtinsErrorGuards(fd *ast.FuncDecl) [][]string {
	var res [][]string
	add := func(e ast.Expr) {
		if e == nil || !builtinsMentionsError(e) {
			return
		}
		var atoms []string
		for _, c := range builtinsConjuncts(e) {
			atoms = append(atoms, builtinsGuardAtom(c))
		}
		sort.Strings(atoms)
		res = append(res, atoms)
	}
	ast.Inspect(fd, func(n ast.Node) bool {
		switch x := n.(type) {
		case *ast.IfStmt:
			add(x.Cond)
		case *ast.ReturnStmt:
			for _, r := range x.Results {
				add(r)
			}
		}
		return true
	})
	return res
}

func genBuiltins(repo, out string) error {
	fset := token.NewFileSet()
	file, err := parser.ParseFile(fset, filepath.Join(repo, "analysis/dataflow/builtins.go"), nil, 0)
	if err != nil {
		return err
	}
	var isHandled, doCall *ast.FuncDecl
	for _, d := range file.Decls {
		if fd, ok := d.(*ast.FuncDecl); ok {
			switch fd.Name.Name {
			case "isHandledBuiltinCall":
				isHandled = fd
			case "doBuiltinCall":
				doCall = fd
			}
		}
	}
	if isHandled == nil || doCall == nil {
		return fmt.Errorf("isHandledBuiltinCall / doBuiltinCall not found in builtins.go")
	}
	caseNames := func(cc *ast.CaseClause) []string {
		var ns []string
		for _, e := range cc.List {
			if l, ok := e.(*ast.BasicLit); ok && l.Kind == token.STRING {
				if s, err := strconv.Unquote(l.Value); err == nil {
					ns = append(ns, s)
				}
			}
		}
		return ns
	}
	// ---- isHandledBuiltinCall
	type hrow struct {
		name  string
		arity int
	}
	var handled []hrow
	if sw := builtinsNameSwitch(isHandled); sw != nil {
		for _, st := range sw.Body.List {
			cc := st.(*ast.CaseClause)
			if cc.List == nil {
				if builtinsMentionsError(cc) {
					handled = append(handled, hrow{"<Error-invoke>", 0})
				}
				continue
			}
			arity := -2 // not handled
			if builtinsReturnsTrue(cc.Body[:1]) {
				arity = -1
			} else if len(cc.Body) > 0 {
				if ifs, ok := cc.Body[0].(*ast.IfStmt); ok {
					if n, ok := builtinsLenArgsGuard(ifs.Cond); ok && builtinsReturnsTrue(ifs.Body.List) {
						arity = n
					}
				}
			}
			if arity == -2 {
				continue
			}
			for _, n := range caseNames(cc) {
				handled = append(handled, hrow{n, arity})
			}
		}
	}
	// ---- doBuiltinCall
	var rows []builtinRow
	if sw := builtinsNameSwitch(doCall); sw != nil {
		for _, st := range sw.Body.List {
			cc := st.(*ast.CaseClause)
			names := caseNames(cc)
			body := cc.Body
			row := builtinRow{arity: -1}
			if cc.List == nil {
				if !builtinsMentionsError(cc) {
					continue
				}
				names = []string{"<Error-invoke>"}
				row.arity = 0
				if len(body) > 0 {
					if ifs, ok := body[0].(*ast.IfStmt); ok {
						body = ifs.Body.List
					}
				}
				builtinsBlock(body, &row)
			} else if len(body) > 0 {
				if ifs, ok := body[0].(*ast.IfStmt); ok {
					if n, ok := builtinsLenArgsGuard(ifs.Cond); ok {
						row.arity = n
						builtinsBlock(ifs.Body.List, &row)
					} else {
						builtinsBlock(body, &row)
					}
				} else {
					builtinsBlock(body, &row)
				}
			}
			if !row.ret {
				continue
			}
			sort.Ints(row.pos)
			for _, n := range names {
				r := row
				r.name = n
				rows = append(rows, r)
			}
		}
	}
	// ---- the builtins of the Go version in use
	type grow struct {
		name       string
		ret        int
		lo, hi     int
		inUniverse bool
	}
	var gos []grow
	seen := map[string]bool{}
	for _, n := range types.Universe.Names() {
		if _, ok := types.Universe.Lookup(n).(*types.Builtin); ok {
			seen[n] = true
			if info, ok := builtinSsaInfo[n]; ok {
				gos = append(gos, grow{n, info[0], info[1], info[2], true})
			} else {
				gos = append(gos, grow{n, 1, 0, -1, true}) // unknown to this generator: forces the theorem to be revisited
			}
		}
	}
	gos = append(gos, grow{"ssa:wrapnilchk", 1, 3, 3, false})
	sort.Slice(gos, func(i, j int) bool { return gos[i].name < gos[j].name })

	q := func(s string) string { return "\"" + strings.ReplaceAll(s, "\"", "\"\"") + "\"" }
	optNat := func(n int) string {
		if n < 0 {
			return "None"
		}
		return fmt.Sprintf("(Some %d)", n)
	}
	var sb strings.Builder
	sb.WriteString("(* GENERATED by harness/cmd/gentables (gen_builtins.go) from analysis/dataflow/builtins.go -- do not edit *)\n")
	sb.WriteString("From Coq Require Import List String.\nFrom Argot Require Import Model.BuiltinTbl.\nImport ListNotations.\nOpen Scope string_scope.\n\n")
	sb.WriteString("(* isHandledBuiltinCall: name, arity guard (None: every arity) *)\nDefinition handled_table : list (string * option nat) := [\n")
	for i, h := range handled {
		sep := ";"
		if i == len(handled)-1 {
			sep = ""
		}
		fmt.Fprintf(&sb, "  (%s, %s)%s\n", q(h.name), optNat(h.arity), sep)
	}
	sb.WriteString("].\n\n(* doBuiltinCall: cases that return true *)\nDefinition do_table : list brow := [\n")
	for i, r := range rows {
		sep := ";"
		if i == len(rows)-1 {
			sep = ""
		}
		ps := make([]string, len(r.pos))
		for k, p := range r.pos {
			ps[k] = strconv.Itoa(p)
		}
		all := "false"
		if r.all {
			all = "true"
		}
		fmt.Fprintf(&sb, "  {| b_name := %s; b_arity := %s; b_all := %s; b_pos := [%s] |}%s\n", q(r.name), optNat(r.arity), all, strings.Join(ps, "; "), sep)
	}
	sb.WriteString("].\n\n(* every condition mentioning the method name \"Error\" (the special case `x.Error()` of the builtin error interface):\n   function, sorted conjunct atoms (invoke | method-name=<s> | nargs=<n> | other) *)\n")
	sb.WriteString("Definition error_guards : list (string * list string) := [\n")
	type eg struct {
		fn    string
		atoms []string
	}
	var egs []eg
	for _, fd := range []*ast.FuncDecl{isHandled, doCall} {
		for _, a := range builtinsErrorGuards(fd) {
			egs = append(egs, eg{fd.Name.Name, a})
		}
	}
	for i, g := range egs {
		sep := ";"
		if i == len(egs)-1 {
			sep = ""
		}
		qs := make([]string, len(g.atoms))
		for k, a := range g.atoms {
			qs[k] = q(a)
		}
		fmt.Fprintf(&sb, "  (%s, [%s])%s\n", q(g.fn), strings.Join(qs, "; "), sep)
	}
	sb.WriteString("].\n\n(* builtins of the Go version in use: name, a call returns a value, arities of the ssa.Builtin call (lo, hi; None: variadic) *)\n")
	sb.WriteString("Definition go_builtins : list gobuiltin := [\n")
	for i, g := range gos {
		sep := ";"
		if i == len(gos)-1 {
			sep = ""
		}
		ret := "false"
		if g.ret == 1 {
			ret = "true"
		}
		fmt.Fprintf(&sb, "  {| g_name := %s; g_value := %s; g_lo := %d; g_hi := %s |}%s\n", q(g.name), ret, g.lo, optNat(g.hi), sep)
	}
	sb.WriteString("].\n")
	return os.WriteFile(filepath.Join(out, "GenBuiltins.v"), []byte(sb.String()), 0o644)
}
