package main

// gen_std: T-gen for C09.  Takes the KEYS of the literal summary tables of analysis/summaries/standard_library.go from
// the Go AST, loads every std package the table names, resolves each key to its *ssa.Function by String(), obtains the
// summary through the public summaries.SummaryOfFunc (cross-checked against a small evaluator of the Summary{...}
// literals, which also serves keys that resolve to nothing), and writes
//
//	GenStd.v       gen_std_table : list std_entry  (name, summary, signature as the summary loader sees it, pointer-
//	               likeness per parameter), gen_std_known (names excepted by corpus/c09_known_nonconforming.txt),
//	               gen_std_dead (keys that reach no function: never consulted, not violations)
//	gen_std.json   the same data for the check (plus Go signatures, used by the probe generator and the reports)

import (
	"bufio"
	"crypto/sha256"
	"encoding/hex"
	"encoding/json"
	"fmt"
	"go/ast"
	"go/parser"
	"go/token"
	"go/types"
	"os"
	"os/exec"
	"path/filepath"
	"sort"
	"strconv"
	"strings"

	"github.com/awslabs/ar-go-tools/analysis/dataflow"
	"github.com/awslabs/ar-go-tools/analysis/lang"
	"github.com/awslabs/ar-go-tools/analysis/summaries"
	"github.com/awslabs/ar-go-tools/verifharness/hutil"
	"golang.org/x/tools/go/ssa"
	"golang.org/x/tools/go/ssa/ssautil"
)

func init() { generators["std"] = stdGenStd }

// stdEntry is one table entry joined with the signature of the function it names.
type stdEntry struct {
	Name     string   `json:"name"`
	Var      string   `json:"var"`      // the map variable holding the entry
	Resolved bool     `json:"resolved"` // key names an *ssa.Function for which SummaryOfFunc answers
	Why      string   `json:"why,omitempty"`
	Args     [][]int  `json:"args"`
	Rets     [][]int  `json:"rets"`
	NParams  int      `json:"nparams"`  // len(f.Params): receiver included
	NResults int      `json:"nresults"` // f.Signature.Results().Len()
	RetLens  []int    `json:"ret_lens"` // lengths of the tuples of g.Returns as NewSummaryGraph builds them
	External bool     `json:"external"`
	Ptr      []bool   `json:"ptr"` // lang.IsNillableType per parameter
	Sig      string   `json:"sig"`
	Params   []string `json:"params"`
	Results  []string `json:"results"`
	LitDiff  string   `json:"litdiff,omitempty"` // evaluator of the literal disagrees with SummaryOfFunc
	// T-dump: the edges of the graph the REAL dataflow.NewPredefinedSummary builds for the function, read from both
	// adjacency maps.  Each edge is [kind, src, dst] with kind 0 = param->param, 1 = param->result.
	ImplOut   [][3]int `json:"impl_out"`
	ImplIn    [][3]int `json:"impl_in"`
	ImplPanic string   `json:"impl_panic,omitempty"`
}

// stdImplEdges runs the real loader and reads the graph back.
func stdImplEdges(f *ssa.Function) (out, in [][3]int, panicked string) {
	out, in = [][3]int{}, [][3]int{}
	defer func() {
		if r := recover(); r != nil {
			panicked = fmt.Sprint(r)
		}
	}()
	g := dataflow.NewPredefinedSummary(f, 1)
	if g == nil {
		panicked = "NewPredefinedSummary returned nil"
		return
	}
	tgt := func(n dataflow.GraphNode) (int, int, bool) {
		switch x := n.(type) {
		case *dataflow.ParamNode:
			return 0, x.Index(), true
		case *dataflow.ReturnValNode:
			return 1, x.Index(), true
		}
		return 0, 0, false
	}
	for _, p := range g.Params {
		for dst, infos := range p.Out() {
			k, idx, ok := tgt(dst)
			if !ok {
				k, idx = 2, -1
			}
			if len(infos) > 0 {
				out = append(out, [3]int{k, p.Index(), idx})
			}
		}
		for src := range p.In() {
			if sp, ok := src.(*dataflow.ParamNode); ok {
				in = append(in, [3]int{0, sp.Index(), p.Index()})
			} else {
				in = append(in, [3]int{2, -1, p.Index()})
			}
		}
	}
	seenRet := map[*dataflow.ReturnValNode]bool{}
	for _, tuple := range g.Returns {
		for _, r := range tuple {
			if r == nil || seenRet[r] {
				continue
			}
			seenRet[r] = true
			for src := range r.In() {
				if sp, ok := src.(*dataflow.ParamNode); ok {
					in = append(in, [3]int{1, sp.Index(), r.Index()})
				} else {
					in = append(in, [3]int{2, -1, r.Index()})
				}
			}
		}
	}
	less := func(l [][3]int) func(i, j int) bool {
		return func(i, j int) bool {
			for c := 0; c < 3; c++ {
				if l[i][c] != l[j][c] {
					return l[i][c] < l[j][c]
				}
			}
			return false
		}
	}
	sort.Slice(out, less(out))
	sort.Slice(in, less(in))
	return
}

func stdCoqEdges(l [][3]int) string {
	p := make([]string, len(l))
	for i, e := range l {
		c := "EP"
		if e[0] == 1 {
			c = "ER"
		} else if e[0] != 0 {
			c = "EP 999999" // a node kind a predefined summary must never contain: cannot match any model edge
			p[i] = fmt.Sprintf("%s (%d)%%Z", c, e[2])
			continue
		}
		p[i] = fmt.Sprintf("%s %d (%d)%%Z", c, e[1], e[2])
	}
	return "[" + strings.Join(p, "; ") + "]"
}

type stdLitSummary struct {
	args, rets [][]int
	ok         bool
}

func stdEvalIntList(e ast.Expr) ([]int, bool) {
	cl, ok := e.(*ast.CompositeLit)
	if !ok {
		return nil, false
	}
	out := []int{}
	for _, el := range cl.Elts {
		neg := false
		if u, ok := el.(*ast.UnaryExpr); ok && u.Op == token.SUB {
			neg = true
			el = u.X
		}
		bl, ok := el.(*ast.BasicLit)
		if !ok || bl.Kind != token.INT {
			return nil, false
		}
		n, err := strconv.Atoi(bl.Value)
		if err != nil {
			return nil, false
		}
		if neg {
			n = -n
		}
		out = append(out, n)
	}
	return out, true
}

func stdEvalIntMatrix(e ast.Expr) ([][]int, bool) {
	cl, ok := e.(*ast.CompositeLit)
	if !ok {
		return nil, false
	}
	out := [][]int{}
	for _, el := range cl.Elts {
		row, ok := stdEvalIntList(el)
		if !ok {
			return nil, false
		}
		out = append(out, row)
	}
	return out, true
}

// stdEvalSummary evaluates a Summary literal: positional {Args, Rets}, keyed {Args: .., Rets: ..} or a named variable.
func stdEvalSummary(e ast.Expr, named map[string]stdLitSummary) stdLitSummary {
	switch x := e.(type) {
	case *ast.Ident:
		if s, ok := named[x.Name]; ok {
			return s
		}
	case *ast.CompositeLit:
		res := stdLitSummary{args: [][]int{}, rets: [][]int{}, ok: true}
		for i, el := range x.Elts {
			field := ""
			val := el
			if kv, ok := el.(*ast.KeyValueExpr); ok {
				if id, ok := kv.Key.(*ast.Ident); ok {
					field = id.Name
				}
				val = kv.Value
			} else if i == 0 {
				field = "Args"
			} else if i == 1 {
				field = "Rets"
			}
			m, ok := stdEvalIntMatrix(val)
			if !ok {
				return stdLitSummary{}
			}
			switch field {
			case "Args":
				res.args = m
			case "Rets":
				res.rets = m
			default:
				return stdLitSummary{}
			}
		}
		return res
	}
	return stdLitSummary{}
}

func stdIsSummaryMapType(e ast.Expr) bool {
	mt, ok := e.(*ast.MapType)
	if !ok {
		return false
	}
	k, ok1 := mt.Key.(*ast.Ident)
	v, ok2 := mt.Value.(*ast.Ident)
	return ok1 && ok2 && k.Name == "string" && v.Name == "Summary"
}

type stdRawEntry struct {
	key, mapVar string
	lit         stdLitSummary
}

// stdParseSummaries returns package path -> map var, and the entries of every map[string]Summary literal of the package.
func stdParseSummaries(repo string) (map[string]string, []stdRawEntry, error) {
	dir := filepath.Join(repo, "analysis", "summaries")
	fset := token.NewFileSet()
	pkgs, err := parser.ParseDir(fset, dir, func(fi os.FileInfo) bool { return !strings.HasSuffix(fi.Name(), "_test.go") }, 0)
	if err != nil {
		return nil, nil, err
	}
	p := pkgs["summaries"]
	if p == nil {
		return nil, nil, fmt.Errorf("package summaries not found in %s", dir)
	}
	named := map[string]stdLitSummary{}
	type mapDecl struct {
		name string
		lit  *ast.CompositeLit
	}
	var maps []mapDecl
	pkgToVar := map[string]string{}
	var fileNames []string
	for n := range p.Files {
		fileNames = append(fileNames, n)
	}
	sort.Strings(fileNames)
	for pass := 0; pass < 2; pass++ {
		for _, fn := range fileNames {
			for _, d := range p.Files[fn].Decls {
				gd, ok := d.(*ast.GenDecl)
				if !ok || gd.Tok != token.VAR {
					continue
				}
				for _, sp := range gd.Specs {
					vs := sp.(*ast.ValueSpec)
					for i, name := range vs.Names {
						if i >= len(vs.Values) {
							continue
						}
						cl, ok := vs.Values[i].(*ast.CompositeLit)
						if !ok {
							continue
						}
						if pass == 0 {
							if id, ok := cl.Type.(*ast.Ident); ok && id.Name == "Summary" {
								if s := stdEvalSummary(cl, named); s.ok {
									named[name.Name] = s
								}
							}
							continue
						}
						if stdIsSummaryMapType(cl.Type) {
							maps = append(maps, mapDecl{name.Name, cl})
						} else if mt, ok := cl.Type.(*ast.MapType); ok && name.Name == "stdPackages" {
							_ = mt
							for _, el := range cl.Elts {
								kv, ok := el.(*ast.KeyValueExpr)
								if !ok {
									continue
								}
								k, ok1 := kv.Key.(*ast.BasicLit)
								v, ok2 := kv.Value.(*ast.Ident)
								if ok1 && ok2 {
									s, _ := strconv.Unquote(k.Value)
									pkgToVar[s] = v.Name
								}
							}
						}
					}
				}
			}
		}
	}
	var entries []stdRawEntry
	for _, m := range maps {
		for _, el := range m.lit.Elts {
			kv, ok := el.(*ast.KeyValueExpr)
			if !ok {
				continue
			}
			k, ok := kv.Key.(*ast.BasicLit)
			if !ok {
				return nil, nil, fmt.Errorf("%s: non-literal key", m.name)
			}
			s, _ := strconv.Unquote(k.Value)
			entries = append(entries, stdRawEntry{s, m.name, stdEvalSummary(kv.Value, named)})
		}
	}
	if len(pkgToVar) == 0 || len(entries) == 0 {
		return nil, nil, fmt.Errorf("no stdPackages/summary tables found in %s (layout changed?)", dir)
	}
	return pkgToVar, entries, nil
}

func stdMatrixEq(a, b [][]int) bool {
	if len(a) != len(b) {
		return false
	}
	for i := range a {
		if len(a[i]) != len(b[i]) {
			return false
		}
		for j := range a[i] {
			if a[i][j] != b[i][j] {
				return false
			}
		}
	}
	return true
}

func stdNonNil(m [][]int) [][]int {
	out := make([][]int, len(m))
	for i, r := range m {
		out[i] = append([]int{}, r...)
	}
	return out
}

// stdRetLens mirrors NewSummaryGraph: one tuple of n nodes per Return-terminated block, one dummy tuple for an external
// function, none when the function has no result (addReturn returns early).
func stdRetLens(f *ssa.Function) []int {
	n := f.Signature.Results().Len()
	out := []int{}
	if n <= 0 {
		return out
	}
	for _, b := range f.Blocks {
		if last := lang.LastInstr(b); last != nil {
			if r, ok := last.(*ssa.Return); ok && len(r.Results) > 0 {
				out = append(out, n)
			}
		}
	}
	if lang.IsExternal(f) {
		out = append(out, n)
	}
	return out
}

func stdCoqZList(l []int) string {
	p := make([]string, len(l))
	for i, x := range l {
		p[i] = fmt.Sprintf("(%d)%%Z", x)
	}
	return "[" + strings.Join(p, "; ") + "]"
}

func stdCoqMatrix(m [][]int) string {
	p := make([]string, len(m))
	for i, r := range m {
		p[i] = stdCoqZList(r)
	}
	return "[" + strings.Join(p, "; ") + "]"
}

func stdCoqNatList(l []int) string {
	p := make([]string, len(l))
	for i, x := range l {
		p[i] = strconv.Itoa(x)
	}
	return "[" + strings.Join(p, "; ") + "]"
}

func stdCoqBoolList(l []bool) string {
	p := make([]string, len(l))
	for i, x := range l {
		p[i] = strconv.FormatBool(x)
	}
	return "[" + strings.Join(p, "; ") + "]"
}

func stdCoqStr(s string) string { return "\"" + strings.ReplaceAll(s, "\"", "\"\"") + "\"" }

// stdReadKnown reads corpus/c09_known_nonconforming.txt: lines "<kind>:<function key>   # comment".
func stdReadKnown() ([]string, error) {
	cands := []string{}
	if r := os.Getenv("VERIF_ROOT"); r != "" {
		cands = append(cands, filepath.Join(r, "corpus", "c09_known_nonconforming.txt"))
	}
	if exe, err := os.Executable(); err == nil {
		cands = append(cands, filepath.Join(filepath.Dir(exe), "..", "..", "corpus", "c09_known_nonconforming.txt"))
	}
	cands = append(cands, filepath.Join("..", "corpus", "c09_known_nonconforming.txt"), filepath.Join("corpus", "c09_known_nonconforming.txt"))
	for _, c := range cands {
		f, err := os.Open(c)
		if err != nil {
			continue
		}
		defer f.Close()
		var out []string
		sc := bufio.NewScanner(f)
		for sc.Scan() {
			l := sc.Text()
			if i := strings.Index(l, "#"); i >= 0 {
				l = l[:i]
			}
			l = strings.TrimSpace(l)
			if l == "" {
				continue
			}
			i := strings.Index(l, ":")
			if i < 0 {
				return nil, fmt.Errorf("%s: malformed line %q", c, l)
			}
			out = append(out, strings.TrimSpace(l[i+1:]))
		}
		return out, nil
	}
	return nil, nil
}

// stdGenStd is a pure function of (/repo's analysis+internal sources as they are now, which this executable links; the
// toolchain's std library; this generator; the exception file).  Loading ~40 std packages with their dependencies takes
// 20-90 s, so the result is cached under build/cache keyed by a hash of exactly those inputs (see stdCacheKey).
func stdGenStd(repo, out string) error {
	key, cdir := stdCacheKey(repo)
	if cdir != "" {
		cv, err1 := os.ReadFile(filepath.Join(cdir, "std-"+key, "GenStd.v"))
		cj, err2 := os.ReadFile(filepath.Join(cdir, "std-"+key, "gen_std.json"))
		if err1 == nil && err2 == nil && len(cv) > 0 && len(cj) > 0 {
			if err := os.WriteFile(filepath.Join(out, "GenStd.v"), cv, 0o644); err != nil {
				return err
			}
			return os.WriteFile(stdJsonPath(out), cj, 0o644)
		}
	}
	if err := stdGenStdFresh(repo, out); err != nil {
		return err
	}
	if cdir != "" {
		d := filepath.Join(cdir, "std-"+key)
		if os.MkdirAll(d, 0o755) == nil {
			for _, f := range []string{"GenStd.v", "gen_std.json"} {
				src := filepath.Join(out, f)
				if f == "gen_std.json" {
					src = stdJsonPath(out)
				}
				if b, err := os.ReadFile(src); err == nil {
					_ = os.WriteFile(filepath.Join(d, f+".tmp"), b, 0o644)
					_ = os.Rename(filepath.Join(d, f+".tmp"), filepath.Join(d, f))
				}
			}
		}
	}
	return nil
}

func stdCacheKey(repo string) (string, string) {
	if os.Getenv("VERIF_NO_GEN_CACHE") != "" {
		return "", ""
	}
	exe, err := os.Executable()
	if err != nil {
		return "", ""
	}
	h := sha256.New()
	h.Write([]byte(stdGoEnv("GOVERSION") + "|" + stdGoEnv("GOROOT") + "|" + stdGoEnv("GOOS") + "|" + stdGoEnv("GOARCH") + "|"))
	// every input of the generator: all non-test Go sources of /repo's analysis and internal trees (summaries table,
	// SummaryOfFunc, lang helpers, the dataflow loader and what it imports), go.mod (x/tools version), this generator's
	// own sources, the exception names.  When the generator's sources cannot be found, the executable itself is hashed.
	var files []string
	for _, root := range []string{filepath.Join(repo, "analysis"), filepath.Join(repo, "internal")} {
		_ = filepath.Walk(root, func(p string, fi os.FileInfo, err error) error {
			if err != nil {
				return nil
			}
			if fi.IsDir() {
				if fi.Name() == "testdata" {
					return filepath.SkipDir
				}
				return nil
			}
			if strings.HasSuffix(p, ".go") && !strings.HasSuffix(p, "_test.go") {
				files = append(files, p)
			}
			return nil
		})
	}
	files = append(files, filepath.Join(repo, "go.mod"))
	own := []string{filepath.Join("cmd", "gentables", "gen_std.go"), filepath.Join("cmd", "gentables", "main.go"), filepath.Join("hutil", "load.go")}
	ownOK := true
	for _, f := range own {
		if _, err := os.Stat(f); err != nil {
			ownOK = false
		}
	}
	if ownOK {
		files = append(files, own...)
	} else {
		files = append(files, exe)
	}
	sort.Strings(files)
	for _, f := range files {
		if c, err := os.ReadFile(f); err == nil {
			h.Write([]byte(f + "\x00"))
			h.Write(c)
		}
	}
	known, _ := stdReadKnown()
	h.Write([]byte(strings.Join(known, "\n")))
	return hex.EncodeToString(h.Sum(nil))[:24], filepath.Join(filepath.Dir(exe), "..", "cache")
}

func stdGenStdFresh(repo, out string) error {
	pkgToVar, raw, err := stdParseSummaries(repo)
	if err != nil {
		return err
	}
	// A key can only ever match a function of the package its own string names (SummaryOfFunc looks the function's
	// String() up in the table of the function's package), so exactly those packages are loaded.
	patSet := map[string]bool{}
	for _, r := range raw {
		if p := stdPkgOfKey(r.key); p != "" {
			patSet[p] = true
		}
	}
	var patterns []string
	for p := range patSet {
		patterns = append(patterns, p)
	}
	sort.Strings(patterns)
	// only packages that exist (with Go files for this platform) in the toolchain in use
	var exist []string
	lst, err := stdExecOutput("go", append([]string{"list", "-e", "-f", "{{.ImportPath}} {{if .Error}}ERR{{else}}OK{{end}} {{len .GoFiles}}"}, patterns...)...)
	if err != nil && lst == "" {
		return fmt.Errorf("go list: %v", err)
	}
	for _, l := range strings.Split(lst, "\n") {
		f := strings.Fields(l)
		if len(f) == 3 && f[1] == "OK" && f[2] != "0" && f[0] != "builtin" && f[0] != "unsafe" {
			exist = append(exist, f[0])
		}
	}
	sort.Strings(exist)
	tmp, err := os.MkdirTemp("", "genstd")
	if err != nil {
		return err
	}
	defer os.RemoveAll(tmp)
	_ = os.WriteFile(filepath.Join(tmp, "go.mod"), []byte("module genstd\n\ngo 1.22\n"), 0o644)
	prog, pkgs, err := hutil.LoadDir(tmp, false, exist...)
	if err != nil {
		return fmt.Errorf("loading std packages: %v", err)
	}
	_ = pkgs
	prog.Build()
	byName := map[string]*ssa.Function{}
	for f := range ssautil.AllFunctions(prog) {
		if f.Synthetic != "" && (strings.Contains(f.Synthetic, "wrapper") || strings.Contains(f.Synthetic, "thunk") || strings.Contains(f.Synthetic, "bound")) {
			if _, seen := byName[f.String()]; seen {
				continue
			}
		}
		if old, seen := byName[f.String()]; seen && old.Synthetic == "" {
			continue
		}
		byName[f.String()] = f
	}
	qual := func(p *types.Package) string { return p.Path() }
	var entries []stdEntry
	seen := map[string]bool{}
	sort.SliceStable(raw, func(i, j int) bool { return raw[i].key < raw[j].key })
	for _, r := range raw {
		if seen[r.key+"|"+r.mapVar] {
			continue
		}
		seen[r.key+"|"+r.mapVar] = true
		e := stdEntry{Name: r.key, Var: r.mapVar, Args: stdNonNil(r.lit.args), Rets: stdNonNil(r.lit.rets), RetLens: []int{}, Ptr: []bool{},
			Params: []string{}, Results: []string{}, ImplOut: [][3]int{}, ImplIn: [][3]int{}}
		f := byName[r.key]
		if f == nil {
			e.Why = "no function of the loaded std packages has this String()"
			entries = append(entries, e)
			continue
		}
		s, ok := summaries.SummaryOfFunc(f)
		if !ok {
			e.Why = "function exists but SummaryOfFunc does not find the entry (package " + lang.PackageNameFromFunction(f) + " maps to " + pkgToVar[lang.PackageNameFromFunction(f)] + ")"
			entries = append(entries, e)
			continue
		}
		e.Resolved = true
		if r.lit.ok && !(stdMatrixEq(r.lit.args, s.Args) && stdMatrixEq(r.lit.rets, s.Rets)) {
			e.LitDiff = fmt.Sprintf("literal evaluates to Args=%v Rets=%v, SummaryOfFunc gives Args=%v Rets=%v", r.lit.args, r.lit.rets, s.Args, s.Rets)
		}
		e.Args, e.Rets = stdNonNil(s.Args), stdNonNil(s.Rets)
		e.NParams = len(f.Params)
		e.NResults = f.Signature.Results().Len()
		e.RetLens = stdRetLens(f)
		e.External = lang.IsExternal(f)
		for _, p := range f.Params {
			e.Ptr = append(e.Ptr, lang.IsNillableType(p.Type()))
			e.Params = append(e.Params, types.TypeString(p.Type(), qual))
		}
		for i := 0; i < e.NResults; i++ {
			e.Results = append(e.Results, types.TypeString(f.Signature.Results().At(i).Type(), qual))
		}
		e.Sig = types.TypeString(f.Signature, qual)
		if f.Signature.Variadic() {
			e.Sig += " [variadic]"
		}
		e.ImplOut, e.ImplIn, e.ImplPanic = stdImplEdges(f)
		entries = append(entries, e)
	}
	known, err := stdReadKnown()
	if err != nil {
		return err
	}
	sort.Strings(known)

	var b strings.Builder
	b.WriteString("(* GENERATED by harness/cmd/gentables (gen_std.go) from analysis/summaries/*.go and the std library of the toolchain in use.\n   Regenerated on every run; do not edit. *)\n")
	b.WriteString("From Coq Require Import List ZArith String.\nImport ListNotations.\nFrom Argot Require Import Model.Summ.\nOpen Scope string_scope.\n\n")
	b.WriteString("Definition gen_std_table : list std_entry := [\n")
	first := true
	nres := 0
	for _, e := range entries {
		if !e.Resolved {
			continue
		}
		nres++
		if !first {
			b.WriteString(";\n")
		}
		first = false
		implOut, implIn := stdCoqEdges(e.ImplOut), stdCoqEdges(e.ImplIn)
		if e.ImplPanic != "" {
			implOut, implIn = "[EP 999999 0%Z]", "[EP 999999 0%Z]" // the real loader panicked: matches no model graph
		}
		fmt.Fprintf(&b, "  mk_std_entry %s (mk_summary %s %s) (mk_sig %d %s) %s %s %s", stdCoqStr(e.Name), stdCoqMatrix(e.Args), stdCoqMatrix(e.Rets),
			e.NParams, stdCoqNatList(e.RetLens), stdCoqBoolList(e.Ptr), implOut, implIn)
	}
	b.WriteString("\n].\n\nDefinition gen_std_known : list string := [\n")
	for i, k := range known {
		if i > 0 {
			b.WriteString(";\n")
		}
		b.WriteString("  " + stdCoqStr(k))
	}
	b.WriteString("\n].\n\nDefinition gen_std_dead : list string := [\n")
	first = true
	for _, e := range entries {
		if e.Resolved {
			continue
		}
		if !first {
			b.WriteString(";\n")
		}
		first = false
		b.WriteString("  " + stdCoqStr(e.Name))
	}
	b.WriteString("\n].\n")
	if err := os.WriteFile(filepath.Join(out, "GenStd.v"), []byte(b.String()), 0o644); err != nil {
		return err
	}
	js, _ := json.MarshalIndent(map[string]interface{}{"entries": entries, "known": known, "packages": exist,
		"resolved": nres, "goversion": strings.TrimSpace(stdGoEnv("GOVERSION"))}, "", " ")
	return os.WriteFile(stdJsonPath(out), js, 0o644)
}

// stdJsonPath: the JSON twin of GenStd.v goes to build/gen_std.json (next to bin/), not into coq/gen.
func stdJsonPath(out string) string {
	if exe, err := os.Executable(); err == nil && filepath.Base(filepath.Dir(exe)) == "bin" {
		return filepath.Join(filepath.Dir(exe), "..", "gen_std.json")
	}
	return filepath.Join(out, "gen_std.json")
}

var stdGoEnvCache map[string]string

func stdGoEnv(k string) string {
	if stdGoEnvCache == nil {
		stdGoEnvCache = map[string]string{}
		keys := []string{"GOVERSION", "GOROOT", "GOOS", "GOARCH"}
		if o, err := stdExecOutput("go", append([]string{"env"}, keys...)...); err == nil {
			ls := strings.Split(o, "\n")
			for i, kk := range keys {
				if i < len(ls) {
					stdGoEnvCache[kk] = strings.TrimSpace(ls[i])
				}
			}
		}
	}
	if v, ok := stdGoEnvCache[k]; ok {
		return v
	}
	return stdGoEnvOld(k)
}

func stdGoEnvOld(k string) string {
	if k == "GOROOT" {
		if v := os.Getenv("GOROOT"); v != "" {
			return v
		}
	}
	out, err := stdExecOutput("go", "env", k)
	if err != nil {
		return ""
	}
	return out
}

func stdExecOutput(name string, args ...string) (string, error) {
	out, err := exec.Command(name, args...).Output()
	return string(out), err
}

// stdPkgOfKey extracts the package path a table key names: "pkg/path.Func", "(*pkg/path.Type).Method", "(pkg/path.Type).Method".
func stdPkgOfKey(k string) string {
	q := k
	if strings.HasPrefix(q, "(") {
		i := strings.Index(q, ")")
		if i < 0 {
			return ""
		}
		q = strings.TrimPrefix(q[1:i], "*")
	}
	i := strings.LastIndex(q, ".")
	if i <= 0 {
		return ""
	}
	q = q[:i]
	if strings.ContainsAny(q, " \t()*") {
		return ""
	}
	return q
}
