// gentables is the T-gen translator: it parses /repo's Go source (go/parser, go/types) and writes Coq tables
// coq/gen/Gen*.v that the Properties files Require, so that their finite theorems are re-proved against the code as it
// is now.  Each table lives in its own file gen_<name>.go which registers itself in `generators` from an init().
package main

import (
	"flag"
	"fmt"
	"os"
	"sort"
	"strings"
)

// generators maps a generator name to a function writing one or more Gen*.v files into out.
var generators = map[string]func(repo, out string) error{}

func main() {
	repo := flag.String("repo", "/repo", "root of the ar-go-tools checkout")
	out := flag.String("out", ".", "output directory for Gen*.v")
	only := flag.String("only", "", "comma-separated generator names (default all)")
	flag.Parse()
	names := []string{}
	for n := range generators {
		names = append(names, n)
	}
	sort.Strings(names)
	want := map[string]bool{}
	for _, n := range strings.Split(*only, ",") {
		if n != "" {
			want[n] = true
		}
	}
	for _, n := range names {
		if len(want) > 0 && !want[n] {
			continue
		}
		if err := generators[n](*repo, *out); err != nil {
			fmt.Fprintf(os.Stderr, "gentables %s: %v\n", n, err)
			os.Exit(1)
		}
	}
}
