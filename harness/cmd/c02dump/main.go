// c02dump is the observation side of the C02 tie (validators / sanitizers only suppress flows that pass through them).
// For every program directory (go.mod, *.go, config.yaml) it runs the REAL taint analysis of /repo in-process and prints,
// in a canonical line format that the extracted Coq model (build/bin/c02model) reads and answers:
//
//	P <dir>
//	FLOW <A|B> <sink callee> <source line> <sink line> <source callee>
//	                                    reported flows (A = real taint.Analyze on config.yaml, all problems merged; B, with -gt =
//	                                    every problem re-run without its validator/sanitizer specs)
//	STAT leaf_own=<n> leaf_oracle=<n>   validator/sanitizer leaf verdicts decided by the harness's own matcher / taken from the code
//	F <fid> <function> <kind: s=summarised u=unsummarised>      fid = <taint problem index>.<function index>
//	QS <site> <own verdict|?> / RS <site> = <0|1>   real isSanitizer(state, problem, call node / call argument node)
//	B <idx> <id of the If condition value | -> | <successor indices>
//	C <id> <cexpr>                      If conditions (Polish notation, see cexpr below)
//	X <id> <vexpr>                      values used as call arguments in queries
//	QP <sb> <db>                        path query between blocks
//	RP <sb> <db> = <blocks|nil> ; <conds>     real dataflow.FindIntraProceduralPath(first instr of sb, first instr of db)
//	QM <cid> <vid> / RM <cid> <vid> = <0|1>   real Condition{Value}.IsPredicateTo(value)
//	QV <cid> / RV <cid> = <pos><neg>          real isValidatorCondition(ts, cond, true) / (…, false)
//	QE <k> <sb> <si> <db> <di> <vid> <tag>    a real summary edge  source node -> call argument  (k: n normal, t trivial,
//	                                          s special form not modelled)
//	RE <k> <sb> <si> <db> <di> <vid> = <conds> ; d=<0|1|x>    its real EdgeInfo.Cond and the real addNext verdict
//	E
//
// conds are "+id" / "-id" (IsPositive / not) separated by blanks.
// vexpr:  a <id> | l <id> <vexpr> (load) | f <id> <vexpr> (FieldAddr) | x <id> <vexpr> (Extract) | m <id> <vexpr> (MakeInterface)
// cexpr:  c <isval> <b|e|o|n> <nargs> <vexpr>* | b <e|n|o> <errty> <xnil> <ynil> <cexpr> <cexpr> | u <isnot> <cexpr>
//         | t <idx> <len> <cexpr> | o
package main

import (
	"bufio"
	"flag"
	"fmt"
	"go/token"
	"go/types"
	"os"
	"path/filepath"
	"regexp"
	"sort"
	"strings"
	"time"

	"github.com/awslabs/ar-go-tools/analysis"
	"github.com/awslabs/ar-go-tools/analysis/config"
	"github.com/awslabs/ar-go-tools/analysis/dataflow"
	"github.com/awslabs/ar-go-tools/analysis/taint"
	"github.com/awslabs/ar-go-tools/verifharness/hutil"
	"golang.org/x/tools/go/ssa"
)

var (
	seed   = flag.Int("seed", 1, "seed for sampling")
	maxFn  = flag.Int("maxfn", 300, "maximum number of unsummarised functions dumped per program (path queries only)")
	maxBlk = flag.Int("maxblk", 48, "functions with more blocks are skipped for all-pairs path queries")
	gt     = flag.Bool("gt", false, "also run the first taint problem without its validator / sanitizer specs and print its flows (B)")
)

type rng struct{ s uint64 }

func (r *rng) next(n int) int {
	r.s = (r.s*1103515245 + 12345) & 0x7fffffff
	if n <= 0 {
		return int(r.s >> 8)
	}
	return int(r.s>>8) % n
}

func calleeName(i ssa.Instruction) string {
	ci, ok := i.(ssa.CallInstruction)
	if !ok {
		return "?" + strings.ReplaceAll(i.String(), " ", "_")
	}
	c := ci.Common()
	if c.IsInvoke() {
		return c.Method.Name()
	}
	if f := c.StaticCallee(); f != nil {
		return f.Name()
	}
	return c.Value.Name()
}

// ------------------------------------------------------------------------------------------------ own spec matcher

var leafOwn, leafOracle int

// ownMatch decides "the callee of this call matches one of the code identifiers" independently of the code under test,
// for the simple form of specification (only package and method regexes) and statically resolved callees with a package.
// ok=false: some identifier uses other fields or the callee is not static; the caller falls back to the real verdict.
func ownMatch(cis []config.CodeIdentifier, call ssa.CallInstruction) (match bool, ok bool) {
	cc := call.Common()
	if cc.IsInvoke() {
		return false, false
	}
	f := cc.StaticCallee()
	if f == nil || f.Pkg == nil || f.Pkg.Pkg == nil {
		return false, false
	}
	for _, ci := range cis {
		if ci.Context != "" || ci.Interface != "" || ci.Receiver != "" || ci.Field != "" || ci.Type != "" || ci.Kind != "" ||
			ci.ValueMatch != "" || (ci.Package == "" && ci.Method == "") {
			return false, false
		}
		pr, err1 := regexp.Compile(ci.Package)
		mr, err2 := regexp.Compile(ci.Method)
		if err1 != nil || err2 != nil {
			return false, false
		}
		if (ci.Package == "" || pr.MatchString(f.Pkg.Pkg.Path())) && (ci.Method == "" || mr.MatchString(f.Name())) {
			match = true
		}
	}
	return match, true
}

// ------------------------------------------------------------------------------------------------ translation

type fnDump struct {
	ts    *config.TaintSpec
	ids   map[ssa.Value]int
	lines []string // C and X lines
	doneC map[ssa.Value]bool
	doneX map[ssa.Value]bool
}

func (d *fnDump) id(v ssa.Value) int {
	if i, ok := d.ids[v]; ok {
		return i
	}
	i := len(d.ids) + 1
	d.ids[v] = i
	return i
}

func (d *fnDump) vexpr(v ssa.Value, depth int) string {
	id := d.id(v)
	if depth < 12 {
		switch x := v.(type) {
		case *ssa.UnOp:
			if x.Op == token.MUL {
				return fmt.Sprintf("l %d %s", id, d.vexpr(x.X, depth+1))
			}
		case *ssa.FieldAddr:
			return fmt.Sprintf("f %d %s", id, d.vexpr(x.X, depth+1))
		case *ssa.Extract:
			return fmt.Sprintf("x %d %s", id, d.vexpr(x.Tuple, depth+1))
		case *ssa.MakeInterface:
			return fmt.Sprintf("m %d %s", id, d.vexpr(x.X, depth+1))
		}
	}
	return fmt.Sprintf("a %d", id)
}

func isErrType(t types.Type) bool {
	if t == nil {
		return false
	}
	if t.String() == "error" {
		return true
	}
	it, ok := t.(*types.Interface)
	return ok && it.NumMethods() == 1 && it.ExplicitMethod(0).Name() == "Error"
}

func b2s(b bool) string {
	if b {
		return "1"
	}
	return "0"
}

func (d *fnDump) cexpr(v ssa.Value, depth int) string {
	if v == nil || depth > 10 {
		return "o"
	}
	switch x := v.(type) {
	case *ssa.Call:
		// leaf verdict "the callee is a validator of THIS problem": the harness's own matcher where it applies
		isVal, own := ownMatch(d.ts.Validators, x)
		if own {
			leafOwn++
		} else {
			leafOracle++
			isVal = taint.IsMatchingCodeIDWithCallee(d.ts.IsValidator, nil, x)
		}
		var sig types.Type
		if x.Call.IsInvoke() {
			sig = x.Call.Method.Type()
		} else {
			sig = x.Call.Value.Type()
		}
		rk := "n"
		if s, ok := sig.Underlying().(*types.Signature); ok && s.Results().Len() > 0 {
			rt := s.Results().At(s.Results().Len() - 1).Type().Underlying()
			switch t := rt.(type) {
			case *types.Basic:
				if t.Kind() == types.Bool {
					rk = "b"
				} else {
					rk = "o"
				}
			case *types.Interface:
				if isErrType(t) {
					rk = "e"
				} else {
					rk = "o"
				}
			default:
				rk = "o"
			}
		}
		parts := []string{"c", b2s(isVal), rk, fmt.Sprint(len(x.Call.Args))}
		for _, a := range x.Call.Args {
			parts = append(parts, d.vexpr(a, 0))
		}
		return strings.Join(parts, " ")
	case *ssa.BinOp:
		op := "o"
		if x.Op == token.EQL {
			op = "e"
		} else if x.Op == token.NEQ {
			op = "n"
		}
		return fmt.Sprintf("b %s %s %s %s %s %s", op, b2s(isErrType(x.X.Type())), b2s(x.X.String() == "nil:error"),
			b2s(x.Y.String() == "nil:error"), d.cexpr(x.X, depth+1), d.cexpr(x.Y, depth+1))
	case *ssa.UnOp:
		return fmt.Sprintf("u %s %s", b2s(x.Op == token.NOT), d.cexpr(x.X, depth+1))
	case *ssa.Extract:
		n := 0
		if tt, ok := x.Tuple.Type().(*types.Tuple); ok {
			n = tt.Len()
		}
		return fmt.Sprintf("t %d %d %s", x.Index, n, d.cexpr(x.Tuple, depth+1))
	}
	return "o"
}

func (d *fnDump) needC(v ssa.Value) int {
	id := d.id(v)
	if !d.doneC[v] {
		d.doneC[v] = true
		d.lines = append(d.lines, fmt.Sprintf("C %d %s", id, d.cexpr(v, 0)))
	}
	return id
}

func (d *fnDump) needX(v ssa.Value) int {
	id := d.id(v)
	if !d.doneX[v] {
		d.doneX[v] = true
		d.lines = append(d.lines, fmt.Sprintf("X %d %s", id, d.vexpr(v, 0)))
	}
	return id
}

func (d *fnDump) conds(cs []dataflow.Condition) string {
	var parts []string
	for _, c := range cs {
		s := "-"
		if c.IsPositive {
			s = "+"
		}
		parts = append(parts, fmt.Sprintf("%s%d", s, d.needC(c.Value)))
	}
	return strings.Join(parts, " ")
}

func instrIndex(i ssa.Instruction) int {
	for k, x := range i.Block().Instrs {
		if x == i {
			return k
		}
	}
	return -1
}

func hasIf(f *ssa.Function) bool {
	for _, b := range f.Blocks {
		if len(b.Instrs) > 0 {
			if _, ok := b.Instrs[len(b.Instrs)-1].(*ssa.If); ok {
				return true
			}
		}
	}
	return false
}

// sourceInstr mirrors the choice of the source instruction in checkFlow for the mark that produces edges out of n.
// ok=false: the form is not modelled; trivial=true: checkFlow answers {Satisfiable: true} without a path search.
func sourceInstr(n dataflow.GraphNode, f *ssa.Function, arg ssa.Value) (instr ssa.Instruction, trivial bool, ok bool) {
	switch x := n.(type) {
	case *dataflow.CallNode:
		return x.CallSite(), false, true
	case *dataflow.CallNodeArg:
		return x.ParentNode().CallSite(), false, true
	case *dataflow.ClosureNode:
		return x.Instr(), false, true
	case *dataflow.BoundVarNode:
		return x.ParentNode().Instr(), false, true
	case *dataflow.SyntheticNode:
		return x.Instr(), false, true
	case *dataflow.AccessGlobalNode:
		return x.Instr(), false, true
	case *dataflow.IfNode:
		return x.SsaNode(), false, true
	case *dataflow.ParamNode:
		if _, isParam := arg.(*ssa.Parameter); isParam || len(f.Blocks) == 0 {
			return nil, true, true
		}
		return f.Blocks[0].Instrs[0], false, true
	case *dataflow.FreeVarNode:
		return nil, true, true
	}
	return nil, false, false
}

func dumpFunction(w *bufio.Writer, r *rng, state *dataflow.AnalyzerState, ts *config.TaintSpec, fid string, f *ssa.Function,
	sum *dataflow.SummaryGraph, paths bool) {
	d := &fnDump{ts: ts, ids: map[ssa.Value]int{}, doneC: map[ssa.Value]bool{}, doneX: map[ssa.Value]bool{}}
	kind := "u"
	if sum != nil {
		kind = "s"
	}
	var blines, qlines []string
	var conds []ssa.Value
	for _, b := range f.Blocks {
		c := "-"
		if len(b.Instrs) > 0 {
			if ifi, ok := b.Instrs[len(b.Instrs)-1].(*ssa.If); ok {
				c = fmt.Sprint(d.needC(ifi.Cond))
				conds = append(conds, ifi.Cond)
			}
		}
		var ss []string
		for _, s := range b.Succs {
			ss = append(ss, fmt.Sprint(s.Index))
		}
		blines = append(blines, fmt.Sprintf("B %d %s | %s", b.Index, c, strings.Join(ss, " ")))
	}
	// values: arguments of calls (first 10 distinct)
	var vals []ssa.Value
	seenV := map[ssa.Value]bool{}
	for _, b := range f.Blocks {
		for _, i := range b.Instrs {
			if ci, ok := i.(ssa.CallInstruction); ok {
				for _, a := range ci.Common().Args {
					if !seenV[a] && len(vals) < 10 {
						seenV[a] = true
						vals = append(vals, a)
					}
				}
			}
		}
	}
	// path queries
	n := len(f.Blocks)
	type pair struct{ a, b int }
	var pairs []pair
	if !paths {
		// path queries do not depend on the taint problem: asked once per function
	} else if n <= 12 {
		for a := 0; a < n; a++ {
			for b := 0; b < n; b++ {
				pairs = append(pairs, pair{a, b})
			}
		}
	} else if n <= *maxBlk {
		for k := 0; k < 40; k++ {
			pairs = append(pairs, pair{r.next(n), r.next(n)})
		}
	}
	for _, p := range pairs {
		ba, bb := f.Blocks[p.a], f.Blocks[p.b]
		if len(ba.Instrs) == 0 || len(bb.Instrs) == 0 {
			continue
		}
		pi := dataflow.FindIntraProceduralPath(ba.Instrs[0], bb.Instrs[0])
		res := "nil"
		if pi.Cond.Satisfiable {
			var bs []string
			for _, x := range pi.Blocks {
				bs = append(bs, fmt.Sprint(x.Index))
			}
			res = strings.Join(bs, " ")
		}
		qlines = append(qlines, fmt.Sprintf("QP %d %d", p.a, p.b))
		qlines = append(qlines, fmt.Sprintf("RP %d %d = %s ; %s", p.a, p.b, res, d.conds(pi.Cond.Conditions)))
	}
	// predicate matrix and validator verdicts
	for _, c := range conds {
		cid := d.needC(c)
		qlines = append(qlines, fmt.Sprintf("QV %d", cid))
		qlines = append(qlines, fmt.Sprintf("RV %d = %s%s", cid, b2s(taint.VerifC02IsValidatorCondition(ts, c, true)),
			b2s(taint.VerifC02IsValidatorCondition(ts, c, false))))
		for _, v := range vals {
			vid := d.needX(v)
			qlines = append(qlines, fmt.Sprintf("QM %d %d", cid, vid))
			qlines = append(qlines, fmt.Sprintf("RM %d %d = %s", cid, vid, b2s(dataflow.Condition{Value: c}.IsPredicateTo(v))))
		}
	}
	// real edges into call arguments
	if sum != nil {
		type edge struct {
			q, r string
		}
		var edges []edge
		sum.ForAllNodes(func(src dataflow.GraphNode) {
			for dst, infos := range src.Out() {
				argNode, isArg := dst.(*dataflow.CallNodeArg)
				if !isArg || argNode.Graph() != sum {
					continue
				}
				call := argNode.ParentNode().CallSite()
				arg := argNode.Value()
				if call == nil || arg == nil || call.Parent() != f {
					continue
				}
				for _, info := range infos {
					k := "n"
					si, trivial, ok := sourceInstr(src, f, arg)
					if !ok || (si != nil && si.Parent() != f) {
						k = "s"
					} else if trivial {
						k = "t"
					}
					if _, isDefer := call.(*ssa.Defer); isDefer && k == "n" {
						if isNillable(arg.Type()) {
							k = "t"
						}
					}
					if asVal, isVal := call.(ssa.Value); isVal && k == "n" {
						if _, isFunc := asVal.Type().Underlying().(*types.Signature); isFunc {
							k = "s"
						}
					}
					sb, sidx := 0, 0
					if si != nil && k == "n" {
						sb, sidx = si.Block().Index, instrIndex(si)
					}
					var cs []dataflow.Condition
					if info.Cond != nil {
						cs = info.Cond.Conditions
					}
					verdict := "x"
					if !state.Config.UseEscapeAnalysis {
						plain := info
						plain.Cond = nil
						if taint.VerifC02AddNextKeeps(state, ts, src, dst, plain) {
							verdict = b2s(!taint.VerifC02AddNextKeeps(state, ts, src, dst, info))
						}
					}
					key := fmt.Sprintf("%s %d %d %d %d %d", k, sb, sidx, call.Block().Index, instrIndex(call), d.needX(arg))
					tag := fmt.Sprintf("%T->%s#%d", src, calleeName(call), argNode.Index())
					tag = strings.ReplaceAll(strings.TrimPrefix(tag, "*dataflow."), " ", "_")
					edges = append(edges, edge{"QE " + key + " " + tag, fmt.Sprintf("RE %s = %s ; d=%s", key, d.conds(cs), verdict)})
				}
			}
		})
		sort.Slice(edges, func(i, j int) bool { return edges[i].q+edges[i].r < edges[j].q+edges[j].r })
		for i, e := range edges {
			if i > 0 && edges[i-1] == e {
				continue
			}
			qlines = append(qlines, e.q, e.r)
		}
	}
	// real isSanitizer verdict of every call node / call argument node for this problem vs the harness's own matcher
	if sum != nil && !state.Config.UseEscapeAnalysis {
		var slines []string
		for call, callees := range sum.Callees {
			if call.Parent() != f {
				continue
			}
			own, ok := ownMatch(ts.Sanitizers, call)
			ov := "?"
			if ok {
				ov = b2s(own)
				leafOwn++
			} else {
				leafOracle++
			}
			for _, cn := range callees {
				site := fmt.Sprintf("%d.%d.%s", call.Block().Index, instrIndex(call), calleeName(call))
				slines = append(slines, fmt.Sprintf("QS %s.c %s\nRS %s.c = %s", site, ov, site, b2s(taint.VerifC02IsSanitizer(state, ts, cn))))
				for _, an := range cn.Args() {
					slines = append(slines, fmt.Sprintf("QS %s.%d %s\nRS %s.%d = %s", site, an.Index(), ov, site, an.Index(),
						b2s(taint.VerifC02IsSanitizer(state, ts, an))))
				}
			}
		}
		sort.Strings(slines)
		for i, l := range slines {
			if i > 0 && slines[i-1] == l {
				continue
			}
			qlines = append(qlines, strings.Split(l, "\n")...)
		}
	}
	fmt.Fprintf(w, "F %s %s %s\n", fid, strings.ReplaceAll(f.String(), " ", "_"), kind)
	for _, l := range blines {
		fmt.Fprintln(w, l)
	}
	for _, l := range d.lines {
		fmt.Fprintln(w, l)
	}
	for _, l := range qlines {
		fmt.Fprintln(w, l)
	}
	fmt.Fprintln(w, "E")
}

func isNillable(t types.Type) bool {
	switch t.Underlying().(type) {
	case *types.Pointer, *types.Slice, *types.Map, *types.Chan, *types.Interface, *types.Signature:
		return true
	}
	return false
}

func printFlows(w *bufio.Writer, tag string, prog *ssa.Program, res taint.AnalysisResult) {
	if res.TaintFlows == nil {
		return
	}
	lines := map[string]bool{}
	for sink, sources := range res.TaintFlows.Sinks {
		for source := range sources {
			sp := prog.Fset.Position(source.Instr.Pos())
			kp := prog.Fset.Position(sink.Instr.Pos())
			lines[fmt.Sprintf("FLOW %s %s %d %d %s", tag, calleeName(sink.Instr), sp.Line, kp.Line, calleeName(source.Instr))] = true
		}
	}
	keys := make([]string, 0, len(lines))
	for k := range lines {
		keys = append(keys, k)
	}
	sort.Strings(keys)
	for _, k := range keys {
		fmt.Fprintln(w, k)
	}
}

func runDir(w *bufio.Writer, dir string) error {
	cfg, err := config.LoadFromFiles(filepath.Join(dir, "config.yaml"))
	if err != nil {
		return fmt.Errorf("config: %v", err)
	}
	cfg.LogLevel = int(config.ErrLevel)
	prog, pkgs, err := hutil.LoadDir(dir, true)
	if err != nil {
		return fmt.Errorf("load: %v", err)
	}
	t0 := time.Now()
	res, err := taint.Analyze(cfg, prog, pkgs)
	tAnalyze := time.Since(t0)
	t0 = time.Now()
	fmt.Fprintf(w, "P %s\n", dir)
	if err != nil {
		fmt.Fprintf(w, "ERR %s\n", strings.ReplaceAll(err.Error(), "\n", " | "))
	}
	if res.State == nil {
		return fmt.Errorf("no analyzer state")
	}
	printFlows(w, "A", prog, res)
	state := res.State
	// every taint problem of the configuration (at most 4) decides its own dropped/kept and sanitizer verdicts
	var specs []int
	for i := range state.Config.TaintTrackingProblems {
		if i < 4 {
			specs = append(specs, i)
		}
	}
	r := &rng{s: uint64(*seed)*2654435761 + 17}
	fns := hutil.SortedFunctions(prog)
	roots := map[string]bool{}
	for _, p := range pkgs {
		roots[p.PkgPath] = true
	}
	for _, pi := range specs {
		ts := &state.Config.TaintTrackingProblems[pi]
		budget := *maxFn
		// deterministic sample of the unsummarised functions
		var cand []int
		for k, f := range fns {
			if len(f.Blocks) < 2 || !hasIf(f) {
				continue
			}
			sum := state.FlowGraph.Summaries[f]
			if sum != nil && sum.Constructed {
				continue
			}
			cand = append(cand, k)
		}
		chosen := map[int]bool{}
		if len(cand) <= budget {
			for _, k := range cand {
				chosen[k] = true
			}
		} else {
			for len(chosen) < budget {
				chosen[cand[r.next(len(cand))]] = true
			}
		}
		for k, f := range fns {
			if len(f.Blocks) == 0 {
				continue
			}
			sum := state.FlowGraph.Summaries[f]
			if sum != nil && sum.Constructed {
				if pi != specs[0] && !(f.Pkg != nil && roots[f.Pkg.Pkg.Path()]) {
					continue // further problems: only the functions of the program's own packages (where the specs can differ)
				}
				dumpFunction(w, r, state, ts, fmt.Sprintf("%d.%d", pi, k), f, sum, pi == specs[0])
			} else if chosen[k] && pi == specs[0] {
				dumpFunction(w, r, state, ts, fmt.Sprintf("%d.%d", pi, k), f, nil, true)
			}
		}
	}
	fmt.Fprintf(w, "STAT leaf_own=%d leaf_oracle=%d analyze_ms=%d dump_ms=%d\n", leafOwn, leafOracle, tAnalyze.Milliseconds(),
		time.Since(t0).Milliseconds())
	if *gt {
		// every problem WITHOUT its validator / sanitizer specs, on the same analyzer state (summaries do not depend on them):
		// exactly what Analyze does for a further taint-tracking problem of the configuration
		// (the specs are removed from the WHOLE configuration, so that B is the no-validator/no-sanitizer answer even if the code
		// consults a configuration-wide oracle)
		for i := range state.Config.TaintTrackingProblems {
			state.Config.TaintTrackingProblems[i].Validators = nil
			state.Config.TaintTrackingProblems[i].Sanitizers = nil
		}
		for i := range state.Config.TaintTrackingProblems {
			specB := state.Config.TaintTrackingProblems[i]
			specB.Validators = nil
			specB.Sanitizers = nil
			visitor := taint.NewVisitor(&specB)
			analysis.RunInterProcedural(state, visitor, analysis.InterProceduralParams{
				IsEntrypoint: func(node ssa.Node) bool { return taint.IsSourceNode(state, &specB, node) },
			})
			printFlows(w, "B", prog, taint.AnalysisResult{TaintFlows: taint.VerifC02Flows(visitor)})
		}
	}
	return nil
}

func main() {
	out := flag.String("o", "-", "output file")
	flag.Parse()
	w := bufio.NewWriter(os.Stdout)
	if *out != "-" {
		f, err := os.Create(*out)
		if err != nil {
			panic(err)
		}
		defer f.Close()
		w = bufio.NewWriter(f)
	}
	defer w.Flush()
	rc := 0
	for _, dir := range flag.Args() {
		func() {
			defer func() {
				if r := recover(); r != nil {
					fmt.Fprintf(w, "P %s\nPANIC %v\n", dir, r)
					rc = 3
				}
			}()
			if err := runDir(w, dir); err != nil {
				fmt.Fprintf(w, "P %s\nFAIL %v\n", dir, err)
				rc = 2
			}
		}()
		w.Flush()
	}
	w.Flush()
	os.Exit(rc)
}
