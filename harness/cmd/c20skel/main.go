// c20skel regenerates, from the Go AST of /repo's current source, the *synchronisation skeleton* of the functions the
// C20 models were written from: for each anchored function the sequence of concurrency-relevant operations in source
// order - go statements (with the skeleton of a function literal nested in braces), defer, make(chan) with/without
// buffer, channel send / receive / range-over-channel, close, and calls of Lock/Unlock/RLock/RUnlock/Add/Done/Wait and
// of sync/atomic functions or methods of atomic types (Load/Store/Add/CompareAndSwap...).  Identifiers are dropped, so
// renamings and refactorings that do not change the synchronisation structure leave the skeleton unchanged.
//
//	usage: c20skel -repo /repo          prints lines  "<file> <function>: <tokens>"
//
// tools/props/c20.py compares the output with the skeleton recorded when Model/MapPar.v and Model/Conc.v were written
// (T-gen tie); a difference means the hand-written models no longer describe the code.
package main

import (
	"flag"
	"fmt"
	"go/ast"
	"go/parser"
	"go/token"
	"os"
	"path/filepath"
	"strings"
)

// anchored functions per file ("*" = every function of the file that contains at least one token)
var anchors = map[string][]string{
	"internal/funcutil/collections.go":            {"MapParallel"},
	"analysis/analyzers.go":                       {"RunIntraProceduralPass", "runJobs", "collectResults", "runSingleFunctionJob"},
	"analysis/dataflow/state.go":                  {"*"},
	"analysis/dataflow/inter_procedural.go":       {"*"},
	"analysis/dataflow/globals.go":                {"*"},
	"analysis/dataflow/function_summary_graph.go": {"*"},
	"analysis/dataflow/callgraph.go":              {"GetUniqueFunctionID"},
	"analysis/dataflow/intra_procedural.go":       {"*"},
	"analysis/taint/taint.go":                     {"Analyze"},
}

var syncMethods = map[string]bool{"Lock": true, "Unlock": true, "RLock": true, "RUnlock": true, "Wait": true, "Done": true}
var atomicMethods = map[string]bool{"Load": true, "Store": true, "Swap": true, "CompareAndSwap": true}

type walker struct {
	chans map[string]bool // identifiers known to be channels in the current function
	toks  []string
}

func (w *walker) emit(t string) { w.toks = append(w.toks, t) }

func isChanMake(e ast.Expr) (bool, bool) {
	call, ok := e.(*ast.CallExpr)
	if !ok {
		return false, false
	}
	id, ok := call.Fun.(*ast.Ident)
	if !ok || id.Name != "make" || len(call.Args) == 0 {
		return false, false
	}
	if _, ok := call.Args[0].(*ast.ChanType); !ok {
		return false, false
	}
	return true, len(call.Args) > 1
}

func (w *walker) call(prefix string, call *ast.CallExpr) {
	switch f := call.Fun.(type) {
	case *ast.Ident:
		if f.Name == "close" {
			w.emit(prefix + "close")
		}
	case *ast.SelectorExpr:
		name := f.Sel.Name
		if x, ok := f.X.(*ast.Ident); ok && x.Name == "atomic" {
			w.emit(prefix + "atomic." + name)
			return
		}
		if syncMethods[name] {
			w.emit(prefix + name)
		} else if name == "Add" && len(call.Args) == 1 {
			// WaitGroup.Add / atomic.Int32.Add: both are synchronisation operations
			w.emit(prefix + "Add")
		} else if atomicMethods[name] && len(call.Args) <= 2 {
			// methods of sync/atomic types (numAlarms.Load()); also matches other Load/Store methods - acceptable
			w.emit(prefix + "atomic-method." + name)
		}
	case *ast.FuncLit:
		// immediately invoked literal
		w.emit(prefix + "call{")
		w.block(f.Body)
		w.emit("}")
	}
}

func (w *walker) block(n ast.Node) {
	ast.Inspect(n, func(n ast.Node) bool {
		switch x := n.(type) {
		case *ast.AssignStmt:
			for i, r := range x.Rhs {
				if ok, buffered := isChanMake(r); ok {
					if i < len(x.Lhs) {
						if id, ok := x.Lhs[i].(*ast.Ident); ok {
							w.chans[id.Name] = true
						}
					}
					if buffered {
						w.emit("make-chan-buffered")
					} else {
						w.emit("make-chan-unbuffered")
					}
				}
			}
		case *ast.GoStmt:
			if fl, ok := x.Call.Fun.(*ast.FuncLit); ok {
				w.emit("go{")
				w.block(fl.Body)
				w.emit("}")
			} else {
				w.emit("go-call")
			}
			for _, a := range x.Call.Args {
				w.block(a)
			}
			return false
		case *ast.DeferStmt:
			if fl, ok := x.Call.Fun.(*ast.FuncLit); ok {
				w.emit("defer{")
				w.block(fl.Body)
				w.emit("}")
			} else {
				n0 := len(w.toks)
				w.call("defer-", x.Call)
				_ = n0
			}
			return false
		case *ast.SendStmt:
			w.emit("send")
		case *ast.UnaryExpr:
			if x.Op == token.ARROW {
				w.emit("recv")
			}
		case *ast.RangeStmt:
			if id, ok := x.X.(*ast.Ident); ok && w.chans[id.Name] {
				w.emit("range-chan")
			}
		case *ast.SelectStmt:
			w.emit("select")
		case *ast.CallExpr:
			w.call("", x)
		case *ast.FuncLit:
			// a literal that is neither go'ed, deferred nor immediately called: a callback
			w.emit("func{")
			w.block(x.Body)
			w.emit("}")
			return false
		}
		return true
	})
}

func main() {
	repo := flag.String("repo", "/repo", "")
	flag.Parse()
	var files []string
	for f := range anchors {
		files = append(files, f)
	}
	// deterministic order
	for i := range files {
		for j := i + 1; j < len(files); j++ {
			if files[j] < files[i] {
				files[i], files[j] = files[j], files[i]
			}
		}
	}
	fset := token.NewFileSet()
	for _, rel := range files {
		file, err := parser.ParseFile(fset, filepath.Join(*repo, rel), nil, 0)
		if err != nil {
			fmt.Fprintln(os.Stderr, err)
			os.Exit(2)
		}
		want := map[string]bool{}
		all := false
		for _, n := range anchors[rel] {
			if n == "*" {
				all = true
			}
			want[n] = true
		}
		found := map[string]bool{}
		for _, d := range file.Decls {
			fd, ok := d.(*ast.FuncDecl)
			if !ok || fd.Body == nil {
				continue
			}
			name := fd.Name.Name
			if fd.Recv != nil && len(fd.Recv.List) == 1 {
				t := fd.Recv.List[0].Type
				if s, ok := t.(*ast.StarExpr); ok {
					t = s.X
				}
				if ix, ok := t.(*ast.IndexExpr); ok {
					t = ix.X
				}
				if id, ok := t.(*ast.Ident); ok {
					name = id.Name + "." + name
				}
			}
			if !all && !want[fd.Name.Name] {
				continue
			}
			found[fd.Name.Name] = true
			w := &walker{chans: map[string]bool{}}
			// channel-typed parameters
			for _, p := range fd.Type.Params.List {
				if _, ok := p.Type.(*ast.ChanType); ok {
					for _, n := range p.Names {
						w.chans[n.Name] = true
					}
				}
			}
			w.block(fd.Body)
			// callbacks without any token inside are noise
			toks := prune(w.toks)
			if len(toks) == 0 && all {
				continue
			}
			fmt.Printf("%s %s: %s\n", rel, name, strings.Join(toks, " "))
		}
		for n := range want {
			if n != "*" && !found[n] {
				fmt.Printf("%s %s: MISSING\n", rel, n)
			}
		}
	}
}

// prune removes empty "func{ }" / "call{ }" groups
func prune(toks []string) []string {
	for {
		changed := false
		var out []string
		for i := 0; i < len(toks); i++ {
			if (toks[i] == "func{" || toks[i] == "call{") && i+1 < len(toks) && toks[i+1] == "}" {
				i++
				changed = true
				continue
			}
			out = append(out, toks[i])
		}
		toks = out
		if !changed {
			return toks
		}
	}
}
