// c07run runs every analysis entry point of /repo in-process on program directories, under recover() and a wall-clock
// budget, and reports per (program, analysis): ok / err (the analysis returned an error) / panic / timeout.  (C07)
//
// Entry points: taint.Analyze (baseline: field-sensitive off, eager, escape off; variants -fs, -ondemand, -fs-ondemand,
// -escape), backtrace.Analyze (baseline, -fs, -ondemand), escape (dataflow state + escape.InitializeEscapeAnalysisState),
// reachability.FindReachable, defers.AnalyzeProgram, maypanic.MayPanicAnalyzer.
//
// Budget of a variant = 1.5 x init + max(factor x (baseline - init), floor, 3 x init) where init is the measured time of the part every
// configuration shares (dataflow.NewInitializedAnalyzerState: SSA facts + pointer analysis) and baseline the time of the
// same entry point on the same program under the baseline configuration, in the same process (taint-escape: taint + the
// stand-alone escape analysis).  Analyses without a
// configuration variant get factor x the taint baseline.  On a timeout the process prints the RES line and exits with
// status 3 (the stuck goroutine cannot be stopped); the caller re-invokes with -only for the remaining analyses.
//
// Output (file -o):
//
//	PROG <dir>
//	INIT <dir> <seconds>
//	GEN <dir> functions=<n> reachable=<n> uninstantiated=<n> reachable_uninstantiated=<n> multiconvert=<n> reachable_multiconvert=<n>
//	START <dir> <analysis>
//	RES <dir> <analysis> <ok|err|panic|timeout> <seconds> <budget> <quoted detail>
package main

import (
	"bufio"
	"flag"
	"fmt"
	"io"
	"os"
	"path/filepath"
	"runtime/debug"
	"strconv"
	"strings"
	"time"

	"github.com/awslabs/ar-go-tools/analysis/backtrace"
	"github.com/awslabs/ar-go-tools/analysis/config"
	"github.com/awslabs/ar-go-tools/analysis/dataflow"
	"github.com/awslabs/ar-go-tools/analysis/defers"
	"github.com/awslabs/ar-go-tools/analysis/escape"
	"github.com/awslabs/ar-go-tools/analysis/maypanic"
	"github.com/awslabs/ar-go-tools/analysis/reachability"
	"github.com/awslabs/ar-go-tools/analysis/taint"
	"github.com/awslabs/ar-go-tools/verifharness/hutil"
	"golang.org/x/tools/go/packages"
	"golang.org/x/tools/go/ssa"
	"golang.org/x/tools/go/ssa/ssautil"
)

var out *bufio.Writer

func emit(format string, a ...interface{}) {
	fmt.Fprintf(out, format, a...)
	out.Flush()
}

func loadCfg(dir string) (*config.Config, error) {
	f := filepath.Join(dir, "config.yaml")
	if _, err := os.Stat(f); err != nil {
		f = filepath.Join(dir, "config.json")
	}
	cfg, err := config.LoadFromFiles(f)
	if err != nil {
		return nil, err
	}
	cfg.LogLevel = int(config.ErrLevel)
	cfg.SilenceWarn = true
	cfg.ReportPaths, cfg.ReportSummaries, cfg.ReportCoverage, cfg.ReportNoCalleeSites = false, false, false, false
	return cfg, nil
}

func quietLog(cfg *config.Config) *config.LogGroup {
	lg := config.NewLogGroup(cfg)
	lg.SetAllOutput(io.Discard)
	return lg
}

type job struct {
	name     string
	baseline string // name of the baseline analysis for the budget ("" = this is a baseline)
	run      func() error
}

// timed runs f in a goroutine under recover and a budget (<= 0: no budget).
func timed(f func() error, budget float64) (status string, secs float64, detail string) {
	type res struct {
		err error
		pan string
	}
	ch := make(chan res, 1)
	t0 := time.Now()
	go func() {
		defer func() {
			if x := recover(); x != nil {
				st := string(debug.Stack())
				if len(st) > 1500 {
					st = st[:1500]
				}
				ch <- res{pan: fmt.Sprintf("%v\n%s", x, st)}
			}
		}()
		ch <- res{err: f()}
	}()
	var timer <-chan time.Time
	if budget > 0 {
		timer = time.After(time.Duration(budget * float64(time.Second)))
	}
	select {
	case r := <-ch:
		secs = time.Since(t0).Seconds()
		if r.pan != "" {
			return "panic", secs, r.pan
		}
		if r.err != nil {
			e := r.err.Error()
			if len(e) > 400 {
				e = e[:400]
			}
			return "err", secs, e
		}
		return "ok", secs, ""
	case <-timer:
		return "timeout", time.Since(t0).Seconds(), ""
	}
}

func genStats(dir string, prog *ssa.Program, pkgs []*packages.Package) {
	all := ssautil.AllFunctions(prog)
	cfg := config.NewDefault()
	cfg.LogLevel = int(config.ErrLevel)
	state, err := dataflow.NewInitializedAnalyzerState(prog, pkgs, quietLog(cfg), cfg)
	reach := map[*ssa.Function]bool{}
	if err == nil {
		reach = state.ReachableFunctions()
	}
	uninst, runinst, mc, rmc := 0, 0, 0, 0
	for f := range all {
		isUninst := f.TypeParams().Len() > 0 && len(f.TypeArgs()) == 0
		if isUninst {
			uninst++
			if reach[f] {
				runinst++
			}
		}
		for _, b := range f.Blocks {
			for _, i := range b.Instrs {
				if _, ok := i.(*ssa.MultiConvert); ok {
					mc++
					if reach[f] {
						rmc++
					}
				}
			}
		}
	}
	emit("GEN %s functions=%d reachable=%d uninstantiated=%d reachable_uninstantiated=%d multiconvert=%d reachable_multiconvert=%d\n",
		dir, len(all), len(reach), uninst, runinst, mc, rmc)
}

func main() {
	outF := flag.String("o", "-", "output file")
	only := flag.String("only", "", "comma-separated analyses to run (default all)")
	skip := flag.String("skip", "", "comma-separated analyses to skip")
	baseFlag := flag.String("base", "", "baselines measured by an earlier invocation: name=secs,... (and init=secs)")
	floor := flag.Float64("floor", 6, "minimum budget in seconds on top of init")
	factor := flag.Float64("factor", 20, "budget factor")
	flag.Parse()
	var f *os.File = os.Stdout
	if *outF != "-" {
		var err error
		f, err = os.OpenFile(*outF, os.O_APPEND|os.O_CREATE|os.O_WRONLY, 0o644)
		if err != nil {
			fmt.Fprintln(os.Stderr, err)
			os.Exit(2)
		}
	}
	out = bufio.NewWriter(f)
	// the analyses print to stdout: silence it
	if devnull, err := os.OpenFile(os.DevNull, os.O_WRONLY, 0); err == nil && *outF != "-" {
		os.Stdout = devnull
	}
	want := map[string]bool{}
	for _, n := range strings.Split(*only, ",") {
		if n != "" {
			want[n] = true
		}
	}
	skipped := map[string]bool{}
	for _, n := range strings.Split(*skip, ",") {
		if n != "" {
			skipped[n] = true
		}
	}
	base := map[string]float64{}
	for _, kv := range strings.Split(*baseFlag, ",") {
		if p := strings.SplitN(kv, "=", 2); len(p) == 2 {
			if v, err := strconv.ParseFloat(p[1], 64); err == nil {
				base[p[0]] = v
			}
		}
	}
	for _, dir := range flag.Args() {
		emit("PROG %s\n", dir)
		prog, pkgs, err := hutil.LoadDir(dir, true)
		if err != nil {
			emit("RES %s load err 0 0 %s\n", dir, strconv.Quote(err.Error()))
			continue
		}
		initT, haveInit := base["init"]
		if !haveInit {
			t0 := time.Now()
			genStats(dir, prog, pkgs)
			initT = time.Since(t0).Seconds()
		}
		emit("INIT %s %.2f\n", dir, initT)
		taintJob := func(fs, ondemand, esc bool) func() error {
			return func() error {
				cfg, err := loadCfg(dir)
				if err != nil {
					return err
				}
				cfg.PathSensitive = fs
				cfg.SummarizeOnDemand = ondemand
				cfg.UseEscapeAnalysis = esc
				_, err = taint.Analyze(cfg, prog, pkgs)
				return err
			}
		}
		backJob := func(fs, ondemand bool) func() error {
			return func() error {
				cfg, err := loadCfg(dir)
				if err != nil {
					return err
				}
				cfg.PathSensitive = fs
				cfg.SummarizeOnDemand = ondemand
				_, err = backtrace.Analyze(quietLog(cfg), cfg, prog, pkgs)
				return err
			}
		}
		newState := func() (*dataflow.AnalyzerState, error) {
			cfg, err := loadCfg(dir)
			if err != nil {
				return nil, err
			}
			return dataflow.NewInitializedAnalyzerState(prog, pkgs, quietLog(cfg), cfg)
		}
		jobs := []job{
			{"taint", "", taintJob(false, false, false)},
			{"taint-fs", "taint", taintJob(true, false, false)},
			{"taint-ondemand", "taint", taintJob(false, true, false)},
			{"taint-fs-ondemand", "taint", taintJob(true, true, false)},
			{"backtrace", "", backJob(false, false)},
			{"backtrace-fs", "backtrace", backJob(true, false)},
			{"backtrace-ondemand", "backtrace", backJob(false, true)},
			{"escape", "", func() error {
				s, err := newState()
				if err != nil {
					return err
				}
				return escape.InitializeEscapeAnalysisState(s)
			}},
			{"taint-escape", "taint+escape", taintJob(false, false, true)},
			{"reachability", "taint", func() error {
				s, err := newState()
				if err != nil {
					return err
				}
				_ = reachability.FindReachable(s, false, false, nil)
				return nil
			}},
			{"defers", "taint", func() error {
				cfg, err := loadCfg(dir)
				if err != nil {
					return err
				}
				defers.AnalyzeProgram(prog, quietLog(cfg))
				return nil
			}},
			{"maypanic", "taint", func() error {
				maypanic.MayPanicAnalyzer(prog, nil, true)
				return nil
			}},
		}
		for _, j := range jobs {
			if (len(want) > 0 && !want[j.name]) || skipped[j.name] {
				continue
			}
			budget := 0.0
			if j.baseline == "" {
				budget = *factor * (initT + *floor) // a baseline has no reference: factor x (the shared part + floor)
			} else {
				extra := 0.0
				for _, bn := range strings.Split(j.baseline, "+") {
					b, ok := base[bn]
					if !ok {
						b = initT
					}
					if b > initT {
						extra += b - initT
					}
				}
				// floor in units of the machine's speed: init (SSA facts + pointer analysis of the std library) is the yardstick
				budget = initT*1.5 + maxf(*factor*extra, maxf(*floor, 3*initT))
			}
			emit("START %s %s\n", dir, j.name)
			st, secs, det := timed(j.run, budget)
			if st == "ok" || st == "err" {
				base[j.name] = secs
			}
			emit("RES %s %s %s %.2f %.2f %s\n", dir, j.name, st, secs, budget, strconv.Quote(det))
			if st == "timeout" {
				out.Flush()
				os.Exit(3)
			}
		}
	}
	out.Flush()
}

func maxf(a, b float64) float64 {
	if a > b {
		return a
	}
	return b
}
