// c08dump runs the REAL intra-procedural dataflow analysis of /repo (dataflow.IntraProceduralAnalysis, the per-function
// entry point used by analysis.RunIntraProceduralPass) on functions of the loaded program(s) and dumps, per function,
//
//	F <fid> <name> <nblocks> <npoints> <nvalues> <nreturninstrs> <nresults> <user|std>
//	P <pid> <blk> <idx> <kind> <defvid|0> <reach 0/1> <aux> : <operand vids, 0 = nil>      one per non-ignored instruction
//	S <pid> : <successor pids>                                                            real CFG over those points
//	O <mid> <P|V|C> <pid> <vid> <idx> <nnodes> <tuplevid|0>                              spec origins (param/freevar/call result)
//	U <uid> <R|A|B|I> <pid> <vid> <aux> <nnodes>                                          spec uses (return/call arg/bound var/if)
//	K <mid> <type letter>                                                                 every implementation mark seen
//	M <pid> <vid> : <mids>                                                                final FlowInformation.MarkedValues
//	E <mid> <uid>                                                                         summary edges origin node -> use node
//	LS <pid> <addr vid> <val vid>                                                         the instruction is the store *addr = val
//	LL <pid> <addr vid>                                                                   the instruction is the load  r = *addr
//	LA <pid>                                                                              the instruction is an Alloc
//	X <text>                                                                              analysis error / note
//	Z                                                                                     end of function
//
// Ids are positive integers local to the function (pid = InstrID+1, vid = ValueID+1).  Everything is taken from exported
// API: the FlowInformation is captured through the public post-block callback, the graph through the node accessors.
package main

import (
	"bufio"
	"flag"
	"fmt"
	"go/token"
	"os"
	"regexp"
	"sort"
	"strings"

	"github.com/awslabs/ar-go-tools/analysis/config"
	"github.com/awslabs/ar-go-tools/analysis/dataflow"
	"github.com/awslabs/ar-go-tools/analysis/lang"
	"github.com/awslabs/ar-go-tools/analysis/summaries"
	"github.com/awslabs/ar-go-tools/verifharness/hutil"
	"golang.org/x/tools/go/ssa"
)

var handledBuiltinNames = map[string]bool{"ssa:wrapnilchk": true, "append": true, "len": true, "close": true, "delete": true,
	"println": true, "print": true, "recover": true, "cap": true, "complex": true, "imag": true, "real": true, "min": true,
	"max": true, "clear": true, "copy": true}

func lcg(seed int64) func(n int) int {
	s := seed&0x7fffffff | 1
	return func(n int) int {
		s = (s*1103515245 + 12345) & 0x7fffffff
		return int(s>>8) % n
	}
}

func markLetter(t dataflow.MarkType) string {
	switch t {
	case dataflow.Parameter:
		return "P"
	case dataflow.FreeVar:
		return "V"
	case dataflow.DefaultMark:
		return "D"
	case dataflow.CallSiteArg:
		return "A"
	case dataflow.CallReturn:
		return "C"
	case dataflow.Closure:
		return "L"
	case dataflow.BoundVar:
		return "B"
	case dataflow.Global:
		return "G"
	case dataflow.Synthetic:
		return "S"
	case dataflow.If:
		return "I"
	}
	return "M"
}

// kindOf gives the instruction kind name and an aux string (no spaces).
func kindOf(ins ssa.Instruction) (string, string) {
	switch x := ins.(type) {
	case *ssa.BinOp:
		return "BinOp", x.Op.String()
	case *ssa.UnOp:
		op := "other"
		switch x.Op {
		case token.MUL:
			op = "deref"
		case token.ARROW:
			op = "recv"
		case token.SUB:
			op = "neg"
		case token.NOT:
			op = "not"
		case token.XOR:
			op = "xor"
		}
		if x.CommaOk {
			op += ",ok"
		}
		return "UnOp", op
	case *ssa.Convert:
		return "Convert", "-"
	case *ssa.ChangeType:
		return "ChangeType", "-"
	case *ssa.ChangeInterface:
		return "ChangeInterface", "-"
	case *ssa.MakeInterface:
		return "MakeInterface", "-"
	case *ssa.TypeAssert:
		if x.CommaOk {
			return "TypeAssert", "ok"
		}
		return "TypeAssert", "-"
	case *ssa.SliceToArrayPointer:
		return "SliceToArrayPointer", "-"
	case *ssa.Slice:
		return "Slice", "-"
	case *ssa.Phi:
		return "Phi", "-"
	case *ssa.Extract:
		_, fromCall := x.Tuple.(*ssa.Call)
		if fromCall {
			return "Extract", fmt.Sprintf("%d,call", x.Index)
		}
		return "Extract", fmt.Sprintf("%d,other", x.Index)
	case *ssa.Field:
		return "Field", fmt.Sprint(x.Field)
	case *ssa.FieldAddr:
		return "FieldAddr", fmt.Sprint(x.Field)
	case *ssa.Index:
		return "Index", "-"
	case *ssa.IndexAddr:
		return "IndexAddr", "-"
	case *ssa.Lookup:
		if x.CommaOk {
			return "Lookup", "ok"
		}
		return "Lookup", "-"
	case *ssa.Next:
		return "Next", "-"
	case *ssa.Range:
		return "Range", "-"
	case *ssa.Select:
		return "Select", "-"
	case *ssa.MakeClosure:
		return "MakeClosure", "-"
	case *ssa.Return:
		return "Return", "-"
	case *ssa.If:
		return "If", "-"
	case *ssa.Jump:
		return "Jump", "-"
	case *ssa.Panic:
		return "Panic", "-"
	case *ssa.RunDefers:
		return "RunDefers", "-"
	case *ssa.Store:
		return "Store", "-"
	case *ssa.MapUpdate:
		return "MapUpdate", "-"
	case *ssa.Send:
		return "Send", "-"
	case *ssa.Alloc:
		return "Alloc", "-"
	case *ssa.MakeSlice:
		return "MakeSlice", "-"
	case *ssa.MakeMap:
		return "MakeMap", "-"
	case *ssa.MakeChan:
		return "MakeChan", "-"
	case *ssa.Call:
		return "Call", "-"
	case *ssa.Go:
		return "Go", "-"
	case *ssa.Defer:
		return "Defer", "-"
	}
	return fmt.Sprintf("%T", ins), "-"
}

// callAux classifies a call instruction independently of the analysis: builtin:<name> for a real ssa.Builtin callee,
// errinvoke for the invoke of a zero-argument method Error, shadow:<name> for a non-builtin callee whose Value.Name() is
// one of the names the analysis treats as a builtin, plain otherwise.  The P line of a call also carries nodes=<call nodes in the
// summary>, callees=<callees resolved by AnalyzerState.ResolveCallee>, nargs=<len(Common().Args)>.
func callAux(ci ssa.CallInstruction) string {
	c := ci.Common()
	if b, ok := c.Value.(*ssa.Builtin); ok {
		if handledBuiltinNames[b.Name()] && (b.Name() != "copy" || len(c.Args) == 2) {
			return "builtin:" + b.Name()
		}
		return "ubuiltin:" + b.Name()
	}
	if c.IsInvoke() {
		if c.Method.Name() == "Error" && len(c.Args) == 0 {
			return "errinvoke"
		}
	}
	if c.Value != nil && handledBuiltinNames[c.Value.Name()] {
		if c.Value.Name() == "copy" && len(c.Args) != 2 {
			return "plain"
		}
		return "shadow:" + c.Value.Name()
	}
	return "plain"
}

type dumper struct {
	w       *bufio.Writer
	state   *dataflow.AnalyzerState
	fid     int
	maxCell int64
	skipped int

	maxFacts      int
	allMarksBelow int
	skippedFacts  int
}

func (d *dumper) dumpFunction(fn *ssa.Function, tag string) {
	var captured *dataflow.IntraAnalysisState
	cb := func(s *dataflow.IntraAnalysisState) { captured = s }
	noTrack := func(*dataflow.AnalyzerState, ssa.Node) bool { return false }
	// size guard before running (same counting as NewFlowInfo)
	nv := map[ssa.Value]bool{}
	lang.IterateValues(fn, func(_ int, v ssa.Value) {
		if v != nil {
			nv[v] = true
		}
	})
	ni := 0
	lang.IterateInstructions(fn, func(_ int, i ssa.Instruction) {
		if _, dbg := i.(*ssa.DebugRef); !dbg {
			ni++
		}
	})
	if d.maxCell > 0 && int64(ni)*int64(len(nv)) > d.maxCell {
		d.skipped++
		return
	}
	var res dataflow.IntraProceduralResult
	var err error
	panicked := ""
	func() {
		defer func() {
			if r := recover(); r != nil {
				panicked = fmt.Sprint(r)
			}
		}()
		res, err = dataflow.IntraProceduralAnalysis(d.state, fn, true, dataflow.GetUniqueFunctionID(), noTrack, cb)
	}()
	d.fid++
	w := d.w
	name := strings.ReplaceAll(fn.String(), " ", "_")
	if panicked != "" {
		fmt.Fprintf(w, "F %d %s 0 0 0 0 0 %s\nX panic:%s\nZ\n", d.fid, name, tag, strings.ReplaceAll(panicked, "\n", "|"))
		return
	}
	sm := res.Summary
	if captured == nil || sm == nil {
		fmt.Fprintf(w, "F %d %s 0 0 0 0 0 %s\nX no-state\nZ\n", d.fid, name, tag)
		return
	}
	fi := captured.FlowInfo()
	// size of the final state; very large states are not dumped, large ones only with the marks of spec origins
	total := 0
	for _, av := range fi.MarkedValues {
		if av != nil {
			total += len(av.AllMarks())
		}
	}
	originOnly := total >= d.allMarksBelow
	keep := func(m *dataflow.Mark) bool {
		if !originOnly {
			return true
		}
		return m.Label == "" && (m.Type == dataflow.Parameter || m.Type == dataflow.FreeVar || m.Type == dataflow.CallReturn)
	}
	if originOnly && d.maxFacts > 0 {
		n := 0
		for _, av := range fi.MarkedValues {
			if av != nil {
				for _, m := range av.AllMarks() {
					if keep(m.Mark) {
						n++
					}
				}
			}
		}
		if n > d.maxFacts {
			d.skippedFacts++
			d.fid--
			return
		}
	}
	nvals := int(fi.NumValues)
	npts := int(fi.NumInstructions)
	nret := 0
	for _, b := range fn.Blocks {
		if len(b.Instrs) > 0 {
			if _, ok := b.Instrs[len(b.Instrs)-1].(*ssa.Return); ok {
				nret++
			}
		}
	}
	fmt.Fprintf(w, "F %d %s %d %d %d %d %d %s\n", d.fid, name, len(fn.Blocks), npts, nvals, nret, fn.Signature.Results().Len(), tag)
	if err != nil {
		fmt.Fprintf(w, "X error:%s\n", strings.ReplaceAll(err.Error(), "\n", "|"))
	}
	pid := func(i ssa.Instruction) int {
		id, ok := fi.InstrID[i]
		if !ok {
			return 0
		}
		return int(id) + 1
	}
	vid := func(v ssa.Value) int {
		if v == nil {
			return 0
		}
		id, ok := fi.ValueID[v]
		if !ok {
			return 0
		}
		return int(id) + 1
	}
	// first non-ignored instruction of each block, reachability from the entry block
	first := make([]ssa.Instruction, len(fn.Blocks))
	last := make([]ssa.Instruction, len(fn.Blocks))
	for _, b := range fn.Blocks {
		for _, ins := range b.Instrs {
			if pid(ins) == 0 {
				continue
			}
			if first[b.Index] == nil {
				first[b.Index] = ins
			}
			last[b.Index] = ins
		}
	}
	reach := make([]bool, len(fn.Blocks))
	stack := []*ssa.BasicBlock{fn.Blocks[0]}
	for len(stack) > 0 {
		b := stack[len(stack)-1]
		stack = stack[:len(stack)-1]
		if reach[b.Index] {
			continue
		}
		reach[b.Index] = true
		stack = append(stack, b.Succs...)
	}
	entry := pid(fi.FirstInstr)
	// uses and origins collected while walking instructions
	type origin struct {
		kind     string
		pid, vid int
		idx      int
		nnodes   int
		tuple    int
		node     ssa.Node
	}
	var origins []origin
	for k, p := range fn.Params {
		n := 0
		if _, ok := sm.Params[p]; ok {
			n = 1
		}
		origins = append(origins, origin{"P", entry, vid(p), k, n, 0, p})
	}
	for k, p := range fn.FreeVars {
		n := 0
		if _, ok := sm.FreeVars[p]; ok {
			n = 1
		}
		origins = append(origins, origin{"V", entry, vid(p), k, n, 0, p})
	}
	type use struct {
		kind     string
		pid, vid int
		aux      string
		nnodes   int
		key      string
	}
	var uses []use
	for _, b := range fn.Blocks {
		prev := 0
		for idx, ins := range b.Instrs {
			p := pid(ins)
			if p == 0 {
				continue
			}
			kind, aux := kindOf(ins)
			def := 0
			if v, ok := ins.(ssa.Value); ok {
				def = vid(v)
			}
			var ops []int
			switch x := ins.(type) {
			case ssa.CallInstruction:
				aux = callAux(x)
				for _, a := range lang.GetArgs(x) {
					ops = append(ops, vid(a))
				}
				c := x.Common()
				nres := c.Signature().Results().Len()
				nn := len(sm.Callees[x])
				// callees resolved by the analyzer state's own resolution (static callee / contracts / call graph / interface
				// implementations), asked independently of the summary's node creation: a non-builtin call with a resolved
				// callee must have a call node
				ncallees := 0
				if cs, err := d.state.ResolveCallee(x, true); err == nil {
					ncallees = len(cs)
				}
				aux = fmt.Sprintf("%s,nres=%d,nodes=%d,fn=%d,callees=%d,nargs=%d", aux, nres, nn, vid(c.Value), ncallees, len(c.Args))
				if call, isCall := ins.(*ssa.Call); isCall && !strings.HasPrefix(aux, "builtin:") && !strings.HasPrefix(aux, "errinvoke") {
					for i := 0; i < nres; i++ {
						t := 0
						if nres > 1 {
							t = def
						}
						origins = append(origins, origin{"C", p, def, i, nn, t, call})
					}
				}
				if !strings.HasPrefix(aux, "builtin:") && !strings.HasPrefix(aux, "errinvoke") {
					seen := map[int]bool{}
					for _, a := range lang.GetArgs(x) {
						if seen[vid(a)] {
							continue
						}
						seen[vid(a)] = true
						uses = append(uses, use{"A", p, vid(a), "-", nn, fmt.Sprintf("A%d.%d", p, vid(a))})
					}
				}
			case *ssa.MakeClosure:
				ops = append(ops, vid(x.Fn))
				nn := 0
				if _, ok := sm.CreatedClosures[x]; ok {
					nn = 1
				}
				seen := map[int]bool{}
				for _, bv := range x.Bindings {
					ops = append(ops, vid(bv))
					if seen[vid(bv)] {
						continue
					}
					seen[vid(bv)] = true
					uses = append(uses, use{"B", p, vid(bv), "-", nn, fmt.Sprintf("B%d.%d", p, vid(bv))})
				}
			case *ssa.Return:
				for i, r := range x.Results {
					ops = append(ops, vid(r))
					nn := 0
					if rs, ok := sm.Returns[x]; ok && i < len(rs) && rs[i] != nil {
						nn = 1
					}
					uses = append(uses, use{"R", p, vid(r), fmt.Sprint(i), nn, fmt.Sprintf("R%d", i)})
				}
			case *ssa.If:
				ops = append(ops, vid(x.Cond))
				nn := 0
				if _, ok := sm.Ifs[x]; ok {
					nn = 1
				}
				uses = append(uses, use{"I", p, vid(x.Cond), "-", nn, fmt.Sprintf("I%d", p)})
			default:
				var rands []*ssa.Value
				rands = ins.Operands(rands)
				for _, r := range rands {
					ops = append(ops, vid(*r))
				}
			}
			r := 0
			if reach[b.Index] {
				r = 1
			}
			fmt.Fprintf(w, "P %d %d %d %s %d %d %s :", p, b.Index, idx, kind, def, r, aux)
			for _, o := range ops {
				fmt.Fprintf(w, " %d", o)
			}
			fmt.Fprintln(w)
			// store / load / alloc tables of the L2 fragment (Lang/RegSem.hfunc)
			switch x := ins.(type) {
			case *ssa.Store:
				fmt.Fprintf(w, "LS %d %d %d\n", p, vid(x.Addr), vid(x.Val))
			case *ssa.UnOp:
				if x.Op == token.MUL {
					fmt.Fprintf(w, "LL %d %d\n", p, vid(x.X))
				}
			case *ssa.Alloc:
				fmt.Fprintf(w, "LA %d\n", p)
			}
			if prev != 0 {
				fmt.Fprintf(w, "S %d : %d\n", prev, p)
			}
			prev = p
		}
		if prev != 0 {
			fmt.Fprintf(w, "S %d :", prev)
			for _, s := range b.Succs {
				if first[s.Index] != nil {
					fmt.Fprintf(w, " %d", pid(first[s.Index]))
				}
			}
			fmt.Fprintln(w)
		}
	}
	// marks: ids by first appearance in a deterministic scan
	markID := map[*dataflow.Mark]int{}
	var markList []*dataflow.Mark
	type cell struct {
		p, v int
	}
	var cells []cell
	for p := 0; p < npts; p++ {
		for v := 0; v < nvals; v++ {
			av := fi.MarkedValues[p*nvals+v]
			if av == nil {
				continue
			}
			all := av.AllMarks()
			if len(all) == 0 {
				continue
			}
			c := cell{p + 1, v + 1}
			for _, m := range all {
				if !keep(m.Mark) {
					continue
				}
				if _, ok := markID[m.Mark]; !ok {
					markList = append(markList, m.Mark)
					markID[m.Mark] = -len(markList) // temporary, renumbered below
				}
			}
			cells = append(cells, c)
		}
	}
	// canonical mark numbering: sort by (type, node point/value id, qualifier vid, index, label)
	mkey := func(m *dataflow.Mark) string {
		np := 0
		if i, ok := m.Node.(ssa.Instruction); ok {
			np = pid(i)
		}
		nvid := 0
		if v, ok := m.Node.(ssa.Value); ok {
			nvid = vid(v)
		}
		return fmt.Sprintf("%s|%06d|%06d|%06d|%03d|%s", markLetter(m.Type), np, nvid, vid(m.Qualifier), m.Index.Value+1, m.Label)
	}
	sort.Slice(markList, func(i, j int) bool { return mkey(markList[i]) < mkey(markList[j]) })
	for i, m := range markList {
		markID[m] = i + 1
	}
	nextMark := len(markList) + 1
	findMark := func(t dataflow.MarkType, node ssa.Node, idx int) int {
		for _, m := range markList {
			if m.Type == t && m.Node == node && m.Label == "" && m.Qualifier == nil {
				if t == dataflow.CallReturn {
					if m.Index.Kind == dataflow.ReturnedTupleIndex && m.Index.Value == idx {
						return markID[m]
					}
					continue
				}
				return markID[m]
			}
		}
		id := nextMark
		nextMark++
		return id
	}
	originMid := map[string]int{}
	for _, o := range origins {
		t := dataflow.Parameter
		switch o.kind {
		case "V":
			t = dataflow.FreeVar
		case "C":
			t = dataflow.CallReturn
		}
		mid := findMark(t, o.node, o.idx)
		fmt.Fprintf(w, "O %d %s %d %d %d %d %d\n", mid, o.kind, o.pid, o.vid, o.idx, o.nnodes, o.tuple)
		switch o.kind {
		case "C":
			originMid[fmt.Sprintf("C%d.%d", o.pid, o.idx)] = mid
		default:
			originMid[fmt.Sprintf("%s%d", o.kind, o.vid)] = mid
		}
	}
	useID := map[string]int{}
	for _, u := range uses {
		id, ok := useID[u.key]
		if !ok {
			id = len(useID) + 1
			useID[u.key] = id
		}
		fmt.Fprintf(w, "U %d %s %d %d %s %d\n", id, u.kind, u.pid, u.vid, u.aux, u.nnodes)
	}
	for _, m := range markList {
		fmt.Fprintf(w, "K %d %s\n", markID[m], markLetter(m.Type))
	}
	for _, c := range cells {
		av := fi.MarkedValues[(c.p-1)*nvals+(c.v-1)]
		ids := []int{}
		seen := map[int]bool{}
		for _, m := range av.AllMarks() {
			if !keep(m.Mark) {
				continue
			}
			id := markID[m.Mark]
			if !seen[id] {
				seen[id] = true
				ids = append(ids, id)
			}
		}
		sort.Ints(ids)
		if len(ids) == 0 {
			continue
		}
		fmt.Fprintf(w, "M %d %d :", c.p, c.v)
		for _, id := range ids {
			fmt.Fprintf(w, " %d", id)
		}
		fmt.Fprintln(w)
	}
	// summary edges from origin nodes to use nodes
	edges := map[[2]int]bool{}
	destID := func(n dataflow.GraphNode) int {
		switch x := n.(type) {
		case *dataflow.ReturnValNode:
			return useID[fmt.Sprintf("R%d", x.Index())]
		case *dataflow.CallNodeArg:
			cs := x.ParentNode().CallSite()
			return useID[fmt.Sprintf("A%d.%d", pid(cs), vid(x.Value()))]
		case *dataflow.BoundVarNode:
			return useID[fmt.Sprintf("B%d.%d", pid(x.ParentNode().Instr()), vid(x.Value()))]
		case *dataflow.IfNode:
			if i := dataflow.Instr(x); i != nil {
				return useID[fmt.Sprintf("I%d", pid(i))]
			}
		}
		return 0
	}
	addOut := func(src dataflow.GraphNode, key func(idx int) string) {
		for dest, infos := range src.Out() {
			u := destID(dest)
			if u == 0 {
				continue
			}
			for _, info := range infos {
				if mid, ok := originMid[key(info.Index)]; ok {
					edges[[2]int{mid, u}] = true
				}
			}
		}
	}
	for p, n := range sm.Params {
		if pv, ok := p.(ssa.Value); ok {
			k := fmt.Sprintf("P%d", vid(pv))
			addOut(n, func(int) string { return k })
		}
	}
	for p, n := range sm.FreeVars {
		if pv, ok := p.(ssa.Value); ok {
			k := fmt.Sprintf("V%d", vid(pv))
			addOut(n, func(int) string { return k })
		}
	}
	for ci, nodes := range sm.Callees {
		cp := pid(ci)
		for _, n := range nodes {
			addOut(n, func(idx int) string { return fmt.Sprintf("C%d.%d", cp, idx) })
		}
	}
	el := make([][2]int, 0, len(edges))
	for e := range edges {
		el = append(el, e)
	}
	sort.Slice(el, func(i, j int) bool {
		if el[i][0] != el[j][0] {
			return el[i][0] < el[j][0]
		}
		return el[i][1] < el[j][1]
	})
	for _, e := range el {
		fmt.Fprintf(w, "E %d %d\n", e[0], e[1])
	}
	fmt.Fprintln(w, "Z")
}

func main() {
	out := flag.String("o", "-", "output file")
	user := flag.Bool("user", true, "dump the user-defined (non standard library) functions of each program")
	nstd := flag.Int("std", 0, "number of standard-library functions to sample per run (-1: all reachable)")
	seed := flag.Int64("seed", 1, "seed of the sample")
	maxCell := flag.Int64("maxcells", 400000, "skip functions with points*values above this (0: no limit)")
	only := flag.String("only", "", "regexp: only dump functions whose name matches")
	base := flag.String("base", "", "load all arguments as package patterns of ONE program with this working directory")
	maxFacts := flag.Int("maxfacts", 150000, "do not dump functions with more (point,value,mark) facts than this (0: no limit)")
	allMarks := flag.Int("allmarks-below", 20000, "dump marks of every type when the function has fewer facts than this, else only parameter/free variable/call-return marks")
	flag.Parse()
	w := bufio.NewWriterSize(os.Stdout, 1<<20)
	if *out != "-" {
		f, err := os.Create(*out)
		if err != nil {
			panic(err)
		}
		defer f.Close()
		w = bufio.NewWriterSize(f, 1<<20)
	}
	defer w.Flush()
	var onlyRe *regexp.Regexp
	if *only != "" {
		onlyRe = regexp.MustCompile(*only)
	}
	rnd := lcg(*seed)
	doneStd := map[string]bool{}
	d := &dumper{w: w, maxCell: *maxCell, maxFacts: *maxFacts, allMarksBelow: *allMarks}
	dirs := flag.Args()
	patterns := [][]string{}
	if *base != "" {
		patterns = append(patterns, dirs)
		dirs = []string{*base}
	} else {
		for range dirs {
			patterns = append(patterns, []string{"."})
		}
	}
	stdLeft := *nstd
	for di, dir := range dirs {
		prog, pkgs, err := hutil.LoadDir(dir, false, patterns[di]...)
		if err != nil {
			fmt.Fprintf(os.Stderr, "load %s: %v\n", dir, err)
			os.Exit(2)
		}
		cfg := config.NewDefault()
		cfg.LogLevel = int(config.ErrLevel)
		state, err := dataflow.NewInitializedAnalyzerState(prog, pkgs, config.NewLogGroup(cfg), cfg)
		if err != nil {
			fmt.Fprintf(os.Stderr, "state %s: %v\n", dir, err)
			os.Exit(2)
		}
		d.state = state
		reachable := state.ReachableFunctions()
		var userFns, stdFns []*ssa.Function
		for _, fn := range hutil.SortedFunctions(prog) {
			if len(fn.Blocks) == 0 || len(fn.Blocks[0].Instrs) == 0 || !reachable[fn] {
				continue
			}
			if onlyRe != nil && !onlyRe.MatchString(fn.String()) {
				continue
			}
			if summaries.IsUserDefinedFunction(fn) {
				userFns = append(userFns, fn)
			} else if !doneStd[fn.String()] {
				stdFns = append(stdFns, fn)
			}
		}
		fmt.Fprintf(w, "D %s user=%d std=%d\n", dir, len(userFns), len(stdFns))
		if *user {
			for _, fn := range userFns {
				d.dumpFunction(fn, "user")
			}
		}
		// standard library sample: the per-directory share of the requested number, chosen by the seeded generator
		want := 0
		if *nstd < 0 {
			want = len(stdFns)
		} else if stdLeft > 0 {
			want = stdLeft / (len(dirs) - di)
			if want > len(stdFns) {
				want = len(stdFns)
			}
			stdLeft -= want
		}
		if want >= len(stdFns) {
			for _, fn := range stdFns {
				doneStd[fn.String()] = true
				d.dumpFunction(fn, "std")
			}
		} else {
			perm := make([]int, len(stdFns))
			for i := range perm {
				perm[i] = i
			}
			for i := 0; i < want; i++ {
				j := i + rnd(len(perm)-i)
				perm[i], perm[j] = perm[j], perm[i]
			}
			sel := perm[:want]
			sort.Ints(sel)
			for _, k := range sel {
				doneStd[stdFns[k].String()] = true
				d.dumpFunction(stdFns[k], "std")
			}
		}
	}
	fmt.Fprintf(w, "T skipped_too_large=%d skipped_too_many_facts=%d\n", d.skipped, d.skippedFacts)
}
