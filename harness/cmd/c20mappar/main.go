// c20mappar drives the REAL funcutil.MapParallel (meant to be built with -race) on seed-generated cases and prints,
// per case, everything the check compares with the sequential map and with the Coq model:
//
//	C <i> len=<n> nr=<k> prof=<p> typ=<t> eq=<0|1> g0=<before> g1=<after settle> ms=<wall> [first-diff=<j>]
//	R <i> <y0> <y1> ...          the result of MapParallel for the int cases (f x = 3x+1), for the model tie
//	X <i> <x0> <x1> ...          the input of that case
//	HANG <i> ...                 the call did not return within the watchdog time (deadlock)
//	PANIC <i> <msg>
//
// Cases: lengths 0..200 (all boundary values first, then seed-derived), numRoutines in {-3,0,1,2,7,64}, functions with
// skewed latencies (sleep / Gosched on some indices) and three element-type instantiations of the generic function.
package main

import (
	"flag"
	"fmt"
	"os"
	"runtime"
	"strings"
	"time"

	"github.com/awslabs/ar-go-tools/internal/funcutil"
)

type lcg struct{ s uint64 }

func (l *lcg) next(n int) int {
	l.s = (l.s*1103515245 + 12345) & 0x7fffffff
	v := int(l.s >> 8)
	if n > 0 {
		return v % n
	}
	return v
}

var routines = []int{-3, 0, 1, 2, 7, 64}
var profiles = []string{"none", "yield", "slowfirst", "slowlast", "random", "slowone"}

// delay implements the latency profile for element index i of n
func delay(prof string, i, n int, salt int) {
	switch prof {
	case "none":
	case "yield":
		if (i+salt)%3 == 0 {
			runtime.Gosched()
		}
	case "slowfirst":
		if i < 3 {
			time.Sleep(300 * time.Microsecond)
		}
	case "slowlast":
		if i >= n-3 {
			time.Sleep(300 * time.Microsecond)
		}
	case "random":
		switch (i*7 + salt) % 11 {
		case 0:
			time.Sleep(50 * time.Microsecond)
		case 1, 2:
			runtime.Gosched()
		}
	case "slowone":
		if i == (salt % (n + 1)) {
			time.Sleep(2 * time.Millisecond)
		}
	}
}

type rec struct {
	Idx  int
	Name string
}

func settle(g0 int, maxWait time.Duration) int {
	deadline := time.Now().Add(maxWait)
	g := runtime.NumGoroutine()
	for g > g0 && time.Now().Before(deadline) {
		time.Sleep(2 * time.Millisecond)
		g = runtime.NumGoroutine()
	}
	return g
}

func main() {
	seed := flag.Int("seed", 1, "")
	ncases := flag.Int("cases", 150, "number of seed-derived cases after the boundary cases")
	watchdog := flag.Int("watchdog-s", 120, "per-case deadlock watchdog")
	flag.Parse()
	rnd := &lcg{uint64(*seed)&0x7fffffff | 1}

	type tcase struct {
		n, nr     int
		prof, typ string
		salt      int
	}
	var cases []tcase
	// boundary grid: every numRoutines value with lengths around 0, 1, nr, nr+1
	for _, nr := range routines {
		for _, n := range []int{0, 1, 2, 3, 6, 7, 8, 63, 64, 65, 200} {
			cases = append(cases, tcase{n, nr, profiles[(n+nr+9)%len(profiles)], "int", n})
		}
	}
	for i := 0; i < *ncases; i++ {
		typ := []string{"int", "int", "string", "struct"}[rnd.next(4)]
		cases = append(cases, tcase{rnd.next(201), routines[rnd.next(len(routines))], profiles[rnd.next(len(profiles))],
			typ, rnd.next(1000)})
	}

	exit := 0
	leaks := 0
	runtime.GC()
	time.Sleep(10 * time.Millisecond)
	gBase := runtime.NumGoroutine()
	for ci, c := range cases {
		xs := make([]int, c.n)
		for i := range xs {
			xs[i] = (c.salt*31 + i*7) % 1000
		}
		// a previous case cannot have left goroutines behind unless it leaked (reported there)
		g0 := settle(gBase, 50*time.Millisecond)
		start := time.Now()
		done := make(chan string, 1)
		var eq bool
		firstDiff := -1
		var resInts []int
		go func() {
			defer func() {
				if r := recover(); r != nil {
					done <- fmt.Sprintf("PANIC %d %v", ci, r)
				}
			}()
			switch c.typ {
			case "int":
				f := func(x int) int { delay(c.prof, indexOf(x, c.salt), c.n, c.salt); return 3*x + 1 }
				// the function only sees the element, so latency is keyed on a position recovered from the value
				want := funcutil.Map(xs, func(x int) int { return 3*x + 1 })
				got := funcutil.MapParallel(xs, f, c.nr)
				resInts = got
				eq = len(got) == len(want)
				for i := 0; eq && i < len(want); i++ {
					if got[i] != want[i] {
						eq = false
						firstDiff = i
					}
				}
			case "string":
				ss := funcutil.Map(xs, func(x int) string { return fmt.Sprintf("s%d", x) })
				f := func(s string) string {
					delay(c.prof, len(s)+int(s[len(s)-1]), c.n, c.salt)
					return strings.ToUpper(s) + "!"
				}
				want := funcutil.Map(ss, func(s string) string { return strings.ToUpper(s) + "!" })
				got := funcutil.MapParallel(ss, f, c.nr)
				eq = len(got) == len(want)
				for i := 0; eq && i < len(want); i++ {
					if got[i] != want[i] {
						eq = false
						firstDiff = i
					}
				}
			case "struct":
				rs := make([]rec, c.n)
				for i := range rs {
					rs[i] = rec{i, fmt.Sprintf("r%d", xs[i])}
				}
				f := func(r rec) *rec { delay(c.prof, r.Idx, c.n, c.salt); return &rec{r.Idx * 2, r.Name + "'"} }
				got := funcutil.MapParallel(rs, f, c.nr)
				eq = len(got) == len(rs)
				for i := 0; eq && i < len(rs); i++ {
					if got[i] == nil || got[i].Idx != 2*i || got[i].Name != rs[i].Name+"'" {
						eq = false
						firstDiff = i
					}
				}
			}
			done <- ""
		}()
		select {
		case msg := <-done:
			if msg != "" {
				fmt.Println(msg)
				exit = 1
				continue
			}
		case <-time.After(time.Duration(*watchdog) * time.Second):
			fmt.Printf("HANG %d len=%d nr=%d prof=%s typ=%s goroutines=%d\n", ci, c.n, c.nr, c.prof, c.typ, runtime.NumGoroutine())
			buf := make([]byte, 1<<16)
			n := runtime.Stack(buf, true)
			fmt.Fprintln(os.Stderr, string(buf[:n]))
			os.Exit(3)
		}
		ms := time.Since(start).Milliseconds()
		// a goroutine that is only slow to exit is given 5 s; once leaks have been seen the wait is cut short
		wait := 5 * time.Second
		if leaks >= 2 {
			wait = 250 * time.Millisecond
		}
		g1 := settle(g0, wait)
		if g1 > g0 {
			leaks++
		}
		e := 0
		if eq {
			e = 1
		}
		extra := ""
		if firstDiff >= 0 {
			extra = fmt.Sprintf(" first-diff=%d", firstDiff)
		}
		fmt.Printf("C %d len=%d nr=%d prof=%s typ=%s salt=%d eq=%d g0=%d g1=%d ms=%d%s\n", ci, c.n, c.nr, c.prof, c.typ, c.salt, e, g0, g1,
			ms, extra)
		if c.typ == "int" {
			fmt.Printf("X %d%s\n", ci, joinInts(xs))
			fmt.Printf("R %d%s\n", ci, joinInts(resInts))
		}
		if !eq || g1 > g0 {
			exit = 1
		}
	}
	os.Exit(exit)
}

// indexOf recovers some position-like number from the value (the mapped function only sees the element)
func indexOf(x, salt int) int {
	v := (x - salt*31) % 1000
	if v < 0 {
		v += 1000
	}
	// x = (salt*31 + i*7) mod 1000  =>  i*7 = v mod 1000; 7*143 = 1001 = 1 mod 1000
	return (v * 143) % 1000
}

func joinInts(xs []int) string {
	var sb strings.Builder
	for _, x := range xs {
		fmt.Fprintf(&sb, " %d", x)
	}
	return sb.String()
}
