// c20racer runs the REAL taint driver (taint.Analyze: parallel state initialisation, MapParallel summary workers,
// BuildGraph incl. the report-summaries writer goroutine, visitor) in-process on one program under one option
// combination.  It is meant to be built with -race; the race detector's reports go to GORACE log_path files which the
// check (tools/props/c20.py) parses.  Around the call it measures what the property's last clauses are about:
//
//	G <before> <at-return> <after-settle>            goroutine counts (runtime.NumGoroutine)
//	F <kind> <file> <size-at-return> <size-after-settle> <sha-after-settle>    every report file
//	H <kind> <file> <n> <sha of sorted section headers>                         summaries file: section header set
//	S <number of non-nil summaries in the final flow graph> <sha of their sorted names>
//	E <sha of the sorted "func:" names expected in a complete summaries report>  (summaries present at BuildGraph time)
//	T <number of taint flows>
//
// With -nr >= 0 the pipeline of taint.Analyze is replayed step by step with that numRoutines (Analyze itself hard-wires
// NumCPU-1); -nr -1 calls taint.Analyze itself.
package main

import (
	"crypto/sha1"
	"flag"
	"fmt"
	"os"
	"path/filepath"
	"regexp"
	"runtime"
	"sort"
	"strings"
	"time"

	"github.com/awslabs/ar-go-tools/analysis"
	"github.com/awslabs/ar-go-tools/analysis/config"
	"github.com/awslabs/ar-go-tools/analysis/dataflow"
	"github.com/awslabs/ar-go-tools/analysis/taint"
	"github.com/awslabs/ar-go-tools/verifharness/hutil"
	"golang.org/x/tools/go/ssa"
)

func sha(s string) string { return fmt.Sprintf("%x", sha1.Sum([]byte(s)))[:12] }

type fileInfo struct {
	name string
	size int64
}

func listReports(dir string) []fileInfo {
	var out []fileInfo
	ents, _ := os.ReadDir(dir)
	for _, e := range ents {
		if e.IsDir() {
			continue
		}
		st, err := os.Stat(filepath.Join(dir, e.Name()))
		if err == nil {
			out = append(out, fileInfo{e.Name(), st.Size()})
		}
	}
	sort.Slice(out, func(i, j int) bool { return out[i].name < out[j].name })
	return out
}

func kindOf(name string) string {
	for _, k := range []string{"summaries", "summary-times", "coverage", "flow", "nocalleesites"} {
		if strings.HasPrefix(name, k+"-") {
			return k
		}
	}
	return "other"
}

var header = regexp.MustCompile(`^[^\t ].*:$`)

func main() {
	dir := flag.String("dir", "", "program directory (package main)")
	cfgPath := flag.String("config", "", "config.yaml (default <dir>/config.yaml)")
	reports := flag.String("reports", "", "reports directory (created; must be empty)")
	rs := flag.Bool("report-summaries", false, "")
	rc := flag.Bool("report-coverage", false, "")
	rp := flag.Bool("report-paths", false, "")
	od := flag.Bool("summarize-on-demand", false, "")
	nr := flag.Int("nr", -1, "numRoutines for the intra-procedural pass (-1: call taint.Analyze itself)")
	settle := flag.Int("settle-ms", 300, "time to wait after Analyze returned before re-measuring")
	flag.Parse()
	if *cfgPath == "" {
		*cfgPath = filepath.Join(*dir, "config.yaml")
	}
	cfg, err := config.LoadFromFiles(*cfgPath)
	if err != nil {
		fmt.Fprintln(os.Stderr, "config:", err)
		os.Exit(2)
	}
	if err := os.MkdirAll(*reports, 0750); err != nil {
		fmt.Fprintln(os.Stderr, "reports:", err)
		os.Exit(2)
	}
	cfg.ReportsDir = *reports
	cfg.ReportSummaries = *rs
	cfg.ReportCoverage = *rc
	cfg.ReportPaths = *rp
	cfg.SummarizeOnDemand = *od
	cfg.LogLevel = int(config.ErrLevel)

	prog, pkgs, err := hutil.LoadDir(*dir, true)
	if err != nil {
		fmt.Fprintln(os.Stderr, "load:", err)
		os.Exit(2)
	}

	runtime.GC()
	time.Sleep(20 * time.Millisecond)
	g0 := runtime.NumGoroutine()

	var state *dataflow.AnalyzerState
	nflows := 0
	if *nr < 0 {
		res, err := taint.Analyze(cfg, prog, pkgs)
		if err != nil {
			fmt.Fprintln(os.Stderr, "analyze:", err)
		}
		state = res.State
		if res.TaintFlows != nil {
			for _, srcs := range res.TaintFlows.Sinks {
				nflows += len(srcs)
			}
		}
	} else {
		// the steps of taint.Analyze with an explicit numRoutines
		state, err = dataflow.NewInitializedAnalyzerState(prog, pkgs, config.NewLogGroup(cfg), cfg)
		if err != nil {
			fmt.Fprintln(os.Stderr, "state:", err)
			os.Exit(2)
		}
		if err := taint.AnalysisPreamble(state); err != nil {
			fmt.Fprintln(os.Stderr, "preamble:", err)
			os.Exit(2)
		}
		analysis.RunIntraProceduralPass(state, *nr, analysis.IntraAnalysisParams{
			ShouldBuildSummary: dataflow.ShouldBuildSummary, ShouldTrack: taint.IsNodeOfInterest})
		nflows = -1
		for i := range state.Config.TaintTrackingProblems {
			spec := &state.Config.TaintTrackingProblems[i]
			visitor := taint.NewVisitor(spec)
			analysis.RunInterProcedural(state, visitor, analysis.InterProceduralParams{
				IsEntrypoint: func(node ssa.Node) bool { return taint.IsSourceNode(state, spec, node) }})
		}
	}
	// ---- the analysis has returned: everything below is "after return"
	g1 := runtime.NumGoroutine()
	atReturn := listReports(*reports)
	time.Sleep(time.Duration(*settle) * time.Millisecond)
	g2 := runtime.NumGoroutine()
	after := listReports(*reports)
	fmt.Printf("G %d %d %d\n", g0, g1, g2)
	if g2 > g0 {
		buf := make([]byte, 1<<20)
		n := runtime.Stack(buf, true)
		for _, l := range strings.Split(string(buf[:n]), "\n") {
			fmt.Printf("L %s\n", l)
		}
	}
	sizeAt := map[string]int64{}
	for _, f := range atReturn {
		sizeAt[f.name] = f.size
	}
	for _, f := range after {
		b, _ := os.ReadFile(filepath.Join(*reports, f.name))
		at, ok := sizeAt[f.name]
		if !ok {
			at = -1
		}
		fmt.Printf("F %s %s %d %d %s\n", kindOf(f.name), f.name, at, f.size, sha(string(b)))
		if kindOf(f.name) == "summaries" {
			var hs []string
			for _, l := range strings.Split(string(b), "\n") {
				if header.MatchString(l) && !strings.HasPrefix(l, "subgraph") && l != "}" {
					hs = append(hs, l)
				}
			}
			sort.Strings(hs)
			fmt.Printf("H %s %s %d %s\n", kindOf(f.name), f.name, len(hs), sha(strings.Join(hs, "\n")))
		}
	}
	if state != nil && state.FlowGraph != nil {
		var names []string
		for _, s := range state.FlowGraph.Summaries {
			if s != nil && s.Parent != nil {
				names = append(names, s.Parent.String()+":")
			}
		}
		sort.Strings(names)
		fmt.Printf("S %d %s\n", len(names), sha(strings.Join(names, "\n")))
	}
	fmt.Printf("T %d\n", nflows)
}
