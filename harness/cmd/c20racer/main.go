// c20racer runs the REAL taint driver (taint.Analyze: parallel state initialisation, MapParallel summary workers,
// BuildGraph incl. the report-summaries writer goroutine, visitor) in-process on one program under a sequence of
// option combinations.  It is meant to be built with -race; the race detector's reports go to the GORACE log_path
// file, which the check (tools/props/c20.py) parses and attributes to runs by the byte offsets printed here.
// The program is loaded once (loading dominates the cost); every run gets a fresh config, state and reports dir.
//
// Per run k (lines are prefixed with the run index):
//
//	k BEGIN <options> racelog=<size of the race log before the run>
//	k G <before> <at-return> <after-settle>            goroutine counts (runtime.NumGoroutine)
//	k L <stack line>                                   stacks of all goroutines if more are alive after the settle
//	k F <kind> <file> <size-at-return> <size-after-settle> <sha> <sha of sorted lines>   every report file
//	k H <kind> <file> <n> <sha of sorted section headers>                                  summaries file sections
//	k E <expected sections> <missing> <first missing>  (nr>=0 mode) sections a complete summaries report must contain
//	                                                   = the summaries present when BuildGraph starts
//	k S <non-nil summaries in the final flow graph> <sha of their sorted names>
//	k T <number of taint flows | -1>
//	k END racelog=<size after the run and after the leftover goroutines have finished> waited_ms=<..> g=<..>
//
// A run spec is a comma-separated list of: rs (report-summaries) rc (report-coverage) rp (report-paths)
// od (summarize-on-demand) nr=<n> (replay the steps of taint.Analyze with that numRoutines; Analyze itself hard-wires
// NumCPU-1) twice (with nr: run the intra-procedural pass a second time on the same state before the inter-procedural
// pass, as the interactive cli's `summarize` / `rebuild` commands do).  Runs are separated by ';'.
// Every run is executed under a wall-clock watchdog (-watchdog-s); when it expires the harness prints
//
//	k HANG <phase> goroutines=<n>      followed by "k L" lines with the stacks of all goroutines
//
// and exits with status 3 (a deadlock of the analysis, e.g. a mutex that is never released).
package main

import (
	"crypto/sha1"
	"flag"
	"fmt"
	"os"
	"path/filepath"
	"regexp"
	"runtime"
	"sort"
	"strconv"
	"strings"
	"sync/atomic"
	"time"

	"github.com/awslabs/ar-go-tools/analysis"
	"github.com/awslabs/ar-go-tools/analysis/config"
	"github.com/awslabs/ar-go-tools/analysis/dataflow"
	"github.com/awslabs/ar-go-tools/analysis/taint"
	"github.com/awslabs/ar-go-tools/verifharness/hutil"
	"golang.org/x/tools/go/ssa"
)

func sha(s string) string { return fmt.Sprintf("%x", sha1.Sum([]byte(s)))[:12] }

type fileInfo struct {
	name string
	size int64
}

func listReports(dir string) []fileInfo {
	var out []fileInfo
	ents, _ := os.ReadDir(dir)
	for _, e := range ents {
		if e.IsDir() {
			continue
		}
		st, err := os.Stat(filepath.Join(dir, e.Name()))
		if err == nil {
			out = append(out, fileInfo{e.Name(), st.Size()})
		}
	}
	sort.Slice(out, func(i, j int) bool { return out[i].name < out[j].name })
	return out
}

func kindOf(name string) string {
	for _, k := range []string{"summaries", "summary-times", "coverage", "flow", "nocalleesites"} {
		if strings.HasPrefix(name, k+"-") {
			return k
		}
	}
	return "other"
}

var header = regexp.MustCompile(`^[^\t ].*:$`)

func raceLogSize() int64 {
	for _, kv := range strings.Fields(os.Getenv("GORACE")) {
		if strings.HasPrefix(kv, "log_path=") {
			st, err := os.Stat(fmt.Sprintf("%s.%d", strings.TrimPrefix(kv, "log_path="), os.Getpid()))
			if err == nil {
				return st.Size()
			}
		}
	}
	return 0
}

func summaryNames(state *dataflow.AnalyzerState) []string {
	var names []string
	for _, s := range state.FlowGraph.Summaries {
		if s != nil && s.Parent != nil {
			names = append(names, s.Parent.String()+":")
		}
	}
	sort.Strings(names)
	return names
}

func main() {
	dir := flag.String("dir", "", "program directory (package main)")
	cfgPath := flag.String("config", "", "config.yaml (default <dir>/config.yaml)")
	reports := flag.String("reports", "", "reports directory (one sub-directory per run is created)")
	runs := flag.String("runs", "", "run specs, e.g. 'rs;rs,rc,rp;od;nr=0'")
	settle := flag.Int("settle-ms", 300, "time to wait after the analysis returned before re-measuring")
	watchdog := flag.Int("watchdog-s", 600, "wall-clock bound of the first run (deadlock detection); later runs: max(60 s, 10 x the slowest completed run)")
	flag.Parse()
	if *cfgPath == "" {
		*cfgPath = filepath.Join(*dir, "config.yaml")
	}
	prog, pkgs, err := hutil.LoadDir(*dir, true)
	if err != nil {
		fmt.Fprintln(os.Stderr, "load:", err)
		os.Exit(2)
	}
	fmt.Println("LOADED")
	var slowest time.Duration

	for k, spec := range strings.Split(*runs, ";") {
		p := func(format string, a ...interface{}) {
			fmt.Printf("%d "+format+"\n", append([]interface{}{k}, a...)...)
		}
		cfg, err := config.LoadFromFiles(*cfgPath)
		if err != nil {
			fmt.Fprintln(os.Stderr, "config:", err)
			os.Exit(2)
		}
		rdir := filepath.Join(*reports, strconv.Itoa(k))
		if err := os.MkdirAll(rdir, 0750); err != nil {
			fmt.Fprintln(os.Stderr, "reports:", err)
			os.Exit(2)
		}
		cfg.ReportsDir = rdir
		cfg.LogLevel = int(config.ErrLevel)
		nr := -1
		twice := false
		for _, o := range strings.Split(strings.TrimSpace(spec), ",") {
			switch {
			case o == "rs":
				cfg.ReportSummaries = true
			case o == "rc":
				cfg.ReportCoverage = true
			case o == "rp":
				cfg.ReportPaths = true
			case o == "od":
				cfg.SummarizeOnDemand = true
			case strings.HasPrefix(o, "nr="):
				nr, _ = strconv.Atoi(o[3:])
			case o == "twice":
				twice = true
			case o == "" || o == "none":
			default:
				fmt.Fprintln(os.Stderr, "unknown option", o)
				os.Exit(2)
			}
		}
		runtime.GC()
		time.Sleep(20 * time.Millisecond)
		g0 := runtime.NumGoroutine()
		p("BEGIN %s racelog=%d", spec, raceLogSize())

		var state *dataflow.AnalyzerState
		var expected []string
		nflows := 0
		var phase atomic.Value
		phase.Store("start")
		done := make(chan struct{})
		go func() {
			defer close(done)
			if nr < 0 {
				phase.Store("taint.Analyze")
				res, err := taint.Analyze(cfg, prog, pkgs)
				if err != nil {
					fmt.Fprintln(os.Stderr, "analyze:", err)
				}
				state = res.State
				if res.TaintFlows != nil {
					for _, srcs := range res.TaintFlows.Sinks {
						nflows += len(srcs)
					}
				}
				return
			}
			// the steps of taint.Analyze with an explicit numRoutines
			phase.Store("NewInitializedAnalyzerState")
			st, err := dataflow.NewInitializedAnalyzerState(prog, pkgs, config.NewLogGroup(cfg), cfg)
			if err != nil {
				fmt.Fprintln(os.Stderr, "state:", err)
				os.Exit(2)
			}
			state = st
			phase.Store("AnalysisPreamble")
			if err := taint.AnalysisPreamble(state); err != nil {
				fmt.Fprintln(os.Stderr, "preamble:", err)
				os.Exit(2)
			}
			params := analysis.IntraAnalysisParams{ShouldBuildSummary: dataflow.ShouldBuildSummary, ShouldTrack: taint.IsNodeOfInterest}
			phase.Store("RunIntraProceduralPass")
			analysis.RunIntraProceduralPass(state, nr, params)
			if twice {
				phase.Store("RunIntraProceduralPass(second time on the same state)")
				analysis.RunIntraProceduralPass(state, nr, params)
			}
			expected = summaryNames(state)
			nflows = -1
			phase.Store("RunInterProcedural")
			for i := range state.Config.TaintTrackingProblems {
				spec := &state.Config.TaintTrackingProblems[i]
				visitor := taint.NewVisitor(spec)
				analysis.RunInterProcedural(state, visitor, analysis.InterProceduralParams{
					IsEntrypoint: func(node ssa.Node) bool { return taint.IsSourceNode(state, spec, node) }})
			}
		}()
		bound := time.Duration(*watchdog) * time.Second
		if slowest > 0 {
			bound = 10 * slowest
			if bound < 60*time.Second {
				bound = 60 * time.Second
			}
		}
		began := time.Now()
		select {
		case <-done:
			if d := time.Since(began); d > slowest {
				slowest = d
			}
		case <-time.After(bound):
			p("HANG %s goroutines=%d", phase.Load(), runtime.NumGoroutine())
			buf := make([]byte, 1<<20)
			n := runtime.Stack(buf, true)
			for _, l := range strings.Split(string(buf[:n]), "\n") {
				p("L %s", l)
			}
			os.Exit(3)
		}
		// ---- the analysis has returned: everything below is "after return"
		g1 := runtime.NumGoroutine()
		atReturn := listReports(rdir)
		time.Sleep(time.Duration(*settle) * time.Millisecond)
		g2 := runtime.NumGoroutine()
		after := listReports(rdir)
		p("G %d %d %d", g0, g1, g2)
		if g2 > g0 {
			buf := make([]byte, 1<<20)
			n := runtime.Stack(buf, true)
			for _, l := range strings.Split(string(buf[:n]), "\n") {
				p("L %s", l)
			}
		}
		sizeAt := map[string]int64{}
		for _, f := range atReturn {
			sizeAt[f.name] = f.size
		}
		for _, f := range after {
			b, _ := os.ReadFile(filepath.Join(rdir, f.name))
			at, ok := sizeAt[f.name]
			if !ok {
				at = -1
			}
			lines := strings.Split(string(b), "\n")
			sort.Strings(lines)
			p("F %s %s %d %d %s %s", kindOf(f.name), f.name, at, f.size, sha(string(b)), sha(strings.Join(lines, "\n")))
			if kindOf(f.name) == "summaries" {
				var hs []string
				for _, l := range strings.Split(string(b), "\n") {
					if header.MatchString(l) && !strings.HasPrefix(l, "subgraph") && l != "}" {
						hs = append(hs, l)
					}
				}
				sort.Strings(hs)
				p("H %s %s %d %s", kindOf(f.name), f.name, len(hs), sha(strings.Join(hs, "\n")))
				if expected != nil {
					have := map[string]bool{}
					for _, h := range hs {
						have[h] = true
					}
					missing := 0
					first := ""
					for _, e := range expected {
						if !have[e] {
							missing++
							if first == "" {
								first = e
							}
						}
					}
					p("E %d %d %q", len(expected), missing, first)
				}
			}
		}
		if state != nil && state.FlowGraph != nil {
			names := summaryNames(state)
			p("S %d %s", len(names), sha(strings.Join(names, "\n")))
		}
		p("T %d", nflows)
		// let goroutines left behind by this run finish, so that they are not attributed to the next run
		start := time.Now()
		g := runtime.NumGoroutine()
		for g > g0 && time.Since(start) < 60*time.Second {
			time.Sleep(20 * time.Millisecond)
			g = runtime.NumGoroutine()
		}
		p("END racelog=%d waited_ms=%d g=%d", raceLogSize(), time.Since(start).Milliseconds(), g)
	}
}
