// trun runs the REAL taint (or backtrace) analysis of /repo in-process on one program directory under a list of
// configurations and prints one canonical JSON document (the observation side of the C01/C05/C06 ties).
//
//	trun -dir <program dir> [-config config.yaml] [-patterns ./...] [-timeout 120 (per run, counted after the program is loaded; raised to 6 x load time on a slow machine)] [-cpus n] [-o out.json] spec...
//
// Each spec is a comma separated list of key=value settings applied on top of the config file:
//
//	fs=0|1    field-sensitive          od=0|1  summarize-on-demand      rw=0|1  source rewrites (LoadProgramOptions.ApplyRewrites)
//	pf=<re>   pkg-filter               rep=0|1 report-paths/-summaries/-coverage/-no-callee-sites into a scratch reports dir
//	ll=<n>    log-level (1..5)         ma=<k>  max-alarms               bt=0|1  run the backtrace analysis instead of taint
//	n=<K>     repeat the run K times in this process (program re-loaded every time)
//	esc=0|1   use-escape-analysis
//
// -cpus n re-executes trun with the CPU affinity mask restricted to n CPUs, so that runtime.NumCPU() (from which
// taint.Analyze derives its number of worker routines, NumCPU-1) is n.
//
// A crash (panic) or a divergence (timeout) of the analysis is reported in the JSON, it is not fatal: the remaining
// specs after a timeout are reported as skipped (the runaway goroutine cannot be killed) and trun exits.
//
// Output: {"dir":…, "numcpu":…, "runs":[{"spec":…, "iter":i, "pairs":[[src,snk,source callee,sink callee],…], "escapes":[[src,esc],…],
// "traces":[[first,last,entry],…], "errors":[…], "exit":0|1, "panic":"", "timeout":false, "wall_s":…}]}
// positions are file:line:col relative to the program dir; exit is what `argot taint` would return (0 ok, 1 = error
// or flows/escapes found).
package main

import (
	"encoding/json"
	"flag"
	"fmt"
	"os"
	"os/exec"
	"path/filepath"
	"runtime"
	"runtime/debug"
	"sort"
	"strconv"
	"strings"
	"syscall"
	"time"
	"unsafe"

	"github.com/awslabs/ar-go-tools/analysis"
	"github.com/awslabs/ar-go-tools/analysis/backtrace"
	"github.com/awslabs/ar-go-tools/analysis/config"
	"github.com/awslabs/ar-go-tools/analysis/taint"
	"golang.org/x/tools/go/packages"
	"golang.org/x/tools/go/ssa"
)

type runResult struct {
	Spec    string      `json:"spec"`
	Iter    int         `json:"iter"`
	Pairs   [][4]string `json:"pairs"`
	Escapes [][2]string `json:"escapes"`
	Traces  [][3]string `json:"traces"`
	Errors  []string    `json:"errors"`
	Exit    int         `json:"exit"`
	Panic   string      `json:"panic"`
	Timeout bool        `json:"timeout"`
	Skipped bool        `json:"skipped"`
	LoadErr string      `json:"load_error"`
	Wall    float64     `json:"wall_s"`
	LoadS   float64     `json:"load_s"`
	NumCPU  int         `json:"numcpu"`
}

type output struct {
	Dir    string      `json:"dir"`
	NumCPU int         `json:"numcpu"`
	Runs   []runResult `json:"runs"`
}

type spec struct {
	raw                         string
	fs, od, rw, rep, bt, esc    bool
	pf                          string
	ll, ma, n                   int
	hasFs, hasOd, hasPf, hasEsc bool
}

func parseSpec(s string) (spec, error) {
	sp := spec{raw: s, rw: true, ll: 1, n: 1, ma: -1}
	if s == "" || s == "default" {
		return sp, nil
	}
	for _, kv := range strings.Split(s, ",") {
		p := strings.SplitN(kv, "=", 2)
		if len(p) != 2 {
			return sp, fmt.Errorf("bad setting %q", kv)
		}
		b := p[1] == "1" || p[1] == "true"
		switch p[0] {
		case "fs":
			sp.fs, sp.hasFs = b, true
		case "od":
			sp.od, sp.hasOd = b, true
		case "rw":
			sp.rw = b
		case "rep":
			sp.rep = b
		case "bt":
			sp.bt = b
		case "esc":
			sp.esc, sp.hasEsc = b, true
		case "pf":
			sp.pf, sp.hasPf = p[1], true
		case "ll", "ma", "n":
			v, err := strconv.Atoi(p[1])
			if err != nil {
				return sp, err
			}
			switch p[0] {
			case "ll":
				sp.ll = v
			case "ma":
				sp.ma = v
			default:
				sp.n = v
			}
		default:
			return sp, fmt.Errorf("unknown setting %q", p[0])
		}
	}
	return sp, nil
}

var absDir string

func posStr(prog *ssa.Program, i ssa.Instruction) string {
	if i == nil {
		return "-"
	}
	p := i.Pos()
	if !p.IsValid() {
		// some instructions (e.g. implicit ones) have no position: fall back to the enclosing function
		if i.Parent() != nil {
			return "nopos@" + i.Parent().String()
		}
		return "-"
	}
	q := prog.Fset.Position(p)
	f := q.Filename
	if rel, err := filepath.Rel(absDir, f); err == nil && !strings.HasPrefix(rel, "..") {
		f = rel
	} else if k := strings.Index(f, "/src/"); k >= 0 && strings.Contains(f, "go") {
		f = "$GOROOT" + f[k:]
	}
	return fmt.Sprintf("%s:%d:%d", f, q.Line, q.Column)
}

type loaded struct {
	prog *ssa.Program
	pkgs []*packages.Package
}

var loadCache = map[bool]*loaded{}
var reload bool

// load loads the program; unless -reload is given the loaded program is shared by the runs of this process that use the
// same rewrite setting (the analysis only reads it), which is what the repository's own tests do.
func load(dir string, patterns []string, rewrites bool) (*ssa.Program, []*packages.Package, error) {
	if !reload {
		if l, ok := loadCache[rewrites]; ok {
			return l.prog, l.pkgs, nil
		}
	}
	prog, pkgs, err := load1(dir, patterns, rewrites)
	if err == nil && !reload {
		loadCache[rewrites] = &loaded{prog, pkgs}
	}
	return prog, pkgs, err
}

func load1(dir string, patterns []string, rewrites bool) (*ssa.Program, []*packages.Package, error) {
	cfg := &packages.Config{Mode: analysis.PkgLoadMode, Tests: false, Dir: dir,
		Env: append(os.Environ(), "GOFLAGS=-mod=mod", "GOPROXY=off", "GOSUMDB=off", "GOTOOLCHAIN=local")}
	// exactly the options of cmd/argot/taint, plus Dir/Env
	opts := analysis.LoadProgramOptions{BuildMode: ssa.InstantiateGenerics, ApplyRewrites: rewrites, PackageConfig: cfg}
	return analysis.LoadProgram(opts, patterns)
}

func one(dir, cfgPath string, patterns []string, sp spec, iter int, reports string, loaded chan<- float64) (res runResult) {
	defer func() {
		select {
		case loaded <- -1:
		default:
		}
	}()
	res = runResult{Spec: sp.raw, Iter: iter, Pairs: [][4]string{}, Escapes: [][2]string{}, Traces: [][3]string{},
		Errors: []string{}, NumCPU: runtime.NumCPU()}
	t0 := time.Now()
	defer func() {
		res.Wall = time.Since(t0).Seconds()
		if r := recover(); r != nil {
			res.Panic = fmt.Sprintf("%v", r)
			st := string(debug.Stack())
			if len(st) > 3000 {
				st = st[:3000]
			}
			res.Errors = append(res.Errors, "panic: "+res.Panic+"\n"+st)
			res.Exit = 1
		}
	}()
	cfg, err := config.LoadFromFiles(cfgPath)
	if err != nil {
		res.LoadErr = "config: " + err.Error()
		res.Exit = 1
		return
	}
	if sp.hasFs {
		cfg.PathSensitive = sp.fs
	}
	if sp.hasOd {
		cfg.SummarizeOnDemand = sp.od
	}
	if sp.hasEsc {
		cfg.UseEscapeAnalysis = sp.esc
	}
	if sp.ma >= 0 {
		cfg.MaxAlarms = sp.ma
	}
	cfg.LogLevel = sp.ll
	if sp.hasPf || sp.rep {
		// pkg-filter is compiled and the reports dir is created while the file is loaded: go through a derived config
		// file so that those code paths are the real ones
		b, err := os.ReadFile(cfgPath)
		if err != nil {
			res.LoadErr = err.Error()
			res.Exit = 1
			return
		}
		set := [][2]string{{"log-level", fmt.Sprint(sp.ll)}}
		if sp.hasPf {
			set = append(set, [2]string{"pkg-filter", fmt.Sprintf("%q", sp.pf)})
		}
		if sp.rep {
			_ = os.MkdirAll(reports, 0o755)
			set = append(set, [2]string{"reports-dir", fmt.Sprintf("%q", reports)}, [2]string{"report-paths", "true"},
				[2]string{"report-summaries", "true"}, [2]string{"report-coverage", "true"}, [2]string{"report-no-callee-sites", "true"})
		}
		if sp.hasFs {
			set = append(set, [2]string{"field-sensitive", fmt.Sprint(sp.fs)})
		}
		if sp.hasOd {
			set = append(set, [2]string{"summarize-on-demand", fmt.Sprint(sp.od)})
		}
		if sp.hasEsc {
			set = append(set, [2]string{"use-escape-analysis", fmt.Sprint(sp.esc)})
		}
		if sp.ma >= 0 {
			set = append(set, [2]string{"max-alarms", fmt.Sprint(sp.ma)})
		}
		// the derived file lives next to the original so that relative paths in it (dataflow-specs, escape-config) resolve
		tmp := filepath.Join(filepath.Dir(cfgPath), fmt.Sprintf(".trun-%d-%d-%s.yaml", os.Getpid(), iter, filepath.Base(reports)))
		if err := os.WriteFile(tmp, []byte(editOptions(string(b), set)), 0o644); err != nil {
			res.LoadErr = err.Error()
			res.Exit = 1
			return
		}
		cfg, err = config.LoadFromFiles(tmp)
		_ = os.Remove(tmp)
		if err != nil {
			res.LoadErr = "derived config: " + err.Error()
			res.Exit = 1
			return
		}
	}
	tl := time.Now()
	prog, pkgs, err := load(dir, patterns, sp.rw)
	res.LoadS = time.Since(tl).Seconds()
	select {
	case loaded <- res.LoadS:
	default:
	}
	if err != nil {
		res.LoadErr = "load: " + err.Error()
		res.Exit = 1
		return
	}
	if sp.bt {
		r, err := backtrace.Analyze(config.NewLogGroup(cfg), cfg, prog, pkgs)
		if err != nil {
			res.Errors = append(res.Errors, err.Error())
			res.Exit = 1
		}
		set := map[[3]string]bool{}
		for entry, traces := range r.Traces {
			for _, t := range traces {
				if len(t) == 0 {
					continue
				}
				set[[3]string{tracePos(prog, t[0]), tracePos(prog, t[len(t)-1]), entry.Position(r.Graph.AnalyzerState).String()}] = true
			}
		}
		for k := range set {
			res.Traces = append(res.Traces, k)
		}
		sort.Slice(res.Traces, func(i, j int) bool { return fmt.Sprint(res.Traces[i]) < fmt.Sprint(res.Traces[j]) })
		return
	}
	r, err := taint.Analyze(cfg, prog, pkgs)
	if err != nil {
		res.Errors = append(res.Errors, err.Error())
		if r.State != nil {
			for _, e := range r.State.CheckError() {
				res.Errors = append(res.Errors, e.Error())
			}
		}
		res.Exit = 1 // cmd/argot/taint returns "taint analysis failed"
	}
	if r.TaintFlows != nil {
		ps := map[[4]string]bool{}
		for sink, sources := range r.TaintFlows.Sinks {
			for source := range sources {
				ps[[4]string{posStr(prog, source.Instr), posStr(prog, sink.Instr), calleeName(source.Instr), calleeName(sink.Instr)}] = true
			}
		}
		for k := range ps {
			res.Pairs = append(res.Pairs, k)
		}
		es := map[[2]string]bool{}
		for esc, sources := range r.TaintFlows.Escapes {
			for source := range sources {
				es[[2]string{posStr(prog, source), posStr(prog, esc)}] = true
			}
		}
		for k := range es {
			res.Escapes = append(res.Escapes, k)
		}
		if len(r.TaintFlows.Sinks) > 0 || len(r.TaintFlows.Escapes) > 0 {
			res.Exit = 1
		}
	}
	sort.Slice(res.Pairs, func(i, j int) bool { return fmt.Sprint(res.Pairs[i]) < fmt.Sprint(res.Pairs[j]) })
	sort.Slice(res.Escapes, func(i, j int) bool { return fmt.Sprint(res.Escapes[i]) < fmt.Sprint(res.Escapes[j]) })
	return
}

func main() {
	dir := flag.String("dir", ".", "program directory (with go.mod)")
	cfgPath := flag.String("config", "", "config file (default <dir>/config.yaml)")
	pat := flag.String("patterns", ".", "comma separated package patterns / files, relative to dir")
	timeout := flag.Int("timeout", 120, "seconds per run")
	cpus := flag.Int("cpus", 0, "restrict the process to n CPUs (re-exec) so that runtime.NumCPU()==n")
	outp := flag.String("o", "-", "output file")
	flag.BoolVar(&reload, "reload", false, "load the program anew for every run (default: once per rewrite setting)")
	flag.Parse()

	if *cpus > 0 && runtime.NumCPU() != *cpus && os.Getenv("TRUN_REEXEC") == "" {
		var cur, set [16]uint64
		if _, _, e := syscall.RawSyscall(syscall.SYS_SCHED_GETAFFINITY, 0, uintptr(len(cur)*8), uintptr(unsafe.Pointer(&cur[0]))); e == 0 {
			k := 0
			for c := 0; c < 1024 && k < *cpus; c++ {
				if cur[c/64]&(1<<(uint(c)%64)) != 0 {
					set[c/64] |= 1 << (uint(c) % 64)
					k++
				}
			}
			if _, _, e := syscall.RawSyscall(syscall.SYS_SCHED_SETAFFINITY, 0, uintptr(len(set)*8), uintptr(unsafe.Pointer(&set[0]))); e == 0 {
				cmd := exec.Command(os.Args[0], os.Args[1:]...)
				cmd.Env = append(os.Environ(), "TRUN_REEXEC=1")
				cmd.Stdout, cmd.Stderr, cmd.Stdin = os.Stdout, os.Stderr, os.Stdin
				if err := cmd.Run(); err != nil {
					if ee, ok := err.(*exec.ExitError); ok {
						os.Exit(ee.ExitCode())
					}
					fmt.Fprintln(os.Stderr, "trun: re-exec failed:", err)
					os.Exit(3)
				}
				os.Exit(0)
			}
		}
		fmt.Fprintln(os.Stderr, "trun: could not restrict CPU affinity; continuing with NumCPU =", runtime.NumCPU())
	}

	realOut := os.Stdout
	if *outp != "-" {
		f, err := os.Create(*outp)
		if err != nil {
			fmt.Fprintln(os.Stderr, err)
			os.Exit(3)
		}
		realOut = f
	}
	// the analysis logs to os.Stdout (config.NewLogGroup): keep our JSON apart
	logSink := os.Getenv("TRUN_LOG")
	if logSink == "" {
		logSink = os.DevNull
	}
	if dn, err := os.OpenFile(logSink, os.O_WRONLY|os.O_CREATE|os.O_TRUNC, 0o644); err == nil {
		os.Stdout = dn
	}

	var err error
	absDir, err = filepath.Abs(*dir)
	if err != nil {
		fmt.Fprintln(os.Stderr, err)
		os.Exit(3)
	}
	if r, err := filepath.EvalSymlinks(absDir); err == nil {
		absDir = r
	}
	cp := *cfgPath
	if cp == "" {
		cp = filepath.Join(absDir, "config.yaml")
	}
	cp, _ = filepath.Abs(cp)
	patterns := strings.Split(*pat, ",")
	specs := flag.Args()
	if len(specs) == 0 {
		specs = []string{"default"}
	}
	reports, err := os.MkdirTemp("", "trun-reports-")
	if err != nil {
		fmt.Fprintln(os.Stderr, err)
		os.Exit(3)
	}
	defer os.RemoveAll(reports)

	out := output{Dir: absDir, NumCPU: runtime.NumCPU(), Runs: []runResult{}}
	dead := false
	maxLoad := 0.0
	for si, s := range specs {
		sp, err := parseSpec(s)
		if err != nil {
			fmt.Fprintln(os.Stderr, "trun:", err)
			os.Exit(3)
		}
		for it := 0; it < sp.n; it++ {
			if dead {
				out.Runs = append(out.Runs, runResult{Spec: sp.raw, Iter: it, Skipped: true, Pairs: [][4]string{},
					Escapes: [][2]string{}, Traces: [][3]string{}, Errors: []string{}})
				continue
			}
			ch := make(chan runResult, 1)
			loaded := make(chan float64, 2)
			rd := filepath.Join(reports, fmt.Sprintf("r%d-%d", si, it))
			go func() { ch <- one(absDir, cp, patterns, sp, it, rd, loaded) }()
			// phase 1: loading (packages.Load + SSA construction of the program and the standard library) is not what is
			// being timed; phase 2: the analysis gets max(-timeout, 6 x the slowest load seen in this process) so that a
			// machine under heavy load does not turn into spurious divergence reports
			var r runResult
			got := false
			select {
			case r = <-ch:
				got = true
			case l := <-loaded:
				if l > maxLoad {
					maxLoad = l
				}
			case <-time.After(time.Duration(20**timeout) * time.Second):
			}
			eff := float64(*timeout)
			if 6*maxLoad > eff {
				eff = 6 * maxLoad
			}
			if !got {
				select {
				case r = <-ch:
					got = true
				case <-time.After(time.Duration(eff * float64(time.Second))):
				}
			}
			if got {
				out.Runs = append(out.Runs, r)
			} else {
				out.Runs = append(out.Runs, runResult{Spec: sp.raw, Iter: it, Timeout: true, Exit: 1, Wall: eff,
					Pairs: [][4]string{}, Escapes: [][2]string{}, Traces: [][3]string{},
					Errors: []string{fmt.Sprintf("no result %.0f s after the program was loaded", eff)}, NumCPU: runtime.NumCPU()})
				dead = true
			}
		}
	}
	enc := json.NewEncoder(realOut)
	enc.SetIndent("", " ")
	_ = enc.Encode(out)
	_ = os.RemoveAll(reports)
	if dead {
		os.Exit(0) // leave the runaway goroutine behind
	}
}

// editOptions returns the YAML text with the given keys set in its top-level options: section (created when absent;
// existing settings of the same keys are dropped).
func editOptions(y string, set [][2]string) string {
	lines := strings.Split(y, "\n")
	start, end, indent := -1, -1, "  "
	for i, l := range lines {
		if start < 0 {
			if strings.HasPrefix(l, "options:") {
				start = i
			}
			continue
		}
		t := strings.TrimSpace(l)
		if t == "" || strings.HasPrefix(t, "#") {
			continue
		}
		if l[0] != ' ' && l[0] != '\t' {
			end = i
			break
		}
	}
	mine := func(ind string) []string {
		var r []string
		for _, kv := range set {
			r = append(r, ind+kv[0]+": "+kv[1])
		}
		return r
	}
	if start < 0 {
		return y + "\noptions:\n" + strings.Join(mine(indent), "\n") + "\n"
	}
	if end < 0 {
		end = len(lines)
	}
	var kept []string
	first := true
	for _, l := range lines[start+1 : end] {
		t := strings.TrimSpace(l)
		if t != "" && !strings.HasPrefix(t, "#") && first {
			indent = l[:len(l)-len(strings.TrimLeft(l, " \t"))]
			first = false
		}
		drop := false
		for _, kv := range set {
			if strings.HasPrefix(t, kv[0]+":") {
				drop = true
			}
		}
		if !drop {
			kept = append(kept, l)
		}
	}
	out := append([]string{}, lines[:start]...)
	out = append(out, "options:")
	out = append(out, mine(indent)...)
	out = append(out, kept...)
	out = append(out, lines[end:]...)
	return strings.Join(out, "\n")
}

func calleeName(i ssa.Instruction) string {
	ci, ok := i.(ssa.CallInstruction)
	if !ok {
		return "?"
	}
	c := ci.Common()
	if c.IsInvoke() {
		return c.Method.Name()
	}
	if f := c.StaticCallee(); f != nil {
		return f.Name()
	}
	return c.Value.Name()
}

func tracePos(prog *ssa.Program, n backtrace.TraceNode) string {
	q := n.Pos
	f := q.Filename
	if rel, err := filepath.Rel(absDir, f); err == nil && !strings.HasPrefix(rel, "..") {
		f = rel
	}
	kind := fmt.Sprintf("%T", n.GraphNode)
	return fmt.Sprintf("%s:%d:%d#%s", f, q.Line, q.Column, strings.TrimPrefix(kind, "*dataflow."))
}
