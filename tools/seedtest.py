#!/usr/bin/env python3
"""Run one or more property checks against a breaking patch WITHOUT touching /repo:
     tools/seedtest.py <patch.diff> C16 [C01 ...] [--tier quick]
   creates a scratch worktree of /repo (HEAD + uncommitted verif_*.go hook files), applies the patch, copies /verif
   (minus .git/build) to a scratch dir, runs the checks there with VERIF_REPO pointing at the worktree, prints the
   protocol lines and exit codes, and removes everything.  (The final confirmation of seeded changes is done on /repo
   itself with git apply / git checkout as the task requires; this tool is for use while other work is going on.)"""
import argparse
import glob
import os
import shutil
import subprocess
import sys
import tempfile

V = os.path.dirname(os.path.dirname(os.path.abspath(__file__)))


def main():
    ap = argparse.ArgumentParser()
    ap.add_argument("patch")
    ap.add_argument("props", nargs="+")
    ap.add_argument("--tier", default="quick")
    ap.add_argument("--keep", action="store_true")
    a = ap.parse_args()
    tmp = tempfile.mkdtemp(prefix="seedtest-")
    wt = os.path.join(tmp, "repo")
    vv = os.path.join(tmp, "verif")
    rc_all = {}
    try:
        subprocess.check_call(["git", "-C", "/repo", "worktree", "add", "-q", "--detach", wt, "HEAD"])
        # uncommitted add-only hook files
        for f in subprocess.check_output(["git", "-C", "/repo", "ls-files", "--others", "--exclude-standard"], text=True).split():
            if os.path.basename(f).startswith("verif_") and f.endswith(".go"):
                os.makedirs(os.path.dirname(os.path.join(wt, f)), exist_ok=True)
                shutil.copy(os.path.join("/repo", f), os.path.join(wt, f))
        if a.patch != "none":
            subprocess.check_call(["git", "-C", wt, "apply", os.path.abspath(a.patch)])
        rc = subprocess.call(["rsync", "-a", "--exclude", ".git", "--exclude", "build", "--exclude", "evidence/replays",
                              V + "/", vv + "/"])
        if rc not in (0, 24):      # 24 = some files vanished while copying (other sessions write scratch files)
            raise RuntimeError("rsync failed: %d" % rc)
        env = dict(os.environ, VERIF_REPO=wt)
        for p in a.props:
            r = subprocess.run([sys.executable, os.path.join(vv, "tools", "check.py"), p, "--tier", a.tier], env=env,
                               stdout=subprocess.PIPE, stderr=subprocess.STDOUT, text=True)
            rc_all[p] = r.returncode
            lines = [l for l in r.stdout.splitlines()]
            print("=== %s rc=%d" % (p, r.returncode))
            for l in lines[:40]:
                print("   " + l[:300])
        return 0
    finally:
        subprocess.call(["git", "-C", "/repo", "worktree", "remove", "--force", wt])
        if not a.keep:
            shutil.rmtree(tmp, ignore_errors=True)
        else:
            print("kept", tmp)
        print("RESULT", rc_all)


if __name__ == "__main__":
    sys.exit(main())
