#!/usr/bin/env python3
"""Writes /verif/MANIFEST.json from the table below (single source of truth for what is claimed)."""
import json
import os

V = os.path.dirname(os.path.dirname(os.path.abspath(__file__)))
ALL = ["C%02d" % i for i in range(1, 21)]

NOTE_COMMON = ("Trusted: Coq 8.16.1 kernel + vm_compute; no axioms declared (Print Assumptions under every property theorem, grep gate); "
               "extraction via ExtrOcamlBasic only; OCaml driver; Go harness dumpers; tools/*.py. The Go code is modelled by hand "
               "(coq/theories/Model), not verified; the model is tied to /repo's working tree on every run by differential execution. ")

def load_claims():
    """one JSON file per claimed property: tools/claims/Cxx.json with keys text, note, technique, design [, category]"""
    out = {}
    d = os.path.join(V, "tools", "claims")
    enabled = set(open(os.path.join(d, "ENABLED")).read().split())   # the coordinator enables a property once its quick check is green
    for f in sorted(os.listdir(d)):
        if f.endswith(".json") and f[:-5] in enabled:
            c = json.load(open(os.path.join(d, f)))
            c["note"] = NOTE_COMMON + c.get("note", "")
            out[f[:-5]] = c
    return out


CLAIMS = load_claims()

NOT_YET = "check under construction in this round (model/tie not committed yet); not claimed until its quick check runs clean"


def main():
    checks = []
    for pid in ALL:
        if pid not in CLAIMS:
            continue
        c = CLAIMS[pid]
        checks.append({
            "property_id": pid,
            "quick_cmd": "python3 tools/check.py %s --tier quick" % pid,
            "thorough_cmd": "python3 tools/check.py %s --tier thorough" % pid,
            "evidence_file": "evidence/%s.json" % pid,
            "replay_cmd_template": "python3 tools/check.py %s --replay {path}" % pid,
            "engine": "coq-model-tie",
            "level_claimed": {"category": c.get("category", "proof"), "text": c["text"], "design_ref": "DESIGN.md " + c["design"]},
            "level_note": c["note"],
            "technique": c["technique"],
        })
    hooks_commits = []
    hc = os.path.join(V, "hooks_commits.txt")
    if os.path.exists(hc):
        hooks_commits = [l.split()[0] for l in open(hc) if l.strip() and not l.startswith("#")]
    man = {
        "version": 1,
        "setup_cmd": "sh tools/setup.sh",
        "hooks": {
            "guard": "verif",
            "enable": "go build -tags verif (the harness module /verif/harness replaces github.com/awslabs/ar-go-tools => /repo and is always built with -tags verif)",
            "baseline_off_cmd": "cd /repo && GOFLAGS=-mod=mod GOPROXY=off GOSUMDB=off GOTOOLCHAIN=local go test -vet=off -count=1 -timeout 25m ./...",
            "source_commits": hooks_commits,
            "add_only": True,
        },
        "engines": [{"name": "coq-model-tie", "path": "tools/check.py",
                     "serves_properties": sorted(CLAIMS),
                     "kind_free_text": "Coq 8.16.1 development (coq/theories: Model, Proofs, Properties) + regenerated tables (coq/gen) + "
                                       "extracted OCaml models + Go harness differential/ground-truth runs, orchestrated by tools/check.py"}],
        "checks": checks,
        "notes": "See DESIGN.md. known_findings.txt lists recorded genuine defects; seeded/ holds validated breaking changes.",
        "not_applicable": [{"property_id": p, "reason": NA.get(p, NOT_YET)} for p in ALL if p not in CLAIMS],
    }
    with open(os.path.join(V, "MANIFEST.json"), "w") as f:
        json.dump(man, f, indent=1)
        f.write("\n")


NA = {}

if __name__ == "__main__":
    main()
