"""C14 - an instruction classified thread-local never touches shared memory.

proof      : coq/theories/Properties/C14.v (Lang/Conc.v calculus, Model/Esc.v abstract escape graph, Proofs/Esc.v)
T-gen      : harness/cmd/gentables/gen_locality.go -> coq/gen/GenLocality.v (case lists of instructionLocality/transferFunction)
tie T-dump : harness/cmd/c14dump (REAL escape analysis, every derived context through the public interface) vs the
             executable spec "which instruction kinds access memory" and the model verdicts on the calculus translation
search T-gt: generated concurrent programs (sharing mechanism x access kind x target) under `go run -race`:
             a race reported on a line whose memory-accessing instructions are ALL Local in every derived context
"""
import concurrent.futures
import json
import os
import re
import shutil

import vlib
from props import c14gen

# instruction kinds (as printed by c14dump) that dereference a pointer-like operand at run time.  Mirrors
# mem_access_kinds of coq/theories/Model/EscTable.v (checked equal below against the regenerated table's spec side).
ACCESS_PREFIXES = ("Store", "UnOp:load", "UnOp:recv", "Send", "MapUpdate", "Lookup:map", "Next:map", "Range:map", "Select",
                   "Call:builtin:copy", "Call:builtin:append", "Call:builtin:delete", "Call:builtin:clear",
                   "Call:builtin:len:map", "Call:builtin:len:chan", "Call:builtin:cap:chan", "Call:builtin:close",
                   "Convert:slice->string", "Convert:string->slice")
# kinds whose verdict does not depend on the graph (always Local in instructionLocality): the mechanism is irrelevant
# (builtin calls and slice->string conversions are guarded since fix 913f0a4; a regression there shows up as
# race-local:<entry>:ACC:mech=goarg:kind=Call:builtin:... which is not a listed finding)
UNGUARDED_PREFIXES = ("Slice", "Index:", "Field", "MakeInterface", "ChangeType", "ChangeInterface")

CORPUS = ["analysis/escape/testdata/escape-locality", "analysis/escape/testdata/simple-escape",
          "analysis/escape/testdata/interprocedural-escape", "analysis/escape/testdata/builtins-escape",
          "analysis/taint/testdata/escape-integration", "analysis/taint/testdata/sample-escape"]


def is_access(kind):
    if kind == "Convert:string->slice":
        return False    # reads an immutable string
    return any(kind == p or kind.startswith(p + ":") or kind == p for p in ACCESS_PREFIXES)


def parse_dump(path):
    """-> {"funcs": {name: (nctx, cap)}, "lines": {(file, line): [(func, kind, verdicts, rationale)]}, "go": [...], "errors": []}"""
    res = {"funcs": {}, "lines": {}, "go": [], "errors": [], "instr": 0}
    cur = None
    for l in open(path, errors="replace"):
        l = l.rstrip("\n")
        if l.startswith("I "):
            head, _, rat = l.partition(" | ")
            p = head.split(" ")
            pos, kind, verd = p[1], p[3], p[4] if len(p) > 4 else ""
            f, line, _ = pos.rsplit(":", 2)
            res["lines"].setdefault((f, int(line)), []).append((cur, kind, verd, rat))
            res["instr"] += 1
        elif l.startswith("F "):
            p = l.split(" ")
            cur = p[1]
            res["funcs"][cur] = (int(p[2]), len(p) > 3)
        elif l.startswith("G "):
            res["go"].append(l)
        elif l.startswith(("E ", "FAIL", "PANIC")):
            res["errors"].append(l)
    return res


def parse_races(text, fname):
    """race reports -> list of [(line, stack top description)] with the user-code line of each of the two accesses"""
    out = []
    for rep in text.split("WARNING: DATA RACE")[1:]:
        rep = rep.split("==================")[0]
        accs = []
        for blk in re.split(r"\n\s*\n", rep):
            blk = blk.strip("\n")
            first = blk.strip().split("\n")[0]
            if not re.match(r"(Previous )?(Write|Read|Atomic write|Atomic read|write|read) at ", first.strip(), flags=re.I):
                continue
            line = None
            for m in re.finditer(r"^\s+(\S+):(\d+) \+0x", blk, flags=re.M):
                if os.path.basename(m.group(1)) == fname:
                    line = int(m.group(2))
                    break
            accs.append((line, first.strip().split(" at ")[0].replace("Previous ", "").lower(),
                         "runtime" if "runtime." in blk.split("\n")[1] else "direct"))
        if len(accs) == 2:
            out.append(accs)
    return out


def write_program(d, name, src):
    os.makedirs(d, exist_ok=True)
    open(os.path.join(d, "go.mod"), "w").write("module %s\n\ngo 1.22\n" % name)
    open(os.path.join(d, "main.go"), "w").write(src)
    open(os.path.join(d, "escape-config.json"), "w").write('{ "functions": {}, "pkg-filter": "%s" }\n' % name)
    open(os.path.join(d, "config.yaml"), "w").write('options:\n    use-escape-analysis: true\n    escape-config: "escape-config.json"\n')


def choose_scenarios(seed, tier):
    """quick: every access kind on the two plainest mechanisms, every mechanism with the plain field store under both
    entries (scenario called from main / started with `go`), plus one seed-rotated (access, target, entry) combination per
    mechanism; thorough: mechanism x access x entry on the shared object itself plus 6 rotated accesses per
    mechanism on child / late-child targets, in chunks of 420."""
    mechs = sorted(c14gen.MECHS)
    accs = sorted(c14gen.ACCS)
    rnd = vlib.lcg(seed * 7919 + 13)
    specials = [("special", n, "-", e) for n in sorted(c14gen.load_specials()) for e in ("call", "go")]
    if tier != "quick":
        # mechanism x access x entry on the object itself, plus 6 seed-rotated accesses per mechanism on the child targets
        allsc = [(m, a, "self", e) for e in ("call", "go") for m in mechs for a in accs]
        off = rnd(len(accs))
        for k, m in enumerate(mechs):
            for j in range(6):
                allsc.append((m, accs[(off + k * 5 + j * 7) % len(accs)], ("child", "latechild")[j % 2], ("call", "go")[(k + j) % 2]))
        allsc = specials + allsc
        n = 420
        return [allsc[i:i + n] for i in range(0, len(allsc), n)]
    sel = list(specials)
    seen = set(specials)

    def add(*sc):
        if sc not in seen:
            seen.add(sc)
            sel.append(sc)
    for a in accs:
        add("goarg", a, "self", "call")
        add("closure", a, "self", "go")
    for m in mechs:
        add(m, "fstore", "self", "call")
        add(m, "fstore", "self", "go")
    off = rnd(len(accs))
    for k, m in enumerate(mechs):
        for j in range(1):
            a = accs[(off + k * 5 + j * 7) % len(accs)]
            add(m, a, c14gen.TARGETS[(k + j + off) % 3], ("call", "go")[(k + j + off // 3) % 2])
    return [sel]


def classify_line(dump, fname, line):
    """-> (accessing instructions [(func, kind, verdicts)], all_local, any instruction at all)"""
    ins = dump["lines"].get((fname, line), [])
    acc = [(f, k, v) for f, k, v, _ in ins if is_access(k)]
    all_local = bool(acc) and all(v and set(v) == {"L"} for _, _, v in acc) and \
        all(dump["funcs"].get(f, (0, True))[0] > 0 and not dump["funcs"][f][1] for f, _, _ in acc)
    return acc, all_local, ins


def violation_key(acc, desc, role):
    """stable key of a Local instruction taking part in a race.  Kinds whose verdict does not depend on the graph are keyed
    by kind alone; the others by entry (scenario called from main / go-started), side (ACC = goroutine 1 after sharing,
    G2 = the other goroutine), mechanism and kinds."""
    kinds = sorted(set(k for _, k, _ in acc))
    if all(k.startswith(UNGUARDED_PREFIXES) for k in kinds):
        return "race-local:kind=" + "+".join(kinds)
    if not desc:
        return "race-local:?:kind=" + "+".join(kinds)
    if role in ("GG", "GACC"):
        # the raced memory is a package-level int: independent of the sharing mechanism
        return "race-local:global-var:%s:%s" % (desc[3] if len(desc) > 3 else "call", role)
    mech = desc[0] if desc[0] != "special" else "special-" + desc[1]
    return "race-local:%s:%s:mech=%s:kind=%s" % (desc[3] if len(desc) > 3 else "call", role, mech, "+".join(kinds))


def run(chk):
    tier = chk.tier
    failed = []
    if os.path.exists(os.path.join(vlib.COQ, "theories/Properties/C14.v")):
        vlib.build_harness(["gentables", "c14dump"])
        vlib.gen_tables(["locality"])
        failed = chk.prove("theories/Properties/C14.v")
        okf, _ = vlib.build_coq(["theories/Properties/C14Findings.vo"])
        if not okf["theories/Properties/C14Findings.vo"]:
            chk.notes.append("stale_known_finding: Properties/C14Findings.v (refutation lemma over the regenerated tables: Defer unhandled by "
                             "transferFunction) no longer compiles - a listed defect was repaired")
    if not os.path.exists(os.path.join(vlib.COQ, "theories/Properties/C14.v")):
        vlib.build_harness(["c14dump"])
    work = os.path.join(vlib.BUILD, "c14")
    shutil.rmtree(work, ignore_errors=True)
    os.makedirs(work)
    stats = {"scenarios": 0, "scenarios_with_race_at_acc": 0, "race_reports": 0, "race_sides": 0, "race_sides_nonlocal": 0,
             "race_sides_local": 0, "race_sides_unclassified": 0, "instructions_dumped": 0, "functions_with_context": 0,
             "contexts": 0, "corpus_instructions": 0, "corpus_local_access": 0, "corpus_nonlocal_access": 0}
    distinct = set()
    tie_alarms = []
    found_concrete = False
    exe = os.path.join(vlib.BIN, "c14dump")

    have_model = os.path.exists(os.path.join(vlib.COQ, "extracted/c14/build.sh"))
    pool = concurrent.futures.ThreadPoolExecutor(3)

    def tie_job():
        model = vlib.build_model("c14")
        res = []
        nprog = 40 if tier == "quick" else 400
        for ti in range(1 if tier == "quick" else 4):
            name = "c14t%d" % ti
            d = os.path.join(work, name)
            src, mtext, linemap = c14gen.tie_program(chk.seed * 10 + ti, nprog // (1 if tier == "quick" else 4))
            write_program(d, name, src)
            open(os.path.join(d, "model.in"), "w").write(mtext)
            rc, mout, merr = vlib.sh2([model], inp=mtext, timeout=900)
            if rc != 0:
                raise vlib.BuildError("c14model failed", merr)
            open(os.path.join(d, "model.out"), "w").write(mout)
            dumpf = os.path.join(d, "dump.txt")
            rc2, out2 = vlib.sh([exe, "-o", dumpf, d], timeout=1500)
            if rc2 != 0:
                raise vlib.BuildError("c14dump failed on tie program", out2 + open(dumpf).read()[-2000:])
            res.append((d, src, linemap, mout, parse_dump(dumpf)))
        return res

    def corpus_job():
        names = CORPUS if tier != "quick" else CORPUS[:1] + CORPUS[4:]
        corpus = [os.path.join(vlib.REPO, p) for p in names if os.path.isdir(os.path.join(vlib.REPO, p))]
        cd = os.path.join(work, "corpus.txt")
        rc, out = vlib.sh([exe, "-o", cd] + corpus, timeout=1500)
        if rc not in (0, 2, 3):
            raise vlib.BuildError("c14dump failed on corpus", out)
        return parse_dump(cd)

    tie_future = pool.submit(tie_job) if have_model else None
    corpus_future = pool.submit(corpus_job)

    for ci, scens in enumerate(choose_scenarios(chk.seed, tier)):
        name = "c14g%d" % ci
        d = os.path.join(work, name)
        src, info = c14gen.program(scens, c14gen.scenario_c14)
        write_program(d, name, src)
        stats["scenarios"] += len(scens)
        line2scen = {}
        for i, inf in info.items():
            for ln, role in inf["lines"].items():
                line2scen[ln] = (i, role)
        dumpf = os.path.join(d, "dump.txt")

        def native():
            rc, out = vlib.sh(["go", "build", "-race", "-o", "prog", "."], cwd=d, timeout=1500)
            if rc != 0:
                raise vlib.BuildError("generated C14 program does not build", out)
            env = dict(vlib.GOENV, GORACE="halt_on_error=0")
            # the Go runtime may abort the process with `fatal error: concurrent map writes` when two racing map accesses
            # really overlap: restart after the scenario that was running (retry it twice first) until ALLDONE is printed
            outs, start, tries = [], 0, {}
            for _ in range(40):
                rc, out = vlib.sh(["./prog", str(start)], cwd=d, timeout=900, env=env)
                outs.append(out)
                if "ALLDONE" in out:
                    break
                begun = [int(x) for x in re.findall(r"^BEGIN (\d+)$", out, flags=re.M)]
                last = begun[-1] if begun else start
                tries[last] = tries.get(last, 0) + 1
                stats["native_restarts"] = stats.get("native_restarts", 0) + 1
                start = last if tries[last] < 3 else last + 1
            else:
                raise vlib.BuildError("generated C14 program never ran to completion", "\n".join(outs)[-3000:])
            out = "\n".join(outs)
            open(os.path.join(d, "race.txt"), "w").write(out)
            return out

        with concurrent.futures.ThreadPoolExecutor(2) as ex:
            fut = ex.submit(native)
            rc2, out2 = vlib.sh([exe, "-o", dumpf, d], timeout=1500)
            out = fut.result()
        if rc2 != 0:
            raise vlib.BuildError("c14dump failed on generated program", out2 + open(dumpf).read()[-2000:])
        dump = parse_dump(dumpf)
        if dump["errors"]:
            chk.notes.append("c14dump errors on %s: %s" % (name, dump["errors"][:3]))
        stats["instructions_dumped"] += dump["instr"]
        stats["functions_with_context"] += len(dump["funcs"])
        stats["contexts"] += sum(n for n, _ in dump["funcs"].values())
        races = parse_races(out, "main.go")
        stats["race_reports"] += len(races)
        acc_hit = set()
        for rep in races:
            for line, rw, via in rep:
                if line is None:
                    continue
                stats["race_sides"] += 1
                sc = line2scen.get(line)
                desc = info[sc[0]]["desc"] if sc else None
                if sc and sc[1] in ("ACC", "GACC"):
                    acc_hit.add(sc[0])
                acc, all_local, ins = classify_line(dump, "main.go", line)
                if not ins:
                    continue        # line of a function the analysis derives no context for (not reachable)
                if not acc:
                    stats["race_sides_unclassified"] += 1
                    key = "race-unclassified:" + "+".join(sorted(set(k for _, k, _, _ in ins)))
                    rd = chk.replay_dir(key)
                    write_replay(rd, d, line, desc, rep, ins, "race reported on a line without any instruction of a memory-accessing kind")
                    if chk.violation(key, "race on line %d (%s) whose instructions %s are not of a memory-accessing kind" %
                                     (line, src.split("\n")[line - 1].strip(), sorted(set(k for _, k, _, _ in ins))), rd):
                        found_concrete = True
                    continue
                if all_local:
                    stats["race_sides_local"] += 1
                    key = violation_key(acc, desc, sc[1] if sc else '-')
                    rd = chk.replay_dir(key)
                    write_replay(rd, d, line, desc, rep, ins, "instruction(s) classified Local in every derived context take part in a data race")
                    if chk.violation(key, "data race on `%s` (scenario %s): %s Local in all %s context(s)" %
                                     (src.split("\n")[line - 1].strip(), desc, sorted(set(k for _, k, _ in acc)),
                                      [len(v) for _, _, v in acc][:1]), rd):
                        found_concrete = True
                else:
                    stats["race_sides_nonlocal"] += 1
                    if desc:
                        distinct.add((desc[0], tuple(sorted(set(k for _, k, _ in acc)))))
        stats["scenarios_with_race_at_acc"] += len(acc_hit)
        if len(acc_hit) * 10 < len(scens) * 8:
            raise vlib.BuildError("ground truth lost: only %d of %d generated scenarios raced at their checked access" % (len(acc_hit), len(scens)),
                                  out[-3000:])
        for i in sorted(acc_hit)[:3]:
            chk.sample({"scenario": info[i]["desc"], "race_at_acc_line": True})


    # ---- tie model <-> impl: random programs of the calculus, extracted model verdicts vs the impl's locality dump
    if have_model:
        tstats = {"tie_programs": 0, "tie_compared": 0, "tie_agree_local": 0, "tie_agree_nonlocal": 0, "tie_impl_more_conservative": 0,
                  "tie_alarm": 0, "tie_no_context": 0, "tie_model_outoffuel": 0}
        for d, src, linemap, mout, tdump in tie_future.result():
            mv = {}
            cur = None
            for l in mout.splitlines():
                p = l.split()
                if p and p[0] == "PROG":
                    cur = int(p[1][1:])
                    tstats["tie_programs"] += 1
                elif p and p[0] == "V":
                    mv[(cur, int(p[1]), int(p[2]))] = p[3]
                elif p and p[0] == "OUTOFFUEL":
                    tstats["tie_model_outoffuel"] += 1
            srcl = src.split("\n")
            for line, (k, fn, pc, kind) in sorted(linemap.items()):
                if kind not in ("load", "store", "gload", "gstore") or (k, fn, pc) not in mv:
                    continue
                acc, all_local, ins = classify_line(tdump, "main.go", line)
                if not ins or not acc:
                    tstats["tie_no_context"] += 1
                    continue
                tstats["tie_compared"] += 1
                m = mv[(k, fn, pc)]
                if all_local and m == "L":
                    tstats["tie_agree_local"] += 1
                elif not all_local and m == "N":
                    tstats["tie_agree_nonlocal"] += 1
                elif not all_local:
                    tstats["tie_impl_more_conservative"] += 1
                else:
                    tstats["tie_alarm"] += 1
                    tie_alarms.append((d, line, srcl[line - 1].strip(), kind, (k, fn, pc), acc))
        stats.update(tstats)
        if tie_alarms and not any(1 for v in chk.viol):
            # the model (proved sound) says the object may be shared: look for the concrete race first (ground truth above ran on
            # the generated scenarios); none found there for this shape -> report the broken tie with the program as replay
            d, line, text, kind, key3, acc = tie_alarms[0]
            rd = chk.replay_dir("tie")
            for f in ("main.go", "go.mod", "config.yaml", "escape-config.json", "model.in", "model.out", "dump.txt"):
                shutil.copy(os.path.join(d, f), rd)
            with open(os.path.join(rd, "replay.txt"), "w") as f:
                f.write("tie model<->impl broken: %d instruction(s) are Local for the implementation in every derived context but NonLocal for the "
                        "verified model (Model/Esc.v, local_sound_partial).\nfirst: main.go:%d `%s` (%s, calculus program/function/pc %s): impl %s\n"
                        "all: %s\n\nre-run:\n  %s/c14model < %s/model.in ; %s/c14dump %s | grep 'main.go:%d:'\n" %
                        (len(tie_alarms), line, text, kind, key3, acc, [(a[1], a[2]) for a in tie_alarms[:20]], vlib.BIN, rd, vlib.BIN, rd, line))
            chk.violation("tie-broken:" + kind, "impl classifies `%s` Local where the proved-sound model says NonLocal (%d such instructions)" %
                          (text, len(tie_alarms)), rd, no_input=True)

    # corpus: the repository's own escape test programs -- dump every context, record the verdict distribution
    cdump = corpus_future.result()
    pool.shutdown()
    stats["corpus_instructions"] = cdump["instr"]
    for (f, line), ins in cdump["lines"].items():
        for fn, k, v, _ in ins:
            if is_access(k) and v:
                if set(v) == {"L"}:
                    stats["corpus_local_access"] += 1
                else:
                    stats["corpus_nonlocal_access"] += 1
    if cdump["errors"]:
        chk.notes.append("corpus dump messages: %s" % cdump["errors"][:4])

    chk.proof_broken(failed, found_concrete)
    chk.cov["evaluations"] = stats["race_sides"] + stats.get("tie_compared", 0)
    chk.cov["distinct_nontrivial"] = len(distinct)
    chk.cov["rule"] = ("one evaluation = one access of a race reported by the Go race detector on a generated scenario, looked up in the "
                       "impl's per-context locality dump, or one memory instruction of a random calculus program whose impl verdict is compared "
                       "with the extracted model's; non-trivial+distinct = distinct (sharing mechanism, set of accessing instruction "
                       "kinds on the racing line) pairs for which a race was observed natively and the impl verdict was compared")
    chk.cov["traces_validated_against_impl"] = stats["race_sides_nonlocal"] + stats.get("tie_agree_local", 0) + stats.get("tie_agree_nonlocal", 0)
    chk.cov["distribution"] = stats
    chk.assumptions += ["ground truth = ThreadSanitizer happens-before race reports of `go build -race` binaries (false negatives possible, "
                        "no false positives); both racing accesses always execute, nothing orders them",
                        "line granularity: a race side is attributed to the memory-accessing SSA instructions of its source line; generated "
                        "programs put one access per line"]
    return chk.finish()


def write_replay(rd, progdir, line, desc, rep, ins, what):
    for f in ("main.go", "go.mod", "config.yaml", "escape-config.json"):
        shutil.copy(os.path.join(progdir, f), rd)
    with open(os.path.join(rd, "replay.txt"), "w") as f:
        f.write("%s\nscenario (mechanism, access, target): %s\nracing line: main.go:%d\nrace sides (line, kind, via): %s\n"
                "impl locality of the instructions on that line (function, kind, verdict per context, rationale):\n" % (what, desc, line, rep))
        for i in ins:
            f.write("  %s\n" % (i,))
        f.write("\nre-run:\n  cd %s && go build -race -o prog . && GORACE=halt_on_error=0 ./prog 2>&1 | grep -B3 -A12 'main.go:%d'\n"
                "  %s/c14dump %s | grep 'main.go:%d:'\n" % (rd, line, vlib.BIN, rd, line))


def replay(chk, path):
    print(open(os.path.join(path, "replay.txt")).read() if os.path.isdir(path) else open(path).read())
    return 0
