"""C08 - function summaries cover every direct def-use chain (and the intra-procedural half of C01).

proof      : coq/theories/Properties/C08.v   (model Model/Intra.v, lemmas Proofs/Intra.v, regenerated table gen/GenBuiltins.v)
tie T-cert : harness/cmd/c08dump runs the REAL dataflow.IntraProceduralAnalysis on every selected function and dumps the SSA
             facts, the final FlowInformation.MarkedValues and the summary graph's edges; the extracted verified validators
             (build/bin/c08model: violations / check_wf_ssa of Model/Intra.v) run on that output
spec       : independently of the model, THIS module evaluates the property's own statement on the dump: every def-use
             chain (path in the operand graph through value-computing instructions) from a parameter / free variable /
             call result to a returned value / call argument / bound variable / branch condition must have its end points
             connected by a summary edge.  A missing (function, origin, use) is the concrete failing input (the replay).
tie L2     : the same dump carries the store / load / alloc tables (LS / LL / LA lines); the extracted booleans of Lang/RegSem.v
             (check_addr_alloc = the fragment, check_store_closed, check_loads_ok) are evaluated per function on the same selected
             fact list: T-cert of Properties/C01Sem.intra_sound_L2_noalias_partial_tcert (alarm l2-store-closed:<fn> / l2-loads-ok:<fn>)
tie T-gen  : harness/cmd/gentables gen_builtins.go -> coq/gen/GenBuiltins.v (case/arity table of doBuiltinCall)
Only `required subset of implementation` is an alarm; extra marks / edges never are.
"""
import collections
import os
import re
import shutil
import subprocess
import time

import vlib

BASE = "analysis/taint/testdata"
QUICK_PKGS = ["./basic", "./tuples", "./builtins_121", "./closures", "./defers", "./fields"]
THOROUGH_PKGS = QUICK_PKGS + ["./builtins", "./closures_flowprecise", "./closures_paper", "./example0", "./example1", "./example2",
                              "./globals", "./interfaces", "./intra-procedural", "./panics", "./parameters", "./selects",
                              "./stdlib", "./sanitizers", "./validators", "./fromlevee", "./benchmark", "./agent-example"]
REGRESS = [os.path.join(vlib.VERIF, "corpus", "c08", "regress1")]

# ---------------------------------------------------------------------------------- the property's operand table (spec side)
ALL_OPS = {"BinOp", "UnOp", "Convert", "ChangeType", "ChangeInterface", "MakeInterface", "TypeAssert", "SliceToArrayPointer",
           "Phi", "Extract", "Field", "FieldAddr", "Index", "IndexAddr", "Lookup", "Next", "Range"}
FIRST_OP = {"Slice"}                       # s[lo:hi:max]: data comes from s, the bounds are not data
DATA_BUILTINS = {"append", "len", "min", "max", "complex", "real", "imag", "ssa:wrapnilchk"}


class Fn:
    __slots__ = ("fid", "name", "nblocks", "npts", "nvals", "nret", "nres", "tag", "instrs", "origins", "uses", "edges", "marks",
                 "notes", "lines", "src", "stores", "loads", "allocs")


def parse_dump(path, keep_lines=6000):
    """generator of Fn objects; M lines are skipped (they are consumed by the extracted validator)"""
    cur = None
    src = ""
    with open(path, errors="replace") as f:
        for l in f:
            t = l[0]
            if t == "M":
                if cur is not None and len(cur.lines) < keep_lines:
                    cur.lines.append(l)
                continue
            if t == "F":
                p = l.split()
                cur = Fn()
                cur.fid, cur.name = p[1], p[2]
                cur.nblocks, cur.npts, cur.nvals, cur.nret, cur.nres = (int(x) for x in p[3:8])
                cur.tag = p[8] if len(p) > 8 else ""
                cur.instrs, cur.origins, cur.uses, cur.edges, cur.marks, cur.notes, cur.lines = {}, [], [], set(), {}, [], [l]
                cur.src = src
                cur.stores, cur.loads, cur.allocs = [], [], set()
                continue
            if t == "D":
                src = l.split()[1]
                continue
            if cur is None:
                continue
            if len(cur.lines) < keep_lines:
                cur.lines.append(l)
            if t == "P":
                k = l.rindex(":")
                p = l[:k].split()
                ops = [int(x) for x in l[k + 1:].split()]
                cur.instrs[int(p[1])] = (p[4], int(p[5]), p[6] == "1", p[7], ops, int(p[2]), int(p[3]))
            elif t == "O":
                p = l.split()
                cur.origins.append((int(p[1]), p[2], int(p[3]), int(p[4]), int(p[5]), int(p[6]), int(p[7])))
            elif t == "U":
                p = l.split()
                cur.uses.append((int(p[1]), p[2], int(p[3]), int(p[4]), p[5], int(p[6])))
            elif t == "E":
                p = l.split()
                cur.edges.add((int(p[1]), int(p[2])))
            elif t == "K":
                p = l.split()
                cur.marks[int(p[1])] = p[2]
            elif t == "L":
                p = l.split()
                if p[0] == "LS":
                    cur.stores.append((int(p[1]), int(p[2]), int(p[3])))
                elif p[0] == "LL":
                    cur.loads.append((int(p[1]), int(p[2])))
                elif p[0] == "LA":
                    cur.allocs.add(int(p[1]))
            elif t == "X":
                cur.notes.append(l[2:].strip())
            elif t == "Z":
                yield cur
                cur = None


def data_operands(ins):
    kind, _d, _r, aux, ops = ins[:5]
    ops = [o for o in ops if o > 0]
    if kind in ALL_OPS:
        return ops
    if kind in FIRST_OP:
        return ops[:1]
    if kind == "Call":
        if aux.startswith("builtin:"):
            return ops if aux[8:].split(",")[0] in DATA_BUILTINS else []
        if aux.startswith("errinvoke"):
            return ops
    return []


def is_shadow(fn, pid):
    ins = fn.instrs.get(pid)
    return ins is not None and ins[3].startswith("shadow:")


def call_aux(ins):
    """fields of a call's aux: class (builtin:<n> / ubuiltin:<n> / errinvoke / shadow:<n> / plain) and the numeric fields"""
    parts = ins[3].split(",")
    d = {}
    for kv in parts[1:]:
        k, _, v = kv.partition("=")
        try:
            d[k] = int(v)
        except ValueError:
            pass
    return parts[0], d


def must_have_node(fn, pid):
    """A call (Call / Go / Defer) may lack a call node in the summary only for a reason decidable from the SSA:
    its callee is a genuine *ssa.Builtin handled by the analysis (builtin:<name>), it is the zero-argument invoke x.Error()
    (errinvoke), or no callee is resolved for it (callees=0 from AnalyzerState.ResolveCallee, asked independently of the
    summary's node creation).  Every other call must have a node: its arguments are uses, its results origins."""
    ins = fn.instrs.get(pid)
    if ins is None or not ins[2] or ins[0] not in ("Call", "Go", "Defer"):
        return False
    cls, d = call_aux(ins)
    if cls.startswith("builtin:") or cls == "errinvoke":
        return False
    return d.get("callees", 0) > 0


def spec(fn):
    """-> (required, info): required = {(mid, uid): (origin, use, path)} for every def-use chain origin -> use;
    info = counters.  Pure graph reachability over SSA operands; no program points, no analysis state."""
    consumers = collections.defaultdict(list)        # value -> [(pid, defined value)]
    for pid, ins in fn.instrs.items():
        if not ins[2] or ins[1] == 0:
            continue
        for a in data_operands(ins):
            consumers[a].append((pid, ins[1]))
    required = {}
    info = {"chains": 0, "max_steps": 0, "steps_ge1": 0, "steps_ge2": 0, "kinds": collections.Counter(),
            "no_node": 0, "unreachable_origin": 0}
    uses_by_val = collections.defaultdict(list)
    for u in fn.uses:
        uid, kind, pid, vid, aux, nn = u
        ins = fn.instrs.get(pid)
        if ins is None or not ins[2]:
            continue
        if nn == 0 and not (is_shadow(fn, pid) or (kind == "A" and must_have_node(fn, pid))):
            info["no_node"] += 1
            continue
        uses_by_val[vid].append(u)
    for o in fn.origins:
        mid, okind, pid, vid, idx, nn, tup = o
        ins = fn.instrs.get(pid)
        if pid == 0 or vid == 0 or ins is None or not ins[2]:
            info["unreachable_origin"] += 1
            continue
        if nn == 0 and not (okind == "C" and (is_shadow(fn, pid) or must_have_node(fn, pid))):
            info["no_node"] += 1
            continue
        # BFS over values
        pred = {vid: None}
        depth = {vid: 0}
        work = [vid]
        while work:
            a = work.pop()
            for (p, r) in consumers.get(a, ()):
                ci = fn.instrs[p]
                if ci[0] == "Extract" and ci[3].endswith(",call"):
                    # result #j of a multi-result call: only that call's own mark for index j
                    if not (okind == "C" and tup == a and int(ci[3].split(",")[0]) == idx):
                        continue
                if r not in pred:
                    pred[r] = (a, p)
                    depth[r] = depth[a] + 1
                    work.append(r)
        for v in pred:
            for u in uses_by_val.get(v, ()):
                key = (mid, u[0])
                steps = depth[v]
                path = []
                x = v
                while pred[x] is not None:
                    a, p = pred[x]
                    path.append((p, fn.instrs[p][0]))
                    x = a
                path.reverse()
                if key not in required or len(required[key][2]) > len(path):
                    required[key] = (o, u, path)
                info["chains"] += 1
                info["max_steps"] = max(info["max_steps"], steps)
                if steps >= 1:
                    info["steps_ge1"] += 1
                if steps >= 2:
                    info["steps_ge2"] += 1
                for _p, k in path:
                    info["kinds"][k] += 1
    return required, info


def l2_strict_fragment(fn):
    """independent of the extracted check_addr_alloc (which is vacuously true for an address register that no instruction
    defines: parameter, free variable, global): the function dereferences something, and every register used as the address of
    a reachable store / load is defined by an instruction, all of them Allocs"""
    addrs = {a for (p, a, _x) in fn.stores if fn.instrs.get(p, (0, 0, False))[2]} | \
            {a for (p, a) in fn.loads if fn.instrs.get(p, (0, 0, False))[2]}
    if not addrs:
        return False
    defs = collections.defaultdict(list)
    for pid, ins in fn.instrs.items():
        if ins[2] and ins[1]:
            defs[ins[1]].append(ins[0])
    return all(defs.get(a) and all(k == "Alloc" for k in defs[a]) for a in addrs)


def parse_model_out(path):
    res = {}
    with open(path) as f:
        for l in f:
            p = l.split()
            if not p:
                continue
            if p[0] == "R":
                d = dict(x.split("=") for x in p[2:])
                res[p[1]] = {"R": {k: int(v) for k, v in d.items()}, "V": [], "W": [], "Q": set()}
            elif p[0] in "VW":
                res[p[1]][p[0]].append((p[2], [int(x) for x in p[3:]]))
            elif p[0] == "Y":
                res[p[1]].setdefault("Y", []).append([int(x) for x in p[3:]])
            elif p[0] == "Q":
                res[p[1]]["Q"].add((int(p[2]), int(p[3])))
    return res


def classify(fn, rule, a):
    """stable key of a violated rule instance"""
    if rule == "edge":
        p, v, m, u = a
        for (uid, kind, pid, vid, aux, nn) in fn.uses:
            if uid == u and pid == p:
                if kind == "R" and int(aux) > fn.nret:
                    return "return-tuple-index-bound"
                return "edge-rule:" + kind
        return "edge-rule:?"
    if rule == "transfer":
        p, x, r, m = a
        ins = fn.instrs.get(p)
        if ins is None:
            return "transfer-rule:?"
        kind, aux, ops = ins[0], ins[3], [o for o in ins[4] if o > 0]
        if kind == "Call" and aux.startswith("builtin:"):
            nm = aux[8:].split(",")[0]
            if nm in ("min", "max") and len(ops) >= 3:
                return "builtin-minmax-arity"
            return "transfer-rule:builtin:" + nm
        if kind == "Extract" and aux.endswith(",other") and fn.marks.get(m, "C") == "C":
            return "extract-index-noncall-tuple"
        return "transfer-rule:" + kind
    if rule == "forward":
        p, q, v, m = a
        ins = fn.instrs.get(p)
        if ins is not None and ins[0] == "Defer":
            return "defer-replay-not-propagated"
        qi = fn.instrs.get(q)
        return "forward-rule:" + (qi[0] if qi else "?")
    if rule == "origin":
        m, p, v = a
        for o in fn.origins:
            if o[0] == m:
                return "origin-rule:" + o[1]
        return "origin-rule:?"
    return rule


def describe_origin(o):
    mid, okind, pid, vid, idx, nn, tup = o
    return {"P": "parameter #%d (value v%d)" % (idx, vid), "V": "free variable #%d (value v%d)" % (idx, vid),
            "C": "result #%d of the call at point %d (value v%d)" % (idx, pid, vid)}[okind]


def describe_use(u):
    uid, kind, pid, vid, aux, nn = u
    return {"R": "result #%s of the return at point %d (value v%d)" % (aux, pid, vid),
            "A": "argument v%d of the call at point %d" % (vid, pid),
            "B": "bound variable v%d of the closure created at point %d" % (vid, pid),
            "I": "condition v%d of the if at point %d" % (vid, pid)}[kind]


def gen_builtins_table(chk):
    """T-gen: regenerate coq/gen/GenBuiltins.v.  The shared gentables binary is used when it builds; if another generator in
    that directory is broken, gen_builtins.go (standard library only) is built on its own with the shared main.go."""
    try:
        vlib.build_harness(["gentables"])
        vlib.gen_tables(["builtins"])
        return
    except vlib.BuildError as e:
        chk.notes.append("shared gentables did not build (%s); GenBuiltins.v generated by a private build of gen_builtins.go" % e.what)
    d = os.path.join(vlib.BUILD, "c08-gentables")
    shutil.rmtree(d, ignore_errors=True)
    os.makedirs(d)
    src = os.path.join(vlib.HARNESS, "cmd", "gentables")
    for f in ("main.go", "gen_builtins.go"):
        shutil.copy(os.path.join(src, f), d)
    open(os.path.join(d, "go.mod"), "w").write("module c08gentables\n\ngo 1.22\n")
    rc, out = vlib.sh(["go", "build", "-o", "gt", "."], cwd=d, timeout=600)
    if rc != 0:
        raise vlib.BuildError("private build of gen_builtins.go failed", out)
    tmp = os.path.join(d, "out")
    os.makedirs(tmp)
    rc, out = vlib.sh([os.path.join(d, "gt"), "-repo", vlib.REPO, "-out", tmp, "-only", "builtins"], timeout=300)
    if rc != 0:
        raise vlib.BuildError("gen_builtins failed", out)
    vlib._write_if_changed(os.path.join(vlib.COQ, "gen", "GenBuiltins.v"), open(os.path.join(tmp, "GenBuiltins.v")).read())


# ---------------------------------------------------------------------------------- the check
def run(chk):
    tier = chk.tier
    timing = {}
    t0 = time.time()

    def lap(name):
        nonlocal t0
        timing[name] = round(time.time() - t0, 1)
        t0 = time.time()
    vlib.build_harness(["c08dump"])
    lap("go_build_c08dump")
    gen_builtins_table(chk)
    lap("gen_tables")
    failed = chk.prove("theories/Properties/C08.v", extra_targets=["theories/Lang/RegSem.vo"])   # RegSem: extracted L2 booleans
    lap("coq_prove")
    model = vlib.build_model("c08")
    lap("extract_and_ocaml")
    work = os.path.join(vlib.BUILD, "c08")
    shutil.rmtree(work, ignore_errors=True)
    os.makedirs(work)
    dumper = os.path.join(vlib.BIN, "c08dump")

    pkgs = QUICK_PKGS if tier == "quick" else THOROUGH_PKGS
    base = os.path.join(vlib.REPO, BASE)
    pkgs = [p for p in pkgs if os.path.isdir(os.path.join(base, p))]
    nstd = os.environ.get("C08_STD_SAMPLE", "300") if tier == "quick" else "-1"
    maxfacts = "60000" if tier == "quick" else "1500000"
    maxcells = "150000" if tier == "quick" else "4000000"
    jobs = [("regress", [dumper, "-o", os.path.join(work, "regress.dump"), "-std", "0", "-maxfacts", maxfacts] + REGRESS),
            ("corpus", [dumper, "-o", os.path.join(work, "corpus.dump"), "-base", base, "-std", nstd, "-seed", str(chk.seed),
                        "-maxfacts", maxfacts, "-maxcells", maxcells] + pkgs)]
    procs = [(tag, subprocess.Popen(cmd, env=vlib.GOENV, stdout=subprocess.PIPE, stderr=subprocess.STDOUT, text=True))
             for tag, cmd in jobs]
    for tag, p in procs:
        try:
            out, _ = p.communicate(timeout=3000)
        except subprocess.TimeoutExpired:
            p.kill()
            raise vlib.BuildError("c08dump timed out on %s" % tag, "")
        if p.returncode != 0:
            raise vlib.BuildError("c08dump failed on %s" % tag, out)

    lap("dump_real_analysis")
    stats = collections.Counter()
    kinds_on_chains = collections.Counter()
    origin_kinds = collections.Counter()
    use_kinds = collections.Counter()
    by_key = collections.defaultdict(list)         # key -> [(fn name, text)]
    first_replay = {}
    nontrivial = set()
    found_concrete = False
    sizes = []

    for tag, _cmd in jobs:
        dump = os.path.join(work, tag + ".dump")
        outp = os.path.join(work, tag + ".model")
        rc, out = vlib.sh("ulimit -s unlimited 2>/dev/null || ulimit -s 4000000 2>/dev/null; exec %s 200 < %s > %s" % (model, dump, outp),
                          timeout=3000)
        if rc != 0:
            raise vlib.BuildError("c08model failed on %s" % tag, out)
        mres = parse_model_out(outp)
        for l in open(dump):
            if l.startswith("T "):
                for kv in l.split()[1:]:
                    k, v = kv.split("=")
                    stats[k] += int(v)
        for fn in parse_dump(dump):
            stats["functions"] += 1
            stats["functions_" + (fn.tag or "?")] += 1
            if fn.notes:
                stats["analysis_errors"] += 1
                for n in fn.notes:
                    if n.startswith("panic:"):
                        by_key["analysis-panic"].append((fn, "the analysis panicked on %s: %s" % (fn.name, n[:200]), None))
                if fn.npts == 0:
                    continue
            sizes.append(fn.npts)
            mr = mres.get(fn.fid)
            if mr is None:
                by_key["validator-no-result"].append((fn, "no validator result for %s" % fn.name, None))
                continue
            r = mr["R"]
            stats["facts"] += r["nfacts"]
            stats["facts_selected"] += r["nsel"]
            if not r["wf"]:
                stats["not_wf_ssa"] += 1
            required, info = spec(fn)
            stats["chains"] += info["chains"]
            stats["required_edges"] += len(required)
            stats["no_node_excluded"] += info["no_node"]
            stats["unreachable_origin_excluded"] += info["unreachable_origin"]
            kinds_on_chains.update(info["kinds"])
            if info["steps_ge1"]:
                stats["fn_with_chain_steps_ge1"] += 1
                nontrivial.add(fn.name)
            if info["steps_ge2"]:
                stats["fn_with_chain_steps_ge2"] += 1
            for (o, u, path) in required.values():
                origin_kinds[o[1]] += 1
                use_kinds[u[1]] += 1
            # spec (python) vs executable spec of the model (chain_values): must agree on origins/uses with nodes
            mine = {k for k, (o, u, _p) in required.items() if o[5] > 0 and u[5] > 0}
            if mine != mr["Q"]:
                stats["spec_vs_model_chain_search_differ"] += 1
                by_key["spec-model-mismatch"].append((fn, "python spec and the model's chain_values disagree on %s: only-python %s only-model %s"
                                                      % (fn.name, sorted(mine - mr["Q"])[:5], sorted(mr["Q"] - mine)[:5]), None))
            # (a) the property's spec against the implementation's edges
            missing = [(k, v) for k, v in required.items() if k not in fn.edges]
            vkeys = [(classify(fn, rule, a), rule, a) for rule, a in mr["V"]]
            wkeys = [(classify(fn, rule, a), rule, a) for rule, a in mr["W"]]
            for (mid, uid), (o, u, path) in missing:
                found_concrete = True
                stats["missing_edges"] += 1
                key = None
                if (o[1] == "C" and o[5] == 0) or u[5] == 0:
                    cp = o[2] if (o[1] == "C" and o[5] == 0) else u[2]
                    key = "builtin-name-shadow" if is_shadow(fn, cp) else "missing-call-node:" + fn.name
                else:
                    for (k, rule, a) in vkeys:
                        mk = {"edge": 2, "transfer": 3, "forward": 3, "origin": 0}[rule]
                        if a[mk] == mid:
                            key = k
                            break
                if key is None:
                    key = "uncovered-chain:" + u[1]
                txt = ("%s: the def-use chain from %s through [%s] to %s has no summary edge"
                       % (fn.name, describe_origin(o), ", ".join("%s@%d" % (k, p) for p, k in path), describe_use(u)))
                by_key[key].append((fn, txt, (o, u, path)))
            # (a') every call that must have a call node has one, whether or not a chain reaches it
            for pid, ins in fn.instrs.items():
                if must_have_node(fn, pid) and call_aux(ins)[1].get("nodes", 0) == 0 and not is_shadow(fn, pid):
                    found_concrete = True
                    stats["calls_without_node"] += 1
                    cls, d = call_aux(ins)
                    k = "missing-call-node:" + fn.name
                    if not any(x[0] is fn for x in by_key.get(k, ())):
                        by_key[k].append((fn, "%s: the %s at point %d (%s, %d argument(s), %d resolved callee(s)) has no call node in the "
                                              "summary: its arguments and results are connected to nothing"
                                          % (fn.name, ins[0], pid, cls, d.get("nargs", 0), d.get("callees", 0)), None))
                elif ins[0] in ("Call", "Go", "Defer") and ins[2]:
                    cls, d = call_aux(ins)
                    if d.get("nodes", 0) == 0:
                        stats["calls_without_node_justified:" + ("builtin" if cls.startswith("builtin:") else
                                                                 cls if cls == "errinvoke" else "no-resolved-callee")] += 1
                    else:
                        stats["calls_with_node"] += 1
            # (b) T-cert: the implementation's state must be closed under R / forward-closed
            if not r["closed"]:
                stats["not_closed"] += 1
            if not r["fwd"]:
                stats["not_forward_closed"] += 1
            for (k, rule, a) in vkeys + wkeys:
                if any(x[0] is fn for x in by_key.get(k, ())):
                    continue
                by_key[k].append((fn, "%s: rule instance violated in the implementation's final state: %s %s" % (fn.name, rule, a), None))
            if r["wf"] and r["closed"] and r["fwd"] and not missing:
                stats["validated"] += 1
            # (c) T-cert of the L2 fragment theorem (Properties/C01Sem.intra_sound_L2_noalias_partial_tcert): its boolean
            #     hypotheses on the real output.  Outside the fragment (check_addr_alloc false) the theorem does not apply.
            deref = r.get("nst", 0) + r.get("nld", 0)
            if deref:
                stats["l2_functions_with_store_or_load"] += 1
            if r.get("l2aa"):
                stats["l2_addr_alloc_true"] += 1
                if deref:
                    stats["l2_addr_alloc_true_with_store_or_load"] += 1
                if l2_strict_fragment(fn):
                    stats["l2_fragment_all_addresses_are_alloc_registers"] += 1
                if not r.get("l2sc"):
                    y = (mr.get("Y") or [[0, 0, 0, 0]])[0]
                    by_key["l2-store-closed:" + fn.name].append(
                        (fn, "%s satisfies check_addr_alloc but check_store_closed fails on the real state: store *v%d = v%d at point %d, "
                             "mark %d is on the stored value and not on the address register" % (fn.name, y[2], y[1], y[0], y[3]), None))
                if not r.get("l2lo"):
                    by_key["l2-loads-ok:" + fn.name].append((fn, "%s satisfies check_addr_alloc but check_loads_ok fails" % fn.name, None))
                if r["closed"] and r.get("l2sc") and r.get("l2lo"):
                    stats["l2_theorem_hypotheses_all_true"] += 1
                    if l2_strict_fragment(fn):
                        stats["l2_theorem_hypotheses_all_true_strict_fragment"] += 1
            else:
                stats["l2_outside_fragment"] += 1
                if not r.get("l2sc", 1):
                    stats["l2_store_closed_false_outside_fragment"] += 1
            if len(chk.cov["samples"]) < 6 and info["steps_ge2"]:
                k, (o, u, path) = max(required.items(), key=lambda kv: len(kv[1][2]))
                chk.sample({"function": fn.name, "points": fn.npts, "values": fn.nvals, "facts_checked": r["nfacts"],
                            "closed": bool(r["closed"]), "wf_ssa": bool(r["wf"]), "required_edges": len(required),
                            "longest_chain": {"from": describe_origin(o), "through": ["%s@%d" % (kk, p) for p, kk in path],
                                              "to": describe_use(u), "edge_present": k in fn.edges}})

    lap("validate_and_spec")
    chk.cov["timing_s"] = timing
    # ------------------------------------------------------------------ report
    for key, items in sorted(by_key.items()):
        items.sort(key=lambda x: x[2] is None)          # concrete uncovered chains first (stable)
        fn, txt, detail = items[0]
        d = chk.replay_dir(key)
        write_replay(d, key, items)
        first_replay[key] = d
        no_input = key in ("spec-model-mismatch", "validator-no-result")
        chk.violation(key, "%s (%d function(s))" % (txt, len({x[0].name for x in items})), d, no_input=no_input)
        stats["key:" + key] = len({x[0].name for x in items})
    chk.proof_broken(failed, found_concrete or bool(by_key))

    known = [k["key"] for k in vlib.load_known() if k["property"] == chk.prop]
    stale = [k for k in known if not any(k == h or (k.endswith("*") and h.startswith(k[:-1])) for h in by_key)]
    if stale:
        chk.cov["stale_known_finding"] = stale

    sizes.sort()
    chk.cov["evaluations"] = stats["functions"]
    chk.cov["distinct_nontrivial"] = len(nontrivial)
    chk.cov["rule"] = ("every reachable user-package function of the corpus programs (%s + corpus/c08) and %s standard-library functions "
                       "reachable from them (seed-chosen), each summarised by the real IntraProceduralAnalysis; distinct = distinct function name; "
                       "non-trivial = the function has >=1 def-use chain origin->use with >=1 value-computing instruction on it (>= 2 values)"
                       % (",".join(pkgs), "a sample of %s" % nstd if tier == "quick" else "all"))
    chk.cov["traces_validated_against_impl"] = stats["validated"]
    dist = {k: v for k, v in stats.items()}
    dist["instruction_kinds_on_chains"] = dict(kinds_on_chains)
    dist["origin_kinds"] = dict(origin_kinds)
    dist["use_kinds"] = dict(use_kinds)
    if sizes:
        dist["points_per_function"] = {"min": sizes[0], "median": sizes[len(sizes) // 2], "max": sizes[-1]}
    chk.cov["distribution"] = dist
    chk.cov["partial_or_refuted"] = [
        "impl_state_closed_refuted (Properties/C08.v): witness = the real final state of `func three(a string)(int,int,string)` dumped "
        "from the tree before fix e5a6fa9 (not closed, chain uncovered); on the current tree the function validates",
        "forward closure of the WHOLE state is refuted on the current tree for marks created by the defer replay "
        "(known finding defer-replay-not-propagated)",
        "intra_sound_L2_noalias_partial_tcert (Properties/C01Sem.v): its boolean hypotheses are evaluated per function, see distribution l2_*"]
    chk.assumptions += [
        "SSA as built by x/tools/go/ssa; wf_ssa (unique definitions, definitions reach uses along the CFG) is CHECKED by the verified "
        "check_wf_ssa on every function: %d of %d not wf" % (stats["not_wf_ssa"], stats["functions"]),
        "points unreachable from the entry block (recover blocks) are outside the model: the implementation's worklist never visits them",
        "a call may lack a call node only if its callee is a genuine handled *ssa.Builtin, it is the zero-argument invoke x.Error(), or "
        "AnalyzerState.ResolveCallee (asked by the dumper, independently of node creation) resolves no callee; every other call without "
        "a node is the violation missing-call-node:<fn>; origins/uses excluded for one of the justified reasons: %d" % stats["no_node_excluded"],
        "path-insensitive configuration (config.NewDefault); functions above the size caps are skipped: %d too large, %d too many facts"
        % (stats["skipped_too_large"], stats["skipped_too_many_facts"]),
        "L2 (Lang/RegSem.hfunc = func + store/load/alloc tables from the LS/LL/LA lines): check_addr_alloc delimits the fragment of "
        "intra_sound_L2_noalias_partial_tcert; it is vacuously true for address registers that no instruction defines (parameters, free "
        "variables, globals) -- the count l2_fragment_all_addresses_are_alloc_registers is the strict, independently computed fragment",
        "the selection of the closed subset S' of the implementation's facts is done by the untrusted driver; the verified checker "
        "proves S' closed w.r.t. the full CFG and rule system, every Edge in S' is a real summary edge",
    ]
    chk.cov["trusted_base"] += ["harness/cmd/c08dump (exported API only: post-block callback, FlowInfo().MarkedValues, node accessors)",
                                "coq/extracted/c08/driver.ml (parser; untrusted selection of S')",
                                "harness/cmd/gentables/gen_builtins.go (Go AST -> GenBuiltins.v)"]
    return chk.finish()


def write_replay(d, key, items):
    fn, txt, detail = items[0]
    with open(os.path.join(d, "replay.txt"), "w") as f:
        f.write("property C08, key %s\n\n%s\n\n" % (key, txt))
        if detail:
            o, u, path = detail
            f.write("origin : %s\nuse    : %s\nchain  : %s\nexpected: a summary edge origin-node -> use-node (mark %d -> use node %d)\n"
                    "observed: no such edge in the summary built by the real IntraProceduralAnalysis\n\n"
                    % (describe_origin(o), describe_use(u), " -> ".join("%s@%d" % (k, p) for p, k in path) or "(direct use)", o[0], u[0]))
        f.write("program: %s\nre-run : build/bin/c08dump -std -1 -only '%s' %s | build/bin/c08model\n"
                % (fn.src, "^" + re.escape(fn.name) + "$", fn.src if os.path.exists(os.path.join(fn.src, "go.mod")) else
                   "-base %s <package patterns>" % fn.src))
        f.write("         (V lines = violated rule instances of Model/Intra.v; python3 tools/check.py C08 --replay %s)\n\n" % d)
        names = sorted({x[0].name for x in items})
        f.write("%d function(s) with this key:\n" % len(names))
        for n in names[:200]:
            f.write("  " + n + "\n")
        f.write("\nfurther instances:\n")
        for _fn, t, _d in items[1:20]:
            f.write("  " + t + "\n")
    with open(os.path.join(d, "function.dump"), "w") as f:
        f.writelines(fn.lines)
        if len(fn.lines) >= 6000:
            f.write("X truncated\n")


def replay(chk, path):
    p = os.path.join(path, "replay.txt") if os.path.isdir(path) else path
    print(open(p).read())
    fd = os.path.join(path, "function.dump")
    model = os.path.join(vlib.BIN, "c08model")
    if os.path.isdir(path) and os.path.exists(fd) and os.path.exists(model):
        rc, out = vlib.sh("%s 50 < %s" % (model, fd), timeout=300)
        print("validator on the recorded dump of the function:\n" + "\n".join(l for l in out.splitlines() if l[:1] in "RVW"))
    return 0
