"""C11 - pointer analysis never misses a run-time alias   (shares generator, dumper and native runs with C12)

proof     : coq/theories/Properties/C11.v   (Lang/MuSSA.v semantics, Model/Andersen.v constraints + checker + solver)
tie T-dump: harness/cmd/c11dump -mu (ssa2mu translation of the user functions)  ->  extracted model build/bin/c11model:
            least solution keyed by (function, SSA name) -> allocation sites must be a subset of the impl's labels
search T-gt: generated heap-manipulating programs executed natively; every logged (probe, address) must lie in an object
            whose allocation site is in the probe's points-to set, equal addresses of equal static type must MayAlias
"""
import json
import os
import re
import shutil
import sys

import vlib

# ------------------------------------------------------------------------------------------------ generated programs
PRELUDE = r'''package main

import (
	"bufio"
	"container/list"
	"context"
	"fmt"
	"os"
	"runtime/debug"
	"runtime/pprof"
	"runtime/trace"
	"sort"
	"sync"
)

type T struct {
	a    int
	p    *int
	next *T
	f    func(*T) *T
	i    I
}

type U struct {
	k int
	t T
	q *T
	s []*T
	m map[string]*T
	c chan *T
}

type I interface{ M(x *T) *T }

type J interface {
	I
	N() *T
}

type A struct{ t *T }

func (a *A) M(x *T) *T {
	enter("A.M")
	if cond() {
		a.t = x
		return x
	}
	if a.t != nil {
		return a.t
	}
	return x
}

func (a *A) N() *T {
	enter("A.N")
	if a.t == nil {
		a.t = fbT
	}
	return a.t
}

type B struct {
	t *T
	k int
}

func (b B) M(x *T) *T {
	enter("B.M")
	if b.t != nil && cond() {
		b.t.next = x
		return b.t
	}
	return x
}

type D struct{ t *T }

func (d D) M(x *T) *T {
	enter("D.M")
	if d.t != nil {
		x.next = d.t
	}
	return x
}

func (d D) N() *T {
	enter("D.N")
	if d.t != nil {
		return d.t
	}
	return fbT
}

type E struct{ *A }

type W[X any] struct{ v X }

func (w *W[X]) Get() X {
	enter("W.Get")
	return w.v
}

func (w *W[X]) Set(x X) {
	enter("W.Set")
	w.v = x
}

func Gid[X any](x X) X {
	enter("Gid")
	return x
}

func Gapply[X any](x X, f func(X) X) X {
	enter("Gapply")
	cs(1)
	r := f(x)
	cs(-1)
	return r
}


// ---- call-free single-block accessors: analysed in one context per static call site; the points-to set of *p is what the
// dataflow layer reads through PointerAnalysis.IndirectQueries[p]
func acc1(p **T) *T                            { return *p }
func acc2(p *[]*T) []*T                        { return *p }
func acc3(p *map[string]*T) map[string]*T      { return *p }
func acc4(p **T, x *T)                         { *p = x }

func iobsT(id int, p *T) { fmt.Fprintf(out, "P %d T %p\n", id, p) }
func iobsS(id int, s []*T) {
	if len(s) > 0 {
		fmt.Fprintf(out, "P %d S %p\n", id, s)
	}
}
func iobsM(id int, m map[string]*T) { fmt.Fprintf(out, "P %d M %p\n", id, m) }

type ctxKey struct{ n int }

var pool sync.Pool

// ---- values of several words: structs and arrays passed, returned, merged and stored BY VALUE
type S2 struct{ p, q *T }
type Arr [2]*T
type Opts struct{ a, b *T }

func pickS(a, b S2) S2 {
	enter("pickS")
	r := a
	if cond() {
		r = b
	}
	return r
}

func pickA(a, b Arr) Arr {
	enter("pickA")
	r := a
	if cond() {
		r = b
	}
	return r
}

func pickO(o Opts) *T {
	enter("pickO")
	if cond() {
		return o.a
	}
	return o.b
}

func swapS(s S2) S2 {
	enter("swapS")
	return S2{p: s.q, q: s.p}
}

type Pk interface {
	pick(o Opts) *T
	pickArr(o Arr) *T
	mk(x, y *T) Opts
}

type PA struct{ t *T }

func (p *PA) pick(o Opts) *T {
	enter("PA.pick")
	if cond() {
		return o.a
	}
	return o.b
}
func (p *PA) pickArr(o Arr) *T {
	enter("PA.pickArr")
	if cond() {
		return o[0]
	}
	return o[1]
}
func (p *PA) mk(x, y *T) Opts {
	enter("PA.mk")
	p.t = x
	return Opts{a: x, b: y}
}

type PB struct {
	k int
	t *T
}

func (p PB) pick(o Opts) *T {
	enter("PB.pick")
	if cond() {
		return o.b
	}
	return o.a
}
func (p PB) pickArr(o Arr) *T {
	enter("PB.pickArr")
	return o[p.k&1]
}
func (p PB) mk(x, y *T) Opts {
	enter("PB.mk")
	return Opts{a: y, b: x}
}

// ---- value-receiver method whose receiver carries callables; reached through interfaces holding *V (synthetic pointer
// wrapper (*V).run with ssa:wrapnilchk), holding V, and through the method expressions (*V).run / V.run
type V struct {
	f func(*T) *T
	i I
	t *T
}

func (v V) run(x *T) *T {
	enter("V.run")
	r := x
	if v.f != nil {
		cs(2)
		r = v.f(x)
		cs(-1)
	}
	if v.i != nil && cond() {
		cs(3)
		r = v.i.M(x)
		cs(-1)
	}
	if r == nil {
		r = x
	}
	return r
}

type R interface{ run(x *T) *T }

// ---- mutually referencing types holding callables; pair A is always allocated tree-first, pair B node-first
type treeA struct {
	root *nodeA
	n    int
}
type nodeA struct {
	owner *treeA
	visit func(*T) *T
	it    I
}
type treeB struct {
	root *nodeB
	n    int
}
type nodeB struct {
	owner *treeB
	visit func(*T) *T
	it    I
}

var out *bufio.Writer
var cur = -1
var bits uint
var fbT = &T{a: -1}

func setup() {
	debug.SetGCPercent(-1)
	out = bufio.NewWriter(os.Stdout)
	var zT [2]T
	var zU [2]U
	var zA [2]A
	var zI [2]int
	var zP [2]*T
	fmt.Fprintf(out, "Z T %p %p\nZ U %p %p\nZ A %p %p\nZ I %p %p\nZ PT %p %p\n", &zT[0], &zT[1], &zU[0], &zU[1], &zA[0], &zA[1],
		&zI[0], &zI[1], &zP[0], &zP[1])
}
func flush()        { out.Flush() }
func setbits(v int) { bits = uint(v)*2654435761 + 12345; fmt.Fprintf(out, "RUN %d\n", v) }
func cond() bool {
	b := bits&1 == 1
	bits = bits>>1 | (bits&1)<<31
	return b
}
func cs(k int)         { cur = k }

// leaf functions without any effect on aliasing: candidates for the pointer-config unsafe-no-effect-functions option
func pureA(p *T) int      { return p.a + 1 }
func pureB(x, y int) int  { return x*31 + y }
func pureC(p, q *T) bool  { return p == q }
func enter(tag string) { fmt.Fprintf(out, "C %d %s\n", cur, tag); cur = -1 }

func probeT(id int, p *T)   { fmt.Fprintf(out, "P %d T %p\n", id, p) }
func probePT(id int, p **T) { fmt.Fprintf(out, "P %d PT %p\n", id, p) }
func probeI(id int, p *int) { fmt.Fprintf(out, "P %d I %p\n", id, p) }
func probeU(id int, p *U)   { fmt.Fprintf(out, "P %d U %p\n", id, p) }
func probeA(id int, p *A)   { fmt.Fprintf(out, "P %d A %p\n", id, p) }
func probeS(id int, s []*T) {
	if len(s) > 0 {
		fmt.Fprintf(out, "P %d S %p\n", id, s)
	}
}
func probeM(id int, m map[string]*T) { fmt.Fprintf(out, "P %d M %p\n", id, m) }
func probeC(id int, c chan *T)       { fmt.Fprintf(out, "P %d C %p\n", id, c) }

func siteT(id int, p *T)             { fmt.Fprintf(out, "A %d T %p 1\n", id, p) }
func sitePT(id int, p **T)           { fmt.Fprintf(out, "A %d PT %p 1\n", id, p) }
func siteI(id int, p *int)           { fmt.Fprintf(out, "A %d I %p 1\n", id, p) }
func siteU(id int, p *U)             { fmt.Fprintf(out, "A %d U %p 1\n", id, p) }
func siteA(id int, p *A)             { fmt.Fprintf(out, "A %d A %p 1\n", id, p) }
func siteS(id int, s []*T)           { fmt.Fprintf(out, "A %d PT %p %d\n", id, s, len(s)) }
func siteM(id int, m map[string]*T)  { fmt.Fprintf(out, "A %d M %p 1\n", id, m) }
func siteC(id int, c chan *T)        { fmt.Fprintf(out, "A %d C %p 1\n", id, c) }
'''


class Gen:
    """one program: helper functions, recursive functions, scenario functions s0..sN-1, main"""

    def __init__(self, seed, nscen, nhelp=6, exotic=True, nvscen=None):
        self.rnd = vlib.lcg(seed)
        self.nscen = nscen
        self.nvscen = (nscen * 3) // 5 if nvscen is None else nvscen
        self.nhelp = nhelp
        self.exotic_ok = exotic
        self.ids = {"probe": 0, "site": 0, "cs": 3}     # cs 1 is used by Gapply, 2 and 3 by V.run
        self.lines = []
        self.meta = {"probes": {}, "sites": {}, "cs": {1: ("Gapply", "dyn"), 2: ("V.run", "funcvalue-recvfield"),
                                                       3: ("V.run", "invoke-recvfield")}, "features": {}}

    def nid(self, k):
        self.ids[k] += 1
        return self.ids[k]

    def feat(self, f):
        self.meta["features"][f] = self.meta["features"].get(f, 0) + 1

    def pick(self, xs):
        return xs[self.rnd(len(xs))]

    # ---- top-level helpers
    def helpers(self):
        L = self.lines
        L.append("var gT *T = fbT")
        L.append("var gF func(*T) *T")
        L.append("var gFm = map[string]func(*T) *T{}")
        L.append("var gI I")
        L.append("var gS []*T")
        L.append("var gPP **T")
        for k in range(self.nhelp):
            L.append("func h%d(x, y *T) *T {" % k)
            L.append('\tenter("h%d")' % k)
            for _ in range(1 + self.rnd(3)):
                c = self.rnd(9)
                if c in (1, 5, 7) and k % 3 != 0:
                    c = 8
                if c == 0:
                    L.append("\tx.next = y")
                elif c == 1:
                    L.append("\tgT = x")
                elif c == 2:
                    L.append("\tif cond() {\n\t\treturn y\n\t}")
                elif c == 3:
                    L.append("\tif x.next != nil {\n\t\tx = x.next\n\t}")
                elif c == 4:
                    L.append("\ty.p = &x.a")
                elif c == 5:
                    L.append("\tif gT != nil && cond() {\n\t\ty = gT\n\t}")
                elif c == 6 and k > 0:
                    i = self.nid("cs")
                    self.meta["cs"][i] = ("h%d" % k, "static")
                    L.append("\tcs(%d)\n\ty = h%d(y, x)\n\tcs(-1)" % (i, self.rnd(k)))
                elif c == 7:
                    L.append("\tif gPP != nil && *gPP != nil && cond() {\n\t\tx = *gPP\n\t}")
                else:
                    L.append("\tx, y = y, x")
            L.append("\treturn %s\n}" % self.pick(["x", "y"]))
            # single-parameter variant used as a function value
            L.append("func k%d(x *T) *T {" % k)
            L.append('\tenter("k%d")' % k)
            c = self.rnd(5)
            if c in (0, 1) and k % 3 != 0:
                c = 2 + self.rnd(3)
            if c == 0:
                L.append("\tgT = x\n\treturn x\n}")
            elif c == 1:
                L.append("\tif gT != nil {\n\t\treturn gT\n\t}\n\treturn x\n}")
            elif c == 2:
                L.append("\tif x.next != nil {\n\t\treturn x.next\n\t}\n\treturn x\n}")
            elif c == 3:
                i = self.nid("site")
                L.append("\tn := &T{next: x}\n\tsiteT(%d, n)\n\treturn n\n}" % i)
            else:
                L.append("\treturn x\n}")
        # recursion (self and mutual)
        for k in range(2):
            i = self.nid("site")
            c = self.nid("cs")
            self.meta["cs"][c] = ("r%d" % k, "static-rec")
            L.append("func r%d(x *T, n int) *T {" % k)
            L.append('\tenter("r%d")' % k)
            L.append("\tif n <= 0 {\n\t\treturn x\n\t}")
            L.append("\tnn := &T{next: x}\n\tsiteT(%d, nn)" % i)
            L.append("\tcs(%d)\n\tres := r%d(nn, n-1)\n\tcs(-1)\n\treturn res\n}" % (c, (k + 1) % 2 if self.rnd(2) else k))

    # ---- scenarios
    def scenario(self, k):
        rnd = self.rnd
        L = []
        name = "s%d" % k
        exotic = self.exotic_ok and rnd(4) == 0
        shared = rnd(3) == 0        # only some scenarios exchange pointers through globals (keeps points-to sets sharp)
        em = L.append
        em("func %s() {" % name)
        em('\tenter("%s")' % name)
        clo = [0]

        def alloc(kind, expr, ind="\t"):
            i = self.nid("site")
            self.meta["sites"][i] = kind
            v = "n%d" % i
            em("%s%s := %s" % (ind, v, expr))
            em("%ssite%s(%d, %s)" % (ind, kind if kind != "S" else "S", i, v))
            return v

        # pools
        tv = ["t%d" % i for i in range(3 + rnd(2))]
        em("\tfb := %s" % alloc("T", "&T{a: 99}"))
        for i, v in enumerate(tv):
            em("\t%s := %s" % (v, alloc("T", "&T{a: %d}" % i)))
        have = {"T": tv}
        if rnd(2):
            have["I"] = ["i0", "i1"]
            em("\ti0 := %s" % alloc("I", "new(int)"))
            em("\ti1 := &%s.a" % tv[0])
        if rnd(2):
            have["PT"] = ["pp0"]
            i = self.nid("site")
            self.meta["sites"][i] = "PT"
            em("\tsitePT(%d, &%s)" % (i, tv[0]))
            em("\tpp0 := &%s" % tv[0])
        if rnd(2):
            have["S"] = ["sl0", "sl1"]
            em("\tsl0 := %s" % alloc("S", "make([]*T, 3)"))
            em("\tsl0[0], sl0[1], sl0[2] = fb, fb, fb")
            em("\tsl1 := sl0[1:]")
        if rnd(2):
            have["M"] = ["m0"]
            em("\tm0 := %s" % alloc("M", "make(map[string]*T)"))
        if rnd(3) == 0:
            have["C"] = ["c0"]
            em("\tc0 := %s" % alloc("C", "make(chan *T, 4)"))
        if rnd(2):
            have["U"] = ["u0"]
            ns = alloc("S", "make([]*T, 2)")
            nm = alloc("M", "make(map[string]*T)")
            nc = alloc("C", "make(chan *T, 2)")
            em("\tu0 := %s" % alloc("U", "&U{q: %s, s: %s, m: %s, c: %s}" % (tv[1], ns, nm, nc)))
        if rnd(3) > 0:
            have["F"] = ["f0", "f1"]
            em("\tf0 := k%d" % rnd(self.nhelp))
            em("\tvar f1 func(*T) *T = k%d" % rnd(self.nhelp))
        if rnd(3) > 0:
            have["A"] = ["a0"]
            em("\ta0 := %s" % alloc("A", "&A{t: %s}" % tv[0]))
            have["IF"] = ["x0"]
            em("\tvar x0 I = a0")
            if rnd(2):
                have["J"] = ["j0"]
                em("\tvar j0 J = a0")

        def T():
            return self.pick(have["T"])

        def fix(v, ind):
            em("%sif %s == nil {\n%s\t%s = fb\n%s}" % (ind, v, ind, v, ind))

        def call(ind, kind, stmt):
            i = self.nid("cs")
            self.meta["cs"][i] = (name, kind)
            self.feat("call:" + kind)
            em("%scs(%d)" % (ind, i))
            em("%s%s" % (ind, stmt))
            em("%scs(-1)" % ind)

        def probe_all(ind):
            for kind, vs in have.items():
                if kind in ("F", "IF", "J"):
                    continue
                for v in vs:
                    if rnd(3) == 0:
                        continue
                    i = self.nid("probe")
                    self.meta["probes"][i] = kind
                    em("%sprobe%s(%d, %s)" % (ind, kind, i, v))

        def stmt(ind, depth):
            c = rnd(46)
            x, y, z = T(), T(), T()
            if c == 0:
                em("%s%s = %s" % (ind, x, y)); self.feat("copy")
            elif c == 1:
                em("%s%s.next = %s" % (ind, x, y)); self.feat("store-field")
            elif c == 2:
                em("%s%s = %s.next" % (ind, x, y)); fix(x, ind); self.feat("load-field")
            elif c == 3:
                em("%s%s = %s" % (ind, x, alloc("T", "&T{next: %s}" % y, ind))); self.feat("alloc")
            elif c == 4 and "I" in have:
                p = self.pick(have["I"])
                em("%s%s = &%s.a" % (ind, p, x)); self.feat("fieldaddr")
            elif c == 5 and "I" in have:
                p = self.pick(have["I"])
                em("%s%s.p = %s" % (ind, x, p)); self.feat("store-field")
            elif c == 6 and "I" in have:
                p = self.pick(have["I"])
                em("%sif %s.p != nil {\n%s\t%s = %s.p\n%s}" % (ind, x, ind, p, x, ind)); self.feat("load-field")
            elif c == 7 and "PT" in have:
                em("%s*pp0 = %s" % (ind, x)); self.feat("store-ptr")
            elif c == 8 and "PT" in have:
                em("%s%s = *pp0" % (ind, x)); fix(x, ind); self.feat("load-ptr")
            elif c == 9 and "PT" in have:
                em("%spp0 = &%s.next" % (ind, x)); self.feat("fieldaddr")
            elif c == 10 and "PT" in have and shared:
                em("%sgPP = pp0" % ind); self.feat("global")
            elif c == 11 and "S" in have:
                s = self.pick(have["S"])
                em("%s%s[0] = %s" % (ind, s, x)); self.feat("slice-store")
            elif c == 12 and "S" in have:
                s = self.pick(have["S"])
                em("%s%s = %s[0]" % (ind, x, s)); fix(x, ind); self.feat("slice-load")
            elif c == 13 and "S" in have:
                em("%sif len(sl0) > 1 {\n%s\tsl1 = sl0[1:]\n%s}" % (ind, ind, ind)); self.feat("reslice")
            elif c == 14 and "S" in have and "PT" in have:
                em("%spp0 = &sl0[1]" % ind); self.feat("indexaddr")
            elif c == 15 and "S" in have and exotic:
                em("%ssl1 = append(sl1, %s)" % (ind, x)); self.feat("append")
            elif c == 16 and "S" in have and exotic:
                em("%sfor _, e := range sl0 {\n%s\tif e != nil {\n%s\t\t%s = e\n%s\t}\n%s}" % (ind, ind, ind, x, ind, ind)); self.feat("range-slice")
            elif c == 17 and "M" in have:
                em('%sm0["%s"] = %s' % (ind, self.pick("ab"), x)); self.feat("map-store")
            elif c == 18 and "M" in have:
                em('%s%s = m0["%s"]' % (ind, x, self.pick("ab"))); fix(x, ind); self.feat("map-load")
            elif c == 19 and "M" in have and exotic:
                em("%sfor _, e := range m0 {\n%s\tif e != nil {\n%s\t\t%s = e\n%s\t}\n%s}" % (ind, ind, ind, x, ind, ind)); self.feat("range-map")
            elif c == 20 and "C" in have:
                em("%sif len(c0) < cap(c0) {\n%s\tc0 <- %s\n%s}" % (ind, ind, x, ind)); self.feat("chan-send")
            elif c == 21 and "C" in have:
                em("%sif len(c0) > 0 {\n%s\t%s = <-c0\n%s}" % (ind, ind, x, ind)); fix(x, ind); self.feat("chan-recv")
            elif c == 22 and "U" in have:
                w = rnd(6)
                if w == 0:
                    em("%su0.q = %s" % (ind, x))
                elif w == 1:
                    em("%s%s = u0.q" % (ind, x)); fix(x, ind)
                elif w == 2:
                    em("%su0.t.next = %s" % (ind, x))
                elif w == 3:
                    em("%s%s = &u0.t" % (ind, x))
                elif w == 4:
                    em("%su0.s[1] = %s" % (ind, x))
                else:
                    em('%su0.m["k"] = %s' % (ind, x))
                self.feat("nested-struct")
            elif c == 23 and "U" in have:
                w = rnd(3)
                if w == 0:
                    em("%s%s = u0.s[1]" % (ind, x)); fix(x, ind)
                elif w == 1:
                    em('%s%s = u0.m["k"]' % (ind, x)); fix(x, ind)
                else:
                    em("%sif len(u0.c) < cap(u0.c) {\n%s\tu0.c <- %s\n%s}\n%sif len(u0.c) > 0 && cond() {\n%s\t%s = <-u0.c\n%s}" %
                       (ind, ind, y, ind, ind, ind, x, ind)); fix(x, ind)
                self.feat("nested-containers")
            elif c == 24:
                hk = rnd(self.nhelp)
                call(ind, "static", "%s = h%d(%s, %s)" % (x, hk, y, z)); fix(x, ind)
            elif c == 25:
                call(ind, "static-rec", "%s = r%d(%s, 2)" % (x, rnd(2), y))
            elif c == 26 and "F" in have:
                f = self.pick(have["F"])
                call(ind, "funcvalue", "%s = %s(%s)" % (x, f, y)); fix(x, ind)
            elif c == 27 and "F" in have:
                f = self.pick(have["F"])
                em("%s%s = k%d" % (ind, f, rnd(self.nhelp))); self.feat("func-assign")
            elif c == 28 and "F" in have:
                f = self.pick(have["F"])
                clo[0] += 1
                cap1, cap2 = T(), T()
                w = rnd(3)
                body = ["%s = func(q *T) *T {" % f, '\tenter("%s$%d")' % (name, clo[0])]
                if w == 0:
                    body += ["\t%s = q" % cap1, "\treturn %s" % cap2]
                elif w == 1:
                    body += ["\tq.next = %s" % cap1, "\treturn q"]
                else:
                    body += ["\tif cond() {", "\t\treturn %s" % cap1, "\t}", "\treturn q"]
                body.append("}")
                for b in body:
                    em(ind + b)
                self.feat("closure")
            elif c == 29 and "F" in have:
                f = self.pick(have["F"])
                w = rnd(4) if shared else 3 * rnd(2)
                if w == 0:
                    em("%s%s.f = %s" % (ind, x, f))
                    self.feat("func-in-field")
                elif w == 1:
                    em("%sgF = %s" % (ind, f)); self.feat("func-in-global")
                elif w == 2:
                    em('%sgFm["%s"] = %s' % (ind, self.pick("ab"), f)); self.feat("func-in-map")
                else:
                    em("%sif %s.f != nil {\n%s\t%s = %s.f\n%s}" % (ind, y, ind, f, y, ind))
            elif c == 30:
                w = rnd(3) if shared else 0
                if w == 0:
                    em("%sif %s.f != nil {" % (ind, y))
                    call(ind + "\t", "funcvalue-field", "%s = %s.f(%s)" % (x, y, z))
                    em("%s}" % ind)
                elif w == 1:
                    em("%sif gF != nil {" % ind)
                    call(ind + "\t", "funcvalue-global", "%s = gF(%s)" % (x, z))
                    em("%s}" % ind)
                else:
                    k2 = self.pick("ab")
                    em('%sif g := gFm["%s"]; g != nil {' % (ind, k2))
                    call(ind + "\t", "funcvalue-map", "%s = g(%s)" % (x, z))
                    em("%s}" % ind)
                fix(x, ind)
            elif c == 31 and "F" in have:
                f = self.pick(have["F"])
                w = rnd(3)
                if w == 0 and "A" in have:
                    em("%s%s = a0.M" % (ind, f))
                elif w == 1 and "IF" in have:
                    em("%s%s = x0.M" % (ind, f))        # method value of an interface value
                else:
                    # receiver reachable only through the bound-method closure
                    em("%s%s = %s.M" % (ind, f, alloc("A", "&A{t: %s}" % y, ind)))
                self.feat("bound-method")
                call(ind, "bound-method", "%s = %s(%s)" % (x, f, z)); fix(x, ind)
            elif c == 32 and "A" in have:
                clo[0] += 1
                mx = "mx%d" % clo[0]
                em("%s%s := (*A).M" % (ind, mx))
                call(ind, "method-expr", "%s = %s(a0, %s)" % (x, mx, y)); fix(x, ind)
            elif c == 33 and "IF" in have:
                call(ind, "invoke", "%s = x0.M(%s)" % (x, y)); fix(x, ind)
            elif c == 34 and "IF" in have:
                w = rnd(5) if shared else rnd(4)
                if w == 0:
                    em("%sx0 = %s" % (ind, alloc("A", "&A{t: %s}" % y, ind)))
                elif w == 1:
                    em("%sx0 = B{t: %s, k: 1}" % (ind, y))
                elif w == 2:
                    em("%sx0 = D{t: %s}" % (ind, y))
                elif w == 3:
                    em("%sx0 = E{a0}" % ind)
                else:
                    em("%sgI = x0" % ind)
                self.feat("makeinterface")
            elif c == 35 and "J" in have:
                w = rnd(4)
                if w == 0:
                    call(ind, "invoke-embedded", "%s = j0.M(%s)" % (x, y)); fix(x, ind)
                elif w == 1:
                    call(ind, "invoke", "%s = j0.N()" % x); fix(x, ind)
                elif w == 2:
                    em("%sj0 = %s" % (ind, self.pick(["D{t: %s}" % y, "E{a0}", "a0"]))); self.feat("makeinterface")
                else:
                    em("%sx0 = j0" % ind); self.feat("changeinterface")
            elif c == 36 and "IF" in have:
                em("%s%s.i = x0" % (ind, x))
                em("%sif %s.i != nil {" % (ind, y))
                call(ind + "\t", "invoke-field", "%s = %s.i.M(%s)" % (z, y, x))
                em("%s}" % ind)
                fix(z, ind)
            elif c == 37 and shared:
                em("%sif gI != nil {" % ind)
                call(ind + "\t", "invoke-global", "%s = gI.M(%s)" % (x, y))
                em("%s}" % ind)
                fix(x, ind)
            elif c == 38:
                w = rnd(3)
                if w == 0:
                    call(ind, "generic", "%s = Gid[*T](%s)" % (x, y))
                elif w == 1 and "F" in have:
                    call(ind, "generic", "%s = Gapply[*T](%s, %s)" % (x, y, self.pick(have["F"])))
                    fix(x, ind)
                else:
                    clo[0] += 1
                    w = "w%d" % clo[0]
                    em("%s%s := &W[*T]{v: %s}" % (ind, w, y))
                    call(ind, "generic-method", "%s.Set(%s)" % (w, z))
                    call(ind, "generic-method", "%s = %s.Get()" % (x, w))
                    fix(x, ind)
            elif c == 39 and "IF" in have and exotic:
                em("%sif aa, ok := x0.(*A); ok && aa.t != nil {\n%s\t%s = aa.t\n%s}" % (ind, ind, x, ind)); self.feat("typeassert")
            elif c == 40 and depth < 2:
                em("%sif cond() {" % ind)
                for _ in range(1 + rnd(3)):
                    stmt(ind + "\t", depth + 1)
                if rnd(2):
                    em("%s} else {" % ind)
                    for _ in range(1 + rnd(2)):
                        stmt(ind + "\t", depth + 1)
                em("%s}" % ind)
                self.feat("branch")
            elif c == 41 and depth < 2:
                em("%sfor it := 0; it < 2; it++ {" % ind)
                for _ in range(1 + rnd(3)):
                    stmt(ind + "\t", depth + 1)
                em("%s}" % ind)
                self.feat("loop")
            elif c == 42 and shared:
                em("%sgT = %s" % (ind, x)); self.feat("global")
            elif c == 43 and shared:
                em("%s%s = gT" % (ind, x)); fix(x, ind); self.feat("global")
            elif c == 44 and depth == 0:
                probe_all(ind)
                em("%sif pureC(%s, %s) {\n%s\tfb.a = pureA(%s) + pureB(1, fb.a)\n%s}" % (ind, x, y, ind, z, ind)); self.feat("pure-call")
            elif c == 45 and "S" in have and shared:
                em("%sgS = sl0" % ind)
                em("%sif len(gS) > 0 && gS[0] != nil {\n%s\t%s = gS[0]\n%s}" % (ind, ind, x, ind)); self.feat("global-slice")
            else:
                stmt(ind, depth)

        for _ in range(6 + rnd(10)):
            stmt("\t", 0)
        probe_all("\t")
        # keep every declared variable used
        for kind, vs in have.items():
            for v in vs:
                em("\t_ = %s" % v)
        em("\t_ = fb")
        em("}")
        self.meta["features"]["exotic_scenarios"] = self.meta["features"].get("exotic_scenarios", 0) + (1 if exotic else 0)
        return L

    def scenario_b(self, k):
        """value-heavy scenarios (outside the muSSA fragment): struct/array values through phis, by-value parameters and
        results on static/closure/bound/interface calls, multi-word values in channels/maps/slices, value-receiver methods
        behind pointer-holding interfaces and method expressions with callbacks in the receiver, mutually recursive types"""
        rnd = self.rnd
        L = []
        name = "v%d" % k
        em = L.append
        em("func %s() {" % name)
        em('\tenter("%s")' % name)
        cnt = [0]

        def alloc(kind, expr, ind="\t"):
            i = self.nid("site")
            self.meta["sites"][i] = kind
            v = "n%d" % i
            em("%s%s := %s" % (ind, v, expr))
            em("%ssite%s(%d, %s)" % (ind, kind, i, v))
            return v

        tv = ["t%d" % i for i in range(4)]
        em("\tfb := %s" % alloc("T", "&T{a: 99}"))
        for i, v in enumerate(tv):
            em("\t%s := %s" % (v, alloc("T", "&T{a: %d}" % i)))
        em("\tsA := S2{p: t0, q: t1}")
        em("\tsB := S2{p: t2, q: t3}")
        em("\tvar pk Pk = &PA{t: t0}")
        em("\tvar rr R = &V{t: t0}")
        em("\tchS := make(chan S2, 4)")
        em("\tmS := map[string]S2{}")
        em("\tslS := make([]S2, 2)")
        em("\tslS[0], slS[1] = sA, sB")
        em("\tfo := func(o Opts) *T { return o.a }")
        em("\tvar x0 I = &A{t: t1}")

        def T():
            return self.pick(tv)

        def fix(v, ind):
            em("%sif %s == nil {\n%s\t%s = fb\n%s}" % (ind, v, ind, v, ind))

        def call(ind, kind, stmt):
            i = self.nid("cs")
            self.meta["cs"][i] = (name, kind)
            self.feat("call:" + kind)
            em("%scs(%d)" % (ind, i))
            em("%s%s" % (ind, stmt))
            em("%scs(-1)" % ind)

        def fresh():
            cnt[0] += 1
            return cnt[0]

        def funclit(ind, cap=None):
            """a function literal reachable only through the place it is stored in"""
            n = fresh()
            tag = "%s$%d" % (name, n)
            if cap is None or rnd(2):
                return "func(q *T) *T {\n%s\tenter(\"%s\")\n%s\treturn q\n%s}" % (ind, tag, ind, ind)
            return "func(q *T) *T {\n%s\tenter(\"%s\")\n%s\tq.next = %s\n%s\treturn %s\n%s}" % (ind, tag, ind, cap, ind, cap, ind)

        def probes(ind):
            for v in tv:
                if rnd(3):
                    i = self.nid("probe")
                    self.meta["probes"][i] = "T"
                    em("%sprobeT(%d, %s)" % (ind, i, v))

        def stmt(ind, depth):
            c = rnd(40)
            x, y, z = T(), T(), T()
            def res(ind2, expr, guard=False):
                """fresh single-assignment local holding the result, probed at once (the scenario variables are merged cells)"""
                n = fresh()
                i = self.nid("probe")
                self.meta["probes"][i] = "T"
                em("%srv%d := %s" % (ind2, n, expr))
                em("%sprobeT(%d, rv%d)" % (ind2, i, n))
                if guard:
                    em("%sif rv%d != nil {\n%s\t%s = rv%d\n%s}" % (ind2, n, ind2, x, n, ind2))
                else:
                    em("%s%s = rv%d" % (ind2, x, n))

            if c == 30:
                # accessor analysed once per static call site; *p differs per site (fresh cell holding one fresh object)
                n = fresh()
                em("%slp%d := %s" % (ind, n, alloc("T", "&T{next: %s}" % y, ind)))
                em("%s%s = acc1(&lp%d)" % (ind, x, n))
                em("%siobsT(900001, %s)" % (ind, x))
                em("%slq%d := fb" % (ind, n))
                em("%sacc4(&lq%d, %s)" % (ind, n, alloc("T", "&T{a: 7}", ind)))
                em("%siobsT(900004, lq%d)" % (ind, n))
                em("%s%s = acc1(&%s)" % (ind, z, y))
                em("%siobsT(900001, %s)" % (ind, z)); self.feat("indirect-accessor")
            elif c == 31:
                n = fresh()
                em("%ssl%d := %s" % (ind, n, alloc("S", "make([]*T, 2)", ind)))
                em("%ssl%d[0], sl%d[1] = %s, %s" % (ind, n, n, y, z))
                em("%sgs%d := acc2(&sl%d)" % (ind, n, n))
                em("%siobsS(900002, gs%d)" % (ind, n))
                em("%s%s = gs%d[1]" % (ind, x, n)); self.feat("indirect-accessor")
            elif c == 32:
                n = fresh()
                em("%smm%d := %s" % (ind, n, alloc("M", "make(map[string]*T)", ind)))
                em('%smm%d["a"] = %s' % (ind, n, y))
                em("%sgm%d := acc3(&mm%d)" % (ind, n, n))
                em("%siobsM(900003, gm%d)" % (ind, n))
                em('%s%s = gm%d["a"]' % (ind, x, n)); fix(x, ind); self.feat("indirect-accessor")
            elif c == 33:
                n = fresh()
                em("%sctx%d := context.WithValue(context.Background(), ctxKey{%d}, %s)" % (ind, n, n, alloc("T", "&T{a: 33}", ind)))
                em('%sctx%db, task%d := trace.NewTask(ctx%d, "t")' % (ind, n, n, n))
                res(ind, "ctx%db.Value(ctxKey{%d}).(*T)" % (n, n))
                em("%stask%d.End()" % (ind, n)); self.feat("std-flow:trace.NewTask")
            elif c == 34:
                n = fresh()
                em("%sctx%d := context.WithValue(context.Background(), ctxKey{%d}, %s)" % (ind, n, n, alloc("T", "&T{a: 34}", ind)))
                em('%spprof.Do(ctx%d, pprof.Labels("k", "v"), func(c context.Context) {\n%s\tenter("%s$%d")' % (ind, n, ind, name, n))
                res(ind + "\t", "c.Value(ctxKey{%d}).(*T)" % n)
                em("%s})" % ind); self.feat("std-flow:pprof.Do")
            elif c == 35:
                em("%spool.Put(%s)" % (ind, alloc("T", "&T{a: 35}", ind)))
                n = fresh()
                em("%spv%d, _ := pool.Get().(*T)" % (ind, n))
                res(ind, "pv%d" % n, guard=True); self.feat("std-flow:sync.Pool")
            elif c == 36:
                n = fresh()
                em("%sss%d := []*T{%s, %s, %s}" % (ind, n, alloc("T", "&T{a: 36}", ind), alloc("T", "&T{a: 3}", ind), alloc("T", "&T{a: 6}", ind)))
                em('%ssort.Slice(ss%d, func(i, j int) bool {\n%s\tenter("%s$%d")' % (ind, n, ind, name, n))
                res(ind + "\t", "ss%d[i]" % n)
                em("%s\treturn ss%d[i].a < ss%d[j].a\n%s})" % (ind, n, n, ind)); self.feat("std-flow:sort.Slice")
            elif c == 37:
                n = fresh()
                em("%sli%d := list.New()" % (ind, n))
                em("%sli%d.PushBack(%s)" % (ind, n, alloc("T", "&T{a: 37}", ind)))
                em("%sli%d.PushFront(%s)" % (ind, n, z))
                res(ind, "li%d.Back().Value.(*T)" % n); self.feat("std-flow:container/list")
            elif c == 38:
                n = fresh()
                em("%svar once%d sync.Once" % (ind, n))
                em('%sonce%d.Do(func() {\n%s\tenter("%s$%d")\n%s\t%s = %s\n%s})' % (ind, n, ind, name, n, ind, x, y, ind)); self.feat("std-flow:sync.Once")
            elif c == 39:
                n = fresh()
                em("%sctx%d, cancel%d := context.WithCancel(context.WithValue(context.Background(), ctxKey{%d}, %s))" %
                   (ind, n, n, n, alloc("T", "&T{a: 39}", ind)))
                res(ind, "ctx%d.Value(ctxKey{%d}).(*T)" % (n, n))
                em("%scancel%d()" % (ind, n)); self.feat("std-flow:context")
            elif c == 0:
                call(ind, "static-byvalue", "%s = pickS(S2{p: %s, q: %s}, S2{p: %s, q: fb}).p" % (x, y, z, z)); self.feat("phi-struct")
            elif c == 1:
                call(ind, "static-byvalue", "%s = pickA(Arr{%s, %s}, Arr{%s, %s})[1]" % (x, y, z, z, y)); self.feat("phi-array")
            elif c == 2:
                em("%ssA = S2{p: %s, q: %s}" % (ind, y, z))
                em("%sif cond() {\n%s\tsA = sB\n%s}" % (ind, ind, ind))
                em("%s%s = sA.q" % (ind, x)); self.feat("phi-struct-inline")
            elif c == 3:
                call(ind, "static-byvalue", "sB = pickS(sA, swapS(sB))")
                em("%s%s = sB.p" % (ind, x)); self.feat("phi-struct")
            elif c == 4:
                call(ind, "invoke-byvalue", "%s = pk.pick(Opts{a: %s, b: %s})" % (x, y, z))
            elif c == 5:
                call(ind, "invoke-byvalue", "%s = pk.pickArr(Arr{%s, %s})" % (x, y, z))
            elif c == 6:
                n = fresh()
                call(ind, "invoke-byvalue-result", "o%d := pk.mk(%s, %s)" % (n, y, z))
                em("%s%s = o%d.%s" % (ind, x, n, self.pick("ab")))
            elif c == 7:
                w = rnd(4)
                em("%spk = %s" % (ind, ["&PA{t: %s}" % y, "PB{k: 1, t: %s}" % y, "&PB{k: 2, t: %s}" % y, "&PA{}"][w])); self.feat("makeinterface-multiword")
            elif c == 8:
                call(ind, "static-byvalue", "%s = pickO(Opts{a: %s, b: %s})" % (x, y, z))
            elif c == 9:
                n = fresh()
                em('%sfo = func(o Opts) *T {\n%s\tenter("%s$%d")\n%s\tif cond() {\n%s\t\treturn o.b\n%s\t}\n%s\treturn o.a\n%s}' %
                   (ind, ind, name, n, ind, ind, ind, ind, ind))
                call(ind, "closure-byvalue", "%s = fo(Opts{a: %s, b: %s})" % (x, y, z))
                if rnd(2):
                    n2 = fresh()
                    em('%sfr%d := func(a, b *T) S2 {\n%s\tenter("%s$%d")\n%s\treturn S2{p: b, q: a}\n%s}' % (ind, n2, ind, name, n2, ind, ind))
                    call(ind, "closure-byvalue-result", "sB = fr%d(%s, %s)" % (n2, y, z))
                    em("%s%s = sB.%s" % (ind, x, self.pick("pq")))
            elif c == 10:
                n = fresh()
                w = rnd(3)
                if w == 0:
                    em("%sbm%d := pk.pick" % (ind, n))
                elif w == 1:
                    em("%sbm%d := (&PA{t: %s}).pick" % (ind, n, y))
                else:
                    em("%sbm%d := PB{k: 1}.pick" % (ind, n))
                call(ind, "bound-byvalue", "%s = bm%d(Opts{a: %s, b: %s})" % (x, n, y, z))
            elif c == 11:
                em("%sif len(chS) < cap(chS) {\n%s\tchS <- S2{p: %s, q: %s}\n%s}" % (ind, ind, y, z, ind))
                n = fresh()
                em("%sif len(chS) > 0 {\n%s\tcv%d := <-chS\n%s\t%s = cv%d.%s\n%s}" % (ind, ind, n, ind, x, n, self.pick("pq"), ind))
                self.feat("chan-multiword")
            elif c == 12:
                em('%smS["%s"] = S2{p: %s, q: %s}' % (ind, self.pick("ab"), y, z))
                em('%s%s = mS["%s"].%s' % (ind, x, self.pick("ab"), self.pick("pq"))); fix(x, ind); self.feat("map-multiword")
            elif c == 13:
                em("%sslS[%d] = S2{p: %s, q: %s}" % (ind, rnd(2), y, z))
                em("%s%s = slS[%d].%s" % (ind, x, rnd(2), self.pick("pq"))); self.feat("slice-multiword")
            elif c == 14:
                em("%sfor _, sv := range slS {\n%s\tif sv.p != nil && cond() {\n%s\t\t%s = sv.p\n%s\t}\n%s}" % (ind, ind, ind, x, ind, ind)); self.feat("range-multiword")
            elif c in (15, 16):
                w = rnd(3)
                flit = funclit(ind, y)
                if w == 0:
                    em("%srr = &V{f: %s, i: x0, t: %s}" % (ind, flit, z))
                elif w == 1:
                    em("%srr = V{f: %s, t: %s}" % (ind, flit, z))
                else:
                    em("%srr = &V{f: k%d, i: &A{t: %s}}" % (ind, rnd(self.nhelp), y))
                call(ind, "invoke-valuerecv", "%s = rr.run(%s)" % (x, z)); self.feat("wrapnilchk-iface")
            elif c == 17:
                n = fresh()
                flit = funclit(ind, y)
                em("%smv%d := (*V).run" % (ind, n))
                call(ind, "method-expr-ptr-valuerecv", "%s = mv%d(&V{f: %s, i: x0}, %s)" % (x, n, flit, z)); self.feat("wrapnilchk-methodexpr")
            elif c == 18:
                n = fresh()
                flit = funclit(ind, y)
                em("%smw%d := V.run" % (ind, n))
                call(ind, "method-expr-valuerecv", "%s = mw%d(V{f: %s}, %s)" % (x, n, flit, z))
            elif c == 19:
                n = fresh()
                em("%svb%d := (&V{f: %s}).run" % (ind, n, funclit(ind, y)))
                call(ind, "bound-valuerecv", "%s = vb%d(%s)" % (x, n, z))
            elif c in (20, 21):
                n = fresh()
                em("%str%d := &treeA{n: %d}" % (ind, n, n))
                em("%snd%d := &nodeA{owner: tr%d, visit: %s, it: x0}" % (ind, n, n, funclit(ind, y)))
                em("%str%d.root = nd%d" % (ind, n, n))
                call(ind, "funcvalue-rectype-treefirst", "%s = tr%d.root.visit(%s)" % (x, n, z))
                if rnd(2):
                    call(ind, "invoke-rectype-treefirst", "%s = nd%d.owner.root.it.M(%s)" % (x, n, z)); fix(x, ind)
                self.feat("rectype-A")
            elif c in (22, 23):
                n = fresh()
                em("%snd%d := &nodeB{visit: %s, it: x0}" % (ind, n, funclit(ind, y)))
                em("%str%d := &treeB{root: nd%d}" % (ind, n, n))
                em("%snd%d.owner = tr%d" % (ind, n, n))
                call(ind, "funcvalue-rectype-nodefirst", "%s = tr%d.root.visit(%s)" % (x, n, z))
                if rnd(2):
                    call(ind, "invoke-rectype-nodefirst", "%s = nd%d.owner.root.it.M(%s)" % (x, n, z)); fix(x, ind)
                self.feat("rectype-B")
            elif c == 24:
                em("%sx0 = %s" % (ind, self.pick(["&A{t: %s}" % y, "D{t: %s}" % y, "B{t: %s, k: 2}" % y])))
            elif c == 25 and depth < 2:
                em("%sif cond() {" % ind)
                for _ in range(1 + rnd(3)):
                    stmt(ind + "\t", depth + 1)
                em("%s}" % ind)
            elif c == 26 and depth < 2:
                em("%sfor it := 0; it < 2; it++ {" % ind)
                for _ in range(1 + rnd(2)):
                    stmt(ind + "\t", depth + 1)
                em("%s}" % ind)
            elif c == 27:
                em("%s%s.next = %s" % (ind, x, y))
            elif c == 28:
                em("%s%s = %s" % (ind, x, alloc("T", "&T{next: %s}" % y, ind)))
            else:
                probes(ind)

        for _ in range(8 + rnd(8)):
            stmt("\t", 0)
        probes("\t")
        for v in tv + ["fb", "sA", "sB", "pk", "rr", "chS", "mS", "slS", "fo", "x0"]:
            em("\t_ = %s" % v)
        em("}")
        return L

    def program(self, nval=6):
        self.helpers()
        for k in range(self.nscen):
            self.lines.extend(self.scenario(k))
        for k in range(self.nvscen):
            self.lines.extend(self.scenario_b(k))
        L = self.lines
        L.append("func main() {")
        L.append("\tsetup()")
        L.append("\tfor v := 0; v < %d; v++ {" % nval)
        L.append("\t\tsetbits(v)")
        for k in range(self.nscen):
            L.append("\t\ts%d()" % k)
        for k in range(self.nvscen):
            L.append("\t\tv%d()" % k)
        L.append("\t}")
        L.append("\tflush()")
        L.append("}")
        return PRELUDE + "\n" + "\n".join(L) + "\n"


def write_program(d, seed, nscen, exotic=True):
    os.makedirs(d, exist_ok=True)
    g = Gen(seed, nscen, exotic=exotic)
    src = g.program()
    open(os.path.join(d, "go.mod"), "w").write("module %s\n\ngo 1.22\n" % os.path.basename(d))
    open(os.path.join(d, "main.go"), "w").write(src)
    json.dump(g.meta, open(os.path.join(d, "meta.json"), "w"))
    return g.meta


# ------------------------------------------------------------------------------------------------ running things
def _sha(path):
    import hashlib
    h = hashlib.sha256()
    with open(path, "rb") as f:
        for blk in iter(lambda: f.read(1 << 20), b""):
            h.update(blk)
    return h.hexdigest()


def parse_native(text):
    nat = {"sizes": {}, "objs": [], "probes": [], "events": set(), "entered": set(), "runs": 0}
    for l in text.splitlines():
        p = l.split()
        if not p:
            continue
        if p[0] == "Z":
            nat["sizes"][p[1]] = int(p[3], 16) - int(p[2], 16)
        elif p[0] == "RUN":
            nat["runs"] += 1
        elif p[0] == "A":
            nat["objs"].append((int(p[3], 16) if p[3] != "%!p(<nil>)" else 0, p[2], int(p[4]), int(p[1])))
        elif p[0] == "P":
            a = 0 if not p[3].startswith("0x") else int(p[3], 16)
            nat["probes"].append((int(p[1]), p[2], a))
        elif p[0] == "C":
            nat["entered"].add(p[2])
            if int(p[1]) >= 0:
                nat["events"].add((int(p[1]), p[2]))
    return nat


def parse_dump(text):
    d = {"fn": {}, "site": {}, "probe": {}, "q": {}, "cs": {}, "edges": {}, "res": {}, "ma": {}, "noeff": [], "tags": {},
         "cgo_fn": {}, "cgo_edges": {}, "cgo_tags": {}}
    for l in text.splitlines():
        p = l.split(" ")
        k = p[0]
        if k == "FN":
            d["fn"][p[1]] = {"kind": p[2], "tag": p[3], "reach": p[4] == "1"}
            if p[3] != "-":
                d["tags"].setdefault(p[3], []).append(p[1])
        elif k == "CGOFN":
            d["cgo_fn"][p[1]] = {"kind": p[2], "tag": p[3], "reach": p[4] == "1"}
            if p[3] != "-":
                d["cgo_tags"].setdefault(p[3], []).append(p[1])
        elif k == "CGOEDGE":
            d["cgo_edges"].setdefault(p[1], []).append((p[2], p[3]))
        elif k == "SITE":
            d["site"][int(p[1])] = p[3]
        elif k == "PROBE":
            bar = p.index("|")
            d["probe"][int(p[1])] = {"kind": p[2], "val": p[3], "q": p[4] == "Q", "labels": [x for x in p[bar + 1:] if x]}
        elif k == "Q":
            d["q"][p[1]] = [x for x in p[3:] if x]
        elif k == "CS":
            d["cs"].setdefault(int(p[1]), []).append((p[2], p[3]))
        elif k == "EDGE":
            d["edges"].setdefault(p[1], []).append((p[2], p[3]))
        elif k == "RES":
            d["res"].setdefault(int(p[1]), set()).update(x for x in p[2:] if x)
        elif k == "MA":
            d["ma"][(int(p[1]), int(p[2]))] = p[3]
        elif k == "NOEFF":
            d["noeff"].append((p[1], p[2], p[3] if len(p) > 3 else ""))
            d.setdefault("noeff_flags", {})[p[1]] = (p[2], p[4] if len(p) > 4 else "?", p[5] if len(p) > 5 else "?")
        elif k == "EXEMPT":
            d.setdefault("exempt", []).append(" ".join(p[1:]))
        elif k == "EXEMPTDONE":
            d.setdefault("exempt", [])
    return d


def alias_pairs(nat, rnd, cap_per_group=12, cap_total=4000):
    groups = {}
    for pid, kind, addr in nat["probes"]:
        if addr:
            groups.setdefault((kind, addr), set()).add(pid)
    pairs = set()
    for (kind, addr), ids in sorted(groups.items()):
        ids = sorted(ids)
        if len(ids) < 2:
            continue
        cand = [(a, b) for i, a in enumerate(ids) for b in ids[i + 1:]]
        if len(cand) > cap_per_group:
            # seeded sample, always keep the chain of neighbours
            keep = set(zip(ids, ids[1:]))
            while len(keep) < cap_per_group:
                keep.add(cand[rnd(len(cand))])
            cand = sorted(keep)
        pairs.update(cand)
    pairs = sorted(pairs)
    return pairs[:cap_total]


def prepare(work, seed, tier, want_mu=True):
    """generate the programs of this (seed, tier), run them natively and through c11dump (cached by dumper binary hash).
    returns list of dicts(dir, meta, native, dump, mu)"""
    import concurrent.futures
    vlib.build_harness(["c11dump"])
    exe = os.path.join(vlib.BIN, "c11dump")
    stamp = _sha(exe)
    nprog, nscen = (2, 40) if tier == "quick" else (10, 40)   # one load of the std library per program dominates the cost
    os.makedirs(work, exist_ok=True)
    progs = []
    for k in range(nprog):
        d = os.path.join(work, "c11g%d_%d" % (seed, k))
        progs.append(d)

    gstamp = _sha(os.path.abspath(__file__))[:24] + ":%d:%s" % (seed, tier)

    def one(k):
        d = progs[k]
        gs = os.path.join(d, "stamp-gen")
        st = os.path.join(d, "stamp")
        if not (os.path.exists(gs) and open(gs).read() == gstamp):
            shutil.rmtree(d, ignore_errors=True)
            write_program_sized(d, seed * 7919 + k * 104729 + (0 if tier == "quick" else 13), nscen, exotic=True)
            rc, out, err = vlib.sh2(["go", "build", "-o", "prog.exe", "."], cwd=d, timeout=900)
            if rc != 0:
                raise vlib.BuildError("generated program does not compile: %s" % d, err)
            rc, out, err = vlib.sh2(["./prog.exe"], cwd=d, timeout=300)
            if rc != 0:
                raise vlib.BuildError("generated program crashed natively: %s" % d, err[-3000:])
            open(os.path.join(d, "native.log"), "w").write(out)
            nat = parse_native(out)
            pairs = alias_pairs(nat, vlib.lcg(seed + k))
            open(os.path.join(d, "pairs.txt"), "w").write("".join("%d %d\n" % p for p in pairs))
            open(gs, "w").write(gstamp)
        if not (os.path.exists(st) and open(st).read() == stamp + gstamp):
            cmd = [exe, "-repo", vlib.REPO, "-o", os.path.join(d, "dump.txt"), "-pairs", os.path.join(d, "pairs.txt"),
                   "-cg", os.path.join(d, "cg.txt"), "-cgonly"]
            if want_mu:
                cmd += ["-mu", os.path.join(d, "prog.mu")]
            rc, out, err = vlib.sh2(cmd + [d], timeout=1500)
            if rc != 0:
                raise vlib.BuildError("c11dump failed on %s (the analysis of the current tree crashed or the harness is stale)" % d,
                                      (out + err)[-4000:])
            open(st, "w").write(stamp + gstamp)
        return {"dir": d, "meta": json.load(open(os.path.join(d, "meta.json"))),
                "native": parse_native(open(os.path.join(d, "native.log")).read()),
                "dump": parse_dump(open(os.path.join(d, "dump.txt")).read()),
                "mu": os.path.join(d, "prog.mu")}

    with concurrent.futures.ThreadPoolExecutor(max_workers=min(4, nprog)) as ex:
        return list(ex.map(one, range(nprog)))


def write_program_sized(d, seed, nscen, exotic=True):
    os.makedirs(d, exist_ok=True)
    g = Gen(seed, nscen, nhelp=max(6, nscen // 2), exotic=exotic)
    src = g.program()
    open(os.path.join(d, "go.mod"), "w").write("module %s\n\ngo 1.22\n" % os.path.basename(d))
    open(os.path.join(d, "main.go"), "w").write(src)
    json.dump(g.meta, open(os.path.join(d, "meta.json"), "w"))
    return g.meta


# ------------------------------------------------------------------------------------------------ ground-truth checks
def find_obj(objs_sorted, bases, sizes, addr):
    import bisect
    i = bisect.bisect_right(bases, addr) - 1
    if i < 0:
        return None
    base, kind, n, sid = objs_sorted[i]
    sz = sizes.get(kind, 1) * max(n, 1) if kind in sizes else 1
    if base <= addr < base + max(sz, 1):
        return sid
    return None


def check_points_to(pr):
    """-> (stats, failures[(class key, text)]) : allocation site of the object a probe refers to is in its points-to set,
    equal addresses of equal static type may-alias"""
    nat, dump = pr["native"], pr["dump"]
    objs = sorted(o for o in nat["objs"] if o[0])
    bases = [o[0] for o in objs]
    st = {"probe_obs": 0, "probe_obs_with_site": 0, "distinct_probe_site": 0, "alias_pairs": 0, "noquery": 0, "nil": 0}
    fails = []
    seen = set()
    for pid, kind, addr in nat["probes"]:
        st["probe_obs"] += 1
        if not addr:
            st["nil"] += 1
            continue
        sid = find_obj(objs, bases, nat["sizes"], addr)
        if sid is None:
            continue
        st["probe_obs_with_site"] += 1
        if (pid, sid) in seen:
            continue
        seen.add((pid, sid))
        pinfo = dump["probe"].get(pid)
        if pinfo is None:
            raise vlib.BuildError("probe %d of %s not found by c11dump (generator/dumper out of sync)" % (pid, pr["dir"]), "")
        sval = dump["site"].get(sid)
        if sval is None:
            raise vlib.BuildError("site %d of %s not found by c11dump" % (sid, pr["dir"]), "")
        if not pinfo["q"]:
            st["noquery"] += 1
            fails.append(("native-noquery:" + kind, "probe %d (%s, value %s) holds a pointer into the object allocated at site %d (%s) "
                          "but the value has no points-to query result" % (pid, kind, pinfo["val"], sid, sval)))
            continue
        vals = set(l.split("|")[0] for l in pinfo["labels"])
        if sval not in vals:
            fails.append(("native-pts:" + kind, "probe %d (%s, value %s) referred at run time to the object allocated at site %d (%s) "
                          "which is not in its points-to set {%s}" % (pid, kind, pinfo["val"], sid, sval, " ".join(sorted(vals))[:600])))
    st["distinct_probe_site"] = len(seen)
    for (a, b), ans in dump["ma"].items():
        st["alias_pairs"] += 1
        if ans == "1":
            continue
        ka = dump["probe"][a]["kind"]
        if ans == "NOQUERY":
            fails.append(("native-noquery:" + ka, "probes %d and %d held the same address but one has no query" % (a, b)))
        else:
            fails.append(("native-alias:" + ka, "probes %d (%s) and %d (%s) of static type kind %s held the same address at run time but "
                          "MayAlias answers false" % (a, dump["probe"][a]["val"], b, dump["probe"][b]["val"], ka)))
    return st, fails


def _reaches_tag(dump, start, tag, fnk="fn", edk="edges"):
    """callee `start` is tagged `tag`, or is a synthetic wrapper forwarding (through wrappers only) to a function tagged so"""
    seen = set()
    todo = [start]
    while todo:
        f = todo.pop()
        if f in seen:
            continue
        seen.add(f)
        info = dump[fnk].get(f)
        if info is None:
            continue
        if info["tag"] == tag:
            return True
        if info["kind"] == "synth":
            for _site, callee in dump[edk].get(f, []):
                todo.append(callee)
    return False


def check_calls_cgonly(pr):
    """the same native call events against the call-graph-only entry point (PointerAnalysis.ComputeCallgraph, no queries:
    what `argot render`/`compare` use): edge at the site, callee reachable"""
    nat, dump, meta = pr["native"], pr["dump"], pr["meta"]
    st = {"cgonly_call_events": 0, "cgonly_entered_tags": 0}
    fails = []
    if not dump["cgo_fn"]:
        return st, fails
    kinds = {int(k): v for k, v in meta["cs"].items()}
    for tag in sorted(nat["entered"]):
        st["cgonly_entered_tags"] += 1
        fns = dump["cgo_tags"].get(tag, [])
        if not any(dump["cgo_fn"][f]["reach"] for f in fns):
            fails.append(("cgonly-reach", "function tagged %s was executed but is not reachable in the call graph computed by "
                          "PointerAnalysis.ComputeCallgraph (no queries)" % tag))
    for cs, tag in sorted(nat["events"]):
        st["cgonly_call_events"] += 1
        ck = kinds.get(cs, ("?", "?"))[1]
        sites = dump["cs"].get(cs) or []
        ok = False
        for caller, ikey in sites:
            for site, callee in dump["cgo_edges"].get(caller, []):
                if site == ikey and _reaches_tag(dump, callee, tag, "cgo_fn", "cgo_edges"):
                    ok = True
        if not ok and sites:
            fails.append(("cgonly-edge:" + ck, "call site %d (%s, %s) called %s at run time; the call graph computed by "
                          "PointerAnalysis.ComputeCallgraph (no queries) has no edge for it there (edges at the site: %s)" %
                          (cs, ck, sites[0][1], tag, sorted(c for s0, c in dump["cgo_edges"].get(sites[0][0], []) if s0 == sites[0][1]))))
    return st, fails


def check_calls(pr):
    """-> (stats, failures): every native call event has a call-graph edge at that site (possibly through synthetic
    wrappers), every entered function is reachable, ResolveCallee includes the function called"""
    nat, dump, meta = pr["native"], pr["dump"], pr["meta"]
    st = {"call_events": 0, "entered_tags": 0, "resolve_checked": 0}
    fails = []
    kinds = {int(k): v for k, v in meta["cs"].items()}
    for tag in sorted(nat["entered"]):
        st["entered_tags"] += 1
        fns = dump["tags"].get(tag, [])
        if not fns:
            raise vlib.BuildError("entered function tag %s of %s not found by c11dump" % (tag, pr["dir"]), "")
        if not any(dump["fn"][f]["reach"] for f in fns):
            fails.append(("native-reach", "function %s (tag %s) was executed but is not in ReachableFunctions()" % (fns[0], tag)))
    for cs, tag in sorted(nat["events"]):
        st["call_events"] += 1
        ck = kinds.get(cs, ("?", "?"))[1]
        sites = dump["cs"].get(cs)
        if not sites:
            raise vlib.BuildError("call site %d of %s not found by c11dump" % (cs, pr["dir"]), "")
        ok = False
        for caller, ikey in sites:
            for site, callee in dump["edges"].get(caller, []):
                if site == ikey and _reaches_tag(dump, callee, tag):
                    ok = True
        if not ok:
            fails.append(("native-edge:" + ck, "call site %d (%s, %s) called %s at run time; the call graph has no edge for it there "
                          "(edges at the site: %s)" % (cs, ck, sites[0][1], tag,
                                                       sorted(c for s0, c in dump["edges"].get(sites[0][0], []) if s0 == sites[0][1]))))
        st["resolve_checked"] += 1
        res = dump["res"].get(cs, set())
        if not any(_reaches_tag(dump, f, tag) for f in res):
            fails.append(("native-resolve:" + ck, "call site %d (%s, %s) called %s at run time; ResolveCallee returned %s" %
                          (cs, ck, sites[0][1], tag, sorted(res))))
    return st, fails


# ------------------------------------------------------------------------------------------------ model tie (T-dump)
def parse_names(path):
    nm = {"fn": {}, "translated": set(), "reg": {}, "site": {}, "cs": {}, "rej": [], "late": [], "rootsok": True}
    for l in open(path):
        p = l.rstrip("\n").split(" ")
        if p[0] == "F":
            nm["fn"][int(p[1])] = p[2]
            if p[3] == "1":
                nm["translated"].add(int(p[1]))
        elif p[0] == "R":
            nm["reg"][(int(p[1]), int(p[2]))] = p[3]
        elif p[0] == "S":
            nm["site"][int(p[1])] = p[2]
        elif p[0] == "CS":
            nm["cs"][int(p[1])] = p[2]
        elif p[0] == "REJ":
            nm["rej"].append((p[1], p[2]))
        elif p[0] == "LATE":
            nm["late"].append((p[1], p[2] if len(p) > 2 else ""))
        elif p[0] == "ROOTSOK":
            nm["rootsok"] = p[1] == "true"
    return nm


def run_model(pr):
    """runs the extracted Coq model on the muSSA translation -> dict(status, check, pts{valkey:set(label valkeys)},
    edges set((instrkey, calleekey)), reach set(fnkey))"""
    model = os.path.join(vlib.BIN, "c11model")
    # the extracted list functions are not tail recursive: run with an unlimited stack
    rc, out, err = vlib.sh2("ulimit -s unlimited 2>/dev/null; exec '%s' '%s'" % (model, pr["mu"]), timeout=1200)
    if rc != 0:
        raise vlib.BuildError("c11model failed on %s" % pr["mu"], err[-3000:])
    nm = parse_names(pr["mu"] + ".names")
    res = {"status": "?", "check": False, "pts": {}, "edges": set(), "reach": set(), "names": nm, "facts": 0}

    def labkey(x):
        if x[0] == "f":
            return "func:" + nm["fn"].get(int(x[1:]), "?" + x)
        s = int(x[1:].split(".")[0])
        return nm["site"].get(s, "?" + x)
    for l in out.splitlines():
        p = l.split(" ")
        if p[0] == "STATUS":
            res["status"] = p[1]
        elif p[0] == "CHECK":
            res["check"] = p[1] == "1"
        elif p[0] == "PTS":
            key = nm["reg"].get((int(p[1]), int(p[2])))
            res["facts"] += len(p) - 4
            if key is None:
                continue
            res["pts"].setdefault(key, set()).update(labkey(x) for x in p[4:] if x)
        elif p[0] == "REACH":
            res["reach"].add(nm["fn"].get(int(p[1]), "?"))
        elif p[0] == "EDGE":
            res["edges"].add((nm["cs"].get(int(p[1]), "?"), nm["fn"].get(int(p[2]), "?")))
    return res


def tie_points_to(pr, mod):
    """model least solution (by value key -> allocating value keys) must be included in the impl's labels"""
    dump = pr["dump"]
    st = {"model_values": 0, "model_values_nonempty": 0, "compared": 0, "no_impl_query": 0, "model_labels": 0, "impl_labels": 0,
          "equal": 0}
    bad = []
    for key, labs in sorted(mod["pts"].items()):
        st["model_values"] += 1
        if not labs:
            continue
        st["model_values_nonempty"] += 1
        q = dump["q"].get(key)
        if q is None:
            st["no_impl_query"] += 1
            continue
        impl = set(x.split("|")[0] for x in q)
        st["compared"] += 1
        st["model_labels"] += len(labs)
        st["impl_labels"] += len(impl)
        if labs == impl:
            st["equal"] += 1
        miss = labs - impl
        if miss:
            bad.append((key, sorted(miss), sorted(impl)))
    return st, bad


def sem_validation(pr, mod, want):
    """adequacy of translator + muSSA semantics (not an alarm): native observations inside translated functions should be
    covered by the model's least solution as well (it over-approximates every muSSA execution by the theorems)"""
    nat, dump = pr["native"], pr["dump"]
    st = {"semval_native_in_model": 0, "semval_native_not_in_model": 0, "semval_outside_fragment": 0}
    if want == "pts":
        objs = sorted(o for o in nat["objs"] if o[0])
        bases = [o[0] for o in objs]
        seen = set()
        for pid, kind, addr in nat["probes"]:
            sid = find_obj(objs, bases, nat["sizes"], addr) if addr else None
            if sid is None or (pid, sid) in seen:
                continue
            seen.add((pid, sid))
            pv = dump["probe"][pid]["val"]
            if pv not in mod["pts"]:
                st["semval_outside_fragment"] += 1
            elif dump["site"].get(sid) in mod["pts"][pv]:
                st["semval_native_in_model"] += 1
            else:
                st["semval_native_not_in_model"] += 1
    else:
        medges = {}
        for site, callee in mod["edges"]:
            medges.setdefault(site, []).append(callee)
        for cs, tag in nat["events"]:
            sites = dump["cs"].get(cs, [])
            keys = [ik for _c, ik in sites]
            if not any(k in medges for k in keys):
                st["semval_outside_fragment"] += 1
            elif any(_reaches_tag(dump, c, tag) for k in keys for c in medges.get(k, [])):
                st["semval_native_in_model"] += 1
            else:
                st["semval_native_not_in_model"] += 1
    return st


def tie_reach_closure(pr):
    """extracted worklist model of CallGraphReachable on the impl's whole call graph == impl ReachableFunctions()"""
    cgp = os.path.join(pr["dir"], "cg.txt")
    rc, out, err = vlib.sh2("ulimit -s unlimited 2>/dev/null; exec '%s' -reach '%s'" % (os.path.join(vlib.BIN, "c11model"), cgp), timeout=600)
    if rc != 0 or "REACHSTATUS done" not in out:
        raise vlib.BuildError("c11model -reach failed on %s" % cgp, (out + err)[-2000:])
    model = set(int(l.split()[1]) for l in out.splitlines() if l.startswith("M "))
    impl = set()
    nodes = set()
    for l in open(cgp):
        p = l.split()
        if p[0] == "R":
            impl.add(int(p[1]))
        elif p[0] == "E":
            nodes.add(int(p[1]))
            nodes.add(int(p[2]))
    return {"cg_nodes": len(nodes), "cg_reach_model": len(model), "cg_reach_impl": len(impl)}, sorted(model ^ impl)


def tie_calls(pr, mod):
    dump = pr["dump"]
    st = {"model_edges": 0, "model_reach": 0, "edges_compared": 0, "reach_compared": 0}
    bad = []
    impl_edges = set()
    for caller, es in dump["edges"].items():
        for site, callee in es:
            impl_edges.add((site, callee))
    for site, callee in sorted(mod["edges"]):
        st["model_edges"] += 1
        if site == "?":
            continue
        st["edges_compared"] += 1
        if (site, callee) not in impl_edges:
            bad.append(("edge", site, callee))
    for f in sorted(mod["reach"]):
        st["model_reach"] += 1
        info = dump["fn"].get(f)
        if info is None:
            continue
        st["reach_compared"] += 1
        if not info["reach"]:
            bad.append(("reach", f, ""))
    return st, bad


# ------------------------------------------------------------------------------------------------ the checks
def write_replay(chk, key, pr, text):
    d = chk.replay_dir(key + ":" + os.path.basename(pr["dir"]))
    for f in ("main.go", "go.mod", "meta.json", "native.log", "dump.txt", "pairs.txt", "prog.mu", "prog.mu.names", "cg.txt"):
        src = os.path.join(pr["dir"], f)
        if os.path.exists(src):
            shutil.copy(src, d)
    with open(os.path.join(d, "replay.txt"), "w") as f:
        f.write(text + "\n\nprogram: main.go (generated, seed-derived); native log: native.log; analysis dump: dump.txt\n"
                "re-run: python3 tools/check.py %s --replay %s\n"
                "by hand: (cd <dir> && go run . > native.log); build/bin/c11dump -repo /repo -pairs pairs.txt -o dump.txt <dir>\n" % (chk.prop, d))
    return d


def noeffect_run(pr, work):
    """re-run the analysis with pointer-config.unsafe-no-effect-functions naming the generated program's alias-pure leaf
    functions; the native observations must still be covered"""
    mod = os.path.basename(pr["dir"])
    d = pr["dir"]
    cfgp = os.path.join(d, "noeffect.yaml")
    open(cfgp, "w").write("pointer-config:\n  unsafe-no-effect-functions:\n" +
                          "".join("    - \"%s.%s\"\n" % (mod, f) for f in ("pureA", "pureB", "pureC")))
    exe = os.path.join(vlib.BIN, "c11dump")
    outp = os.path.join(d, "dump-noeffect.txt")
    st = os.path.join(d, "stamp-noeffect")
    stamp = _sha(exe) + open(os.path.join(d, "stamp-gen")).read()
    if not (os.path.exists(st) and open(st).read() == stamp):
        rc, out, err = vlib.sh2([exe, "-repo", vlib.REPO, "-config", cfgp, "-o", outp, "-pairs", os.path.join(d, "pairs.txt"), d], timeout=1500)
        if rc != 0:
            raise vlib.BuildError("c11dump -config (no-effect functions) failed on %s" % d, (out + err)[-3000:])
        open(st, "w").write(stamp)
    pr2 = dict(pr)
    pr2["dump"] = parse_dump(open(outp).read())
    return pr2


def check_noeffect_errno(chk, work):
    """corpus/c12/noeffect_errno (regression case of the repaired finding noeffect-intrinsic-error-result): the error
    returned by syscall.Close is called through the interface; the call graph must have the edge to (syscall.Errno).Error"""
    src = os.path.join(vlib.VERIF, "corpus", "c12", "noeffect_errno")
    d = os.path.join(work, "noeffecterrno")
    exe = os.path.join(vlib.BIN, "c11dump")
    stamp = _sha(exe) + _sha(os.path.join(src, "main.go"))
    st = os.path.join(d, "stamp")
    if not (os.path.exists(st) and open(st).read() == stamp):
        shutil.rmtree(d, ignore_errors=True)
        shutil.copytree(src, d)
        rc, out, err = vlib.sh2(["go", "run", "."], cwd=d, timeout=900)
        if rc != 0:
            raise vlib.BuildError("corpus program noeffect_errno does not run", err[-2000:])
        open(os.path.join(d, "native.log"), "w").write(out)
        rc, out, err = vlib.sh2([exe, "-repo", vlib.REPO, "-o", os.path.join(d, "dump.txt"), d], timeout=1500)
        if rc != 0:
            raise vlib.BuildError("c11dump failed on corpus program noeffect_errno", (out + err)[-3000:])
        open(st, "w").write(stamp)
    nat = open(os.path.join(d, "native.log")).read()
    dump = parse_dump(open(os.path.join(d, "dump.txt")).read())
    executed = "T syscall.Errno" in nat and "\nS " in nat
    sites = dump["cs"].get(1, [])
    callees = sorted(c for caller, ikey in sites for s0, c in dump["edges"].get(caller, []) if s0 == ikey)
    res = sorted(dump["res"].get(1, []))
    info = {"executed_errno_error": executed, "edges_at_site": callees, "resolve_includes": "(syscall.Errno).Error" in res}
    if executed and "(syscall.Errno).Error" not in callees:
        dd = chk.replay_dir("noeffect-intrinsic-error-result")
        for f in ("main.go", "go.mod", "native.log", "dump.txt"):
            shutil.copy(os.path.join(d, f), dd)
        open(os.path.join(dd, "replay.txt"), "w").write(
            "err := syscall.Close(-1) is non-nil at run time with dynamic type syscall.Errno and err.Error() executes "
            "(syscall.Errno).Error, but the call graph has no edge at that call site (edges there: %s) because syscall.Close is "
            "listed as ext.NoEffect in internal/pointer/intrinsics.go and its error result gets an empty points-to set.\n"
            "ResolveCallee falls back to the by-type table (includes the callee: %s).\n"
            "re-run: (cd <dir> && go run .); build/bin/c11dump -o dump.txt <dir>; grep 'EDGE noeffecterrno.main' dump.txt\n"
            % (callees, info["resolve_includes"]))
        chk.violation("noeffect-intrinsic-error-result", "call err.Error() on the result of the no-effect intrinsic syscall.Close has no "
                      "call-graph edge although (syscall.Errno).Error runs", dd)
    return info


def audit_intrinsics(chk, pr, found_concrete):
    """T-gen style structural audit of internal/pointer/intrinsics.go, regenerated from the source on every run:
    (a) findIntrinsic's package-level exemption is exactly `path == "runtime"` (reflect is handled through package objects);
    (b) no ext.NoEffect entry names a function of the loaded program that has a Go body and pointer-like results."""
    dump = pr["dump"]
    info = {"exemptions": dump.get("exempt"), "noeffect_entries_in_program": len(dump.get("noeff_flags", {}))}
    if dump.get("exempt") is not None and sorted(dump["exempt"]) != ['eq_"runtime"']:
        p = os.path.join(vlib.REPLAYS, "%s-intrinsic-exemptions.txt" % chk.prop)
        os.makedirs(vlib.REPLAYS, exist_ok=True)
        open(p, "w").write("internal/pointer/intrinsics.go findIntrinsic: the string tests deciding which functions generate no constraints "
                           "are %s; expected exactly [eq \"runtime\"] (only package runtime itself is exempt; reflect is handled through "
                           "package objects). Functions of other packages (e.g. runtime/trace, runtime/pprof) matched by a wider test lose "
                           "all pointer flows through them.\n" % dump["exempt"])
        chk.violation("intrinsic-exemptions", "findIntrinsic exempts more than package \"runtime\": %s" % dump["exempt"], p,
                      no_input=not found_concrete)
    bad = sorted(n for n, (cls, body, res) in dump.get("noeff_flags", {}).items() if body == "body" and res == "res-pointerlike" and cls != "unsafe")
    info["noeffect_with_body_and_pointerlike_result"] = bad
    for n in bad[:3]:
        p = os.path.join(vlib.REPLAYS, "%s-intrinsic-table-%s.txt" % (chk.prop, re.sub(r"[^A-Za-z0-9_.]", "_", n)))
        os.makedirs(vlib.REPLAYS, exist_ok=True)
        open(p, "w").write("internal/pointer/intrinsics.go maps %s to ext.NoEffect although it has a Go body and pointer-like results: every "
                           "value it returns gets an empty points-to set (cf. corpus/c12/noeffect_errno).\n" % n)
        chk.violation("intrinsic-table:" + n, "no-effect intrinsic %s has a Go body and pointer-like results" % n, p, no_input=not found_concrete)
    return info


def common(chk, want):
    """shared driver of C11 (want='pts') and C12 (want='calls')"""
    import time
    t0 = time.time()
    phase = {}
    prop_v = "theories/Properties/%s.v" % chk.prop
    failed = chk.prove(prop_v)
    phase["coq"] = round(time.time() - t0, 1)
    model_ok = True
    try:
        vlib.build_model("c11")
    except vlib.BuildError as e:
        model_ok = False
        chk.notes.append("extracted model could not be built: " + e.what)
    phase["extract_build"] = round(time.time() - t0 - phase["coq"], 1)
    work = os.path.join(vlib.BUILD, "c11")
    t1 = time.time()
    progs = prepare(work, chk.seed, chk.tier)
    phase["harness_native_dump"] = round(time.time() - t1, 1)
    t1 = time.time()
    found_concrete = False
    tie_bad = []
    dist = {}
    feats = {}
    distinct = set()
    evals = 0
    validated = 0
    for k, pr in enumerate(progs):
        for f, n in pr["meta"]["features"].items():
            feats[f] = feats.get(f, 0) + n
        if want == "pts":
            st, fails = check_points_to(pr)
            evals += st["probe_obs"] + st["alias_pairs"]
            for (a, b) in pr["dump"]["ma"]:
                distinct.add((k, "ma", a, b))
            nat = pr["native"]
            objs = sorted(o for o in nat["objs"] if o[0])
            bases = [o[0] for o in objs]
            for pid, kind, addr in nat["probes"]:
                sid = find_obj(objs, bases, nat["sizes"], addr) if addr else None
                if sid is not None:
                    distinct.add((k, "ps", pid, sid))
        else:
            st, fails = check_calls(pr)
            st5, fails5 = check_calls_cgonly(pr)
            st.update(st5)
            fails += fails5
            if model_ok:
                st4, diff = tie_reach_closure(pr)
                st.update(st4)
                if diff:
                    fails.append(("reach-closure", "ReachableFunctions() differs from the least set containing main/init and closed under "
                                  "call-graph edges (extracted worklist model on the dumped graph cg.txt): node ids %s" % diff[:10]))
            evals += st["call_events"] + st["entered_tags"]
            for ev in pr["native"]["events"]:
                distinct.add((k, "ev") + ev)
        for kk, v in st.items():
            dist[kk] = dist.get(kk, 0) + v
        seen_keys = set()
        for key, text in fails:
            found_concrete = True
            if key in seen_keys:
                continue
            seen_keys.add(key)
            d = write_replay(chk, key, pr, text)
            chk.violation(key, text[:400], d)
        if len(chk.cov["samples"]) < 4:
            if want == "pts" and pr["dump"]["probe"]:
                pid = sorted(pr["dump"]["probe"])[len(pr["dump"]["probe"]) // 2]
                pi = pr["dump"]["probe"][pid]
                chk.sample({"program": os.path.basename(pr["dir"]), "probe": pid, "value": pi["val"], "labels": pi["labels"][:6],
                            "native_addresses": sorted(set(hex(a) for i, _, a in pr["native"]["probes"] if i == pid))[:4]})
            elif want == "calls" and pr["native"]["events"]:
                ev = sorted(pr["native"]["events"])[len(pr["native"]["events"]) // 2]
                chk.sample({"program": os.path.basename(pr["dir"]), "call_site": ev[0], "callee_tag": ev[1],
                            "kind": pr["meta"]["cs"].get(str(ev[0])), "resolve": sorted(pr["dump"]["res"].get(ev[0], []))})
        # model tie
        if model_ok:
            mod = run_model(pr)
            dist["tie_programs"] = dist.get("tie_programs", 0) + 1
            dist["model_facts"] = dist.get("model_facts", 0) + mod["facts"]
            dist["fragment_rejected_functions"] = dist.get("fragment_rejected_functions", 0) + \
                len([r for r in mod["names"]["rej"] if "prelude" not in r[1]]) + len(mod["names"]["late"])
            dist["fragment_translated_functions"] = dist.get("fragment_translated_functions", 0) + len(mod["names"]["translated"])
            if mod["status"] != "done" or not mod["check"]:
                chk.notes.append("model: solver status %s, check_closed %s on %s" % (mod["status"], mod["check"], pr["dir"]))
                tie_bad.append((pr, "model did not reach a checked fixpoint", []))
            elif not mod["names"]["rootsok"]:
                dist["tie_skipped_roots"] = dist.get("tie_skipped_roots", 0) + 1
            else:
                if want == "pts":
                    st2, bad = tie_points_to(pr, mod)
                else:
                    st2, bad = tie_calls(pr, mod)
                for kk, v in st2.items():
                    dist["tie_" + kk] = dist.get("tie_" + kk, 0) + v
                for kk, v in sem_validation(pr, mod, want).items():
                    dist[kk] = dist.get(kk, 0) + v
                validated += st2.get("compared", 0) + st2.get("edges_compared", 0) + st2.get("reach_compared", 0)
                if bad:
                    tie_bad.append((pr, "model least solution not included in the implementation's result", bad[:20]))
    # no-effect functions option (C11 only): built-in table audit + user option on alias-pure leaf functions
    if want == "pts" and progs:
        pr = progs[0]
        cls = {}
        for name, c, sig in pr["dump"]["noeff"]:
            cls.setdefault(c, []).append(name)
        dist["noeffect_builtin_pure_by_signature"] = len(cls.get("pure", []))
        dist["noeffect_builtin_unsafe_pointer_only"] = len(cls.get("unsafe", []))
        dist["noeffect_builtin_pointerlike_signature"] = len(cls.get("impure", []))
        if cls.get("impure"):
            chk.notes.append("built-in no-effect intrinsics whose signature mentions pointer-like types (results/params are given empty "
                             "points-to sets by the vendored table): " + ", ".join(sorted(cls["impure"])))
        pr2 = noeffect_run(pr, work)
        st, fails = check_points_to(pr2)
        dist["noeffect_option_probe_obs"] = st["probe_obs"]
        base = set(t for _k, t in check_points_to(pr)[1])
        for key, text in [x for x in fails if x[1] not in base]:     # only what the option itself breaks
            found_concrete = True
            d = write_replay(chk, "noeffect-" + key, pr2, "with pointer-config.unsafe-no-effect-functions = [pureA pureB pureC] (alias-pure leaf "
                             "functions): " + text)
            chk.violation("noeffect-" + key, text[:400], d)
            break
        chk.assumptions.append("config default for pointer-config.unsafe-no-effect-functions is empty; the check lists only generated leaf "
                               "functions that are alias-pure by construction")
    if progs:
        dist["intrinsics_audit"] = audit_intrinsics(chk, progs[0], found_concrete)
    if want == "calls":
        dist["noeffect_errno_case"] = check_noeffect_errno(chk, work)
        if progs:
            pr2 = noeffect_run(progs[0], work)
            st, fails = check_calls(pr2)
            dist["noeffect_option_call_events"] = st["call_events"]
            base = set(t for _k, t in check_calls(progs[0])[1])
            for key, text in [x for x in fails if x[1] not in base]:     # only what the option itself breaks
                found_concrete = True
                d = write_replay(chk, "noeffect-" + key, pr2, "with pointer-config.unsafe-no-effect-functions = [pureA pureB pureC] (alias-pure "
                                 "leaf functions without calls): " + text)
                chk.violation("noeffect-" + key, text[:400], d)
                break
    if tie_bad and not (found_concrete and chk.has_new_concrete()):
        pr, why, bad = tie_bad[0]
        d = write_replay(chk, "tie", pr, "T-dump tie broken: %s\nfirst disagreements (value / call site, model-only labels, impl labels):\n%s\n"
                         "the native runs of the generated programs did not exhibit a concrete unsound answer" %
                         (why, "\n".join(str(b)[:500] for b in bad)))
        chk.violation("tie-broken", "%s on %d program(s), e.g. %s" % (why, len(tie_bad), str(bad[:1])[:300]), d, no_input=True)
    elif tie_bad:
        chk.notes.append("tie also broken on %d program(s): %s" % (len(tie_bad), str(tie_bad[0][2][:2])[:400]))
    chk.proof_broken(failed, found_concrete)
    dist["programs"] = len(progs)
    phase["checks_model_ties"] = round(time.time() - t1, 1)
    dist["phase_seconds"] = phase
    chk.cov["trusted_base"] += [
        "muSSA small-step semantics (Lang/MuSSA.v) as a stand-in for Go/x-tools-SSA semantics: validated (semval_* counters), not proved",
        "ssa2mu translator (harness/cmd/c11dump/mu.go) and the marker/probe instrumentation of the generated programs",
        "x/tools SSA construction, go/packages loading, fmt's %p and the Go runtime (GC switched off) for the native ground truth",
        "PositiveMap (Coq stdlib FMapPositive) extracted with ExtrOcamlBasic; extraction accesses the opaque "
        "PositiveOrderedTypeBits.compare/eq_dec bodies (warning only)",
    ]
    chk.cov["evaluations"] = evals
    chk.cov["distinct_nontrivial"] = len(distinct)
    chk.cov["traces_validated_against_impl"] = validated
    chk.cov["distribution"] = dict(dist, features=feats)
    return found_concrete


def run(chk):
    common(chk, "pts")
    chk.cov["rule"] = ("seed-generated Go programs (structs/fields, **T, slices, maps, channels, closures capturing by reference, function "
                       "values in fields/maps/globals, bound methods, method expressions, interfaces incl. embedded, generics, recursion) "
                       "run natively with address logging; distinct non-trivial = distinct (probe, allocation site actually referred to) "
                       "pairs plus distinct same-address probe pairs checked with MayAlias; tie = values of translated functions whose "
                       "model points-to set was compared with Queries[v]")
    chk.assumptions += [
        "muSSA semantics (Lang/MuSSA.v) stands for Go's: validated only indirectly (native addresses vs impl, model vs impl); not proved",
        "the vendored solver's HVN/online-cycle optimisations, reflection handling and intrinsics are NOT modelled; the model is a naive "
        "saturating solver for the same constraint system, so only the direction model <= impl is an alarm",
        "native ground truth: GC disabled so addresses are never reused; programs use no reflection/unsafe besides fmt's %p logging",
    ]
    return chk.finish()


def replay(chk, path):
    if not os.path.isdir(path):
        print(open(path).read())
        return 0
    print(open(os.path.join(path, "replay.txt")).read())
    if not os.path.exists(os.path.join(path, "main.go")):
        return 0
    vlib.build_harness(["c11dump"])
    d = os.path.join(vlib.BUILD, "c11", "replay", os.path.basename(path.rstrip("/")))
    shutil.rmtree(d, ignore_errors=True)
    os.makedirs(d)
    for f in ("main.go", "meta.json"):
        shutil.copy(os.path.join(path, f), d)
    open(os.path.join(d, "go.mod"), "w").write("module %s\n\ngo 1.22\n" % os.path.basename(d))
    rc, out, err = vlib.sh2(["go", "run", "."], cwd=d, timeout=900)
    if rc != 0:
        print(err)
        return 1
    nat = parse_native(out)
    pairs = alias_pairs(nat, vlib.lcg(1))
    open(os.path.join(d, "pairs.txt"), "w").write("".join("%d %d\n" % p for p in pairs))
    rc, o2, err = vlib.sh2([os.path.join(vlib.BIN, "c11dump"), "-repo", vlib.REPO, "-o", os.path.join(d, "dump.txt"), "-pairs",
                            os.path.join(d, "pairs.txt"), d], timeout=1500)
    if rc != 0:
        print(err)
        return 1
    pr = {"dir": d, "meta": json.load(open(os.path.join(d, "meta.json"))), "native": nat,
          "dump": parse_dump(open(os.path.join(d, "dump.txt")).read())}
    _, f1 = check_points_to(pr)
    _, f2 = check_calls(pr)
    for key, text in f1 + f2:
        print("FAIL %s: %s" % (key, text[:500]))
    print("replay: %d failing observations on the current tree" % len(f1 + f2))
    return 1 if (f1 + f2) else 0
