"""C05 - options documented as soundness-neutral do not change the verdict.

proof      : coq/theories/Properties/C05.v - lazy_eq_eager, alarm_limit (+ pairs, + entry-point loop) over the abstract
             worklist of Base/Closure.v; rw_cover_except_known: finite theorem over tables regenerated from the Go source.
tie T-gen  : harness/cmd/gentables/gen_rw.go -> coq/gen/GenRW.v (operand schema of x/tools ssa, case lists of
             lang.FnReadsFrom / FnWritesTo); cross-checked against the behaviour of the real functions by harness/cmd/c05rw
             (FnReadsFrom(f,G) <=> some operand position of G in f is in the regenerated list).
tie runs   : for every program - generated (mugo), the committed regression scenarios (one reader of a global per
             instruction kind) and real multi-package testdata of /repo - the REAL taint analysis is run in-process
             (harness/cmd/trun) under {eager, on-demand} x pkg-filter {none, main-only, std-excluded} x {report-*/coverage
             + debug log} and max-alarms {1,2,5}; the reported (source position, sink position) sets must be identical,
             resp. a non-empty subset of at most k pairs of the unlimited result.
"""
import json
import os
import re
import shutil

import vlib
from props import c01_common as C

REGRESS = os.path.join(vlib.VERIF, "corpus", "mugo", "c01_regress.json")
TESTDATA_QUICK = ["agent-example", "globals"]
TESTDATA_THOROUGH = ["agent-example", "globals", "interfaces", "fromlevee", "basic", "closures", "stdlib", "fields", "tuples",
                     "parameters", "defers", "example1", "interface-summaries", "with-context", "validators"]
MODPATH = "github.com/awslabs/ar-go-tools"


def stage_testdata(work, name):
    """copy /repo/analysis/taint/testdata/<name> into a scratch module with the repository's module path (its programs
    import their own sub-packages by that path); nothing is written into /repo"""
    root = os.path.join(work, "td")
    rel = os.path.join("analysis", "taint", "testdata", name)
    src = os.path.join(vlib.REPO, rel)
    if not os.path.isdir(src):
        return None
    dst = os.path.join(root, rel)
    shutil.rmtree(dst, ignore_errors=True)
    os.makedirs(os.path.dirname(dst), exist_ok=True)
    shutil.copytree(src, dst, ignore=shutil.ignore_patterns("*-report"))
    gm = os.path.join(root, "go.mod")
    if not os.path.exists(gm):
        open(gm, "w").write("module %s\n\ngo 1.22\n" % MODPATH)
    if not os.path.exists(os.path.join(dst, "config.yaml")):
        return None
    return dst


def matrix(main_re, std_excl_re, tier):
    """(reference spec, [(spec, kind)]) ; kind 'eq' = identical pair set, ('ma', k) = alarm-limit relation"""
    ref = "od=0"
    out = [("od=1", "eq"),
           ("od=0,pf=%s" % main_re, "eq"), ("od=1,pf=%s" % main_re, "eq"),
           ("od=0,pf=%s" % std_excl_re, "eq"),
           ("od=0,rep=1,ll=4", "eq"), ("od=1,rep=1,ll=3", "eq"),
           ("od=0,ma=1", ("ma", 1)), ("od=1,ma=2", ("ma", 2)), ("od=0,ma=5", ("ma", 5))]
    if tier != "quick":
        out += [("od=1,pf=%s" % std_excl_re, "eq"), ("od=0,ma=2", ("ma", 2)), ("od=1,ma=1", ("ma", 1)), ("od=1,ma=5", ("ma", 5)),
                ("od=0,rw=0", "eqrw"), ("od=1,rw=0", "eqrw"), ("od=1,pf=%s,rep=1" % main_re, "eq"), ("od=0,ll=5", "eq")]
    return ref, out


def parse_genrw():
    """(schema set of 'T.f', reads set, writes set) from the regenerated coq/gen/GenRW.v"""
    txt = open(os.path.join(vlib.COQ, "gen", "GenRW.v")).read()

    def block(name):
        m = re.search(r"Definition %s[^=]*:=\s*\[(.*?)\n\]\." % name, txt, flags=re.S)   # the list ends with "]." on its own line
        return re.findall(r'\("([^"]+)",\s*"([^"]+)"(?:,\s*"([^"]+)")?\)', m.group(1)) if m else []
    schema = {"%s.%s" % (t, f): r for t, f, r in block("rw_schema")}
    reads = set("%s.%s" % (t, f) for t, f, _ in block("rw_reads_from"))
    writes = set("%s.%s" % (t, f) for t, f, _ in block("rw_writes_to"))
    return schema, reads, writes


def ondemand_key(atomkey):
    if atomkey.startswith("global-read-"):
        return "ondemand-global-read:" + atomkey[len("global-read-"):]
    return "ondemand:" + atomkey


def run(chk):
    tier = chk.tier
    vlib.build_harness(["gentables", "mugo", "trun", "c05rw"])
    vlib.gen_tables(["rw"])
    failed = chk.prove("theories/Properties/C05.v")
    from props import visit_tie
    visit_tie.run(chk)
    work = os.path.join(vlib.BUILD, "c05")
    shutil.rmtree(work, ignore_errors=True)
    os.makedirs(work)
    found_concrete = False
    stats = {"programs": 0, "runs": 0, "eq_checks": 0, "eq_ok": 0, "ma_checks": 0, "ma_ok": 0, "ma_truncated": 0,
             "nonempty_reference": 0, "rw_functions": 0, "rw_agree": 0, "tool_failures": 0, "pairs_reference": 0}

    # ---------------------------------------------------------------- programs
    progs = []   # (name, dir, manifest or None, main-only regex, std-excluded regex, patterns)
    d = os.path.join(work, "regress")
    progs.append(("regress", d, C.mugo(d, spec=json.load(open(REGRESS))), "^p1$", "^p1", None))
    for k in range(1 if tier == "quick" else 6):
        d = os.path.join(work, "gen%d" % k)
        progs.append(("gen%d" % k, d, C.mugo(d, seed=chk.seed * 1000 + 500 + k, n=(30 if tier == "quick" else 50)), "^p1$", "^p1", None))
    for name in (TESTDATA_QUICK if tier == "quick" else TESTDATA_THOROUGH):
        d = stage_testdata(work, name)
        if d:
            pkg = MODPATH + "/analysis/taint/testdata/" + name
            progs.append(("testdata/" + name, d, None, "^%s$" % re.escape(pkg), "^%s" % re.escape(MODPATH), None))
    stats["programs"] = len(progs)

    jobs = []
    mats = {}
    for name, d, man, main_re, excl_re, pats in progs:
        ref, mat = matrix(main_re, excl_re, tier)
        mats[name] = (ref, mat)
        jobs.append((name, dict(d=d, specs=[ref] + [s for s, _ in mat], timeout=(150 if tier == "quick" else 600), patterns=pats)))
    # several taint-tracking problems share ONE alarm counter (taint.Analyze runs one visitor pass per problem on the same state):
    # config_multi.yaml splits the sources/sinks of a generated program over three problems
    for name, d, man, main_re, excl_re, pats in progs:
        if man is not None:
            jobs.append((("multi", name), dict(d=d, specs=["od=0", "od=0,ma=1", "od=0,ma=2", "od=1,ma=2"] + ([] if tier == "quick" else ["od=1", "od=0,ma=5"]),
                                               timeout=(150 if tier == "quick" else 600), config=os.path.join(d, "config_multi.yaml"))))
    # backward analysis (uses FnWritesTo for its on-demand pre-building): eager vs on-demand on the generated programs
    for name, d, man, main_re, excl_re, pats in progs:
        if man is not None and name == "regress":
            jobs.append((("bt", name), dict(d=d, specs=["bt=1,od=0", "bt=1,od=1"], timeout=(150 if tier == "quick" else 600),
                                            config=os.path.join(d, "config_bt.yaml"))))
    results = C.trun_many(jobs, workers=min(len(jobs), max(2, vlib.NCPU // 4)))

    # a panic of the eager reference run on a generated program (a C01/C07 matter, reported by the C01 check as crash:<atoms>)
    # would hide the whole program: take the crashing scenarios out and run the matrix on the rest
    stats["crashers_removed"] = 0
    for idx, (name, d, man, main_re, excl_re, pats) in enumerate(list(progs)):
        if man is None:
            continue
        ref, mat = mats[name]
        r0 = {r["spec"]: r for r in results[name].get("runs", [])}.get(ref)
        if r0 is None or not r0.get("panic"):
            continue
        crs = C.isolate_crashers(os.path.join(work, "crash-" + name), man["scenarios"], ref, timeout=(200 if tier == "quick" else 600))
        if not crs:
            continue
        gone = set(c["scenario"]["id"] for c in crs)
        stats["crashers_removed"] += len(gone)
        chk.notes.append("%s: the analysis panics on %s (see C01 crash:*); scenario(s) removed before comparing options"
                         % (name, [c["key"] for c in crs]))
        d2 = d + "-nocrash"
        man2 = C.mugo(d2, spec=[C.strip_scen(sc) for sc in man["scenarios"] if sc["id"] not in gone])
        results[name] = C.trun(d2, [ref] + [s for s, _ in mat], timeout=(150 if tier == "quick" else 600), patterns=pats)
        progs[idx] = (name, d2, man2, main_re, excl_re, pats)

    distinct = set()
    od_misses = []     # (program, scenario, direction)
    for name, d, man, main_re, excl_re, pats in progs:
        res = results[name]
        if res.get("fatal"):
            raise vlib.BuildError("trun failed on %s" % name, res["fatal"])
        runs = {r["spec"]: r for r in res["runs"]}
        ref, mat = mats[name]
        r0 = runs.get(ref)
        stats["runs"] += len(runs)
        if r0 is None or not C.run_ok(r0):
            stats["tool_failures"] += 1
            chk.notes.append("reference run failed on %s: %s" % (name, (r0 or {}).get("errors", ["?"])[:1]))
            if r0 is not None and name.startswith(("gen", "regress")):
                found_concrete = True
                rd = chk.replay_dir("reference-run-failed:" + name)
                pd = C.copy_prog(d, rd)
                open(os.path.join(rd, "replay.txt"), "w").write("the eager reference run failed: %s\nre-run: %s -dir %s %s\n"
                                                                 % (json.dumps(r0)[:3000], C.TRUN, pd, ref))
                chk.violation("tool-failure:" + ref, "the analysis produced no result on generated program %s under %s" % (name, ref), rd)
            continue
        p0 = C.pairs_of(r0)
        stats["pairs_reference"] += len(p0)
        if p0:
            stats["nonempty_reference"] += 1
        if len(chk.cov["samples"]) < 8:
            chk.sample({"program": name, "reference_pairs": len(p0),
                        "by_spec": {s: len(runs[s]["pairs"]) for s, _ in mat if s in runs and C.run_ok(runs[s])}})
        for s, kind in mat:
            r = runs.get(s)
            if r is None:
                continue
            # every option is compared within its summarisation mode (the eager/on-demand comparison is made once, by the
            # plain od=1 run); if the on-demand base run is unusable fall back to the eager reference
            ref_s, r0, p0 = ref, runs[ref], C.pairs_of(runs[ref])
            if s != "od=1" and s.startswith("od=1") and runs.get("od=1") is not None and C.run_ok(runs["od=1"]):
                ref_s, r0, p0 = "od=1", runs["od=1"], C.pairs_of(runs["od=1"])
            if not C.run_ok(r):
                stats["tool_failures"] += 1
                found_concrete = True
                rd = chk.replay_dir("tool-failure:%s:%s" % (name, s))
                pd = C.copy_prog(d, rd)
                open(os.path.join(rd, "replay.txt"), "w").write(
                    "the run under %s failed (timeout=%s panic=%s load=%s) while the reference run %s reports %d pairs\n%s\nre-run: %s -dir %s %s %s\n"
                    % (s, r.get("timeout"), r.get("panic"), r.get("load_error"), ref_s, len(p0), "\n".join(r.get("errors", []))[:3000], C.TRUN, pd, ref_s, s))
                chk.violation("tool-failure:" + re.sub(r"pf=[^,]*", "pf", s), "no result under %s on %s (reference has %d pairs)" % (s, name, len(p0)), rd)
                continue
            p = C.pairs_of(r)
            distinct.add((name, s))
            if kind in ("eq", "eqrw"):
                stats["eq_checks"] += 1
                # without source rewrites the loaded SSA differs: positions of flows are still those of the original source
                if p == p0:
                    stats["eq_ok"] += 1
                    continue
                found_concrete = True
                missing, extra = sorted(p0 - p), sorted(p - p0)
                if man is not None and ("od=1" in s) and not ("pf=" in s or "rep=" in s or "rw=0" in s):
                    ids0, ids1 = C.reported_ids(r0), C.reported_ids(r)
                    byid = {sc["id"]: sc for sc in man["scenarios"]}
                    for i in sorted(ids0 - ids1):
                        od_misses.append((name, byid[i], "od"))
                    for i in sorted(ids1 - ids0):
                        od_misses.append((name, byid[i], "eager"))
                    if (ids0 ^ ids1):
                        continue
                opt = re.sub(r"pf=[^,]*", "pf=" + ("main-only" if main_re in s else "std-excluded"), s)
                key = "option-diff:%s:%s" % (name if man is None else "generated", opt)
                rd = chk.replay_dir(key)
                pd = C.copy_prog(d, rd)
                with open(os.path.join(rd, "replay.txt"), "w") as f:
                    f.write("reported pair sets differ between %s and %s on %s\nonly under %s: %s\nonly under %s: %s\n\nre-run: %s -dir %s %s '%s'\n"
                            % (ref_s, s, name, ref_s, missing[:20], s, extra[:20], C.TRUN, pd, ref_s, s))
                chk.violation(key, "pair set under %s differs from %s on %s: %d missing, %d extra" % (s, ref_s, name, len(missing), len(extra)), rd)
            else:
                k = kind[1]
                stats["ma_checks"] += 1
                ok = p <= p0 and len(p) <= k and (bool(p) == bool(p0))
                if len(p) < len(p0):
                    stats["ma_truncated"] += 1
                if ok:
                    stats["ma_ok"] += 1
                    continue
                found_concrete = True
                why = ("not a subset of the unlimited result" if not p <= p0 else
                       ("more than k=%d pairs (%d)" % (k, len(p)) if len(p) > k else "empty although the unlimited result has %d pairs" % len(p0)))
                key = "max-alarms:" + ("subset" if not p <= p0 else ("count" if len(p) > k else "empty"))
                rd = chk.replay_dir(key + ":" + name)
                pd = C.copy_prog(d, rd)
                with open(os.path.join(rd, "replay.txt"), "w") as f:
                    f.write("max-alarms=%d on %s: %s\nlimited  : %s\nunlimited: %s\n\nre-run: %s -dir %s %s %s\n"
                            % (k, name, why, sorted(p)[:20], sorted(p0)[:20], C.TRUN, pd, ref_s, s))
                chk.violation(key, "max-alarms=%d on %s: %s" % (k, name, why), rd)

    # ---------------------------------------------------------------- max-alarms with several taint-tracking problems
    stats["multi_checks"] = 0
    stats["multi_ok"] = 0
    stats["multi_problems_with_flows"] = 0
    for name, d, man, main_re, excl_re, pats in progs:
        res = results.get(("multi", name))
        if res is None:
            continue
        if res.get("fatal"):
            raise vlib.BuildError("trun (multi-problem config) failed on %s" % name, res["fatal"])
        runs = {r["spec"]: r for r in res["runs"]}
        r0 = runs.get("od=0")
        if r0 is None or not C.run_ok(r0):
            stats["tool_failures"] += 1
            chk.notes.append("multi-problem reference run failed on %s" % name)
            continue
        p0 = C.pairs_of(r0)
        # how many of the three problems have flows (last digit classes of the sink number)
        cls = set()
        for sid in (b for a, b in C.reported_pairs(r0)):
            cls.add(0 if sid % 10 <= 3 else (1 if sid % 10 <= 6 else 2))
        stats["multi_problems_with_flows"] = max(stats["multi_problems_with_flows"], len(cls))
        # the split must not change the unlimited result of the single-problem configuration
        single = {r["spec"]: r for r in results[name].get("runs", [])}.get("od=0")
        if single is not None and C.run_ok(single):
            stats["multi_checks"] += 1
            if C.pairs_of(single) == p0:
                stats["multi_ok"] += 1
            else:
                found_concrete = True
                rd = chk.replay_dir("multi-problem:unlimited-differs")
                pd = C.copy_prog(d, rd)
                open(os.path.join(rd, "replay.txt"), "w").write(
                    "splitting the sources/sinks over three taint-tracking problems (config_multi.yaml) changes the reported pairs\nonly single: %s\nonly multi: %s\n"
                    "re-run: %s -dir %s od=0 ; %s -dir %s -config %s/config_multi.yaml od=0\n"
                    % (sorted(C.pairs_of(single) - p0)[:20], sorted(p0 - C.pairs_of(single))[:20], C.TRUN, pd, C.TRUN, pd, pd))
                chk.violation("multi-problem:unlimited-differs", "pair set changes when the same sources/sinks are split over 3 problems (%s)" % name, rd)
        for s_, r in runs.items():
            if "ma=" not in s_ or not C.run_ok(r):
                continue
            k = int(re.search(r"ma=(\d+)", s_).group(1))
            ref = runs.get("od=1") if s_.startswith("od=1") and runs.get("od=1") is not None and C.run_ok(runs["od=1"]) else r0
            pr = C.pairs_of(ref)
            p = C.pairs_of(r)
            stats["multi_checks"] += 1
            distinct.add((name, "multi:" + s_))
            sub = p <= pr or (ref is r0 and s_.startswith("od=1"))      # od=1 is compared with od=0 only for count / emptiness
            if sub and len(p) <= k and bool(p) == bool(pr):
                stats["multi_ok"] += 1
                continue
            found_concrete = True
            why = ("not a subset of the unlimited result" if not sub else
                   ("%d pairs in total over the %d problems, more than k=%d" % (len(p), len(cls), k) if len(p) > k else "empty although the unlimited result has %d pairs" % len(pr)))
            key = "max-alarms-multi-problem:" + ("subset" if not sub else ("count" if len(p) > k else "empty"))
            rd = chk.replay_dir(key)
            pd = C.copy_prog(d, rd)
            open(os.path.join(rd, "replay.txt"), "w").write(
                "max-alarms=%d with three taint-tracking problems (config_multi.yaml) on %s: %s\nlimited  : %s\nunlimited: %d pairs\n\n"
                "re-run: %s -dir %s -config %s/config_multi.yaml od=0 %s\n" % (k, name, why, sorted(p)[:20], len(pr), C.TRUN, pd, pd, s_))
            chk.violation(key, "max-alarms=%d with 3 taint-tracking problems on %s: %s" % (k, name, why), rd)

    # ---------------------------------------------------------------- backtrace: eager vs on-demand trace end points
    stats["bt_checks"] = 0
    stats["bt_ok"] = 0
    stats["bt_traces"] = 0
    for name, d, man, main_re, excl_re, pats in progs:
        res = results.get(("bt", name))
        if res is None:
            continue
        if res.get("fatal"):
            raise vlib.BuildError("trun (backtrace) failed on %s" % name, res["fatal"])
        runs = {r["spec"]: r for r in res["runs"]}
        a, b = runs.get("bt=1,od=0"), runs.get("bt=1,od=1")
        if a is None or b is None or not C.run_ok(a) or not C.run_ok(b):
            stats["tool_failures"] += 1
            chk.notes.append("backtrace run failed on %s: %s" % (name, [(x or {}).get("errors", ["?"])[:1] for x in (a, b)]))
            continue
        stats["bt_checks"] += 1
        ta, tb = set(tuple(t) for t in a["traces"]), set(tuple(t) for t in b["traces"])
        stats["bt_traces"] += len(ta)
        distinct.add((name, "bt"))
        if ta == tb:
            stats["bt_ok"] += 1
            continue
        only_e, only_l = sorted(ta - tb), sorted(tb - ta)
        byline = {sc.get("sink_line"): sc for sc in man["scenarios"]}

        def scen_of(t):
            m = re.search(r":(\d+):\d+", t[2])
            return byline.get(int(m.group(1))) if m else None

        # the ORIGIN of backtrace traces through two results of one call is not deterministic (C06 finding
        # nondeterministic:traces:bt:*:multires): such scenarios cannot be compared between two single runs
        def stable(t):
            sc = scen_of(t)
            return not (sc and any(a["kind"] == "multires" for a in sc["atoms"]))
        skipped = [t for t in only_e + only_l if not stable(t)]
        if skipped:
            stats["bt_unstable_traces_skipped"] = stats.get("bt_unstable_traces_skipped", 0) + len(skipped)
        only_e, only_l = [t for t in only_e if stable(t)], [t for t in only_l if stable(t)]
        if not only_e and not only_l:
            stats["bt_ok"] += 1
            continue
        found_concrete = True
        # one violation per (direction, kind of the ORIGIN node of the differing traces: first component "pos#NodeKind")
        classes = {}
        for direction, ts in (("only-eager", only_e), ("only-ondemand", only_l)):
            for t in ts:
                classes.setdefault((direction, t[0].split("#")[-1]), []).append(t)
        for (direction, kind), ts in sorted(classes.items()):
            key = "backtrace-ondemand:%s:%s" % (direction, kind)
            scs = [sc for sc in (scen_of(t) for t in ts) if sc]
            rd = chk.replay_dir(key)
            pd = C.copy_prog(d, rd)
            with open(os.path.join(rd, "replay.txt"), "w") as f:
                f.write("backtrace analysis on %s: %d trace end points with origin node kind %s are reported %s\n%s\nscenarios: %s\n\n"
                        "re-run: %s -dir %s -config %s/config_bt.yaml bt=1,od=0 bt=1,od=1\n"
                        % (name, len(ts), kind, "eagerly but not on demand" if direction == "only-eager" else "on demand but not eagerly",
                           ts[:10], sorted(set(C.scen_label(sc) for sc in scs))[:14], C.TRUN, pd, pd))
            chk.violation(key, "backtrace: %d trace end points (origin %s) %s (%s)" % (len(ts), kind, direction, name), rd)

    # ---------------------------------------------------------------- eager/on-demand differences on generated programs: minimise, key by atom
    if od_misses:
        ms = []
        for n, (name, sc, direction) in enumerate(od_misses):
            sc2 = dict(sc)
            sc2["id"] = n + 1
            # "missed under od=1" (resp. od=0): reuse the C01 shrinker with the single failing configuration
            ms.append((sc2, ["od=1"], ["od=0"]) if direction == "od" else (sc2, ["od=0"], ["od=1"]))
        # the shrinker needs 'observed natively': only flows that the other mode reports AND that exist natively can be shrunk by
        # the native criterion; flows that are not native (imprecision reported by one mode only) are keyed without shrinking
        shr = C.shrink(os.path.join(work, "shrink"), ms, ["od=0", "od=1"], timeout=(200 if tier == "quick" else 600))
        seen = {}
        for (name, sc, direction), m in zip(od_misses, shr):
            key = ondemand_key(m["key"]) if direction == "od" else "eager-misses:" + m["key"]
            ent = seen.setdefault(key, {"n": 0, "m": m, "name": name, "sc": sc, "dir": direction})
            ent["n"] += 1
        for key, ent in sorted(seen.items()):
            rd = chk.replay_dir(key)
            bad = ["od=1"] if ent["dir"] == "od" else ["od=0"]
            what = ("flow reported with summarize-on-demand=%s but not with summarize-on-demand=%s (%d generated scenario(s), e.g. %s in %s)"
                    % ("false" if ent["dir"] == "od" else "true", "true" if ent["dir"] == "od" else "false", ent["n"], C.scen_label(ent["sc"]), ent["name"]))
            C.write_program_replay(rd, ent["m"]["minimal"], ["od=0", "od=1"], what)
            chk.violation(key, what, rd)

    # ---------------------------------------------------------------- T-gen cross-check: regenerated tables vs the real functions
    schema, reads, writes = parse_genrw()
    rwout = os.path.join(work, "rw.txt")
    dirs = [d for name, d, man, _, _, _ in progs]
    rc, log = vlib.sh([os.path.join(vlib.BIN, "c05rw"), "-o", rwout] + dirs, timeout=900)
    if rc != 0:
        raise vlib.BuildError("c05rw failed", log)
    rw_bad = []
    unknown_pos = set()
    gap_seen = {}
    for l in open(rwout):
        p = l.split()
        if not p or p[0] != "RW":
            continue
        fn, g, rd_, wr_ = p[1], p[2], p[3] == "reads=true", p[4] == "writes=true"
        pos = p[5:]
        stats["rw_functions"] += 1
        exp_r = any(x in reads for x in pos)
        exp_w = any(x in writes for x in pos)
        for x in pos:
            if ">" not in x and x not in schema:
                unknown_pos.add(x)
            if ">" not in x and schema.get(x) in ("read", "use") and x not in reads:
                gap_seen[x] = gap_seen.get(x, 0) + 1
        if exp_r == rd_ and exp_w == wr_:
            stats["rw_agree"] += 1
        else:
            rw_bad.append(l.strip())
    stats["rw_gap_positions_seen_in_corpus"] = gap_seen
    if rw_bad or unknown_pos:
        p = os.path.join(vlib.REPLAYS, "C05-tgen-crosscheck.txt")
        os.makedirs(vlib.REPLAYS, exist_ok=True)
        open(p, "w").write("the regenerated tables of coq/gen/GenRW.v disagree with the real lang.FnReadsFrom/FnWritesTo on these "
                           "(function, global) pairs, or an operand position is missing from the schema:\n" + "\n".join(rw_bad[:50]) +
                           "\nunknown positions: %s\n" % sorted(unknown_pos))
        if not (found_concrete and chk.has_new_concrete()):
            chk.violation("tie-broken", "T-gen translator (gen_rw.go) no longer matches the code: %d disagreements, unknown positions %s"
                          % (len(rw_bad), sorted(unknown_pos)), p, no_input=True)

    chk.proof_broken(failed, found_concrete)

    # current gaps, for the evidence (the _refuted side of rw_cover, computed from the regenerated tables)
    cur_gaps = sorted(x for x, r in schema.items() if r in ("read", "use") and x not in reads)
    chk.cov["evaluations"] = stats["eq_checks"] + stats["ma_checks"] + stats["multi_checks"] + stats["bt_checks"] + stats["rw_functions"]
    chk.cov["distinct_nontrivial"] = len(distinct)
    chk.cov["rule"] = ("one evaluation = one (program, option setting) comparison with the eager reference run, or one (function, global) "
                       "cross-check of the regenerated FnReadsFrom/FnWritesTo tables; non-trivial/distinct = distinct (program, option "
                       "setting) pairs whose run completed; %d of %d programs have a non-empty reference result" %
                       (stats["nonempty_reference"], stats["programs"]))
    chk.cov["traces_validated_against_impl"] = stats["eq_ok"] + stats["ma_ok"] + stats["multi_ok"] + stats["bt_ok"] + stats["rw_agree"]
    chk.cov["distribution"] = stats
    chk.cov["partial_or_refuted"] = [
        "rw_cover_statement (full coverage of FnReadsFrom) does not hold on this tree: current gaps %s; proved instead: "
        "rw_cover_except_known" % cur_gaps] if cur_gaps else ["rw_cover_statement holds on this tree (no gaps): known_rw_gaps can be retired"]
    chk.assumptions += [
        "Properties/C05.v lazy_eq_eager / alarm_limit are about the abstract worklist; their hypotheses (lazy graph = eager graph on "
        "touched keys; limited run = same traversal + visit counter) are validated by the runs of this check, not proved of the Go code",
        "operand roles (read/use/write/nonptr) in gen_rw.go are a hand-written classification; unknown positions default to 'use'",
    ]
    return chk.finish()


def replay(chk, path):
    print(open(os.path.join(path, "replay.txt")).read() if os.path.isdir(path) else open(path).read())
    d = os.path.join(path, "prog")
    if os.path.isdir(d):
        C.build()
        res = C.trun(d, ["od=0", "od=1"], timeout=300)
        for r in res.get("runs", []):
            print(r["spec"], "pairs:", sorted((p[0], p[1]) for p in r["pairs"]), "errors:", r["errors"][:1])
    return 0
