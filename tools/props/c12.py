"""C12 - the call graph contains every run-time call   (shares generator, dumper, native runs and model with C11)

proof     : coq/theories/Properties/C12.v   (cg_sound, executed functions reachable, closure facts of reachability)
tie T-dump: model call edges (call site -> callee) and reachable functions must be a subset of the impl's
search T-gt: native (call site id, callee) events + function entries vs PointerAnalysis.CallGraph, ReachableFunctions(),
            ResolveCallee
"""
from props import c11


def run(chk):
    c11.common(chk, "calls")
    chk.cov["rule"] = ("native call events (call-site id, entered function) of seed-generated programs: static, function value (local, "
                       "struct field, global, map), closure, bound method, method expression, interface invoke (incl. embedded "
                       "interfaces, value receivers, promoted methods), generic instantiations, recursion; distinct non-trivial = "
                       "distinct (program, call site, callee) events; each is checked against CallGraph edges at that site (through "
                       "synthetic wrappers), ReachableFunctions() and ResolveCallee; tie = model edges/reachable functions compared")
    chk.assumptions += [
        "muSSA semantics (Lang/MuSSA.v) stands for Go's: validated only indirectly; go/defer call sites are outside the fragment",
        "synthetic wrappers ($bound, $thunk, promoted-method and value-receiver wrappers) are translated from their real SSA bodies",
        "the vendored solver's optimisations and reflection are NOT modelled (only model <= impl is an alarm)",
    ]
    return chk.finish()


def replay(chk, path):
    return c11.replay(chk, path)
