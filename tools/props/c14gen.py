"""Generator of concurrent Go scenario programs shared by the C13 and C14 checks.

One scenario = one function s<i>() with its own types/globals/helpers (suffix <i>), built from
  * a sharing MECHANISM (how an object allocated by goroutine 1 becomes reachable by goroutine 2),
  * a TARGET (the shared object itself, a child linked before sharing, a child linked after sharing),
  * for C14 an ACCESS kind (the memory-accessing statement goroutine 1 executes after sharing, marked `// ACC`),
    goroutine 2 writes every part of the object (`poke`), nothing orders the two => a data race the race detector reports
    deterministically (both accesses always execute; happens-before is schedule independent);
  * for C13 a TAINT step (how source data is written into the shared object and where goroutine 2 sinks it).
`@` in templates is replaced by the scenario index.
"""

# ----------------------------------------------------------------------------------------------- common declarations
COMMON = """
type T@ struct {
	x int
	d string
	m map[int]int
	s []int
	b []byte
	a [4]int
	p *T@
}

var GI@ int

func mk@() *T@ { return &T@{m: map[int]int{1: 1}, s: make([]int, 2, 8), b: make([]byte, 4)} }

func poke@(o *T@) {
	GI@ = 2 // GG
	o.x = 2 // G2
	o.m[1] = 2 // G2
	o.s[0] = 2 // G2
	o.b[0] = 2 // G2
	o.a[1] = 2 // G2
}

func touch@(o *T@, rdy, done chan bool) {
	<-rdy
	poke@(o)
	if o.p != nil {
		poke@(o.p)
	}
	done <- true
}
"""

# ----------------------------------------------------------------------------------------------- sharing mechanisms
# name -> (declarations, share statements).  In the share statements goroutine 2 must end up calling
# touch@(<the object>, rdy, done) (C14) -- for C13 `touch@` is replaced by the sinking reader of the same signature.
MECHS = {
    "goarg": ("", ["go touch@(o, rdy, done)"]),
    "closure": ("", ["go func() { touch@(o, rdy, done) }()"]),
    "global": ("var G@ *T@\n", ["G@ = o", "go func() { touch@(G@, rdy, done) }()"]),
    "chan": ("", ["ch := make(chan *T@, 1)", "go func() { touch@(<-ch, rdy, done) }()", "ch <- o"]),
    "chansel": ("", ["ch := make(chan *T@, 1)", "go func() { touch@(<-ch, rdy, done) }()", "select {", "case ch <- o:", "}"]),
    "field": ("type H@ struct{ p *T@ }\n", ["h := &H@{}", "h.p = o", "go func() { touch@(h.p, rdy, done) }()"]),
    "fieldlate": ("type H@ struct{ p *T@ }\n",
                  ["h := &H@{}", "hr := make(chan bool)", "go func() { <-hr; touch@(h.p, rdy, done) }()", "h.p = o", "hr <- true"]),
    "iface": ("", ["var iv interface{} = o", "go func() { touch@(iv.(*T@), rdy, done) }()"]),
    "ifacearg": ("func ti@(iv interface{}, rdy, done chan bool) { touch@(iv.(*T@), rdy, done) }\n", ["go ti@(o, rdy, done)"]),
    "mapval": ("", ["mm := map[int]*T@{0: o}", "go func() { touch@(mm[0], rdy, done) }()"]),
    "mapkey": ("", ["mm := map[*T@]int{o: 1}", "go func() {", "for k := range mm {", "touch@(k, rdy, done)", "}", "}()"]),
    "slice": ("", ["sl := []*T@{o}", "go func() { touch@(sl[0], rdy, done) }()"]),
    "slicearg": ("func tsl@(sl []*T@, rdy, done chan bool) { touch@(sl[0], rdy, done) }\n", ["go tsl@([]*T@{o}, rdy, done)"]),
    "array": ("var GA@ [2]*T@\n", ["GA@[1] = o", "go func() { touch@(GA@[1], rdy, done) }()"]),
    "ptrptr": ("", ["pp := &o", "go func() { touch@(*pp, rdy, done) }()"]),
    "structval": ("type W@ struct{ p *T@ }\nfunc tw@(w W@, rdy, done chan bool) { touch@(w.p, rdy, done) }\n",
                  ["w := W@{p: o}", "go tw@(w, rdy, done)"]),
    "variadic": ("func tv@(rdy, done chan bool, os ...*T@) { touch@(os[0], rdy, done) }\n", ["go tv@(rdy, done, o)"]),
    "method": ("func (o *T@) Touch(rdy, done chan bool) { touch@(o, rdy, done) }\n", ["go o.Touch(rdy, done)"]),
    "methodval": ("func (o *T@) Touch(rdy, done chan bool) { touch@(o, rdy, done) }\n", ["f := o.Touch", "go f(rdy, done)"]),
    "methodexpr": ("func (o *T@) Touch(rdy, done chan bool) { touch@(o, rdy, done) }\n", ["go (*T@).Touch(o, rdy, done)"]),
    "ifacemethod": ("type TI@ interface{ Touch(rdy, done chan bool) }\nfunc (o *T@) Touch(rdy, done chan bool) { touch@(o, rdy, done) }\n",
                    ["var ti TI@ = o", "go ti.Touch(rdy, done)"]),
    "calleepub": ("var G@ *T@\nfunc pub@(o *T@) { G@ = o }\n", ["pub@(o)", "go func() { touch@(G@, rdy, done) }()"]),
    "calleego": ("func start@(o *T@, rdy, done chan bool) { go touch@(o, rdy, done) }\n", ["start@(o, rdy, done)"]),
    "calleego2": ("func start@(o *T@, rdy, done chan bool) { go touch@(o, rdy, done) }\nfunc mid@(o *T@, rdy, done chan bool) { start@(o, rdy, done) }\n",
                  ["mid@(o, rdy, done)"]),
    "deferpub": ("var G@ *T@\nfunc pub@(o *T@) { G@ = o }\nfunc inner@(o *T@) { defer pub@(o) }\n",
                 ["inner@(o)", "go func() { touch@(G@, rdy, done) }()"]),
    "deferclo": ("var G@ *T@\nfunc inner@(o *T@) {\n\tdefer func() { G@ = o }()\n}\n",
                 ["inner@(o)", "go func() { touch@(G@, rdy, done) }()"]),
    "defergo": ("func inner@(o *T@, rdy, done chan bool) { defer start@(o, rdy, done) }\nfunc start@(o *T@, rdy, done chan bool) { go touch@(o, rdy, done) }\n",
                ["inner@(o, rdy, done)"]),
    "funcval": ("var G@ *T@\nfunc pub@(o *T@) { G@ = o }\nvar PF@ = pub@\n", ["pf := PF@", "pf(o)", "go func() { touch@(G@, rdy, done) }()"]),
    "funcvallocal": ("var G@ *T@\nfunc pub@(o *T@) { G@ = o }\n", ["pf := pub@", "pf(o)", "go func() { touch@(G@, rdy, done) }()"]),
    "ifacepub": ("var G@ *T@\ntype P@ interface{ Pub(o *T@) }\ntype pb@ struct{}\nfunc (*pb@) Pub(o *T@) { G@ = o }\n",
                 ["var pi P@ = &pb@{}", "pi.Pub(o)", "go func() { touch@(G@, rdy, done) }()"]),
    "genericpub": ("var G@ interface{}\nfunc pubg@[X any](x X) { G@ = x }\n", ["pubg@(o)", "go func() { touch@(G@.(*T@), rdy, done) }()"]),
    "recpub": ("var G@ *T@\nfunc pubr@(o *T@, n int) {\n\tif n == 0 {\n\t\tG@ = o\n\t\treturn\n\t}\n\tpubr@(o, n-1)\n}\n",
               ["pubr@(o, 2)", "go func() { touch@(G@, rdy, done) }()"]),
    "closureglobal": ("var F@ func()\n", ["F@ = func() { touch@(o, rdy, done) }", "go func() { F@() }()"]),
    "closureret": ("func mkc@(o *T@, rdy, done chan bool) func() { return func() { touch@(o, rdy, done) } }\n",
                   ["f := mkc@(o, rdy, done)", "go f()"]),
    "phi": ("var C@ bool\n", ["o2 := mk@()", "q := o2", "if !C@ {", "q = o", "}", "go touch@(q, rdy, done)"]),
    "copyshare": ("", ["sh := make([]*T@, 1)", "copy(sh, []*T@{o})", "go func() { touch@(sh[0], rdy, done) }()"]),
    "appendshare": ("var GS@ []*T@\n", ["GS@ = append(GS@, o)", "go func() { touch@(GS@[0], rdy, done) }()"]),
    "atomicval": ("var AV@ atomic.Value\n", ["AV@.Store(o)", "go func() { touch@(AV@.Load().(*T@), rdy, done) }()"]),
    "afterfunc": ("", ["time.AfterFunc(0, func() { touch@(o, rdy, done) })"]),
    "gonested": ("", ["go func() { go touch@(o, rdy, done) }()"]),
    # go statement inside a loop body that adds no points-to edge: the leak reaches the code after the loop only through the
    # loop header's re-analysis (back edge; EscapeGraph.Matches must see the changed status)
    "goloop": ("", ["for i := 0; i < 1; i++ {", "go touch@(o, rdy, done)", "}"]),
    "retpub": ("var G@ *T@\nfunc mkpub@() *T@ {\n\tn := mk@()\n\tG@ = n\n\treturn n\n}\n", ["__ALLOC mkpub@()", "go func() { touch@(G@, rdy, done) }()"]),
    "tuplepub": ("var G@ *T@\nfunc mkpub@() (*T@, int) {\n\tn := mk@()\n\tG@ = n\n\treturn n, 1\n}\n",
                 ["__ALLOC2 mkpub@()", "go func() { touch@(G@, rdy, done) }()"]),
    "embedded": ("type E@ struct{ T@ }\nfunc te@(e *E@, rdy, done chan bool) { touch@(&e.T@, rdy, done) }\n",
                 ["__ALLOCE", "go te@(e, rdy, done)"]),
    "rangechan": ("", ["ch := make(chan *T@, 1)", "go func() {", "for q := range ch {", "touch@(q, rdy, done)", "}", "}()", "ch <- o", "close(ch)"]),
    "typeswitch": ("", ["var iv interface{} = o", "go func() {", "switch q := iv.(type) {", "case *T@:", "touch@(q, rdy, done)", "}", "}()"]),
}

# mechanisms where goroutine 1 keeps a plain pointer `o` to a freshly allocated object (all of them); special allocation forms:
#   __ALLOC <expr>   : o is obtained from <expr> instead of mk@()        (first share statement)
#   __ALLOC2 <expr>  : o, _ := <expr>
#   __ALLOCE         : e := &E@{T@: *mk@()}; o := &e.T@

# ----------------------------------------------------------------------------------------------- access kinds (C14)
# name -> (declarations, pre statements (before sharing), access statements; the line carrying `// ACC` is the checked one)
ACCS = {
    "fstore": ("", [], ["t.x = 1 // ACC"]),
    "fload": ("", [], ["r += t.x // ACC"]),
    "finc": ("", [], ["t.x++ // ACC"]),
    "mapupd": ("", ["m := t.m"], ["m[2] = 1 // ACC"]),
    "mapupd2": ("", [], ["t.m[2] = 1 // ACC"]),
    "maplook": ("", ["m := t.m"], ["r += m[1] // ACC"]),
    "maprange": ("", ["m := t.m"], ["for k := range m { // ACC", "r += k", "}"]),
    "slstore": ("", ["s := t.s"], ["s[0] = 1 // ACC"]),
    "slload": ("", ["s := t.s"], ["r += s[0] // ACC"]),
    "slrange": ("", ["s := t.s"], ["for _, v := range s { // ACC", "r += v", "}"]),
    "arrstore": ("", [], ["t.a[1] = 1 // ACC"]),
    "arrload": ("", [], ["r += t.a[1] // ACC"]),
    "copyto": ("", ["s := t.s", "s2 := []int{7, 8}"], ["copy(s, s2) // ACC"]),
    "copyfrom": ("", ["s := t.s", "s2 := []int{7, 8}"], ["copy(s2, s) // ACC", "r += s2[0]"]),
    "append": ("", ["s := t.s[:0]"], ["s = append(s, 5) // ACC", "r += len(s)"]),
    "delete": ("", ["m := t.m"], ["delete(m, 1) // ACC"]),
    "lenmap": ("", ["m := t.m"], ["r += len(m) // ACC"]),
    "clearmap": ("", ["m := t.m"], ["clear(m) // ACC"]),
    "bytes2str": ("", ["b := t.b"], ["r += len(string(b)) // ACC"]),
    "structload": ("", [], ["v := *t // ACC", "r += v.x + v.a[1]"]),
    "arrassign": ("", [], ["t.a = [4]int{1, 2, 3, 4} // ACC"]),
    "callee": ("func set@(o *T@) {\n\to.x = 3 // ACC\n}\n", [], ["set@(t)"]),
    "callee2": ("func set@(o *T@) {\n\to.x = 3 // ACC\n}\nfunc set2@(o *T@) { set@(o) }\n", [], ["set2@(t)"]),
    "calleemap": ("func setm@(m map[int]int) {\n\tm[3] = 3 // ACC\n}\n", ["m := t.m"], ["setm@(m)"]),
    "methodacc": ("func (o *T@) Set() {\n\to.x = 3 // ACC\n}\n", [], ["t.Set()"]),
    "ifaceacc": ("type S@ interface{ Set() }\nfunc (o *T@) Set() {\n\to.x = 3 // ACC\n}\n", ["var sv S@ = t"], ["sv.Set()"]),
    "closureacc": ("", ["fa := func() {", "t.x = 4 // ACC", "}"], ["fa()"]),
    "deferacc": ("func dset@(o *T@) {\n\to.x = 5 // ACC\n}\nfunc dwrap@(o *T@) { defer dset@(o) }\n", [], ["dwrap@(t)"]),
    "loopacc": ("", [], ["for i := 0; i < 2; i++ {", "t.x = i // ACC", "}"]),
    "ifacelast": ("type S2@ interface{ Set2(a, b *T@, n int) }\ntype w2@ struct{}\nfunc (*w2@) Set2(a, b *T@, n int) {\n\tb.x = n // ACC\n}\n",
                  ["var sv2 S2@ = &w2@{}"], ["sv2.Set2(mk@(), t, 3)"]),
    "globalstore": ("", [], ["GI@ = 7 // GACC"]),
    "globalload": ("", [], ["r += GI@ // GACC"]),
}

TARGETS = ("self", "child", "latechild")

import os as _os

SPECIAL_DIR = _os.path.join(_os.path.dirname(_os.path.dirname(_os.path.dirname(_os.path.abspath(__file__)))), "corpus", "c14")


def load_specials(d=SPECIAL_DIR):
    """committed scenario templates corpus/c14/*.tmpl -> {name: (declarations, body lines)}"""
    out = {}
    if not _os.path.isdir(d):
        return out
    for f in sorted(_os.listdir(d)):
        if not f.endswith(".tmpl"):
            continue
        decl, body, mode = [], [], None
        for l in open(_os.path.join(d, f)).read().split("\n"):
            if l.strip() == "//decl":
                mode = "d"
            elif l.strip() == "//body":
                mode = "b"
            elif mode == "d":
                decl.append(l)
            elif mode == "b" and l.strip():
                body.append(l.strip())
        out[f[:-5]] = ("\n".join(decl) + "\n", body)
    return out


def _sub(txt, i):
    return txt.replace("@", str(i))


def scenario_c14(i, mech, acc, tgt, entry="call"):
    """-> (top-level declarations, function body lines) of scenario i"""
    if mech == "special":
        decl, body = load_specials()[acc]
        # the line-role scanner keys scenarios on `type T<i> struct`: give every special such an anchor
        decl = "type T@ struct{}\n\n" + decl
        body = list(body)
        if entry == "go":
            body.append("fin <- true")
        return _sub(decl, i), [_sub(l, i) for l in body]
    mdecl, share = MECHS[mech]
    adecl, pre, accs = ACCS[acc]
    decl = COMMON + mdecl + adecl
    body = []
    share = list(share)
    if share and share[0].startswith("__ALLOC2 "):
        body.append("o, _ := " + share.pop(0)[len("__ALLOC2 "):])
    elif share and share[0].startswith("__ALLOC "):
        body.append("o := " + share.pop(0)[len("__ALLOC "):])
    elif share and share[0] == "__ALLOCE":
        share.pop(0)
        body += ["e := &E@{T@: *mk@()}", "o := &e.T@"]
    else:
        body.append("o := mk@()")
    body += ["rdy, done := make(chan bool), make(chan bool)", "r := 0"]
    if tgt == "self":
        body.append("t := o")
    else:
        body.append("t := mk@()")
        if tgt == "child":
            body.append("o.p = t")
    body.append("_ = t")
    body += pre
    body += share
    if tgt == "latechild":
        body.append("o.p = t")
    body.append("rdy <- true")
    body += accs
    body += ["<-done", "keep(r)"]
    if entry == "go":
        body.append("fin <- true")
    return _sub(decl, i), [_sub(l, i) for l in body]


def needs_imports(mechs):
    imp = set()
    for m in mechs:
        if m == "atomicval":
            imp.add("sync/atomic")
        if m == "afterfunc":
            imp.add("time")
    return sorted(imp)


def program(scens, maker, extra_imports=()):
    """scens: list of tuples passed to maker(i, *tuple) -> (decl, body lines).  Returns (source, info) where
    info[i] = {"desc": tuple, "func": "s<i>", "lines": {line: role}} with roles ACC / G2 / other markers."""
    mechs = [s[0] for s in scens]
    imps = sorted(set(needs_imports(mechs)) | set(extra_imports) | {"os", "strconv"})
    out = ["package main", ""]
    if imps:
        out.append("import (")
        out += ['\t"%s"' % x for x in imps]
        out += [")", ""]
    out += ["var K int", "", "var fin = make(chan bool)", "", "//go:noinline", "func keep(r int) { K += r }", ""]
    info = {}
    for i, sc in enumerate(scens):
        decl, body = maker(i, *sc)
        out += decl.strip("\n").split("\n")
        out.append("")
        out.append("func s%d() {" % i)
        depth = 1
        for l in body:
            st = l.strip()
            if st.startswith("}") or st.startswith("case ") or st.startswith("default:"):
                ind = depth - 1
            else:
                ind = depth
            out.append("\t" * max(ind, 0) + st)
            depth += st.count("{") - st.count("}")
        out.append("}")
        out.append("")
        info[i] = {"desc": sc, "func": "s%d" % i, "lines": {}}
    # main runs the scenarios from index os.Args[1] on (static calls, so that the call-site / go-callee contexts are the
    # intended ones) and announces each on stderr: the runner restarts after a runtime `fatal error: concurrent map ...`
    out.append("func begin(i int) { println(\"BEGIN\", i) }")
    out.append("")
    out.append("func main() {")
    out.append("\tfrom := 0")
    out.append("\tif len(os.Args) > 1 {")
    out.append("\t\tfrom, _ = strconv.Atoi(os.Args[1])")
    out.append("\t}")
    for i, sc in enumerate(scens):
        out.append("\tif from <= %d {" % i)
        out.append("\t\tbegin(%d)" % i)
        if len(sc) > 3 and sc[3] == "go":
            out.append("\t\tgo s%d()" % i)
            out.append("\t\t<-fin")
        else:
            out.append("\t\ts%d()" % i)
        out.append("\t}")
    out.append("\tprintln(\"ALLDONE\")")
    out.append("}")
    # line roles: a marker belongs to the scenario whose declarations/function contain it
    cur = None
    import re
    starts = {}
    for ln, l in enumerate(out, 1):
        m = re.match(r"type T(\d+) struct", l)
        if m:
            cur = int(m.group(1))
        if l.startswith("func main()"):
            cur = None
        if cur is not None:
            mm = re.search(r"// (ACC|G2|GG|GACC|SRC|SINK|TAINT)\b", l)
            info[cur]["lines"][ln] = mm.group(1) if mm else "-"
    return "\n".join(out) + "\n", info


# ----------------------------------------------------------------------------------------------- C13 scenarios
# taint step name -> (declarations, statements executed by goroutine 1 after sharing; reader body used instead of poke)
# The reader (goroutine 2) waits for rdy, then sinks some part of the object.  The flow is race free (ordered by rdy) and
# always happens, so the native run observes it deterministically.
C13_COMMON = """
type T@ struct {
	x int
	d string
	m map[int]string
	s []string
	b []byte
	p *T@
}

func mk@() *T@ { return &T@{m: map[int]string{1: "a"}, s: make([]string, 2, 8), b: make([]byte, 8)} }

func source@() string { return mark(@) } // SRC

func sink@(s string) { hit(@, s) }

func touch@(o *T@, rdy, done chan bool) {
	<-rdy
	if o.p != nil {
		o = o.p
	}
	READ
	done <- true
}
"""

# name -> (pre statements, taint statements of goroutine 1 (after sharing and before rdy), reader statement(s))
TAINTS = {
    "field": ([], ["t.d = source@() // TAINT"], "sink@(o.d) // SINK"),
    "fieldbefore": (["t.d = source@() // TAINT"], [], "sink@(o.d) // SINK"),
    "mapval": ([], ["t.m[2] = source@() // TAINT"], "sink@(o.m[2]) // SINK"),
    "mappre": (["m := t.m"], ["m[2] = source@() // TAINT"], "sink@(o.m[2]) // SINK"),
    "sliceelem": ([], ["t.s[1] = source@() // TAINT"], "sink@(o.s[1]) // SINK"),
    "slicepre": (["s := t.s"], ["s[1] = source@() // TAINT"], "sink@(o.s[1]) // SINK"),
    "copy": (["s := t.s"], ["v := []string{source@()} // TAINT", "copy(s, v)"], "sink@(o.s[0]) // SINK"),
    "copybytes": (["b := t.b"], ["copy(b, source@()) // TAINT"], "sink@(string(o.b)) // SINK"),
    "append": (["s := t.s[:0]"], ["s = append(s, source@()) // TAINT", "keep(len(s))"], "sink@(o.s[0]) // SINK"),
    "callee": ([], ["setd@(t, source@()) // TAINT"], "sink@(o.d) // SINK"),
    "structassign": ([], ["*t = T@{d: source@(), m: t.m, s: t.s, b: t.b, p: t.p} // TAINT"], "sink@(o.d) // SINK"),
    # tainted value returned by a callee, then stored into the shared object
    "idcall": ([], ["v := idf@(source@()) // TAINT", "t.d = v"], "sink@(o.d) // SINK"),
    # tainted write through the LAST pointer parameter of a method reached through an interface call
    "ifaceput": (["var wi WP@ = &wp@{}"], ["wi.Put(mk@(), t, source@()) // TAINT"], "sink@(o.d) // SINK"),
}
TAINT_DECL = {"callee": "func setd@(o *T@, v string) { o.d = v }\n",
              "idcall": "func idf@(s string) string { return s }\n",
              "ifaceput": "type WP@ interface{ Put(a, b *T@, v string) }\ntype wp@ struct{}\nfunc (*wp@) Put(a, b *T@, v string) { b.d = v }\n"}


SPECIAL13_DIR = _os.path.join(_os.path.dirname(SPECIAL_DIR), "c13")


def scenario_c13(i, mech, taint, tgt, entry="call"):
    if mech == "special":
        decl, body = load_specials(SPECIAL13_DIR)[taint]
        decl = "type T@ struct{}\n\n" + decl
        body = list(body)
        if entry == "go":
            body.append("fin <- true")
        return _sub(decl, i), [_sub(l, i) for l in body]
    mdecl, share = MECHS[mech]
    pre, tsteps, reader = TAINTS[taint]
    decl = C13_COMMON.replace("READ", reader) + mdecl + TAINT_DECL.get(taint, "")
    body = []
    share = list(share)
    if share and share[0].startswith("__ALLOC2 "):
        body.append("o, _ := " + share.pop(0)[len("__ALLOC2 "):])
    elif share and share[0].startswith("__ALLOC "):
        body.append("o := " + share.pop(0)[len("__ALLOC "):])
    elif share and share[0] == "__ALLOCE":
        share.pop(0)
        body += ["e := &E@{T@: *mk@()}", "o := &e.T@"]
    else:
        body.append("o := mk@()")
    body += ["rdy, done := make(chan bool), make(chan bool)"]
    if tgt == "self":
        body.append("t := o")
    else:
        body.append("t := mk@()")
        if tgt == "child":
            body.append("o.p = t")
    body += pre
    body += share
    if tgt == "latechild":
        body.append("o.p = t")
    body += tsteps
    body += ["rdy <- true", "<-done"]
    if entry == "go":
        body.append("fin <- true")
    return _sub(decl, i), [_sub(l, i) for l in body]


C13_PRELUDE = """
var hits = map[int]bool{}
var hmu sync.Mutex

//go:noinline
func mark(i int) string { return fmt.Sprintf("MARK%d;", i) }

//go:noinline
func hit(i int, s string) {
	if strings.Contains(s, fmt.Sprintf("MARK%d;", i)) {
		hmu.Lock()
		hits[i] = true
		hmu.Unlock()
	}
}
"""


def program_c13(scens):
    src, info = program(scens, scenario_c13, extra_imports=("fmt", "strings", "sync", "sort"))
    # insert prelude after keep and a result printer at the end of main
    src = src.replace("func keep(r int) { K += r }\n", "func keep(r int) { K += r }\n" + C13_PRELUDE, 1)
    tail = ("\tks := []int{}\n\tfor k := range hits {\n\t\tks = append(ks, k)\n\t}\n\tsort.Ints(ks)\n"
            "\tfor _, k := range ks {\n\t\tfmt.Println(\"HIT\", k)\n\t}\n}\n")
    assert src.endswith("}\n")
    src = src[:-2] + tail
    # recompute line roles because the prelude shifted lines
    import re
    cur = None
    for i in info:
        info[i]["lines"] = {}
    for ln, l in enumerate(src.split("\n"), 1):
        m = re.match(r"type T(\d+) struct", l)
        if m:
            cur = int(m.group(1))
        if l.startswith("func main()"):
            cur = None
        if cur is not None:
            mm = re.search(r"// (ACC|G2|GG|GACC|SRC|SINK|TAINT)\b", l)
            info[cur]["lines"][ln] = mm.group(1) if mm else "-"
    return src, info


# ----------------------------------------------------------------------------------------------- calculus programs (tie)
# Random programs of the calculus Lang/Conc.v, rendered both as model input (text for build/bin/c14model) and as Go source
# (one instruction per line, every variable assigned once so that Go SSA registers = calculus registers, no phis).
def _gen_body(rnd, st, depth, budget):
    """st: dict(vars=list of visible regs, next=[counter], arities=list, nglob). Returns list of items."""
    items = []
    n = 2 + rnd(4)
    for _ in range(n):
        if budget[0] <= 0:
            break
        budget[0] -= 1
        k = rnd(100)
        vs = st["vars"]
        if not vs or k < 18:
            v = st["next"][0]
            st["next"][0] += 1
            items.append(("i", ("alloc", v)))
            vs.append(v)
        elif k < 26:
            v = st["next"][0]
            st["next"][0] += 1
            items.append(("i", ("copy", v, vs[rnd(len(vs))])))
            vs.append(v)
        elif k < 44:
            v = st["next"][0]
            st["next"][0] += 1
            items.append(("i", ("load", v, vs[rnd(len(vs))], rnd(2))))
            vs.append(v)
        elif k < 64:
            items.append(("i", ("store", vs[rnd(len(vs))], rnd(2), vs[rnd(len(vs))])))
        elif k < 71:
            v = st["next"][0]
            st["next"][0] += 1
            items.append(("i", ("gload", v, rnd(st["nglob"]))))
            vs.append(v)
        elif k < 77:
            items.append(("i", ("gstore", rnd(st["nglob"]), vs[rnd(len(vs))])))
        elif k < 85 and len(st["arities"]) > 1:
            fn = 1 + rnd(len(st["arities"]) - 1)
            items.append(("i", ("go", fn, [vs[rnd(len(vs))] for _ in range(st["arities"][fn])])))
        elif k < 93 and depth < 2:
            saved = list(vs)
            b1 = _gen_body(rnd, st, depth + 1, budget)
            st["vars"] = list(saved)
            b2 = _gen_body(rnd, st, depth + 1, budget)
            st["vars"] = saved
            vs = st["vars"]
            items.append(("if", b1, b2))
        elif depth < 2:
            saved = list(vs)
            b = _gen_body(rnd, st, depth + 1, budget)
            st["vars"] = saved
            vs = st["vars"]
            items.append(("for", b))
    return items


def _size(body):
    n = 0
    for it in body:
        if it[0] == "i":
            n += 1
        elif it[0] == "if":
            n += 1 + _size(it[1]) + _size(it[2])
        else:
            n += 1 + _size(it[1])
    return n


def _layout(body, start, cont, code, golines, ind, names):
    """appends (instr tuple, succs) to code (indexed by pc) and (pc or None, go text, indent) to golines"""
    pc = start
    for idx, it in enumerate(body):
        rest = body[idx + 1:]
        after = pc + (1 if it[0] == "i" else (1 + _size(it[1]) + _size(it[2]) if it[0] == "if" else 1 + _size(it[1])))
        nxt = after if rest else cont
        # where control goes after this item: the next item if any, else the continuation
        if it[0] == "i":
            code[pc] = (it[1], [] if nxt is None else [nxt])
            golines.append((pc, _go_instr(it[1], names), ind))
        elif it[0] == "if":
            s1, s2 = _size(it[1]), _size(it[2])
            t1 = pc + 1 if s1 else nxt
            t2 = pc + 1 + s1 if s2 else nxt
            code[pc] = (("nop",), [x for x in (t1, t2) if x is not None])
            golines.append((pc, "if cond() {", ind))
            _layout(it[1], pc + 1, nxt, code, golines, ind + 1, names)
            golines.append((None, "} else {", ind))
            _layout(it[2], pc + 1 + s1, nxt, code, golines, ind + 1, names)
            golines.append((None, "}", ind))
        else:
            s1 = _size(it[1])
            body_start = pc + 1 if s1 else pc
            code[pc] = (("nop",), [x for x in (body_start, nxt) if x is not None])
            golines.append((pc, "for cond() {", ind))
            _layout(it[1], pc + 1, pc, code, golines, ind + 1, names)
            golines.append((None, "}", ind))
        pc = after


def _go_instr(i, names):
    v = lambda r: "v%d" % r
    if i[0] == "alloc":
        return "%s := &N{}; _ = %s" % (v(i[1]), v(i[1]))
    if i[0] == "copy":
        return "%s := %s; _ = %s" % (v(i[1]), v(i[2]), v(i[1]))
    if i[0] == "load":
        return "%s := %s.f%d; _ = %s" % (v(i[1]), v(i[2]), i[3], v(i[1]))
    if i[0] == "store":
        return "%s.f%d = %s" % (v(i[1]), i[2], v(i[3]))
    if i[0] == "gload":
        return "%s := %s; _ = %s" % (v(i[1]), names["glob"](i[2]), v(i[1]))
    if i[0] == "gstore":
        return "%s = %s" % (names["glob"](i[1]), v(i[2]))
    if i[0] == "go":
        return "go %s(%s)" % (names["func"](i[1]), ", ".join(v(a) for a in i[2]))
    return "// nop"


def _calc_text(i):
    if i[0] == "go":
        return "go %d %s" % (i[1], " ".join(str(a) for a in i[2]))
    return " ".join(str(x) for x in i)


def calc_program(rnd, k, nfun=3, nglob=2, size=14):
    """one random calculus program number k -> (model text, go declarations text lines with (fn, pc) markers, kinds)"""
    arities = [0] + [1 + rnd(2) for _ in range(nfun - 1)]
    names = {"glob": lambda g: "G%d_%d" % (k, g), "func": lambda f: "p%d_f%d" % (k, f)}
    model = ["PROG p%d" % k]
    go = []          # (marker or None, text)
    kinds = {}
    for fn in range(nfun):
        st = {"vars": list(range(arities[fn])), "next": [arities[fn]], "arities": arities, "nglob": nglob}
        body = [("i", ("alloc", st["next"][0]))]
        st["vars"].append(st["next"][0])
        st["next"][0] += 1
        body += _gen_body(rnd, st, 0, [size])
        if fn == 0:
            for callee in range(1, nfun):
                vs = st["vars"]
                body.append(("i", ("go", callee, [vs[rnd(len(vs))] for _ in range(arities[callee])])))
        n = _size(body)
        code = [None] * n
        golines = []
        _layout(body, 0, None, code, golines, 1, names)
        model.append("FUNC %d" % arities[fn])
        for pc, (ins, succs) in enumerate(code):
            model.append("I %s | %s" % (_calc_text(ins), " ".join(str(s) for s in succs)))
            kinds[(fn, pc)] = ins[0]
        go.append((None, "func %s(%s) {" % (names["func"](fn), ", ".join("v%d *N" % i for i in range(arities[fn])))))
        for pc, text, ind in golines:
            go.append(((fn, pc) if pc is not None else None, "\t" * ind + text))
        go.append((None, "}"))
        go.append((None, ""))
    model.append("END")
    decl = ["var %s *N" % names["glob"](g) for g in range(nglob)]
    return "\n".join(model) + "\n", decl, go, kinds


def tie_program(seed, nprog):
    """-> (go source, model input, line map {line: (prog, fn, pc, kind)})"""
    import vlib
    rnd = vlib.lcg(seed * 31337 + 5)
    out = ["package main", "", "type N struct{ f0, f1 *N }", "", "var C int", "", "//go:noinline", "func cond() bool { C++; return C%3 == 0 }", ""]
    model = []
    linemap = {}
    for k in range(nprog):
        mtext, decl, go, kinds = calc_program(rnd, k)
        model.append(mtext)
        out += decl
        out.append("")
        for marker, text in go:
            out.append(text)
            if marker is not None:
                linemap[len(out)] = (k, marker[0], marker[1], kinds[marker])
    out.append("func main() {")
    for k in range(nprog):
        out.append("\tgo p%d_f0()" % k)
    out.append("}")
    return "\n".join(out) + "\n", "".join(model), linemap
