"""travlib - the traversal kernel tie, shared by the checks C01, C02, C05, C06, C07.

What is tied:   coq/theories/Model/Visit.v  (model of taint Visitor.Visit + addNext, extracted to build/bin/travmodel)
        with    analysis/taint/dataflow_visitor.go of the CURRENT /repo tree, observed through harness/cmd/travdump
                (real pipeline, eager mode, escape analysis off; hook analysis/taint/verif_trav.go gives the recorded
                visitor-node tree).

    import travlib
    travlib.build()                                   # harness + Model/Visit.vo + extracted model
    res = travlib.run_tie(chk, programs, configs)     # programs: testdata names or absolute dirs; configs: list of dicts
    travlib.report(chk, res, alarm="both")            # turns mismatches into violations (see below)

A config is a dict of travdump options: {"fs": "cfg"|"0"|"1", "maxalarms": k, "maxdepth": d, "ignore_ns": "cfg"|"0"|"1",
"seeds": K}.  For every program x config the real tool is run once (travdump: pass 1 = what taint.Analyze does, graph dump,
pass 2 = recorded traversal of every entry point on the dumped graph, `STABLE 1` certifies the graph did not change), then
the extracted model is run on the dumped graph:

  * step tie (exact, order-free): every expansion the implementation performed (a recorded visitor node with ALL its
    fields and the children it enqueued) is compared with the model's expansion of the same visitor node
    ([step_cands]: stop conditions, the switch over node kinds, validator drop, access paths, depth, lasso);
    the seen-set bookkeeping is replayed in queue order.
  * run tie: the model's whole BFS under K order oracles (identity, reversed, random permutations of every Go map
    iteration) -> per source: sink-hit set (sink node, call trace) must EQUAL the implementation's; visited-key sets are
    compared and the differences counted (they are equal on the whole testdata corpus).

Mismatch kinds (res["mismatches"], each a dict with "kind", "prog", "cfg", "entry", "detail"):
  model-sink-not-impl   the model reaches a sink the implementation does not report      (alarm direction of C01)
  impl-sink-not-model   the implementation reports a sink the model does not reach
  step                  an expansion of the implementation is not the model's expansion
  crash                 panic in the implementation vs Crash outcome in the model disagree
  alarm-count           (max-alarms runs) number of sink visits recorded before the stop differs
  outoffuel             the model ran out of fuel (200000 iterations)
  impl-timeout          the real traversal (travdump) does not return within the time limit (900 s; 3-10 s is normal)
  unstable / xchk / dump-error     the protocol's own sanity checks failed
"""
import collections
import concurrent.futures
import os
import shutil

import vlib

TESTDATA = "analysis/taint/testdata"
QUICK = ["basic", "closures", "globals", "interfaces", "tuples", "sanitizers", "validators", "parameters"]
# directories of analysis/taint/testdata that are not single analysable programs
SKIP = {"src", "escape-integration", "sample-escape", "playground"}
FUEL = 200000


def all_programs():
    root = os.path.join(vlib.REPO, TESTDATA)
    out = []
    for d in sorted(os.listdir(root)):
        p = os.path.join(root, d)
        if d in SKIP or not os.path.isdir(p) or not os.path.exists(os.path.join(p, "main.go")):
            continue
        if os.path.exists(os.path.join(p, "config.yaml")) or os.path.exists(os.path.join(p, "config.json")):
            out.append(d)
    return out


def prog_dir(p):
    return p if os.path.isabs(p) else os.path.join(vlib.REPO, TESTDATA, p)


def build(model=True):
    """harness command, compiled Coq model, extracted OCaml model.  Rebuilds from /repo's current working tree."""
    vlib.build_harness(["travdump"])
    if model:
        ok, log = vlib.build_coq(["theories/Model/Visit.vo"])
        if not ok["theories/Model/Visit.vo"]:
            raise vlib.BuildError("Model/Visit.v does not compile", log)
        vlib.build_model("trav")
    return os.path.join(vlib.BIN, "travdump"), os.path.join(vlib.BIN, "travmodel")


def cfg_tag(cfg):
    return "-".join("%s%s" % (k, cfg[k]) for k in sorted(cfg) if k != "seeds") or "default"


def dump_cmd(cfg, out, dirs):
    cmd = [os.path.join(vlib.BIN, "travdump"), "-o", out]
    if "fs" in cfg:
        cmd += ["-fs", str(cfg["fs"])]
    if "ignore_ns" in cfg:
        cmd += ["-ignore-nonsummarized", str(cfg["ignore_ns"])]
    if cfg.get("maxalarms"):
        cmd += ["-maxalarms", str(cfg["maxalarms"])]
    if cfg.get("maxdepth"):
        cmd += ["-maxdepth", str(cfg["maxdepth"])]
    if cfg.get("ondemand"):
        cmd += ["-ondemand", str(cfg["ondemand"])]
    return cmd + dirs


def dump_and_model(prog, cfg, work, seeds, mode="both", timeout=900):
    """one program x config: travdump then travmodel.  Returns (dumpfile, modelfile, error or None)."""
    name = os.path.basename(prog.rstrip("/")) + "." + cfg_tag(cfg)
    dump = os.path.join(work, name + ".dump")
    mod = os.path.join(work, name + ".model")
    rc, out = vlib.sh(dump_cmd(cfg, dump, [prog_dir(prog)]), timeout=timeout)
    if rc == 124:
        return dump, mod, "TIMEOUT: travdump (the real pipeline + traversal of every entry point) did not return within %d s" % timeout
    if rc != 0:
        return dump, mod, "travdump failed (rc %d): %s" % (rc, out[-1500:])
    for attempt in range(3):
        try:
            rc, mout, merr = vlib.sh2([os.path.join(vlib.BIN, "travmodel"), "-seeds", str(seeds), "-fuel", str(FUEL), "-mode", mode, dump],
                                      timeout=timeout)
            break
        except OSError:            # the binary is being replaced by a concurrent build of another check
            if attempt == 2:
                raise
            import time
            time.sleep(5)
    open(mod, "w").write(mout)
    if rc != 0:
        return dump, mod, "travmodel failed (rc %d): %s" % (rc, merr[-1500:])
    if "\nSTEPBAD " in mout and mode != "run":
        # diagnosis only: does the implementation behave like the ORIGINALLY PINNED addNext (access paths as a list with
        # duplicates, before fix d51dcca)?  The mismatches of the default (current) model are reported in any case.
        rc2, mout2, _ = vlib.sh2([os.path.join(vlib.BIN, "travmodel"), "-oldaps", "-seeds", "1", "-fuel", str(FUEL), "-mode", "step", dump],
                                 timeout=timeout)
        if rc2 == 0 and "\nSTEPBAD " not in mout2:
            open(mod, "a").write("VARIANT unrepaired\n")
    return dump, mod, None


def parse_dump(path):
    """-> dict: opts, stable, xchk, err, warns, entries {(p,e): dict(node, trace, alarms, hits=set, nvis, panic, vkeys=set)},
    nodes (count), edges (count), kinds Counter"""
    d = {"opts": {}, "stable": None, "xchk": {}, "err": None, "warns": [], "entries": {}, "nodes": 0, "edges": 0,
         "kinds": collections.Counter(), "flows": set(), "flows1": set(), "nontrivial_relpath": 0, "cond_edges": 0, "problems": 0}
    for l in open(path, errors="replace"):
        p = l.split()
        if not p:
            continue
        t = p[0]
        if t == "N":
            d["nodes"] += 1
            d["kinds"][p[2]] += 1
        elif t == "E":
            d["edges"] += 1
            if not (p[5] == "0" or (p[5] == "1" and p[6] == "1")):
                d["nontrivial_relpath"] += 1
            if p[7] != "-":
                d["cond_edges"] += 1
        elif t == "OPT":
            d["opts"][p[1]] = int(p[2])
        elif t == "PB":
            d["problems"] += 1
        elif t == "ENT":
            d["entries"][(p[1], p[2])] = {"node": p[3], "trace": p[4], "alarms": p[5] if len(p) > 5 else "", "hits": set(), "nvis": 0, "nhit": 0,
                                          "panic": None, "vkinds": collections.Counter(), "maxtrace": 0, "maxctrace": 0, "closure_tracing": 0}
        elif t == "V":
            e = d["entries"][(p[1], p[2])]
            e["nvis"] += 1
            tl = 0 if p[9] == "T:-" else p[9].count(",") + 1
            cl = 0 if p[10] == "C:-" else p[10].count(",") + 1
            e["maxtrace"] = max(e["maxtrace"], tl)
            e["maxctrace"] = max(e["maxctrace"], cl)
            if p[6] == "2":
                e["closure_tracing"] += 1
        elif t == "HIT":
            d["entries"][(p[1], p[2])]["hits"].add((p[3], p[4]))
            d["entries"][(p[1], p[2])]["nhit"] += 1
        elif t == "PANIC":
            d["entries"][(p[1], p[2])]["panic"] = l.split(None, 3)[3].strip()
        elif t == "FLOW":
            d["flows"].add(l.split(None, 1)[1].strip())
        elif t == "FLOW1":
            d["flows1"].add(l.split(None, 1)[1].strip())
        elif t == "STABLE":
            d["stable"] = p[1]
        elif t == "XCHK":
            d["xchk"][p[1]] = p[2]
        elif t == "ERR":
            d["err"] = l.strip()
        elif t == "W":
            d["warns"].append(l.strip())
    return d


def parse_model(path):
    """-> runs {(p,e,seed): dict(outcome, visited, hits=set, only_model, only_impl)}, steps {(p,e): (nodes, ok, bad)}, stepbad [lines]"""
    runs = {}
    steps = {}
    stepbad = []
    for l in open(path, errors="replace"):
        p = l.split()
        if not p:
            continue
        t = p[0]
        if t == "MRES":
            runs[(p[1], p[2], p[3])] = {"outcome": p[4], "visited": int(p[5].split("=")[1]), "hits": set(), "only_model": 0, "only_impl": 0,
                                        "samples": [], "sinkvisits": int(p[7].split("=")[1]) if len(p) > 7 else -1}
        elif t == "MHIT":
            runs[(p[1], p[2], p[3])]["hits"].add((p[4], p[5]))
        elif t == "MKD":
            r = runs[(p[1], p[2], p[3])]
            r["only_model"] = int(p[6].split("=")[1])
            r["only_impl"] = int(p[7].split("=")[1])
            r["canon_only_model"] = int(p[8].split("=")[1]) if len(p) > 8 else r["only_model"]
            r["canon_only_impl"] = int(p[9].split("=")[1]) if len(p) > 9 else r["only_impl"]
        elif t == "MKS":
            runs[(p[1], p[2], p[3])]["samples"].append(" ".join(p[4:]))
        elif t == "STEP":
            steps[(p[1], p[2])] = tuple(int(x.split("=")[1]) for x in p[3:7])
        elif t == "STEPBAD":
            stepbad.append(l.strip())
        elif t == "MERR":
            stepbad.append(l.strip())
        elif t == "VARIANT":
            steps["variant"] = p[1]
    return runs, steps, stepbad


def compare(prog, cfg, dumpfile, modelfile):
    """-> (stats dict, mismatches list)"""
    mm = []
    tag = cfg_tag(cfg)

    def add(kind, entry, detail):
        mm.append({"kind": kind, "prog": prog, "cfg": tag, "cfgd": dict(cfg), "entry": entry, "detail": detail, "dump": dumpfile, "model": modelfile})

    d = parse_dump(dumpfile)
    runs, steps, stepbad = parse_model(modelfile)
    st = collections.Counter()
    variant = steps.pop("variant", None)
    if variant == "unrepaired":
        st["programs_matching_unrepaired_addNext"] = 1
    st["programs"] = 1
    st["graph_nodes"] = d["nodes"]
    st["graph_edges"] = d["edges"]
    st["edges_nontrivial_relpath"] = d["nontrivial_relpath"]
    st["edges_with_conditions"] = d["cond_edges"]
    st["entries"] = len(d["entries"])
    for k, v in d["kinds"].items():
        st["kind_" + k] = v
    if d["err"]:
        add("dump-error", "-", d["err"])
        return st, mm
    if d["stable"] != "1":
        add("unstable", "-", "the graph changed during the recorded pass (STABLE %s)" % d["stable"])
    for k, v in d["xchk"].items():
        if v != "1":
            add("xchk", "-", "travdump self-check %s failed" % k)
    if d["flows"] != d["flows1"] and not cfg.get("maxalarms"):
        st["pass1_pass2_flow_diff"] += 1
    limited = bool(cfg.get("maxalarms"))
    for (p, e), ent in sorted(d["entries"].items()):
        st["impl_visited_nodes"] += ent["nvis"]
        st["impl_sink_hits"] += len(ent["hits"])
        if ent["nvis"] >= 3:
            st["entries_nontrivial"] += 1
        if ent["maxtrace"] >= 2:
            st["entries_call_depth_ge2"] += 1
        if ent["maxctrace"] >= 1 or ent["closure_tracing"]:
            st["entries_with_closure_trace"] += 1
        if ent["hits"]:
            st["entries_with_hits"] += 1
        if (p, e) in steps:
            n, ok, bad = steps[(p, e)][:3]
            st["steps_checked"] += n
            st["steps_ok"] += ok
            st["steps_children_same_paths_other_order"] += (steps[(p, e)][3] if len(steps[(p, e)]) > 3 else 0)
            if bad:
                det = [l for l in stepbad if l.startswith("STEPBAD %s %s " % (p, e))][:3]
                add("step", "%s.%s" % (p, e), "%d of %d recorded expansions differ from the model's%s, e.g. %s"
                    % (bad, n, " (the implementation matches the addNext of BEFORE fix d51dcca: access paths no longer canonical)"
                       if variant == "unrepaired" else "", " ;; ".join(det)[:1500]))
        for (p2, e2, seed), r in sorted(runs.items()):
            if (p2, e2) != (p, e):
                continue
            st["model_runs"] += 1
            if r["outcome"] == "outoffuel":
                add("outoffuel", "%s.%s" % (p, e), "model out of fuel (seed %s, %d iterations)" % (seed, FUEL))
                continue
            mcrash = r["outcome"].startswith("crash")
            if mcrash != bool(ent["panic"]):
                add("crash", "%s.%s" % (p, e), "model outcome %s, implementation %s (seed %s)" % (r["outcome"], "panic: " + ent["panic"] if ent["panic"] else "no panic", seed))
                continue
            if mcrash:
                st["crash_agree"] += 1
                continue
            if limited:
                # which sink visits are kept depends on the iteration order, their NUMBER does not: the counter counts every
                # sink visit of this Visit until it reaches max-alarms
                st["limited_runs"] += 1
                if r["sinkvisits"] != ent["nhit"]:
                    add("alarm-count", "%s.%s" % (p, e), "seed %s: max-alarms=%s, counter at start %s: the model records %d sink visits before stopping "
                        "(outcome %s), the implementation %d" % (seed, cfg.get("maxalarms"), ent["alarms"], r["sinkvisits"], r["outcome"], ent["nhit"]))
                else:
                    st["limited_runs_count_equal"] += 1
                continue
            extra = r["hits"] - ent["hits"]
            missing = ent["hits"] - r["hits"]
            if extra:
                add("model-sink-not-impl", "%s.%s" % (p, e), "seed %s: model reaches sink(s) %s from entry node %s %s; implementation hits %s"
                    % (seed, sorted(extra)[:4], ent["node"], ent["trace"], sorted(ent["hits"])[:6]))
            if missing:
                add("impl-sink-not-model", "%s.%s" % (p, e), "seed %s: implementation reports sink(s) %s from entry node %s %s; model hits %s"
                    % (seed, sorted(missing)[:4], ent["node"], ent["trace"], sorted(r["hits"])[:6]))
            if not extra and not missing:
                st["runs_hits_equal"] += 1
            if r["only_model"] or r["only_impl"]:
                st["runs_keyset_differs_in_path_order_only"] += 1
            else:
                st["runs_keyset_equal"] += 1
            if r.get("canon_only_model") or r.get("canon_only_impl"):
                st["runs_canon_keyset_differs"] += 1
                st["keys_only_model"] += r["canon_only_model"]
                st["keys_only_impl"] += r["canon_only_impl"]
                if len(mm) < 50:
                    mm.append({"kind": "keyset", "prog": prog, "cfg": tag, "cfgd": dict(cfg), "entry": "%s.%s" % (p, e), "dump": dumpfile, "model": modelfile,
                               "detail": "seed %s: visited keys (access paths as sets) only in model %d, only in implementation %d, e.g. %s"
                                         % (seed, r["canon_only_model"], r["canon_only_impl"], "; ".join(r["samples"][:3]))})
            else:
                st["runs_canon_keyset_equal"] += 1
    if stepbad and not steps:
        add("dump-error", "-", stepbad[0])
    return st, mm


def run_tie(chk, programs, configs, seeds=None, work=None, jobs=None, mode="both"):
    """Runs the tie for programs x configs.  Returns dict(stats=Counter, mismatches=[...], cases=[(prog,cfg,dump,model)], work=dir).
    seeds: number of order oracles per entry (default 3 quick / 6 thorough; a config may override with "seeds")."""
    if seeds is None:
        seeds = 3 if chk.tier == "quick" else 6
    work = work or os.path.join(vlib.BUILD, "trav", chk.prop)
    shutil.rmtree(work, ignore_errors=True)
    os.makedirs(work)
    jobs = jobs or max(2, min(6, vlib.NCPU // 3))
    stats = collections.Counter()
    mism = []
    cases = []
    todo = [(p, c) for c in configs for p in programs]
    with concurrent.futures.ThreadPoolExecutor(max_workers=jobs) as ex:
        futs = {ex.submit(dump_and_model, p, c, work, c.get("seeds", seeds), mode): (p, c) for p, c in todo}
        for f in concurrent.futures.as_completed(futs):
            p, c = futs[f]
            dump, mod, err = f.result()
            cases.append((p, cfg_tag(c), dump, mod))
            if err:
                mism.append({"kind": "impl-timeout" if err.startswith("TIMEOUT:") else "dump-error", "prog": p, "cfg": cfg_tag(c), "cfgd": dict(c), "entry": "-", "detail": err, "dump": dump, "model": mod})
                continue
            st, mm = compare(p, c, dump, mod)
            stats.update(st)
            mism.extend(mm)
    mism.sort(key=lambda m: (m["kind"], m["prog"], m["cfg"], m["entry"]))
    return {"stats": stats, "mismatches": mism, "cases": sorted(cases), "work": work, "seeds": seeds}


TIE_KINDS = ("model-sink-not-impl", "impl-sink-not-model", "step", "crash", "alarm-count", "impl-timeout", "outoffuel", "unstable", "xchk", "dump-error")


def write_replay(chk, key, m, extra=""):
    d = chk.replay_dir(key)
    for f in (m.get("dump"), m.get("model")):
        if f and os.path.exists(f):
            shutil.copy(f, d)
    if m["kind"] == "impl-timeout":
        for f in ("main.go", "config.yaml", "config.json"):
            if os.path.exists(os.path.join(prog_dir(m["prog"]), f)):
                shutil.copy(os.path.join(prog_dir(m["prog"]), f), d)
    with open(os.path.join(d, "replay.txt"), "w") as f:
        f.write("%s\nprogram: %s   config: %s   entry (problem.entry): %s\n%s\n\n%s\n" % (key, prog_dir(m["prog"]), m["cfg"], m["entry"], m["detail"], extra))
        f.write("re-run:\n  cd /verif/harness && go build -tags verif -o /verif/build/bin/ ./cmd/travdump\n"
                "  %s\n  /verif/build/bin/travmodel -seeds 4 -entry %s x.dump\n"
                "(V/HIT lines of x.dump = implementation, MHIT/MKD/STEP lines = extracted Coq model Model/Visit.v)\n"
                % (" ".join(dump_cmd(m.get("cfgd", {}), "x.dump", [prog_dir(m["prog"])])), m["entry"]))
    return d


def report(chk, res, kinds=TIE_KINDS, limit=6):
    """Default reporting: every mismatch of the given kinds breaks the tie -> violation 'tie-broken:<kind>:<prog>' with the dump
    and the model output as replay.  Returns the number of violations raised (known findings not counted)."""
    n = 0
    seen = set()
    for m in res["mismatches"]:
        if m["kind"] not in kinds:
            continue
        key = "trav-tie:%s:%s" % (m["kind"], os.path.basename(m["prog"].rstrip("/")))
        if key in seen or len(seen) >= limit:
            continue
        seen.add(key)
        d = write_replay(chk, key, m)
        if chk.violation(key, "traversal model / implementation differ (%s) on %s [%s] entry %s: %s"
                         % (m["kind"], m["prog"], m["cfg"], m["entry"], m["detail"][:400]), d,
                         no_input=m["kind"] in ("unstable", "xchk", "dump-error", "outoffuel")):
            n += 1
    return n
