"""C13 - with escape analysis on, concurrency cannot hide a flow silently.

proof      : coq/theories/Properties/C13.v (escape_or_flow_partial over Lang/Conc.v + Model/Esc.v; C01 as explicit hypothesis)
search T-gt: generated concurrent programs (sharing mechanism x taint step x target x entry) with sources/sinks are
             (a) executed natively: the marker produced by source<i> reaches sink<i> in another goroutine (race free, ordered
                 by a channel, so the observation is deterministic), and
             (b) analysed in-process by the REAL taint analysis with use-escape-analysis: true (harness c14dump -taint).
             A natively observed flow with neither a taint flow source<i> -> sink<i> nor an escape reported for source<i>
             is a violation (replay = program + config + expected/observed).
"""
import concurrent.futures
import os
import re
import shutil

import vlib
from props import c14gen


def choose_scenarios(seed, tier):
    # afterfunc (closure handed to time.AfterFunc) makes taint.Analyze panic on the pinned tree (nil summary in
    # dataflow.BuildSummary reached from a BoundLabelNode): a crash, not a silent run; reported to the C07 builder
    mechs = sorted(m for m in c14gen.MECHS if m != "afterfunc")
    taints = sorted(c14gen.TAINTS)
    rnd = vlib.lcg(seed * 104729 + 7)
    specials = [("special", n, "-", e) for n in sorted(c14gen.load_specials(c14gen.SPECIAL13_DIR)) for e in ("call", "go")]
    if tier != "quick":
        allsc = [(m, t, "self", e) for e in ("call", "go") for m in mechs for t in taints]
        off = rnd(len(taints))
        for k, m in enumerate(mechs):
            for j in range(4):
                allsc.append((m, taints[(off + k * 3 + j * 5) % len(taints)], ("child", "latechild")[j % 2], ("call", "go")[(k + j) % 2]))
        allsc = specials + allsc
        # the traversal cost grows much faster than linearly with the number of sources in one program (a 330-scenario
        # program needs > 15 min, a 180-scenario one about 1 min): small chunks
        n = 150
        return [allsc[i:i + n] for i in range(0, len(allsc), n)]
    sel = list(specials)
    seen = set(specials)

    def add(*sc):
        if sc not in seen:
            seen.add(sc)
            sel.append(sc)
    for t in taints:
        add("goarg", t, "self", "call")
        add("global", t, "self", "go")
    for m in mechs:
        add(m, "field", "self", "call")
    off = rnd(len(taints))
    for k, m in enumerate(mechs):
        for j in range(2):
            add(m, taints[(off + k * 3 + j * 5) % len(taints)], c14gen.TARGETS[(k + j + off) % 3], ("call", "go")[(k + j + off // 3) % 2])
    return [sel]


def write_program(d, name, src):
    os.makedirs(d, exist_ok=True)
    open(os.path.join(d, "go.mod"), "w").write("module %s\n\ngo 1.22\n" % name)
    open(os.path.join(d, "main.go"), "w").write(src)
    open(os.path.join(d, "escape-config.json"), "w").write('{ "functions": {}, "pkg-filter": "%s" }\n' % name)
    open(os.path.join(d, "config.yaml"), "w").write(
        'taint-tracking-problems:\n  -\n    sources:\n      - package: "%s"\n        method: "^source[0-9]+$"\n'
        '    sinks:\n      - package: "%s"\n        method: "^sink[0-9]+$"\n'
        'options:\n    use-escape-analysis: true\n    escape-config: "escape-config.json"\n    log-level: 1\n' % (name, name))


BUILTIN_TAINTS = ("copy", "copybytes", "append")
# taint steps whose silence does not depend on the sharing mechanism: keyed by the taint step first
# (empty since fixes 913f0a4 / 1d98c84: builtin taint steps and idcall are reported now; a regression shows up under a mechanism key)
TAINT_FIRST = ()


def key_of(desc):
    """taint steps through builtin calls are silent whatever the sharing mechanism: keyed by the taint step first"""
    if desc[0] == "special":
        return "silent-flow:mech=special-%s:%s" % (desc[1], desc[3])
    if desc[1] in TAINT_FIRST:
        return "silent-flow:taint=%s:mech=%s:tgt=%s:%s" % (desc[1], desc[0], desc[2], desc[3])
    return "silent-flow:mech=%s:taint=%s:tgt=%s:%s" % (desc[0], desc[1], desc[2], desc[3])


def run(chk):
    tier = chk.tier
    failed = []
    if os.path.exists(os.path.join(vlib.COQ, "theories/Properties/C13.v")):
        failed = chk.prove("theories/Properties/C13.v")
    vlib.build_harness(["c14dump"])
    exe = os.path.join(vlib.BIN, "c14dump")
    work = os.path.join(vlib.BUILD, "c13")
    shutil.rmtree(work, ignore_errors=True)
    os.makedirs(work)
    stats = {"scenarios": 0, "native_flows": 0, "reported_taint_flow": 0, "reported_escape_only": 0, "silent": 0,
             "not_observed_natively": 0, "analysis_errors": 0, "analysis_error_names_scenario": 0, "flows_total": 0, "escapes_total": 0}
    distinct = set()
    found_concrete = False

    for ci, scens in enumerate(choose_scenarios(chk.seed, tier)):
        name = "c13g%d" % ci
        d = os.path.join(work, name)
        src, info = c14gen.program_c13(scens)
        write_program(d, name, src)
        stats["scenarios"] += len(scens)

        def native():
            rc, out, err = vlib.sh2(["go", "run", "."], cwd=d, timeout=1500)
            if rc != 0:
                raise vlib.BuildError("generated C13 program does not run", err[-3000:])
            return set(int(x) for x in re.findall(r"^HIT (\d+)$", out, flags=re.M))

        with concurrent.futures.ThreadPoolExecutor(2) as ex:
            fut = ex.submit(native)
            rc, out = vlib.sh([exe, "-taint", "-noloc", "-o", os.path.join(d, "taint.txt"), d], timeout=2400)
            hits = fut.result()
        txt = open(os.path.join(d, "taint.txt")).read()
        if rc != 0 and "FLOW" not in txt and "ESC" not in txt:
            raise vlib.BuildError("taint analysis failed on generated program", out + txt[-3000:])
        flows = set()
        escs = {}
        errs = set()
        if "PANIC" in txt:
            d2 = chk.replay_dir("taint-analysis-panic")
            for f in ("main.go", "go.mod", "config.yaml", "escape-config.json", "taint.txt"):
                shutil.copy(os.path.join(d, f), d2)
            open(os.path.join(d2, "replay.txt"), "w").write("taint.Analyze panicked on this program:\n%s\nre-run: %s -taint -noloc %s\n" %
                                                           ([l[:600] for l in txt.splitlines() if l.startswith("PANIC")][:1], exe, d2))
            if chk.violation("taint-analysis-panic", "taint.Analyze (use-escape-analysis) panics on a generated program", d2):
                found_concrete = True
            continue
        for l in txt.splitlines():
            p = l.split(" ")
            if p[0] == "FLOW":
                ms, mk = re.match(r"source(\d+)$", p[1]), re.match(r"sink(\d+)$", p[3])
                if ms and mk:
                    flows.add((int(ms.group(1)), int(mk.group(1))))
            elif p[0] == "ESC":
                ms = re.match(r"source(\d+)$", p[1])
                if ms:
                    escs.setdefault(int(ms.group(1)), []).append((int(p[3]), p[4] if len(p) > 4 else ""))
            elif p[0] in ("E", "FAIL"):
                # analysis errors (e.g. "missing escape for <f> in context"): Analyze returns an error and the CLI exits
                # with failure; attribute them to scenarios through the function names they mention
                for part in l.split(" | "):
                    stats["analysis_errors"] += 1
                    for mm in re.finditer(r"%s\.\(?\*?[A-Za-z_]*?(\d+)\b" % name, part):
                        errs.add(int(mm.group(1)))
                if len(chk.notes) < 3:
                    chk.notes.append("%s: %s" % (name, l[:300]))
        stats["flows_total"] += len(flows)
        stats["escapes_total"] += sum(len(v) for v in escs.values())
        for i, inf in info.items():
            desc = inf["desc"]
            if i not in hits:
                stats["not_observed_natively"] += 1
                continue
            stats["native_flows"] += 1
            if (i, i) in flows:
                stats["reported_taint_flow"] += 1
                distinct.add((desc[0], desc[1], "flow"))
            elif i in escs:
                stats["reported_escape_only"] += 1
                distinct.add((desc[0], desc[1], "escape"))
            elif i in errs:
                stats["analysis_error_names_scenario"] += 1
                distinct.add((desc[0], desc[1], "error"))
            else:
                stats["silent"] += 1
                found_concrete = True
                key = key_of(desc)
                rd = chk.replay_dir(key)
                for f in ("main.go", "go.mod", "config.yaml", "escape-config.json"):
                    shutil.copy(os.path.join(d, f), rd)
                lines = sorted(ln for ln, role in inf["lines"].items() if role in ("SRC", "TAINT", "SINK"))
                with open(os.path.join(rd, "replay.txt"), "w") as f:
                    f.write("scenario %d (mechanism, taint step, target, entry) = %s\nnative run: marker of source%d reached sink%d in another "
                            "goroutine (HIT %d)\nanalysis (use-escape-analysis: true): no taint flow source%d -> sink%d and no escape for "
                            "source%d\nrelevant lines of main.go: %s\n\nre-run:\n  cd %s && go run . | grep 'HIT %d$'\n"
                            "  %s -taint -noloc %s | grep -E 'source%d( |$)'\n" % (i, desc, i, i, i, i, i, i, lines, rd, i, exe, rd, i))
                chk.violation(key, "source%d data reaches sink%d in another goroutine (scenario %s) but neither a taint flow nor an escape "
                              "is reported" % (i, i, desc), rd)
            if len(chk.cov["samples"]) < 6:
                chk.sample({"scenario": desc, "native": True, "taint_flow": (i, i) in flows, "escapes": escs.get(i, [])[:3]})

    chk.proof_broken(failed, found_concrete)
    chk.cov["evaluations"] = stats["native_flows"]
    chk.cov["distinct_nontrivial"] = len(distinct)
    chk.cov["rule"] = ("one evaluation = one generated scenario whose cross-goroutine flow source<i> -> sink<i> was observed natively, compared "
                       "with the real taint analysis output (use-escape-analysis: true); distinct = distinct (sharing mechanism, taint step, "
                       "how it was reported: flow / escape)")
    chk.cov["traces_validated_against_impl"] = stats["reported_taint_flow"] + stats["reported_escape_only"]
    chk.cov["distribution"] = stats
    chk.assumptions += ["native observation: the flow is ordered by a channel handshake, so it is observed on every run; other schedules "
                        "cannot remove it", "exit status: cmd/argot/taint returns failure iff Sinks or Escapes is non-empty (read, not executed here)"]
    return chk.finish()


def replay(chk, path):
    print(open(os.path.join(path, "replay.txt")).read() if os.path.isdir(path) else open(path).read())
    return 0
