"""Reduced tie of Model/Visit.v to analysis/taint/dataflow_visitor.go for the checks whose Properties file cites the
Visit lemma library (C01, C05, C06): runs travlib.run_tie on a few taint testdata programs so that the theorems about
the model are tied to the current tree in the same run (the full tie is part of the C07 check)."""
import vlib

PROGRAMS = {"C01": ["basic", "closures", "parameters", "tuples"],
            "C05": ["basic", "sanitizers", "globals"],
            "C06": ["basic", "closures", "interfaces"]}
CONFIGS = {"C01": [{"fs": "cfg"}, {"fs": "0"}],
           "C05": [{"fs": "cfg"}, {"fs": "cfg", "maxalarms": 1}, {"fs": "cfg", "maxalarms": 2}],
           "C06": [{"fs": "cfg"}]}
SEEDS = {"C01": 2, "C05": 2, "C06": 5}


def run(chk):
    """returns the number of tie mismatches reported as violations"""
    try:
        from props import travlib
    except ImportError:
        import travlib
    travlib.build()
    progs = PROGRAMS[chk.prop] if chk.tier == "quick" else travlib.QUICK
    res = travlib.run_tie(chk, progs, CONFIGS[chk.prop], seeds=SEEDS[chk.prop] if chk.tier == "quick" else 6)
    n = travlib.report(chk, res)
    st = dict(res["stats"])
    chk.cov["visit_model_tie"] = {"programs": progs, "configs": CONFIGS[chk.prop], "stats": st, "mismatches_reported": n}
    chk.assumptions.append("theorems about Model/Visit.v are tied to dataflow_visitor.go by travlib.run_tie in this run: "
                           "%s/%s recorded expansions equal, %s whole-BFS model runs with equal sink-hit sets"
                           % (st.get("steps_ok"), st.get("steps_checked"), st.get("runs_hits_equal")))
    return n
