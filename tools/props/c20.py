"""C20 - the analyzer's own parallelism is race-free and order-preserving.

proof      : coq/theories/Properties/C20.v
             Model/MapPar.v  small-step model of funcutil.MapParallel (threads, rendezvous channels, close, WaitGroup)
             Model/Conc.v    the analyzer's concurrency skeleton as a static access matrix (steps x objects, locks, hb)
tie T-dump : harness/cmd/c20mappar (-race) runs the REAL funcutil.MapParallel on seed-generated (length, numRoutines,
             latency profile, element type) cases == sequential map (the executable spec) == extracted model under
             several schedules (build/bin/c20model); goroutine counts before/after; race reports
racer      : harness/cmd/c20racer (-race) runs the REAL taint driver (taint.Analyze) on testdata programs x option
             combinations; every race the detector reports must be a conflicting unordered pair of the matrix
             (dumped from Coq by vm_compute), report files must be complete at return and equal across identical runs,
             no goroutine may outlive the analysis; one scenario re-runs the intra-procedural pass on the same state
             (as the cli's summarize/rebuild does) under a wall-clock watchdog
skeleton   : harness/cmd/c20skel regenerates the synchronisation skeleton (go/defer/chan/Lock/Wait/atomic tokens) of the
             anchored functions from the Go AST; it must equal tools/props/c20_skeleton.txt, the skeleton the models were
             written from (T-gen); whether BuildGraph contains a go statement selects the matrix variant (fixed or not)
"""
import os
import re
import shutil
import time

import vlib

GEN = "c20gen"            # a generated program whose functions all read and write the same few globals (see gen_program)
PROGRAMS_QUICK = [GEN, "closures", "basic"]
PROGRAMS_THOROUGH = [GEN, "globals", "closures", "basic", "example1", "interfaces", "fields"]
# run specs of c20racer; runs without report-summaries first, so that a leftover writer goroutine cannot disturb them
RUNS_QUICK = {GEN: "none;od,rc,rp;nr=0;nr=2,twice;rs;rs;rs,rc,rp,nr=3",
              "closures": "od,rc,rp;rs,od;rs,nr=2",
              "basic": "rs;rs"}
RUNS_THOROUGH = ("none;none;rc,rp;rc,rp;od;od,rc,rp;nr=0;nr=1;nr=5;nr=0,twice;nr=3,twice;od,nr=2,twice;rs;rs;rs;rs,rc,rp;rs,od;rs,od;"
                 "rs,nr=0;rs,nr=0;rs,nr=7,rc;rs,nr=2,twice")

KNOWN_KEY = "report-summaries-writer"      # repaired in /repo d79ddc0 (a `fixed:` line); reported again if it comes back
SKELETON = os.path.join(os.path.dirname(os.path.abspath(__file__)), "c20_skeleton.txt")


# ------------------------------------------------------------------------------------------ generated program
def gen_program(seed):
    """many small functions that all write / read the same few globals (contention on GlobalNode.mutex in the summary
    workers), call each other, create closures and use strconv (predefined summaries are loaded in BuildGraph STEP 3)"""
    rnd = vlib.lcg(seed)
    ng = 2 + rnd(3)
    nf = 40 + rnd(30)
    src = ["package main", "", 'import "strconv"', ""]
    src += ["var g%d string" % i for i in range(ng)]
    src += ["", 'func source() string { return "s" }', "func sink(s string)    {}", ""]
    for k in range(nf):
        w, r, r2 = rnd(ng), rnd(ng), rnd(ng)
        body = ["\tg%d = g%d + strconv.Itoa(i)" % (w, r)]
        kind = rnd(4)
        if kind == 0:
            body.append("\tg%d = source()" % rnd(ng))
        elif kind == 1:
            body.append("\tsink(g%d)" % r2)
        elif kind == 2:
            body.append("\th := func(s string) { g%d = s + g%d }\n\th(g%d)" % (w, r2, r))
        if k > 0 and rnd(2) == 0:
            body.append("\tf%d(i + 1)" % rnd(k))
        src.append("func f%d(i int) {\n%s\n}\n" % (k, "\n".join(body)))
    src.append("func main() {\n%s\n}\n" % "\n".join("\tf%d(%d)" % (k, k) for k in range(nf)))
    return "\n".join(src)


GEN_CONFIG = """taint-tracking-problems:
  - sources:
      - package: "c20gen"
        method: "source"
    sinks:
      - package: "c20gen"
        method: "sink"
"""


def make_gen(work, seed):
    d = os.path.join(work, GEN)
    os.makedirs(d)
    open(os.path.join(d, "go.mod"), "w").write("module c20gen\n\ngo 1.22\n")
    open(os.path.join(d, "main.go"), "w").write(gen_program(seed))
    open(os.path.join(d, "config.yaml"), "w").write(GEN_CONFIG)
    return d


# ------------------------------------------------------------------------------------------ matrix (from Coq)
def opts_of(spec):
    o = set(x for x in spec.split(",") if x)
    return ("rs" in o, "rc" in o, "rp" in o, "od" in o)


def dump_matrix(work, combos, fixed):
    """racy_named (analyzer rs rc rp od fixed) for every option combination, computed by coqc (vm_compute).
    -> {combo: set of (stepA, stepB, object, modeA, modeB)}"""
    vf = os.path.join(work, "C20Matrix.v")
    b = lambda x: "true" if x else "false"
    with open(vf, "w") as f:
        f.write("From Coq Require Import String List.\nFrom Argot Require Import Model.Conc.\nOpen Scope string_scope.\n")
        for c in combos:
            f.write('Goal True. idtac "@@BEGIN %s". Abort.\n' % "".join("1" if x else "0" for x in c))
            f.write("Eval vm_compute in racy_named (analyzer %s %s %s %s %s).\n" % (tuple(b(x) for x in c) + (b(fixed),)))
            f.write('Goal True. idtac "@@END". Abort.\n')
    rc, out = vlib.sh(["coqc", "-Q", os.path.join(vlib.COQ, "theories"), "Argot", vf], timeout=900, cwd=work)
    if rc != 0:
        raise vlib.BuildError("could not evaluate the access matrix (Model/Conc.v)", out)
    res = {}
    for m in re.finditer(r"@@BEGIN (\d+)\n(.*?)@@END", out, flags=re.S):
        combo = tuple(ch == "1" for ch in m.group(1))
        pairs = set()
        for p in re.finditer(r'\("([^"]*)",\s*"([^"]*)",\s*"([^"]*)",\s*\("([RW])",\s*"([RW])"\)\)', m.group(2)):
            pairs.add(p.groups())
        res[combo] = pairs
    if len(res) != len(combos):
        raise vlib.BuildError("could not parse the access matrix dump", out[-3000:])
    return res


# ------------------------------------------------------------------------------------------ race reports
def parse_races(text):
    """-> list of dict(accesses=[(kind, who, frames)], created={who: frames}, raw)"""
    out = []
    for blk in text.split("=================="):
        if "WARNING: DATA RACE" not in blk:
            continue
        accesses, created = [], {}
        cur = None
        for l in blk.split("\n"):
            m = re.match(r"^(Write|Read|Previous write|Previous read|Atomic write|Previous atomic write|Atomic read|Previous atomic read) at \S+ by (main goroutine|goroutine \d+)", l)
            if m:
                cur = []
                accesses.append((m.group(1), m.group(2), cur))
                continue
            m = re.match(r"^Goroutine (\d+) \((running|finished)\) created at:", l)
            if m:
                cur = []
                created["goroutine " + m.group(1)] = cur
                continue
            m = re.match(r"^  (\S.*)\(\)$", l)
            if m and cur is not None:
                cur.append([m.group(1), ""])
                continue
            m = re.match(r"^      (\S+:\d+)", l)
            if m and cur:
                cur[-1][1] = m.group(1)
        out.append({"accesses": accesses, "created": created, "raw": blk.strip()})
    return out


def source_lines(repo):
    """line numbers needed to tell the BuildGraph steps apart"""
    p = os.path.join(repo, "analysis/dataflow/inter_procedural.go")
    go_line = step3 = wait_line = 0
    infn = False
    for i, l in enumerate(open(p), 1):
        if l.startswith("func (g *InterProceduralFlowGraph) BuildGraph()"):
            infn = True
        elif infn and l.startswith("}"):
            infn = False
        if infn and "STEP 3" in l and not step3:
            step3 = i
        if infn and re.match(r"\s*go func\(\)", l) and not go_line:
            go_line = i
    return {"go": go_line, "step3": step3}


def classify(access, created, lines):
    """(thread step name, object class or None) of one access of a race report"""
    kind, who, frames = access
    fns = [f[0] for f in frames]
    allf = " ".join(fns)

    def has(s):
        return any(s in f for f in fns)
    obj = None
    top = fns[0] if fns else ""
    if top.startswith("runtime.map") and len(fns) > 1 and re.search(
            r"InterProceduralFlowGraph\)\.(BuildGraph|resolveCalleeSummary|findSummary|findSummaryModuloSuffix|findClosureSummary|InsertSummaries|RunVisitorOnEntryPoints)|dataflow\.BuildSummary|analysis\.collectResults|IntraProceduralAnalysis|NewSummaryGraph$", fns[1]):
        obj = "FlowGraph.Summaries(map)"
    elif has("(*SummaryGraph)") or re.search(r"dataflow\.\(\*\w*Node\w*\)", allf):
        obj = "SummaryGraph"
    elif has("os.(*File)") or has("internal/poll"):
        obj = "file"
    elif has("(*GlobalNode)"):
        obj = "GlobalNode.locations"
    first = created.get(who, [["", ""]])[0][0] if created.get(who) else ""
    # the harness runs the analysis in a goroutine of its own (watchdog): that one is the analysis' main thread
    if who != "main goroutine" and first != "main.main":
        if "InterProceduralFlowGraph).BuildGraph" in first:
            return "report-summaries-writer", obj
        if "funcutil.MapParallel" in first:
            return "worker", obj
        if "dataflow.NewAnalyzerState" in first:
            if has("PopulateImplementations") or has("ComputeMethodImplementations") or has("PopulateTypesToImplementationMap"):
                return "init.implementations", obj
            if has("PopulatePointer") or has("DoPointerAnalysis") or has("ReachableFunctions"):
                return "init.pointer", obj
            if has("PopulateGlobals"):
                return "init.globals", obj
            return "init.?", obj
        return "goroutine:" + first, obj
    # main goroutine: which step?
    if has("RunVisitorOnEntryPoints") or has("taint.(*Visitor).Visit"):
        return "main.visitor", obj
    for f in frames:
        if f[0].endswith("InterProceduralFlowGraph).BuildGraph"):
            try:
                ln = int(f[1].rsplit(":", 1)[1])
            except (IndexError, ValueError):
                ln = 0
            if has("os.(*File).Close"):
                return "main.buildgraph.return", obj
            if lines["go"] and ln > lines["go"]:
                return "main.buildgraph.step3", obj
            return "main.buildgraph.step12", obj
    if has("analysis.collectResults") or has("InsertSummaries") or has("funcutil.MapParallel"):
        return "main.collect", obj
    if has("analysis.RunIntraProceduralPass"):
        return "main.afterinit", obj
    if has("dataflow.NewAnalyzerState") or has("dataflow.NewInitializedAnalyzerState") or has("taint.AnalysisPreamble"):
        return "main.afterinit", obj
    if has("taint.Analyze") or has("analysis.RunInterProcedural"):
        return "main.visitor", obj
    return "main.return", obj


def predicted(pairs, a, b, oa, ob):
    """is there a racy pair of the matrix between steps a and b (on a compatible object)?"""
    def norm(x, i):
        return "worker.%d" % i if x == "worker" else x
    cands = [(norm(a, 1), norm(b, 2)), (norm(b, 1), norm(a, 2))]
    objs = [o for o in (oa, ob) if o]
    for (x, y, o, _, _) in pairs:
        if (x, y) in cands or (y, x) in cands:
            if not objs:
                return True
            for want in objs:
                if want == "file" and o.endswith("file"):
                    return True
                if o.startswith(want):
                    return True
    return False


# ------------------------------------------------------------------------------------------ the check
def run(chk):
    tier = chk.tier
    quick = tier == "quick"
    timing = {}
    t0 = time.time()

    def lap(name):
        nonlocal t0
        timing[name] = round(time.time() - t0, 1)
        t0 = time.time()
    failed = chk.prove("theories/Properties/C20.v")
    lap("prove")
    binr = vlib.build_harness(["c20mappar", "c20racer"], race=True)
    lap("go_build_race")
    work = os.path.join(vlib.BUILD, "c20")
    shutil.rmtree(work, ignore_errors=True)
    os.makedirs(work)
    found_concrete = False
    stats = {"mappar_cases": 0, "mappar_int_cases": 0, "model_runs": 0, "model_mismatch": 0, "racer_runs": 0,
             "race_reports": 0, "race_reports_predicted": 0, "race_reports_unpredicted": 0, "report_files": 0,
             "summaries_incomplete_runs": 0, "writer_alive_after_return": 0}
    distinct = set()

    # ---------------------------------------------------------------- (1) MapParallel: impl vs spec vs model
    model = None
    try:
        model = vlib.build_model("c20")
    except vlib.BuildError as e:
        chk.notes.append("extracted model not built: " + e.what)
    ncases = 150 if quick else 1500
    racelog = os.path.join(work, "mp.race")
    env = dict(vlib.GOENV, GORACE="log_path=%s exitcode=0 halt_on_error=0" % racelog)
    rc, out, err = vlib.sh2([os.path.join(binr, "c20mappar"), "-seed", str(chk.seed), "-cases", str(ncases)],
                            timeout=900 if quick else 3000, env=env)
    open(os.path.join(work, "mp.out"), "w").write(out)
    cases, xs_of, res_of = {}, {}, {}
    for l in out.splitlines():
        p = l.split()
        if not p:
            continue
        if p[0] == "C":
            kv = dict(x.split("=") for x in p[2:])
            cases[int(p[1])] = kv
        elif p[0] == "X":
            xs_of[int(p[1])] = [int(x) for x in p[2:]]
        elif p[0] == "R":
            res_of[int(p[1])] = [int(x) for x in p[2:]]
        elif p[0] in ("HANG", "PANIC"):
            found_concrete = True
            d = chk.replay_dir("mappar-" + p[0].lower())
            write_mp_replay(d, chk, ncases, l + "\n" + err[-4000:])
            chk.violation("mappar-deadlock" if p[0] == "HANG" else "mappar-panic",
                          "funcutil.MapParallel %s: %s" % ("did not return (deadlock)" if p[0] == "HANG" else "panicked", l), d)
    if rc == 124:
        found_concrete = True
        d = chk.replay_dir("mappar-timeout")
        write_mp_replay(d, chk, ncases, "c20mappar timed out\n" + out[-2000:])
        chk.violation("mappar-deadlock", "MapParallel harness did not finish (timeout)", d)
    elif rc not in (0, 1, 3) and re.search(r"^(panic:|fatal error:)", err, flags=re.M):
        # the Go runtime killed the process: a panic in one of MapParallel's own goroutines (e.g. send on closed
        # channel, negative WaitGroup counter) or "all goroutines are asleep - deadlock!"
        found_concrete = True
        msg = re.search(r"^(panic:|fatal error:).*", err, flags=re.M).group(0)
        last = max(cases) if cases else -1
        d = chk.replay_dir("mappar-crash")
        write_mp_replay(d, chk, ncases, "the process running the real funcutil.MapParallel crashed in case %d (the one after the last "
                        "completed case %d: %s)\n\n%s" % (last + 1, last, cases.get(last), err[-6000:]))
        chk.violation("mappar-deadlock" if "deadlock" in msg else "mappar-panic",
                      "funcutil.MapParallel crashed the process in case %d: %s" % (last + 1, msg), d)
    elif rc not in (0, 1, 3) or not cases:
        raise vlib.BuildError("c20mappar failed (rc=%d)" % rc, out[-2000:] + err[-4000:])
    for i, kv in sorted(cases.items()):
        stats["mappar_cases"] += 1
        n, nr = int(kv["len"]), int(kv["nr"])
        if n >= 2:
            distinct.add(("mappar", n, nr, kv["prof"], kv["typ"]))
        if kv["eq"] != "1":
            found_concrete = True
            d = chk.replay_dir("mappar-order-%d" % i)
            write_mp_replay(d, chk, ncases, "case %d %s: MapParallel result differs from the sequential map (first difference at index %s)"
                            % (i, kv, kv.get("first-diff")))
            chk.violation("mappar-result", "MapParallel(len=%d, numRoutines=%d, %s, %s) != Map: first difference at index %s"
                          % (n, nr, kv["prof"], kv["typ"], kv.get("first-diff")), d)
        if int(kv["g1"]) > int(kv["g0"]):
            found_concrete = True
            d = chk.replay_dir("mappar-leak-%d" % i)
            write_mp_replay(d, chk, ncases, "case %d %s: %s goroutines before, %s after the call returned and a 2 s settle" % (i, kv, kv["g0"], kv["g1"]))
            chk.violation("mappar-goroutine-leak", "MapParallel(len=%d, numRoutines=%d) leaves goroutines behind (%s -> %s)"
                          % (n, nr, kv["g0"], kv["g1"]), d)
        if len(chk.cov["samples"]) < 3 and n >= 5 and kv["typ"] == "int":
            chk.sample({"MapParallel": kv, "input": xs_of.get(i, [])[:8], "result": res_of.get(i, [])[:8]})
    lap("mappar_impl")
    mp_races = read_race_logs(racelog)
    if mp_races:
        found_concrete = True
        d = chk.replay_dir("mappar-race")
        write_mp_replay(d, chk, ncases, "race detector reports in funcutil.MapParallel:\n\n" + mp_races[0]["raw"])
        chk.violation("mappar-race", "data race inside funcutil.MapParallel (%d reports), e.g. %s" % (len(mp_races), race_title(mp_races[0])), d)

    # the executable spec (map f in input order) and the extracted model on the same inputs
    nsched = 3 if quick else 8
    if model:
        inp = []
        ids = [i for i in sorted(xs_of) if i in res_of]
        for i in ids:
            inp.append("M %d %s %d %d %s" % (i, cases[i]["nr"], nsched, chk.seed * 100003 + i, " ".join(map(str, xs_of[i]))))
        rc, mout, merr = vlib.sh2([model], inp="\n".join(inp) + "\n", timeout=900 if quick else 3000)
        if rc != 0:
            raise vlib.BuildError("c20model failed", merr[-3000:])
        open(os.path.join(work, "model.out"), "w").write(mout)
        tie_bad = []
        for l in mout.splitlines():
            m = re.match(r"M (\d+) (\d+) steps=(\d+) bound=(\d+) term=(\d) res=(.*)", l)
            if not m:
                continue
            i = int(m.group(1))
            stats["model_runs"] += 1
            want = [3 * x + 1 for x in xs_of[i]]
            ok = m.group(6).startswith("OK") and [int(x) for x in m.group(6).split()[1:]] == want and \
                m.group(3) == m.group(4) and m.group(5) == "1"
            if not ok:
                stats["model_mismatch"] += 1
                tie_bad.append(l[:200])
            if res_of[i] != want and cases[i]["eq"] == "1":
                # cannot happen (the harness compared already) - kept as an independent re-check in Python
                found_concrete = True
                d = chk.replay_dir("mappar-order-py-%d" % i)
                write_mp_replay(d, chk, ncases, "case %d: result %s, expected %s" % (i, res_of[i][:20], want[:20]))
                chk.violation("mappar-result", "MapParallel result differs from map f xs (case %d)" % i, d)
        stats["mappar_int_cases"] = len(ids)
        if tie_bad and not (found_concrete and chk.has_new_concrete()):
            d = chk.replay_dir("tie-model")
            open(os.path.join(d, "replay.txt"), "w").write(
                "the extracted model (Model/MapPar.v) does not return map f xs / the proved step count:\n" + "\n".join(tie_bad[:10]) +
                "\nre-run: build/bin/c20model < build/c20/model.in\n")
            chk.violation("tie-broken", "extracted MapParallel model disagrees with its own theorem on %d runs" % len(tie_bad), d, no_input=True)

    lap("mappar_model")
    # ---------------------------------------------------------------- (2) racer: the real taint driver under -race
    # T-gen: the synchronisation skeleton of the anchored functions, regenerated from the Go AST
    vlib.build_harness(["c20skel"])
    rc, skel, err = vlib.sh2([os.path.join(vlib.BIN, "c20skel"), "-repo", vlib.REPO], timeout=300)
    if rc != 0:
        raise vlib.BuildError("c20skel failed", err[-3000:])
    open(os.path.join(work, "skeleton.txt"), "w").write(skel)
    want_skel = dict(l.split(": ", 1) if ": " in l else (l.rstrip(":"), "") for l in open(SKELETON).read().splitlines() if l.strip())
    have_skel = dict(l.split(": ", 1) if ": " in l else (l.rstrip(":"), "") for l in skel.splitlines() if l.strip())
    skel_diff = ["%s: recorded [%s] now [%s]" % (k, want_skel.get(k, "<absent>").strip(), have_skel.get(k, "<absent>").strip())
                 for k in sorted(set(want_skel) | set(have_skel)) if want_skel.get(k, "").strip() != have_skel.get(k, "").strip()]
    # the matrix variant tied to the code: BuildGraph without a go statement = the repaired variant
    bg = have_skel.get("analysis/dataflow/inter_procedural.go InterProceduralFlowGraph.BuildGraph", "")
    fixed = "go{" not in bg and "go-call" not in bg
    chk.cov["matrix_variant"] = "fixed (summaries report written synchronously)" if fixed else "detached report-summaries writer goroutine"
    chk.cov["sync_skeleton_functions"] = len(have_skel)
    lap("skeleton")
    lines = source_lines(vlib.REPO)
    programs = PROGRAMS_QUICK if quick else PROGRAMS_THOROUGH
    gendir = make_gen(work, chk.seed)
    progdirs = [(p, gendir if p == GEN else os.path.join(vlib.REPO, "analysis/taint/testdata", p)) for p in programs]
    progdirs = [(p, d) for p, d in progdirs if os.path.isdir(d)]
    specs = {p: (RUNS_QUICK.get(p, "none;rs") if quick else RUNS_THOROUGH) for p, _ in progdirs}
    combos = sorted(set(opts_of(s) for p in specs for s in specs[p].split(";")))
    matrix = dump_matrix(work, combos, fixed)
    lap("matrix_dump")
    chk.cov["matrix_racy_pairs"] = {"".join("1" if x else "0" for x in c): len(v) for c, v in matrix.items()}

    import subprocess
    procs = []
    progdir_of = dict(progdirs)
    for p, d in progdirs:
        rl = os.path.join(work, "racer-%s.race" % p)
        env = dict(vlib.GOENV, GORACE="log_path=%s exitcode=0 halt_on_error=0" % rl)
        cmd = [os.path.join(binr, "c20racer"), "-dir", d, "-reports", os.path.join(work, "reports-" + p), "-runs", specs[p]]
        outp = os.path.join(work, "racer-%s.out" % p)
        errp = os.path.join(work, "racer-%s.err" % p)
        pr = subprocess.Popen(cmd, env=env, stdout=open(outp, "w"), stderr=open(errp, "w"), start_new_session=True)
        procs.append((p, d, pr, rl, outp, errp, cmd))
    known_symptoms = []
    for p, d, pr, rl, outp, errp, cmd in procs:
        try:
            pr.wait(timeout=1500 if quick else 5000)
        except subprocess.TimeoutExpired:
            import signal
            try:
                os.killpg(pr.pid, signal.SIGKILL)
            except OSError:
                pass
            found_concrete = True
            dd = chk.replay_dir("racer-timeout-" + p)
            open(os.path.join(dd, "replay.txt"), "w").write("c20racer did not finish on %s\n%s\nre-run: GORACE=log_path=/tmp/r %s\n" % (p, open(outp).read()[-3000:], " ".join(cmd)))
            chk.violation("analysis-hang:" + p, "the taint driver did not finish under the race detector on %s" % p, dd)
            continue
        out = open(outp).read()
        errtxt = open(errp).read()
        crash = re.search(r"^(panic:|fatal error:).*", errtxt, flags=re.M)
        hang = re.search(r"^(\d+) HANG (.*)$", out, flags=re.M)
        if hang:
            found_concrete = True
            last = re.findall(r"^(\d+) BEGIN (\S*)", out, flags=re.M)
            spec = last[-1][1] if last else ""
            stacks = "\n".join(l.split(" L ", 1)[1] for l in out.splitlines() if " L " in l and l.split(" ", 1)[0] == hang.group(1))
            blocked = sorted(set(re.findall(r"^(github\.com/awslabs/ar-go-tools/\S+)\(", stacks, flags=re.M)))
            locks = [b for b in blocked if re.search(r"addWriteLoc|addReadLoc|AddError|CheckError|HasErrors|GlobalNode", b)]
            site = (locks or blocked or ["?"])[0].split("/")[-1]
            dd = chk.replay_dir("analysis-deadlock-" + p)
            write_racer_replay(dd, p, d, spec, "the analysis did not finish within the wall-clock bound: %s\nblocked in: %s\n\n%s"
                               % (hang.group(2), ", ".join(b.split("/")[-1] for b in blocked[:12]), stacks[:12000]))
            chk.violation("analysis-deadlock:" + site, "the taint driver hangs on %s [%s] in phase %s (blocked in %s)"
                          % (p, spec, hang.group(2).split(" goroutines=")[0], site), dd)
            continue
        if pr.returncode != 0 and "LOADED" in out and crash:
            found_concrete = True
            dd = chk.replay_dir("analysis-crash-" + p)
            last = re.findall(r"^(\d+) BEGIN (\S*)", out, flags=re.M)
            write_racer_replay(dd, p, d, last[-1][1] if last else "", "the taint driver crashed: %s\n\n%s" % (crash.group(0), errtxt[-6000:]))
            chk.violation("analysis-crash:" + crash.group(0)[:60], "the taint driver crashed on %s: %s" % (p, crash.group(0)), dd)
            continue
        if pr.returncode != 0 or "LOADED" not in out:
            raise vlib.BuildError("c20racer failed on %s (rc=%s)" % (p, pr.returncode), out[-1500:] + open(errp).read()[-3000:])
        runs = parse_racer(out)
        racetext = b""
        for f in sorted(os.listdir(work)):
            if f.startswith("racer-%s.race." % p):
                racetext = open(os.path.join(work, f), "rb").read()
        hsets = {}
        for k, r in sorted(runs.items()):
            stats["racer_runs"] += 1
            spec = r["spec"]
            combo = opts_of(spec)
            distinct.add(("racer", p, spec))
            pairs = matrix[combo]
            seg = racetext[r["log0"]:r["log1"]].decode("utf8", "replace")
            for race in parse_races(seg):
                stats["race_reports"] += 1
                if len(race["accesses"]) < 2:
                    continue
                (a, oa), (b, ob) = [classify(x, race["created"], lines) for x in race["accesses"][:2]]
                if predicted(pairs, a, b, oa, ob):
                    stats["race_reports_predicted"] += 1
                    if "report-summaries-writer" in (a, b):
                        known_symptoms.append((p, spec, "race %s / %s on %s" % (a, b, oa or ob), race["raw"]))
                        continue
                    key = "race-predicted:%s/%s" % tuple(sorted((a, b)))
                else:
                    stats["race_reports_unpredicted"] += 1
                    key = "race:%s/%s:%s" % (tuple(sorted((a, b))) + (race_title(race),))
                found_concrete = True
                dd = chk.replay_dir(key)
                write_racer_replay(dd, p, d, spec, "data race reported by the Go race detector between steps '%s' and '%s' (object %s); "
                                   "the access matrix (Model/Conc.v) %s such a pair for options %s\n\n%s"
                                   % (a, b, oa or ob, "predicts" if key.startswith("race-predicted") else "does NOT predict", spec, race["raw"]))
                chk.violation(key, "data race in the analyzer on %s with options [%s]: %s vs %s (%s)" % (p, spec, a, b, race_title(race)), dd)
            # goroutines alive after return
            g0, g1, g2 = r["G"]
            if g2 > g0 and combo[0] and "BuildGraph.func1" in r["stacks"]:
                stats["writer_alive_after_return"] += 1
                known_symptoms.append((p, spec, "writer goroutine still running 300 ms after the analysis returned", r["stacks"][:3000]))
            elif r["gend"] > g0:
                # still there after the harness waited up to 60 s more: a leak (blocked forever), not a slow exit
                found_concrete = True
                dd = chk.replay_dir("leak-%s-%s" % (p, spec))
                write_racer_replay(dd, p, d, spec, "goroutines before %d, at return %d, after 300 ms %d, after waiting up to 60 s more %d\n\n%s"
                                   % (g0, g1, g2, r["gend"], r["stacks"][:6000]))
                chk.violation("goroutine-leak:" + leak_site(r["stacks"]), "goroutines outlive the analysis on %s [%s]: %d -> %d" % (p, spec, g0, r["gend"]), dd)
            elif g2 > g0:
                chk.notes.append("%s [%s]: %d goroutine(s) were still exiting 300 ms after return (gone later)" % (p, spec, g2 - g0))
            # report files complete at return
            for f in r["F"]:
                stats["report_files"] += 1
                kind, name, at, after = f[0], f[1], int(f[2]), int(f[3])
                if at != after:
                    if kind == "summaries":
                        known_symptoms.append((p, spec, "summaries file grew after return: %d -> %d bytes" % (at, after), ""))
                    else:
                        found_concrete = True
                        dd = chk.replay_dir("file-%s-%s-%s" % (kind, p, spec))
                        write_racer_replay(dd, p, d, spec, "report file %s had %d bytes when the analysis returned and %d bytes 300 ms later" % (name, at, after))
                        chk.violation("report-incomplete:" + kind, "%s report not complete when the analysis returned (%s [%s])" % (kind, p, spec), dd)
            if r["E"] and r["E"][1] > 0:
                stats["summaries_incomplete_runs"] += 1
                known_symptoms.append((p, spec, "summaries report lacks %d of the %d summaries present when BuildGraph started, e.g. %s"
                                       % (r["E"][1], r["E"][0], r["E"][2]), ""))
            if r["H"] is not None:
                hsets.setdefault(spec, []).append((r["H"], k))
            if len(chk.cov["samples"]) < 7:
                chk.sample({"program": p, "options": spec, "goroutines": r["G"], "files": [f[:4] for f in r["F"]][:4],
                            "summaries_sections": r["H"], "flows": r["T"]})
        # identical runs must produce the same set of sections in the summaries report
        for spec, hs in hsets.items():
            if len(set(h for h, _ in hs)) > 1:
                stats["summaries_incomplete_runs"] += 1
                known_symptoms.append((p, spec, "summaries report differs between identical runs: sections %s" % [h[0] for h, _ in hs], ""))
        # flows must not depend on the options / worker count (C05/C06 territory, recorded only)
        ts = set(r["T"] for r in runs.values() if r["T"] >= 0)
        if len(ts) > 1:
            chk.notes.append("number of taint flows differs across option combinations on %s: %s" % (p, sorted(ts)))

    lap("racer")
    chk.cov["timing_s"] = timing
    if known_symptoms:
        p, spec, what, raw = known_symptoms[0]
        d = chk.replay_dir(KNOWN_KEY)
        with open(os.path.join(d, "replay.txt"), "w") as f:
            f.write("%s (repaired in /repo d79ddc0, observed again): with report-summaries the summaries report is written by a goroutine started in\n"
                    "BuildGraph (analysis/dataflow/inter_procedural.go, go statement at line %d) that is not joined: it ranges over g.Summaries and prints the\n"
                    "summary graphs while STEP 3 and the visitor modify them, and the deferred summariesFile.Close() runs when BuildGraph returns, so the\n"
                    "report is truncated and differs from run to run.\n\n"
                    "symptoms observed in this run (%d):\n" % (KNOWN_KEY, lines["go"], len(known_symptoms)))
            for s in known_symptoms[:40]:
                f.write("  %s [%s]: %s\n" % s[:3])
            f.write("\nfirst race report / stack:\n%s\n\n" % next((s[3] for s in known_symptoms if s[3]), ""))
            f.write("re-run:\n  GORACE='log_path=/tmp/c20race exitcode=0' %s -dir %s -reports /tmp/c20rep -runs 'rs;rs'\n"
                    "  (binary built by: python3 tools/check.py C20; or cd harness && go build -race -tags verif -o ../build/bin-race/ ./cmd/c20racer)\n"
                    "the repair: proposed_fixes/C20-report-summaries.diff\n" % (os.path.join(binr, "c20racer"), progdir_of[p]))
        chk.violation(KNOWN_KEY, "report-summaries: detached writer goroutine races with BuildGraph step 3 / the visitor and the summaries "
                      "report is incomplete when the analysis returns (%d symptoms, e.g. %s [%s]: %s)" % (len(known_symptoms), p, spec, what), d)
    else:
        rs_runs = [1 for p in specs for s in specs[p].split(";") if opts_of(s)[0]]
        if rs_runs and any(k["property"] == "C20" and k["key"] == KNOWN_KEY for k in vlib.load_known()):
            chk.cov["stale_known_finding"] = KNOWN_KEY
            chk.notes.append("known finding %s no longer observed in %d report-summaries runs (repaired?): the matrix without the "
                             "fix (report_writer_refuted) no longer describes the code" % (KNOWN_KEY, len(rs_runs)))

    if known_symptoms:
        found_concrete = True
    if skel_diff and not (found_concrete and chk.has_new_concrete()):
        d = chk.replay_dir("sync-skeleton")
        with open(os.path.join(d, "replay.txt"), "w") as f:
            f.write("T-gen tie broken: the synchronisation skeleton of the functions Model/MapPar.v and Model/Conc.v were written from has changed;\n"
                    "the theorems of Properties/C20.v no longer describe this code, and no run exhibited a concrete failure.\n\n%s\n\n"
                    "re-run: %s -repo %s | diff - %s\n(after re-reading the code and updating the models: regenerate the recorded skeleton with that command)\n"
                    % ("\n".join(skel_diff), os.path.join(vlib.BIN, "c20skel"), vlib.REPO, SKELETON))
        chk.violation("sync-skeleton-changed:" + skel_diff[0].split(":")[0].split(" ")[-1],
                      "synchronisation structure of the modelled code changed (%d functions), e.g. %s" % (len(skel_diff), skel_diff[0]), d, no_input=True)
    elif skel_diff:
        chk.notes.append("synchronisation skeleton differs from the recorded one: " + "; ".join(skel_diff[:5]))
    chk.proof_broken(failed, found_concrete)

    chk.cov["evaluations"] = stats["mappar_cases"] + stats["model_runs"] + stats["racer_runs"]
    chk.cov["distinct_nontrivial"] = len(distinct)
    chk.cov["rule"] = ("MapParallel: seed-generated (length 0..200, numRoutines in {-3,0,1,2,7,64}, latency profile, element type) cases run "
                       "under the race detector; non-trivial = length >= 2, distinct = distinct (length, numRoutines, profile, type). "
                       "Analyzer: (testdata program, option combination incl. worker count) runs of the real taint driver under the race "
                       "detector; distinct = distinct (program, options)")
    chk.cov["traces_validated_against_impl"] = stats["model_runs"] - stats["model_mismatch"]
    chk.cov["distribution"] = stats
    chk.cov["trusted_base"] += [
        "the access matrix of Model/Conc.v is hand-written from the Go sources (not regenerated); it is validated, not derived: every race "
        "the Go race detector reports on the runs above must be one of its unordered conflicting pairs",
        "Go race detector (ThreadSanitizer) and runtime.NumGoroutine as observers of the real code",
    ]
    chk.assumptions += [
        "Go runtime not modelled: the scheduler, the memory model and the channel/WaitGroup implementation; Model/MapPar.v assumes an "
        "unbuffered channel operation is one atomic rendezvous, close/range/WaitGroup behave as specified by the language, goroutines are "
        "scheduled arbitrarily (no fairness needed: every maximal run is finite)",
        "the mapped function f is total, terminates and does not touch the channels or shared state (pure in the model)",
        "race freedom of the analyzer is proved for the matrix only; the matrix abstracts each goroutine phase to one step and all summary "
        "graphs of a worker to one object; two workers stand for the NumCPU-1 workers",
        "dynamic race detection sees only the schedules that occurred in %d runs" % stats["racer_runs"],
    ]
    return chk.finish()


def parse_racer(out):
    runs = {}
    for l in out.splitlines():
        m = re.match(r"(\d+) (\w+) ?(.*)", l)
        if not m:
            continue
        k, tag, rest = int(m.group(1)), m.group(2), m.group(3)
        r = runs.setdefault(k, {"spec": "", "G": (0, 0, 0), "F": [], "H": None, "E": None, "T": -1, "stacks": "", "log0": 0, "log1": 0, "gend": 0})
        if tag == "BEGIN":
            mm = re.match(r"(\S*) ?racelog=(\d+)", rest)
            r["spec"] = mm.group(1) if mm.group(1) != "none" else ""
            r["log0"] = int(mm.group(2))
        elif tag == "G":
            r["G"] = tuple(int(x) for x in rest.split())
        elif tag == "L":
            r["stacks"] += rest + "\n"
        elif tag == "F":
            r["F"].append(rest.split())
        elif tag == "H":
            p = rest.split()
            r["H"] = (int(p[2]), p[3])
        elif tag == "E":
            p = rest.split(None, 2)
            r["E"] = (int(p[0]), int(p[1]), p[2] if len(p) > 2 else "")
        elif tag == "T":
            r["T"] = int(rest)
        elif tag == "END":
            r["log1"] = int(re.search(r"racelog=(\d+)", rest).group(1))
            r["gend"] = int(re.search(r" g=(\d+)", rest).group(1))
    return runs


def read_race_logs(prefix):
    d = os.path.dirname(prefix)
    out = []
    for f in sorted(os.listdir(d)):
        if f.startswith(os.path.basename(prefix) + "."):
            out += parse_races(open(os.path.join(d, f), errors="replace").read())
    return out


def race_title(race):
    try:
        return race["accesses"][0][2][0][0].split("/")[-1]
    except IndexError:
        return "?"


def leak_site(stacks):
    m = re.findall(r"created by (\S+)", stacks)
    return m[0].split("/")[-1] if m else "?"


def write_mp_replay(d, chk, ncases, msg):
    with open(os.path.join(d, "replay.txt"), "w") as f:
        f.write(msg + "\n\nre-run: GORACE='log_path=/tmp/c20mp exitcode=0' %s -seed %d -cases %d\n"
                % (os.path.join(vlib.BIN + "-race", "c20mappar"), chk.seed, ncases))


def write_racer_replay(d, prog, progdir, spec, msg):
    with open(os.path.join(d, "replay.txt"), "w") as f:
        f.write("program %s (%s), options [%s]\n\n%s\n\nre-run: GORACE='log_path=/tmp/c20race exitcode=0' %s -dir %s -reports /tmp/c20rep -runs '%s'\n"
                % (prog, progdir, spec, msg, os.path.join(vlib.BIN + "-race", "c20racer"), progdir, spec or "none"))


def replay(chk, path):
    p = os.path.join(path, "replay.txt") if os.path.isdir(path) else path
    print(open(p).read())
    return 0
