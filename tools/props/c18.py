"""C18 - the reachability analysis is conservative.

proof      : coq/theories/Properties/C18.v (model Model/Reach.v + Model/ReachGen.v, lemmas Proofs/Reach.v, Proofs/ReachTables.v)
             + coq/variants/c18/{DeferRefuted,DeferRepaired,AssertRefuted,AssertRepaired,Sound}.v: of each pair exactly one compiles
             (is the defect defer-go-call-args / iface-assert-widening present in the regenerated tables?); Sound.v = the
             unconditional soundness theorem, compiles iff neither is; a defect that is not a listed finding fails the run
tie T-gen  : harness/cmd/gentables/gen_reach.go regenerates coq/gen/GenReach.v from value_visitor.go / reachable_functions.go
             and the operand schema of the pinned x/tools ssa package; the finite coverage theorems are re-proved on it
tie T-dump : harness/cmd/c18dump runs the REAL reachability.FindReachable under the four root selections and dumps operand
             facts; the extracted model (build/bin/c18model) must compute the same sets (alarm direction: model <= impl)
spec       : reported set <= ssautil.AllFunctions, monotone in the root selection, >= dataflow.CallGraphReachable
tie T-cert : the verified validator check_cert (theorem cert_sound) is run on the implementation's reported sets; its gaps
             are the candidates of missed functions
search T-gt: seed-generated programs (one scenario per way a function can become callable) are executed natively, every
             function logs its entry; every executed function must be reported
"""
import os
import re
import shutil
import subprocess
import threading
import time

import vlib

PROP = "C18"
CORPUS_QUICK = ["./analysis/taint/testdata/closures", "./analysis/taint/testdata/interfaces", "./analysis/taint/testdata/defers",
                "./analysis/taint/testdata/selects", "./analysis/dataflow/testdata/callgraph"]
CORPUS_THOROUGH_SETS = [
    CORPUS_QUICK,
    ["./analysis/taint/testdata/basic", "./analysis/taint/testdata/stdlib", "./analysis/taint/testdata/panics",
     "./analysis/taint/testdata/fields", "./analysis/taint/testdata/globals", "./analysis/taint/testdata/example1"],
    ["./analysis/taint/testdata/agent-example", "./analysis/taint/testdata/benchmark", "./analysis/backtrace/testdata/backtrace",
     "./analysis/escape/testdata/stdlib-escape"],
    ["./cmd/argot"],
]
SELS = ["main+init", "-nomain", "-noinit", "-nomain -noinit"]
SEL_LE = [(0, 1), (0, 2), (1, 3), (2, 3), (0, 3)]     # (s1, s2): s2 excludes at least what s1 excludes => R[s2] <= R[s1]
KNOWN_KEYS = {"defer-go-call-args": "function constant passed as an argument of a deferred / go call is not reported",
              "iface-assert-widening": "method callable only after an interface-to-interface assertion is not reported"}


# ------------------------------------------------------------------------------------------------ program generator
# Every function of a generated program starts with enter(<unique tag>).  Scenario templates: $N is replaced by the
# scenario number, tags are $N0..$N9.  Each template defines `func s$N()` (the driver) plus whatever it needs.
SCENARIOS = [
    ("static-call", """
func h$N() { enter($N1) }
func s$N() { enter($N0); h$N() }"""),
    ("func-var-local", """
func h$N() { enter($N1) }
func s$N() { enter($N0); f := h$N; if cond() { f = nil }; f() }"""),
    ("global-var-initializer", """
func h$N() { enter($N1) }
var g$N = h$N
func s$N() { enter($N0); g$N() }"""),
    ("global-assign", """
func h$N() { enter($N1) }
var g$N func()
func set$N() { enter($N2); g$N = h$N }
func s$N() { enter($N0); set$N(); g$N() }"""),
    ("struct-field", """
type t$N struct{ f func() }
func h$N() { enter($N1) }
func s$N() { enter($N0); x := t$N{f: h$N}; x.f() }"""),
    ("struct-field-pointer", """
type t$N struct{ n int; f func() }
func h$N() { enter($N1) }
func mk$N() *t$N { enter($N2); x := &t$N{}; x.f = h$N; return x }
func s$N() { enter($N0); mk$N().f() }"""),
    ("map-value", """
func h$N() { enter($N1) }
func s$N() { enter($N0); m := map[string]func(){}; m["a"] = h$N; m["a"]() }"""),
    ("map-literal", """
func h$N() { enter($N1) }
var m$N = map[int]func(){1: h$N}
func s$N() { enter($N0); m$N[1]() }"""),
    ("slice-element", """
func h$N() { enter($N1) }
func k$N() { enter($N2) }
func s$N() { enter($N0); fs := []func(){h$N, k$N}; for _, f := range fs { f() } }"""),
    ("array-element", """
func h$N() { enter($N1) }
func s$N() { enter($N0); var fs [2]func(); fs[1] = h$N; fs[1]() }"""),
    ("variadic-args", """
func h$N() { enter($N1) }
func k$N() { enter($N2) }
func v$N(fs ...func()) { enter($N3); for _, f := range fs { f() } }
func s$N() { enter($N0); v$N(h$N, k$N) }"""),
    ("chan-send", """
func h$N() { enter($N1) }
func s$N() { enter($N0); c := make(chan func(), 1); c <- h$N; (<-c)() }"""),
    ("select-send", """
func h$N() { enter($N1) }
func s$N() { enter($N0); c := make(chan func(), 1); select { case c <- h$N: default: }; (<-c)() }"""),
    ("closure-capture", """
func h$N() { enter($N1) }
func s$N() { enter($N0); f := h$N; if cond() { f = nil }; g := func() { enter($N2); f() }; g() }"""),
    ("closure-direct", """
func s$N() { enter($N0); func() { enter($N1); func() { enter($N2) }() }() }"""),
    ("closure-returned", """
func mk$N() func() { enter($N1); return func() { enter($N2) } }
func s$N() { enter($N0); mk$N()() }"""),
    ("return-func", """
func h$N() { enter($N1) }
func mk$N() func() { enter($N2); return h$N }
func s$N() { enter($N0); mk$N()() }"""),
    ("return-multi", """
func h$N() { enter($N1) }
func mk$N() (int, func()) { enter($N2); return 1, h$N }
func s$N() { enter($N0); _, f := mk$N(); f() }"""),
    ("call-arg", """
func h$N() { enter($N1) }
func apply$N(f func()) { enter($N2); f() }
func s$N() { enter($N0); apply$N(h$N) }"""),
    ("defer-direct", """
func h$N() { enter($N1) }
func s$N() { enter($N0); defer h$N() }"""),
    ("go-direct", """
var d$N = make(chan bool)
func h$N() { enter($N1); d$N <- true }
func s$N() { enter($N0); go h$N(); <-d$N }"""),
    ("defer-arg", """
func h$N() { enter($N1) }
func apply$N(f func()) { enter($N2); f() }
func s$N() { enter($N0); defer apply$N(h$N) }"""),
    ("go-arg", """
var d$N = make(chan bool)
func h$N() { enter($N1) }
func apply$N(f func()) { enter($N2); f(); d$N <- true }
func s$N() { enter($N0); go apply$N(h$N); <-d$N }"""),
    ("defer-arg-closure", """
func apply$N(f func()) { enter($N2); f() }
func s$N() { enter($N0); defer apply$N(func() { enter($N1) }) }"""),
    ("defer-arg-method-value", """
type t$N struct{}
func (t$N) M() { enter($N1) }
func apply$N(f func()) { enter($N2); f() }
func s$N() { enter($N0); x := t$N{}; defer apply$N(x.M) }"""),
    ("defer-closure", """
func h$N() { enter($N1) }
func s$N() { enter($N0); defer func() { enter($N2); h$N() }() }"""),
    ("go-closure", """
func h$N() { enter($N1) }
func s$N() { enter($N0); d := make(chan bool); go func() { enter($N2); h$N(); d <- true }(); <-d }"""),
    ("iface-invoke", """
type i$N interface{ M() }
type t$N struct{}
func (t$N) M() { enter($N1) }
func (t$N) Other() { enter($N2) }
func s$N() { enter($N0); var i i$N = t$N{}; i.M() }"""),
    ("iface-pointer-receiver", """
type i$N interface{ M() }
type t$N struct{ n int }
func (x *t$N) M() { enter($N1); x.n++ }
func s$N() { enter($N0); var i i$N = &t$N{}; i.M() }"""),
    ("iface-value-receiver-via-pointer", """
type i$N interface{ M() }
type t$N struct{ n int }
func (x t$N) M() { enter($N1) }
func s$N() { enter($N0); var i i$N = &t$N{}; i.M() }"""),
    ("iface-any-assert", """
type i$N interface{ M() }
type t$N struct{}
func (t$N) M() { enter($N1) }
func s$N() { enter($N0); var a interface{} = t$N{}; a.(i$N).M() }"""),
    ("iface-assert-widening", """
type a$N interface{ M() }
type b$N interface{ N() }
type t$N struct{}
func (t$N) M() { enter($N1) }
func (t$N) N() { enter($N2) }
func s$N() { enter($N0); var a a$N = t$N{}; a.M(); a.(b$N).N() }"""),
    ("iface-typeswitch-widening", """
type a$N interface{ M() }
type b$N interface{ N() }
type t$N struct{}
func (t$N) M() { enter($N1) }
func (t$N) N() { enter($N2) }
func s$N() { enter($N0); var a a$N = t$N{}; switch v := a.(type) { case b$N: v.N(); default: a.M() } }"""),
    ("iface-embedded", """
type a$N interface{ M() }
type b$N interface{ a$N; N() }
type t$N struct{}
func (t$N) M() { enter($N1) }
func (t$N) N() { enter($N2) }
func s$N() { enter($N0); var b b$N = t$N{}; b.M(); b.N() }"""),
    ("iface-change", """
type a$N interface{ M() }
type b$N interface{ M(); N() }
type t$N struct{}
func (t$N) M() { enter($N1) }
func (t$N) N() { enter($N2) }
func s$N() { enter($N0); var b b$N = t$N{}; var a a$N = b; a.M() }"""),
    ("struct-embedding", """
type i$N interface{ M() }
type base$N struct{}
func (base$N) M() { enter($N1) }
type deriv$N struct{ base$N }
func s$N() { enter($N0); var i i$N = deriv$N{}; i.M() }"""),
    ("struct-embeds-interface", """
type i$N interface{ M() }
type t$N struct{}
func (t$N) M() { enter($N1) }
type w$N struct{ i$N }
func s$N() { enter($N0); w := w$N{t$N{}}; var j i$N = w; j.M() }"""),
    ("method-value", """
type t$N struct{}
func (t$N) M() { enter($N1) }
func s$N() { enter($N0); x := t$N{}; f := x.M; f() }"""),
    ("method-expression", """
type t$N struct{}
func (t$N) M() { enter($N1) }
func s$N() { enter($N0); f := t$N.M; f(t$N{}) }"""),
    ("iface-method-value", """
type i$N interface{ M() }
type t$N struct{}
func (t$N) M() { enter($N1) }
func s$N() { enter($N0); var i i$N = t$N{}; f := i.M; f() }"""),
    ("iface-defer-invoke", """
type i$N interface{ M() }
type t$N struct{}
func (t$N) M() { enter($N1) }
func s$N() { enter($N0); var i i$N = t$N{}; defer i.M() }"""),
    ("func-in-any", """
func h$N() { enter($N1) }
func s$N() { enter($N0); var a interface{} = h$N; a.(func())() }"""),
    ("panic-recover-func", """
func h$N() { enter($N1) }
func s$N() { enter($N0); defer func() { enter($N2); r := recover(); r.(func())() }(); panic(h$N) }"""),
    ("named-func-type-method", """
type fn$N func()
func (f fn$N) Run() { enter($N2); f() }
func h$N() { enter($N1) }
func s$N() { enter($N0); fn$N(h$N).Run() }"""),
    ("generic-func", """
func gen$N[T any](x T, f func(T)) { enter($N1); f(x) }
func s$N() { enter($N0); gen$N(1, func(int) { enter($N2) }) }"""),
    ("generic-method-constraint", """
type c$N interface{ M() }
type t$N struct{}
func (t$N) M() { enter($N1) }
func call$N[T c$N](x T) { enter($N2); x.M() }
func s$N() { enter($N0); call$N(t$N{}) }"""),
    ("generic-type", """
type box$N[T any] struct{ v T }
func (b box$N[T]) Get() T { enter($N1); return b.v }
func h$N() { enter($N2) }
func s$N() { enter($N0); b := box$N[func()]{h$N}; b.Get()() }"""),
    ("phi-choice", """
func h$N() { enter($N1) }
func k$N() { enter($N2) }
func s$N() { enter($N0); var f func(); if cond() { f = k$N } else { f = h$N }; f() }"""),
    ("package-initializer", """
func h$N() int { enter($N1); return 1 }
var v$N = h$N()
func s$N() { enter($N0); sink += v$N }"""),
    ("init-function", """
func h$N() { enter($N1) }
func init() { enter($N2); h$N() }
func s$N() { enter($N0) }"""),
    ("recursion", """
func h$N(n int) { enter($N1); if n > 0 { k$N(n - 1) } }
func k$N(n int) { enter($N2); h$N(n) }
func s$N() { enter($N0); h$N(1) }"""),
]

CONTEXTS = ["plain", "closure", "goroutine", "deferred", "init"]


def gen_program(seed, per_kind=1):
    """-> (source, {tag: (scenario kind, context, scenario number)})"""
    rnd = vlib.lcg(seed)
    decls = []
    main_stmts = []
    init_stmts = []
    tags = {1: ("main", "plain", 0), 2: ("cond", "plain", 0)}
    order = []
    for rep in range(per_kind):
        for k in range(len(SCENARIOS)):
            order.append(k)
    # seed-dependent order
    for i in range(len(order) - 1, 0, -1):
        j = rnd(i + 1)
        order[i], order[j] = order[j], order[i]
    n = 10
    for k in order:
        kind, tmpl = SCENARIOS[k]
        n += 1
        ctx = CONTEXTS[rnd(len(CONTEXTS))]
        if kind in ("init-function",):
            ctx = "plain"
        decls.append("// scenario %d: %s (%s)" % (n, kind, ctx) + tmpl.replace("$N", str(n)))
        for j in range(10):
            tags[n * 10 + j] = (kind, ctx, n)
        w = n * 10 + 9      # tag of the wrapper closure
        call = "s%d()" % n
        if ctx == "plain":
            main_stmts.append("\t" + call)
        elif ctx == "closure":
            main_stmts.append("\tfunc() { enter(%d); %s }()" % (w, call))
        elif ctx == "goroutine":
            main_stmts.append("\t{\n\t\td := make(chan bool)\n\t\tgo func() { enter(%d); %s; d <- true }()\n\t\t<-d\n\t}" % (w, call))
        elif ctx == "deferred":
            main_stmts.append("\tfunc() { enter(%d); defer %s }()" % (w, call))
        elif ctx == "init":
            init_stmts.append("\t" + call)
    src = ["// generated by tools/props/c18.py, seed %d" % seed, "package main", "",
           "var sink int", "", "func enter(k int) { println(\"E\", k) }", "", "func cond() bool { enter(2); return sink > 1000 }", ""]
    src.append("\n\n".join(decls))
    src.append("\nfunc init() {\n\tenter(3)\n" + "\n".join(init_stmts) + "\n}\n")
    tags[3] = ("init-root", "init", 0)
    src.append("func main() {\n\tenter(1)\n" + "\n".join(main_stmts) + "\n}\n")
    return "\n".join(src), tags


# ------------------------------------------------------------------------------------------------ parsing
def parse_dump(path):
    """impl side: {program: dict(names={fid: name}, flags={fid: flags}, tagfid={tag: fid}, R={sel: set}, C={sel: set}, Q={k: v}, nfun)}"""
    progs = {}
    cur = None
    fid = None
    with open(path) as f:
        for l in f:
            t = l[0]
            if t in "VIA":
                if t == "I":
                    cur["ninstr_kept"] += 1
                continue
            p = l.split()
            if t == "P":
                cur = {"names": {}, "flags": {}, "tagfid": {}, "R": {}, "C": {}, "D": {}, "Q": {}, "ninstr_kept": 0, "nontrivial": 0}
                progs[l[2:].strip()] = cur
            elif t == "F":
                fid = int(p[1])
                cur["names"][fid] = p[4] if len(p) > 4 else ""
                cur["flags"][fid] = p[2]
            elif t == "G":
                cur["tagfid"].setdefault(int(p[1]), []).append(fid)
            elif t == "R":
                cur["R"][int(p[1])] = set(map(int, p[3:]))
            elif t == "C":
                cur["C"][int(p[1])] = set(map(int, p[3:]))
            elif t == "D":
                cur["D"][int(p[1])] = set(map(int, p[3:]))
            elif t == "Q":
                cur["Q"][p[1]] = int(p[2])
    return progs


def parse_model(path):
    """model side: (tbl dict, {program: dict(W=(a,b), R={sel: set|None}, S={(sel, src): (ngaps, nunexcused)}, gaps=[...])})"""
    tbl = {}
    progs = {}
    cur = None
    with open(path) as f:
        for l in f:
            p = l.split()
            if not p:
                continue
            t = p[0]
            if t == "TBL":
                for kv in p[1:]:
                    k, _, v = kv.partition("=")
                    tbl[k] = v
            elif t == "P":
                cur = {"W": None, "R": {}, "S": {}, "gaps": []}
                progs[l[2:].strip()] = cur
            elif t == "W":
                cur["W"] = (p[1], p[2])
            elif t == "R":
                cur["R"][int(p[1])] = None if p[2] == "outoffuel" else set(map(int, p[3:]))
            elif t == "S":
                cur["S"][(int(p[1]), p[2])] = (int(p[3]), int(p[4]))
            elif t == "g":
                cur["gaps"].append({"sel": int(p[1]), "src": p[2], "kind": int(p[3]), "in": int(p[4]), "fn": int(p[5]),
                                    "type": p[6], "field": p[7]})
    return tbl, progs


def gap_key(g):
    if g["kind"] == 2 and g["field"] == "Call.Args" and g["type"] in ("Defer", "Go"):
        return "defer-go-call-args"
    if g["kind"] == 4:
        return "iface-assert-widening"
    if g["kind"] == 2:
        return "missed-operand:%s.%s" % (g["type"], g["field"])
    if g["kind"] == 3:
        return "missed-iface-method"
    return "missed-root"


# ------------------------------------------------------------------------------------------------ variants
VARIANTS = {"defer-go-call-args": ("DeferRefuted", "DeferRepaired"), "iface-assert-widening": ("AssertRefuted", "AssertRepaired")}


def compile_variants(chk):
    """compile coq/variants/c18/*.v against the freshly built development.  Of each Refuted/Repaired pair exactly one is
    expected to compile; Sound.v compiles iff both defects are repaired.
    Returns (state, theorems, problems): state = {defect key: 'refuted' | 'repaired' | 'partial' | 'contradictory'} plus
    state['sound'] = bool; problems = obligations that do not check as they should."""
    src = os.path.join(vlib.COQ, "variants", "c18")
    out = os.path.join(vlib.BUILD, "c18", "variants")
    shutil.rmtree(out, ignore_errors=True)
    os.makedirs(out)
    ok = {}
    thms = {}
    problems = []
    bad_words = re.compile(r"\b(Admitted|admit|Axiom|Parameter|Conjecture)\b")
    qargs = ["-Q", os.path.join(vlib.COQ, "theories"), "Argot", "-Q", os.path.join(vlib.COQ, "gen"), "ArgotGen", "-Q", out, "C18Var"]
    names_all = [n for pair in VARIANTS.values() for n in pair] + ["Sound"]
    with vlib._Lock("coq"):
        def one(name):
            txt = open(os.path.join(src, name + ".v")).read()
            if bad_words.search(re.sub(r"\(\*.*?\*\)", "", txt, flags=re.S)):
                ok[name] = False
                problems.append("variant %s.v contains a forbidden word" % name)
                return
            shutil.copy(os.path.join(src, name + ".v"), out)
            rc, log = vlib.sh(["coqc"] + qargs + [name + ".v"], timeout=900, cwd=out)
            ok[name] = rc == 0
            if rc == 124:
                problems.append("variant %s.v: coqc timed out" % name)

        ths = [threading.Thread(target=one, args=(n,)) for n in names_all]
        for t in ths:
            t.start()
        for t in ths:
            t.join()
        compiled = [n for n in names_all if ok.get(n)]
        if compiled:
            pa = os.path.join(out, "PA_variants.v")
            with open(pa, "w") as f:
                for name in compiled:
                    f.write("From C18Var Require %s.\n" % name)
                for name in compiled:
                    for n in vlib.theorems_of(os.path.join(src, name + ".v")):
                        f.write('Goal True. idtac "@@BEGIN %s.%s". Abort.\nPrint Assumptions %s.%s.\nGoal True. idtac "@@END". Abort.\n'
                                % (name, n, name, n))
                        thms["%s.%s" % (name, n)] = "ERROR: no Print Assumptions output"
            rc2, o2 = vlib.sh(["coqc"] + qargs + [pa], timeout=900, cwd=out)
            for m in re.finditer(r"@@BEGIN (\S+)\n(.*?)@@END", o2, flags=re.S):
                thms[m.group(1)] = m.group(2).strip().replace("\n", " ")[:300]
    state = {}
    for key, (ref, rep) in VARIANTS.items():
        if ok.get(ref) and not ok.get(rep):
            state[key] = "refuted"
        elif ok.get(rep) and not ok.get(ref):
            state[key] = "repaired"
        elif ok.get(rep) and ok.get(ref):
            state[key] = "contradictory"
            problems.append("%s.v and %s.v both compile" % (ref, rep))
        else:
            state[key] = "partial"      # neither compiles: e.g. only one of Defer / Go repaired
    state["sound"] = bool(ok.get("Sound"))
    if all(state[k] == "repaired" for k in VARIANTS) and not state["sound"]:
        problems.append("Sound.v (reach_sound_now) does not compile although both defects are repaired")
    for n, t in thms.items():
        if "Closed under the global context" not in t:
            problems.append("variant theorem %s: %s" % (n, t[:80]))
    return state, thms, problems


# ------------------------------------------------------------------------------------------------ the check
def write_replay(d, msg, extra_files=()):
    for src, name in extra_files:
        if os.path.exists(src):
            shutil.copy(src, os.path.join(d, name))
    with open(os.path.join(d, "replay.txt"), "w") as f:
        f.write(msg + "\n")


def run(chk):
    tier = chk.tier
    t0 = time.time()
    work = os.path.join(vlib.BUILD, "c18")
    os.makedirs(work, exist_ok=True)
    for f in os.listdir(work):
        p = os.path.join(work, f)
        if os.path.isdir(p):
            shutil.rmtree(p, ignore_errors=True)
        else:
            os.remove(p)

    # ---- generated programs (written first so that their native run overlaps with the builds)
    nprog = 1 if tier == "quick" else 6
    gens = []
    for k in range(nprog):
        d = os.path.join(work, "gen%d" % k)
        os.makedirs(d)
        src, tags = gen_program(chk.seed * 100 + k, per_kind=1 if tier == "quick" else 2)
        open(os.path.join(d, "go.mod"), "w").write("module gen%d\n\ngo 1.22\n" % k)
        open(os.path.join(d, "main.go"), "w").write(src)
        gens.append((d, tags))
    native = {}

    def run_native(d):
        rc, out, err = vlib.sh2(["go", "run", "."], cwd=d, timeout=900)
        native[d] = (rc, out, err)

    nthreads = [threading.Thread(target=run_native, args=(d,)) for d, _ in gens]
    for t in nthreads:
        t.start()

    # ---- T-gen + proofs
    vlib.build_harness(["gentables", "c18dump"])
    changed = vlib.gen_tables(["reach"])
    if changed:
        chk.notes.append("regenerated tables changed: %s" % ",".join(changed))
    failed = chk.prove("theories/Properties/C18.v")
    listed = {k["key"] for k in vlib.load_known() if k["property"] == PROP}
    vstate, vthms, vproblems = ({}, {}, []) if failed else compile_variants(chk)
    if not failed:
        chk.cov["obligations"] += max(len(VARIANTS) + 1, len(vthms))
        chk.cov["discharged"] += len([n for n, t in vthms.items() if "Closed under the global context" in t])
        chk.cov["theorems"].update({"variant:" + n: t for n, t in vthms.items()})
        failed = list(failed) + vproblems
        for key in VARIANTS:
            # a defect that is not a listed finding must be absent from the regenerated tables
            if vstate.get(key) != "repaired" and key not in listed:
                chk.cov["obligations"] += 1
                failed.append("variants/c18/%s.v (table state of %s: %s; not a listed finding)" % (VARIANTS[key][1], key, vstate.get(key)))
    variant = ",".join("%s=%s" % (k, vstate.get(k)) for k in sorted(VARIANTS)) + ",sound=%s" % vstate.get("sound")
    chk.cov["table_state"] = vstate
    t_proved = time.time()

    # ---- T-dump: real FindReachable + facts -> extracted model
    model = vlib.build_model("c18")
    if tier == "quick":
        corpus_sets = [CORPUS_QUICK]
    else:
        corpus_sets = CORPUS_THOROUGH_SETS
    jobs = []     # (tag, args, with_cg)
    jobs.append(("gen", [d for d, _ in gens], True))
    for i, pats in enumerate(corpus_sets):
        pats = [p for p in pats if os.path.isdir(os.path.join(vlib.REPO, p))]
        if pats:
            jobs.append(("corpus%d" % i, [vlib.REPO + "::" + ",".join(pats)], tier != "quick" or i == 0))
    results = {}

    def run_job(tag, args, cg):
        dump = os.path.join(work, tag + ".dump")
        cmd = [os.path.join(vlib.BIN, "c18dump"), "-o", dump, "-names", os.path.join(work, tag + ".names")] + (["-cg"] if cg else []) + args
        rc, out = vlib.sh(cmd, timeout=3000)
        if rc != 0:
            results[tag] = ("dump", out)
            return
        mout = os.path.join(work, tag + ".model")
        with open(dump) as fi, open(mout, "w") as fo:
            p = subprocess.run([model], stdin=fi, stdout=fo, stderr=subprocess.PIPE, timeout=3000)
        if p.returncode != 0:
            results[tag] = ("model", p.stderr.decode("utf8", "replace")[-2000:])
            return
        results[tag] = ("ok", dump, mout)

    jthreads = [threading.Thread(target=run_job, args=j) for j in jobs]
    for t in jthreads:
        t.start()
    for t in jthreads + nthreads:
        t.join()
    for tag, r in results.items():
        if r[0] != "ok":
            raise vlib.BuildError("c18 %s step failed on %s" % (r[0], tag), r[1])
    t_dumped = time.time()

    stats = {"programs": 0, "functions": 0, "reported_default": 0, "set_comparisons": 0, "model_eq_impl": 0, "impl_more_conservative": 0,
             "model_not_in_impl": 0, "cg_checked": 0, "cert_gaps_impl": 0, "cert_gaps_unexcused": 0, "native_tags": 0,
             "native_missed": 0, "scenario_instances": 0, "instructions": 0, "makeinterface": 0, "wf_failures": 0}
    gap_kinds = {}
    found_concrete = False      # a concrete failing input that is NOT a listed finding was found (known findings must not mask a
    #                             broken proof or tie)
    _violation = chk.violation

    def violation(key, what, replay, no_input=False):
        nonlocal found_concrete
        new = _violation(key, what, replay, no_input)
        if new and not no_input:
            found_concrete = True
        return new
    tie_alarms = []
    tbl = {}
    distinct = set()
    gens_by_dir = dict(gens)

    for tag, r in sorted(results.items()):
        impl = parse_dump(r[1])
        tbl, mod = parse_model(r[2])
        for pname, ip in impl.items():
            mp = mod.get(pname)
            stats["programs"] += 1
            stats["functions"] += len(ip["names"])
            stats["instructions"] += ip["Q"].get("instructions", 0)
            stats["makeinterface"] += ip["Q"].get("makeinterface", 0)
            stats["reported_default"] += len(ip["R"].get(0, ()))
            short = os.path.basename(pname.split("::")[0]) if "::" not in pname else "corpus:" + pname.split("::")[1][:60]
            if mp is None or mp["W"] != ("1", "1") or ip["Q"].get("operand_mismatch", 0):
                stats["wf_failures"] += 1
                tie_alarms.append("%s: dumped operand facts do not fit the regenerated ssa schema (wf_refs/wf_ops=%s, operand fields by "
                                  "reflection vs instr.Operands() mismatches=%d)" % (short, mp and mp["W"], ip["Q"].get("operand_mismatch", 0)))
            if ip["Q"].get("depgraph_set_diff", 0):
                d = chk.replay_dir("depgraph:" + short)
                write_replay(d, "program %s: FindReachable(state, false, false, graph) with a dependency graph (as called by the dependencies tool) "
                             "reports a set that differs from FindReachable(state, false, false, nil) in %d functions" % (pname, ip["Q"]["depgraph_set_diff"]))
                violation("depgraph-changes-result", "the dependencies tool's call of FindReachable reports a different set (%s)" % short, d)
            # (1) executable spec on the implementation's output
            allf = {f for f, fl in ip["flags"].items() if "x" not in fl}
            for s in range(4):
                R = ip["R"].get(s, set())
                extra = R - allf
                if extra:
                    d = chk.replay_dir("not-in-allfunctions:" + short)
                    write_replay(d, "program %s, selection %s: reported functions that are not in ssautil.AllFunctions: %s\nre-run: build/bin/c18dump -o x.dump %s"
                                 % (pname, SELS[s], [ip["names"][f] for f in sorted(extra)][:20], pname))
                    violation("not-in-allfunctions", "reported set not contained in the set of all functions (%s, %s): e.g. %s"
                                  % (short, SELS[s], ip["names"][min(extra)]), d)
                if s in ip["D"]:
                    stats["cg_checked"] += 1
                    # raw CallGraphReachable also follows edges to closures whose enclosing function is not reachable (the pointer
                    # analysis generates constraints for every function): those cannot execute; recorded only
                    stats["cg_unrealizable_excess"] = stats.get("cg_unrealizable_excess", 0) + len(ip["C"].get(s, set()) - ip["D"][s] - R)
                    miss = ip["D"][s] - R
                    if miss and s != 0:
                        # The pointer analysis is whole-program: with main or init excluded, CallGraphReachable still follows dynamic
                        # edges whose targets only exist because of code run from the excluded root (e.g. a closure created in a
                        # function reachable from main only and called by a helper that init also reaches).  Recorded, not alarmed.
                        stats["cg_excess_nondefault"] = stats.get("cg_excess_nondefault", 0) + len(miss)
                    elif miss:
                        names = [ip["names"][f] for f in sorted(miss)][:20]
                        d = chk.replay_dir("cg-not-contained:" + short + str(s))
                        write_replay(d, "program %s, selection %s: functions reachable in the pointer-analysis call graph "
                                     "(dataflow.CallGraphReachable restricted to realizable edges: dynamic edges only to callees whose function value a reached function creates) but "
                                     "not reported by reachability.FindReachable: %s\n"
                                     "re-run: build/bin/c18dump -cg -o x.dump %s ; compare the D and R lines" % (pname, SELS[s], names, pname),
                                     [(os.path.join(pname, "main.go"), "main.go")])
                        # classify through the certificate gaps when possible
                        keys = {}
                        if mp:
                            for g in mp["gaps"]:
                                if g["src"] == "impl" and g["fn"] in miss:
                                    keys.setdefault(gap_key(g), []).append(ip["names"][g["fn"]])
                        for key, fns in sorted((keys or {"cg-not-contained": names}).items()):
                            violation(key, "call-graph reachable function not reported (%s, %s): %s" % (short, SELS[s], sorted(set(fns))[:3]), d)
            for s1, s2 in SEL_LE:
                if not ip["R"].get(s2, set()) <= ip["R"].get(s1, set()):
                    bad = sorted(ip["R"][s2] - ip["R"][s1])
                    d = chk.replay_dir("not-monotone:" + short)
                    write_replay(d, "program %s: reported set under '%s' is not contained in the set under '%s': %s"
                                 % (pname, SELS[s2], SELS[s1], [ip["names"][f] for f in bad][:20]))
                    violation("roots-not-monotone", "excluding roots grows the reported set (%s: %s vs %s)" % (short, SELS[s2], SELS[s1]), d)
            # (2) faithful model vs impl
            if mp:
                for s in range(4):
                    stats["set_comparisons"] += 1
                    M, R = mp["R"].get(s), ip["R"].get(s, set())
                    if M is None:
                        tie_alarms.append("%s %s: model ran out of fuel" % (short, SELS[s]))
                        continue
                    if M == R:
                        stats["model_eq_impl"] += 1
                    elif M <= R:
                        stats["impl_more_conservative"] += 1
                        chk.notes.append("%s %s: implementation reports %d functions more than the model, e.g. %s (not an alarm)"
                                         % (short, SELS[s], len(R - M), ip["names"][min(R - M)]))
                    else:
                        stats["model_not_in_impl"] += 1
                        tie_alarms.append("%s %s: model reports %d functions the implementation does not, e.g. %s"
                                          % (short, SELS[s], len(M - R), [ip["names"].get(f, f) for f in sorted(M - R)][:5]))
                # (3) certificate on the implementation's output
                for (s, src), (ng, nu) in mp["S"].items():
                    if src == "impl":
                        if s == 0:
                            stats["cert_gaps_impl"] += ng
                            stats["cert_gaps_unexcused"] += nu
                for g in mp["gaps"]:
                    if g["src"] == "impl":
                        k = gap_key(g)
                        gap_kinds[k] = gap_kinds.get(k, 0) + 1
            # (4) native ground truth
            if pname in gens_by_dir:
                tags = gens_by_dir[pname]
                rc, out, err = native[pname]
                if rc != 0:
                    raise vlib.BuildError("generated program does not run: %s" % pname, err[-3000:])
                executed = sorted({int(m.group(1)) for m in re.finditer(r"^E (\d+)$", err + "\n" + out, flags=re.M)})
                R0 = ip["R"].get(0, set())
                gaps_by_fn = {}
                if mp:
                    for g in mp["gaps"]:
                        if g["src"] == "impl":
                            gaps_by_fn.setdefault(g["fn"], []).append(g)
                seen_sc = set()
                root_missing = any(g["kind"] == 1 for gl in gaps_by_fn.values() for g in gl)
                for tg in executed:
                    stats["native_tags"] += 1
                    kind, ctx, n = tags.get(tg, ("?", "?", 0))
                    if n and n not in seen_sc:
                        seen_sc.add(n)
                        distinct.add((kind, ctx))
                    fids = ip["tagfid"].get(tg)
                    if not fids:
                        chk.notes.append("native: no function with enter(%d) found in the dump of %s" % (tg, short))
                        continue
                    if any(f in R0 for f in fids):     # a generic function and its instances carry the same tag
                        continue
                    fid = fids[-1]
                    stats["native_missed"] += 1
                    gs = [g for f in fids for g in gaps_by_fn.get(f, [])]
                    if gs:
                        key = gap_key(gs[0])
                    elif root_missing:
                        key = "missed-root"        # downstream of an entry point that is not reported
                    else:
                        key = "missed:" + kind
                    fname = ip["names"][fid]
                    d = chk.replay_dir(key + ":" + fname)
                    write_replay(d, "generated program (seed %d): function %s (scenario %d '%s', context %s, tag %d) EXECUTES natively "
                                 "(go run prints 'E %d') but is NOT in the set reported by reachability.FindReachable (main and init as roots).\n"
                                 "cause according to the certificate check: %s\n"
                                 "re-run: python3 tools/check.py C18 --replay %s   (runs `go run .` here, then the real FindReachable through "
                                 "build/bin/c18dump, and lists the executed-but-unreported functions); by hand: go run . 2>&1 | grep 'E %d' ; "
                                 "argot reachability . | grep '%s'"
                                 % (chk.seed, fname, n, kind, ctx, tg, tg, [(gap_key(g), g["type"], g["field"]) for g in gs] or "none found", d, tg,
                                    fname.split(".")[-1].strip("()")),
                                 [(os.path.join(pname, "main.go"), "main.go"), (os.path.join(pname, "go.mod"), "go.mod")])
                    violation(key, "executed function not reported reachable: %s (scenario '%s')" % (fname, kind), d)
                    if len(chk.cov["samples"]) < 8:
                        chk.sample({"missed": fname, "scenario": kind, "context": ctx, "cause": key})
                stats["scenario_instances"] += len(seen_sc)
                for n, (kind, ctx) in sorted({tags[t][2]: tags[t][:2] for t in executed if tags.get(t, ("", "", 0))[2]}.items())[:3]:
                    chk.sample({"scenario": kind, "context": ctx, "executed_and_reported": True})
                # every scenario driver must have run, otherwise the generator is broken
                notrun = sorted({n for (k, c, n) in tags.values() if n} - seen_sc)
                if notrun:
                    chk.notes.append("generated scenarios whose driver did not execute: %s" % notrun[:10])
            else:
                chk.sample({"program": short, "functions": len(ip["names"]), "reported": {SELS[s]: len(ip["R"].get(s, ())) for s in range(4)},
                            "cg_reachable": {SELS[s]: len(v) for s, v in ip["D"].items()}})
            # non-trivial inputs: functions of the program with at least one kept instruction are counted by the dumper
            stats["instructions_with_function_operands"] = stats.get("instructions_with_function_operands", 0) + ip["ninstr_kept"]

    # ---- protocol
    if tie_alarms and not (found_concrete and chk.has_new_concrete()):
        d = chk.replay_dir("tie")
        write_replay(d, "T-dump tie broken (extracted model Model/Reach.v + regenerated tables vs reachability.FindReachable) and no executed-but-"
                     "unreported function was found by the native search:\n  " + "\n  ".join(tie_alarms[:20]) +
                     "\ndumps and model outputs: build/c18/*.dump, build/c18/*.model; re-run: build/bin/c18dump -o x.dump <dir> && build/bin/c18model < x.dump")
        violation("tie-broken", "model/implementation correspondence broken: " + tie_alarms[0], d, no_input=True)
    elif tie_alarms:
        chk.notes.append("tie disagreements (explained by the concrete violations above): " + "; ".join(tie_alarms[:5]))
    chk.proof_broken(failed, found_concrete)

    hit = {k for k, _ in chk.known_hit}
    stale = [k["key"] for k in vlib.load_known() if k["property"] == PROP and k["key"] not in hit]
    if stale:
        chk.cov["stale_known_finding"] = stale
    for key in VARIANTS:
        if vstate.get(key) == "refuted" and key in listed and key not in hit:
            chk.notes.append("the regenerated tables still show the listed defect %s but the native search did not exhibit a missed function" % key)

    chk.cov["evaluations"] = stats["set_comparisons"] + stats["native_tags"] + stats["cg_checked"]
    chk.cov["distinct_nontrivial"] = len(distinct) + stats["programs"] * 4
    chk.cov["rule"] = ("distinct (scenario kind, calling context) pairs of seed-generated programs whose functions were observed executing natively and "
                       "checked against the reported set, plus (program, root selection) pairs on which the real FindReachable was compared with the "
                       "extracted model, the call-graph reachable set and the certificate check; a program is non-trivial when it has >=1 function "
                       "constant operand and >=1 MakeInterface (all dumped programs have thousands: see distribution)")
    chk.cov["traces_validated_against_impl"] = stats["model_eq_impl"]
    stats["cert_gap_kinds_on_impl_output"] = gap_kinds
    stats["table"] = tbl
    stats["phases_s"] = {"build+prove": round(t_proved - t0, 1), "dump+model+native": round(t_dumped - t_proved, 1)}
    chk.cov["distribution"] = stats
    chk.cov["partial_or_refuted"] = {
        "reach_sound_full / Sound.reach_sound_now": "full statement; Sound.v compiles iff the regenerated tables show neither defect (now: %s)" % vstate.get("sound"),
        "reach_sound": "all tables with operand_cover = true; side condition iface_cover (discharged by AssertRepaired.iface_cover_discharged when repaired)",
        "reach_sound_partial": "holds of any tree whose only uncovered operand fields are Defer/Go call arguments: sound on every program "
                               "without such an argument and without a method callable only after an interface assertion",
        "DeferRefuted / AssertRefuted (_refuted witnesses)": "compile iff the respective defect is present (state: %s)" % variant,
    }
    chk.assumptions += [
        "abstract execution model (Proofs/Reach.v executed): functions are entered only from the roots, through a *ssa.Function constant that is "
        "an operand of an instruction of an executed function, or as a method of a type converted to an interface by an executed MakeInterface "
        "(reflection, cgo, runtime-internal calls and linkname are outside the model)",
        "operand fields classified as unable to hold a function constant (Model/ReachGen.v nonfun_names) are checked on every dumped program "
        "(wf_ops): %d programs, %d failures" % (stats["programs"], stats["wf_failures"]),
        "native ground truth covers the functions of the generated main package only (they log their entry); default root selection",
        "reported >= dataflow.CallGraphReachable is checked on the realizable part of the pointer call graph: a dynamic edge is followed only "
        "once the callee's function value is created by a reached function (it is a *ssa.Function operand of one of its instructions - "
        "closures, $bound/$thunk wrappers, stored or passed functions - or a method of a type it converts to an interface); the pointer "
        "analysis generates constraints for ALL functions, so raw reachability includes e.g. os.chmod$1 via os.ignoringEINTR although "
        "os.chmod is unreachable, or (*dst.printer).Write via an io.Writer invoke although nothing reached creates a printer: %d such "
        "functions this run) and "
        % stats.get("cg_unrealizable_excess", 0) +
        "is an alarm for the default root selection; with -nomain/-noinit the pointer analysis still "
        "analyses the whole program, so its dynamic edges may exist only because of the excluded root: the excess (%d functions this run) is "
        "recorded in distribution.cg_excess_nondefault, not alarmed" % stats.get("cg_excess_nondefault", 0),
        "x/tools SSA construction and ssautil.AllFunctions are trusted; operand fields are read by reflection and cross-checked with Instruction.Operands()",
    ]
    return chk.finish()


def replay(chk, path):
    p = os.path.join(path, "replay.txt") if os.path.isdir(path) else path
    print(open(p).read())
    if os.path.isdir(path) and os.path.exists(os.path.join(path, "main.go")):
        vlib.build_harness(["c18dump"])
        rc, out, err = vlib.sh2(["go", "run", "."], cwd=path, timeout=600)
        executed = sorted({int(m.group(1)) for m in re.finditer(r"^E (\d+)$", err + "\n" + out, flags=re.M)})
        dump = os.path.join(path, "replay.dump")
        vlib.sh([os.path.join(vlib.BIN, "c18dump"), "-o", dump, path], timeout=900)
        ip = list(parse_dump(dump).values())[0]
        missed = [(t, ip["names"][ip["tagfid"][t][-1]]) for t in executed
                  if t in ip["tagfid"] and not any(f in ip["R"][0] for f in ip["tagfid"][t])]
        print("executed natively: %d functions; executed but not reported by FindReachable: %s" % (len(executed), missed))
        return 1 if missed else 0
    return 0
