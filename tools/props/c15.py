"""C15 - escape graphs form a join-semilattice, transfer functions are monotone, worklist order is irrelevant.

proof     : coq/theories/Properties/C15.v  (model Model/EscGraph.v, proofs Proofs/EscGraph.v, generic Base/Fix.v)
tie T-dump: harness/cmd/c15dump runs the REAL escape analysis (hook analysis/escape/verif_c15.go, tag verif) on the
            escape / taint test programs, captures the graphs that arise, weakened variants and random graphs, and
            writes cases for the extracted model (build/bin/c15model):  Go Merge / LessEqual / Matches / AddEdge /
            MergeNodeStatus / AddNode / WeakAssign / computeEdgeClosure  ==  model, on every case
spec      : Go Merge == union of edges + max of statuses + closure (join_naive) on invariant-satisfying inputs;
            the algebraic laws and monotonicity of the primitives evaluated on the Go side
mono      : the built-in per-instruction self-check switched on, violations COLLECTED; the real transferFunction
            applied to weakened pre-graphs; final summaries and block graphs equal across worklist permutations
"""
import collections
import hashlib
import json
import os
import shutil
import subprocess

import vlib

ESC = "analysis/escape/testdata/"
TAINT = "analysis/taint/testdata/"
PROGS_QUICK = [ESC + "simple-escape", ESC + "builtins-escape", ESC + "escape-locality", ESC + "interprocedural-escape",
               ESC + "stdlib-escape", TAINT + "escape-integration", TAINT + "sample-escape"]
PROGS_THOROUGH = PROGS_QUICK + [ESC + "trivial", TAINT + "closures", TAINT + "example1", TAINT + "fields",
                                TAINT + "interfaces", TAINT + "panics", TAINT + "selects"]
OPTS = {"quick": ["-pairs", "40", "-triples", "20", "-random", "30", "-perms", "5", "-perm-mono", "1", "-mono-cap", "30",
                  "-weak-transfer", "700"],
        "thorough": ["-pairs", "400", "-triples", "200", "-random", "300", "-perms", "12", "-perm-mono", "4", "-mono-cap", "0",
                     "-weak-transfer", "6000"]}


def blocks(path):
    """go.txt / model.txt -> ({(kind,id): text}, {id: [(wf,closed)...]}, [notes])"""
    res, info, notes = {}, {}, []
    cur = None
    buf = []
    kind = None
    for l in open(path, errors="replace"):
        l = l.rstrip("\n")
        if l.startswith("C ") or l.startswith("S "):
            kind, cur = l[0], l.split()[1]
            buf = []
        elif l == ".":
            if cur is not None:
                res[(kind, cur)] = "\n".join(buf)
            cur = None
        elif l.startswith("I "):
            p = l.split()
            info.setdefault(p[1], []).append((int(p[3]), int(p[4])))
        elif l.startswith("!"):
            notes.append(l)
        elif cur is not None:
            buf.append(l)
    return res, info, notes


def case_texts(path):
    """cases.txt -> {id: (op, full text)}"""
    res = {}
    cur = None
    buf = []
    for l in open(path, errors="replace"):
        if l.startswith("C "):
            p = l.split()
            cur = p[1]
            buf = [l]
            op = p[2]
        elif cur is not None:
            buf.append(l)
            if l.strip() == ".":
                res[cur] = (op, "".join(buf))
                cur = None
    return res


def nontrivial(op, text):
    """non-trivial: every input graph has >= 2 nodes and >= 1 edge, and for binary operations the two graphs differ"""
    gs = text.split("\ng\n")[1:]
    if not gs:
        return False
    for g in gs:
        if g.count("\nn ") + (1 if g.startswith("n ") else 0) < 2 or ("\ne " not in g and not g.startswith("e ")):
            return False
    if len(gs) == 2 and gs[0].strip().rstrip(".").strip() == gs[1].strip().rstrip(".").strip():
        return False
    return True


def run(chk):
    tier = chk.tier
    failed = chk.prove("theories/Properties/C15.v")
    vlib.build_harness(["c15dump"])
    model = vlib.build_model("c15")
    work = os.path.join(vlib.BUILD, "c15")
    shutil.rmtree(work, ignore_errors=True)
    os.makedirs(work)

    progs = [p for p in (PROGS_QUICK if tier == "quick" else PROGS_THOROUGH) if os.path.isdir(os.path.join(vlib.REPO, p))]
    # regression program of the known finding mono-call-load-on-fresh-subnode (absolute path: lives in /verif/corpus)
    progs.append(os.path.join(vlib.VERIF, "corpus", "regress", "c15-call-load"))
    if not progs:
        raise vlib.BuildError("no escape test programs found under %s" % vlib.REPO, "")
    # the dumps are independent: run them in parallel (loading + pointer analysis of one program dominates)
    procs = []
    for i, p in enumerate(progs):
        out = os.path.join(work, "%02d-%s" % (i, os.path.basename(p)))
        cmd = [os.path.join(vlib.BIN, "c15dump"), "-out", out, "-seed", str(chk.seed * 131 + i)] + OPTS[tier] + [os.path.join(vlib.REPO, p)]
        procs.append((p, out, cmd, subprocess.Popen(cmd, env=vlib.GOENV, stdout=subprocess.PIPE, stderr=subprocess.STDOUT, text=True)))
    # regression program of the (repaired) defect mono-fresh-tmp-node: json.Marshal with a pointer-receiver MarshalJSON
    # in a loop; before the repair the block fixpoint was never reached.  The dump has a CPU-time watchdog (exit status 4).
    regress = os.path.join(vlib.VERIF, "corpus", "regress", "c15-json-loop")
    rout = os.path.join(work, "regress-json-loop")
    rcmd = [os.path.join(vlib.BIN, "c15dump"), "-out", rout, "-cpu-limit", "20", "-perms", "0", "-pairs", "1", "-triples", "0",
            "-random", "0", "-weak-transfer", "0", regress]
    rproc = subprocess.Popen(rcmd, env=vlib.GOENV, stdout=subprocess.PIPE, stderr=subprocess.STDOUT, text=True)
    dumps = []
    wall = 3600 if tier == "quick" else 14400
    for p, out, cmd, pr in procs:
        try:
            log, _ = pr.communicate(timeout=wall)
        except subprocess.TimeoutExpired:
            pr.kill()
            log = "[wall-clock timeout after %d s; the dump has its own CPU-time watchdog, so this machine is too slow]" % wall
            pr.returncode = 124
        if pr.returncode == 4:
            # CPU-time watchdog: an escape-analysis run (the code's order or a permuted one) did not reach its fixpoint
            why = open(os.path.join(out, "nonterm.txt")).read() if os.path.exists(os.path.join(out, "nonterm.txt")) else log
            d = chk.replay_dir("nontermination:" + p)
            open(os.path.join(d, "replay.txt"), "w").write("%s\nprogram: %s\nre-run: %s\n" % (why, p, " ".join(cmd)))
            chk.violation("nontermination:" + os.path.basename(p), why.strip(), d)
            for _, _, _, q in procs:
                if q.poll() is None:
                    q.kill()
            rproc.kill()
            return chk.finish()
        if pr.returncode != 0:
            for _, _, _, q in procs:
                if q.poll() is None:
                    q.kill()
            rproc.kill()
            raise vlib.BuildError("c15dump failed on %s (rc %s)" % (p, pr.returncode), log)
        dumps.append((p, out))
    try:
        rlog, _ = rproc.communicate(timeout=wall)
    except subprocess.TimeoutExpired:
        rproc.kill()
        rlog = "[timeout]"
    if rproc.returncode == 4:
        d = chk.replay_dir("mono-fresh-tmp-node")
        open(os.path.join(d, "replay.txt"), "w").write(
            "%s\nprogram: corpus/regress/c15-json-loop (json.Marshal of a type with a pointer-receiver MarshalJSON inside a for loop)\n"
            "re-run: %s\nor: cd corpus/regress/c15-json-loop && argot taint -config config.yaml .   (hangs)\n"
            % (open(os.path.join(rout, "nonterm.txt")).read(), " ".join(rcmd)))
        chk.violation("mono-fresh-tmp-node", "block fixpoint not reached on corpus/regress/c15-json-loop (fresh tmp node per application)", d)
    elif rproc.returncode == 0:
        chk.notes.append("regression corpus/regress/c15-json-loop reaches its fixpoint (mono-fresh-tmp-node is repaired in /repo)")
    else:
        chk.notes.append("regression program c15-json-loop could not be analysed (rc %s)" % rproc.returncode)
    # run the extracted model on every cases file (parallel)
    mprocs = []
    for p, out in dumps:
        mprocs.append((p, out, subprocess.Popen("%s < %s > %s" % (model, os.path.join(out, "cases.txt"), os.path.join(out, "model.txt")),
                                                shell=True, stderr=subprocess.PIPE, text=True)))
    for p, out, pr in mprocs:
        _, err = pr.communicate(timeout=1800)
        if pr.returncode != 0:
            raise vlib.BuildError("c15model failed on the cases of %s" % p, err or "")

    stats = collections.Counter()
    ops = collections.Counter()
    distinct = set()
    found_concrete = False
    tie_broken = []
    spec_broken = []
    per_prog = {}
    seen_keys = collections.Counter()
    for p, out in dumps:
        st = json.load(open(os.path.join(out, "stats.json")))
        pr = st["programs"][0]
        per_prog[os.path.basename(p)] = {k: pr[k] for k in ("functions_summarized", "block_graphs", "mono_records", "mono_pairs_checked",
                                                            "mono_pairs_comparable", "mono_violations_forward", "mono_violations_reverse",
                                                            "mono_violations_logged_by_builtin_check", "captured_graphs_distinct",
                                                            "captured_graphs_violating_inv", "perm_runs", "perm_mismatches",
                                                            "perm_function_steps", "max_nodes", "weakened_transfer_checked",
                                                            "weakened_transfer_panics")}
        for k, v in st["stats"].items():
            stats[k] += v
        for k in ("mono_records", "mono_pairs_checked", "mono_pairs_comparable", "perm_runs", "weakened_transfer_checked",
                  "functions_summarized", "block_graphs", "captured_graphs_distinct", "captured_graphs_violating_inv"):
            stats[k] += pr[k]
        for k, v in pr["instr_kinds"].items():
            stats["instr:" + k] += v
        # ---- violations found on the Go side (laws, monotonicity, permutations): concrete inputs
        for v in (st["violations"] or []):
            key = v["key"]
            seen_keys[key] += 1
            if seen_keys[key] > 1:
                continue
            found_concrete = True
            d = chk.replay_dir(key)
            with open(os.path.join(d, "replay.txt"), "w") as f:
                f.write("%s\n\nprogram: %s\n%s\n\nre-run: %s -out /tmp/c15-replay -seed %d %s %s\n(then see /tmp/c15-replay/viol.txt)\n"
                        % (v["what"], p, v["detail"], os.path.join(vlib.BIN, "c15dump"), chk.seed * 131 + progs.index(p),
                           " ".join(OPTS[tier]), os.path.join(vlib.REPO, p)))
            chk.violation(key, v["what"], d)
        # ---- model vs Go
        go, _, _ = blocks(os.path.join(out, "go.txt"))
        mod, info, notes = blocks(os.path.join(out, "model.txt"))
        cases = case_texts(os.path.join(out, "cases.txt"))
        unstable_model = set(n.split()[1] for n in notes if "order-dependent" in n)
        for n in notes:
            if "join_spec differs" in n:
                stats["join_spec_vs_naive_differs"] += 1
        for (kind, cid), gtxt in go.items():
            op, ctext = cases[cid]
            ops[op] += 1
            stats["cases"] += 1
            inv = all(a and b for a, b in info.get(cid, [(0, 0)]))
            if inv:
                stats["cases_inside_inv"] += 1
            if nontrivial(op, ctext):
                distinct.add(hashlib.sha1(ctext.split("\n", 1)[1].encode() + op.encode()).hexdigest())
            if gtxt == "u":
                stats["skipped_order_dependent_go"] += 1
                continue
            if cid in unstable_model:
                if inv:
                    # the model's result depends on the iteration order although the inputs satisfy the invariant:
                    # contradicts the proved order-independence -> the model/driver is broken
                    tie_broken.append((p, cid, op, ctext, gtxt, mod.get(("C", cid)), "model order-dependent inside Inv"))
                stats["skipped_order_dependent_model"] += 1
                continue
            if mod.get(("C", cid)) != gtxt:
                if inv:
                    tie_broken.append((p, cid, op, ctext, gtxt, mod.get(("C", cid)), "result differs"))
                else:
                    # some input graph is outside the invariant (a perturbed graph, e.g. an edge key without a status
                    # entry makes AddNode destructive and the Go result depend on map iteration order): the theorems
                    # and the equality tie are about graphs inside Inv; counted, not an alarm
                    stats["mismatch_outside_inv_not_alarmed"] += 1
            else:
                stats["model_equal"] += 1
                if not inv:
                    stats["model_equal_outside_inv"] += 1
            if ("S", cid) in mod:
                stats["spec_compared"] += 1
                if mod[("S", cid)] != gtxt:
                    spec_broken.append((p, cid, op, ctext, gtxt, mod[("S", cid)]))
        if len(chk.cov["samples"]) < 6:
            for cid, (op, ctext) in cases.items():
                if op == "merge" and nontrivial(op, ctext) and ("C", cid) in go and len(ctext) < 1500:
                    chk.sample({"program": os.path.basename(p), "case": ctext.strip().split("\n"), "go_result": go[("C", cid)].split("\n")})
                    break

    # executable spec of the join vs the real Merge: a concrete contradiction of the property's statement
    if spec_broken:
        p, cid, op, ctext, gtxt, stxt = spec_broken[0]
        found_concrete = True
        d = chk.replay_dir("merge-spec")
        open(os.path.join(d, "case.txt"), "w").write(ctext)
        open(os.path.join(d, "replay.txt"), "w").write(
            "Merge of two invariant-satisfying graphs is not the closure of (union of edges, maximum of statuses)\n"
            "program %s case %s (%d such cases)\n\ninput (see case.txt):\n%s\nGo Merge result:\n%s\n\nspecification (join_naive):\n%s\n\n"
            "re-run the model: build/bin/c15model < case.txt\n" % (p, cid, len(spec_broken), ctext, gtxt, stxt))
        chk.violation("merge-spec", "Merge differs from close(union of edges, max of statuses) on %d captured/derived pairs" % len(spec_broken), d)
    if tie_broken:
        byop = collections.Counter(t[2] for t in tie_broken)
        p, cid, op, ctext, gtxt, mtxt, why = tie_broken[0]
        d = chk.replay_dir("tie:" + op)
        open(os.path.join(d, "case.txt"), "w").write(ctext)
        open(os.path.join(d, "replay.txt"), "w").write(
            "T-dump tie broken (%s): the real %s and the extracted model Model/EscGraph.v disagree on %d cases %s;\n"
            "the theorems of Properties/C15.v no longer cover this code.\nprogram %s case %s\n\ninput (case.txt):\n%s\nGo:\n%s\n\nmodel:\n%s\n\n"
            "re-run the model: build/bin/c15model < case.txt\n" % (why, op, len(tie_broken), dict(byop), p, cid, ctext, gtxt, mtxt))
        if found_concrete and chk.has_new_concrete():
            chk.notes.append("tie broken on %d cases %s (concrete law/monotonicity violations reported above)" % (len(tie_broken), dict(byop)))
        else:
            # search for a concrete failing input among the disagreeing cases: does the Go result contradict the
            # property's spec (closedness / upper bound / least) on its own?  The Go-side law evaluation above did not
            # find one, so report the tie.
            chk.violation("tie-broken", "model/implementation correspondence broken on %d cases %s, e.g. %s case %s"
                          % (len(tie_broken), dict(byop), os.path.basename(p), cid), d, no_input=True)
    chk.proof_broken(failed, found_concrete)

    if "mono-call-load-on-fresh-subnode" not in seen_keys:
        chk.cov["stale_known_finding"] = "mono-call-load-on-fresh-subnode not observed in this run"
    stats["go_violation_keys"] = len(seen_keys)
    chk.cov["evaluations"] = stats["cases"] + stats["law_pairs"] + stats["law_triples"] + stats["mono_pairs_checked"] + \
        stats["weakened_transfer_checked"] + stats["prim_mono_checked"]
    chk.cov["distinct_nontrivial"] = len(distinct)
    chk.cov["rule"] = ("differential cases (operation + input graphs) over graphs captured from the real analysis (initial, block-end, "
                       "instruction pre/post, final), weakened variants (edges removed / statuses lowered, re-closed) and random graphs over "
                       "the programs' nodes; non-trivial = every input graph has >= 2 nodes and >= 1 edge and the two inputs of a binary "
                       "operation differ; distinct = distinct (operation, arguments, graphs) text")
    chk.cov["traces_validated_against_impl"] = stats["model_equal"]
    chk.cov["distribution"] = {"operations": dict(ops), "stats": dict(stats), "programs": per_prog, "go_violation_keys": dict(seen_keys)}
    chk.cov["partial_or_refuted"] = [
        "proved in full: lessEqual_spec, matches_spec, merge_spec (= closure(union, max), order-free), merge_idem/comm/assoc/ub/lub, "
        "prim_mono for add_node, add_edge, merge_node_status, weak_assign (flat), merge (both arguments), closure fuel bound, "
        "wl_order_irrelevant + block_fixpoint_order_free + wl_terminates (height certificate)",
        "NOT proved (tied only): monotonicity of the 40 cases of transferFunction and of EscapeGraph.Call; WeakAssign/LoadField/StoreField "
        "with subnode recursion (depend on the node group's mutable subnode/load tables); termination of the concrete analysis "
        "(needs a finite node universe)",
        "repaired finding mono-fresh-tmp-node (invokeMethodDirectly allocated a fresh node per application; non-termination inside "
        "loops, corpus/regress/c15-json-loop) - a reappearance is a VIOLATION",
        "known finding mono-call-load-on-fresh-subnode: EscapeGraph.Call is not monotone (load-node rule consults the status of the "
        "partially updated graph for field subnodes created by the call itself), corpus/regress/c15-call-load"]
    chk.assumptions += [
        "graphs inside the invariant Inv (dom edges = dom status, endpoints present, flags non-empty, status >= intrinsic, closed along "
        "edges): %d captured graphs violated it" % stats["captured_graphs_violating_inv"],
        "Go map iteration order is modelled by an arbitrary reordering function; results are proved independent of it",
        "the equality tie model == Go alarms only when every input graph of the case satisfies the model's inv_b (wf_b && closed_b, "
        "printed per case by the driver); cases with an input outside Inv are compared and counted (model_equal_outside_inv / "
        "mismatch_outside_inv_not_alarmed) but never alarm, because there Go's result may depend on map iteration order",
        "node identity: a node is its number; the intrinsic status is a function of the node kind (dumped per node)",
        "worklist permutations: block order and function order chosen by a seeded PRNG through the hook's re-implemented driver loops; "
        "summaries compared modulo node renaming by structural names",
    ]
    chk.notes.append("reverse-direction (new pre <= old pre) differences are informational: the node group's hidden state and callee "
                     "summaries grow during the analysis; %d seen" % stats["mono_reverse_violations"])
    return chk.finish()


def replay(chk, path):
    f = os.path.join(path, "replay.txt") if os.path.isdir(path) else path
    print(open(f).read())
    case = os.path.join(path, "case.txt")
    if os.path.isdir(path) and os.path.exists(case) and os.path.exists(os.path.join(vlib.BIN, "c15model")):
        rc, out = vlib.sh("%s < %s" % (os.path.join(vlib.BIN, "c15model"), case), timeout=120)
        print("model on case.txt:\n" + out)
    return 0
