"""C17 - dataflow graphs are structurally consistent in both directions.

proof      : coq/theories/Properties/C17.v   (model: Model/GraphOps.v, proofs: Proofs/GraphOps.v)
tie T-cert : harness/cmd/c17dump graphs  -> real graphs after the intra pass, after BuildGraph, after on-demand
             construction steps and at the end of the traversal (taint eager / on demand, backtrace on demand);
             the extracted verified validators (build/bin/c17model: check_edges/calls/closures/globals/idx) run on
             every snapshot, and an independent Python re-check of the same dump guards parser and driver
tie T-dump : harness/cmd/c17dump ops     -> seed-generated operation sequences (updateEdgeInfo+addInEdge,
             add{Param,Return}EdgeByPos, build = edges+SyncGlobals+Constructed, PopulateGraphFromSummary,
             resolveCalleeSummary, Sync) run on real SummaryGraph objects through analysis/dataflow/verif_c17.go and
             on the extracted model; resulting adjacency / registrations / global sets compared
behaviour  : harness/cmd/c17dump fb      -> forward (taint) and backward (backtrace) traversal of the real tool on a
             generated program; a (sink, source) pair connected forwards must be connected backwards
"""
import collections
import concurrent.futures
import hashlib
import os
import re
import shutil

import vlib

T = "analysis/taint/testdata/"
B = "analysis/backtrace/testdata/"
GRAPHS_QUICK = [(T + "tuples", "taint-eager,taint-ondemand"), (T + "globals", "taint-eager,taint-ondemand"),
                (T + "closures", "taint-ondemand"),
                (T + "stdlib", "taint-eager"), (B + "closures", "backtrace-ondemand")]
GRAPHS_THOROUGH = [(T + d, "taint-eager,taint-ondemand") for d in
                   ("tuples", "globals", "interfaces", "closures", "stdlib", "basic", "fields", "parameters", "defers",
                    "closures_paper", "closures_flowprecise", "interface-summaries", "example1", "with-context",
                    "panics", "selects", "builtins", "intra-procedural", "validators", "sanitizers")] + \
                  [(d, "backtrace-eager,backtrace-ondemand") for d in
                   (B + "backtrace", B + "closures", B + "closures_paper", B + "closures_flowprecise", T + "closures",
                    T + "closures_paper")]
OPS_QUICK = [T + "closures"]
OPS_THOROUGH = OPS_QUICK + [T + "globals", T + "tuples", T + "interfaces", T + "fields", T + "closures_paper", T + "basic"]

CLAUSES = ("edges", "calls", "closures", "globals", "idx", "idxp", "clean")


# ---------------------------------------------------------------------------------- generated program
def gen_program(seed, n):
    """n scenario functions; shapes exercise tuples (two / three results of one call flowing into one node), closures,
    globals, interface calls.  Returns (source text, {i: shape})."""
    rnd = vlib.lcg(seed)
    out = ["package main", "", 'import "fmt"', "", "type I interface{ M(string) (string, string) }", "type T1 struct{}",
           "type T2 struct{ f string }", "func (T1) M(x string) (string, string) { return x, \"k\" }",
           "func (t T2) M(x string) (string, string) { return t.f, x }", "var sel int", ""]
    shapes = {}
    calls = []
    for i in range(n):
        k = rnd(8)
        shapes[i] = k
        out.append('func source%d() string { return fmt.Sprint("s", %d) }' % (i, i))
        out.append("func sink%d(x string)    {}" % i)
        pos = rnd(2)
        order = rnd(2)
        ab = "a + b" if order == 0 else "b + a"
        if k in (0, 1, 2):     # two results of one call into one argument
            rs = ("source%d(), \"ok\"" if pos == 0 else "\"ok\", source%d()") % i
            out.append("func two%d() (string, string) { return %s }" % (i, rs))
            out.append("func t%d() {\n\ta, b := two%d()\n\tsink%d(%s)\n}" % (i, i, i, ab))
        elif k == 3:           # the two results flow into the return node of a wrapper
            rs = ("source%d(), \"ok\"" if pos == 0 else "\"ok\", source%d()") % i
            out.append("func two%d() (string, string) { return %s }" % (i, rs))
            out.append("func wrap%d() string {\n\ta, b := two%d()\n\treturn %s\n}" % (i, i, ab))
            out.append("func t%d() { sink%d(wrap%d()) }" % (i, i, i))
        elif k == 4:           # closure capturing
            out.append("func t%d() {\n\tx := source%d()\n\tf := func() string { return x + \"c\" }\n\tsink%d(f())\n}" % (i, i, i))
        elif k == 5:           # global
            out.append("var g%d string" % i)
            out.append("func w%d() { g%d = source%d() }" % (i, i, i))
            out.append("func t%d() {\n\tw%d()\n\tsink%d(g%d)\n}" % (i, i, i, i))
        elif k == 6:           # interface method with two results
            out.append("func pick%d() I {\n\tif sel > %d {\n\t\treturn T1{}\n\t}\n\treturn T2{f: \"z\"}\n}" % (i, i))
            out.append("func t%d() {\n\ta, b := pick%d().M(source%d())\n\tsink%d(%s)\n}" % (i, i, i, i, ab))
        else:                  # plain
            out.append("func id%d(x string) string { return x }" % i)
            out.append("func t%d() { sink%d(id%d(source%d())) }" % (i, i, i, i))
        calls.append("\tt%d()" % i)
    out.append("func main() {\n\tsel = len(fmt.Sprint())\n" + "\n".join(calls) + "\n}")
    return "\n".join(out) + "\n", shapes


def gen_shapes():
    """A fixed program with a call node of every shape: call / defer / go  x  {static function, closure literal (capturing and
    not), method, bound method, interface invoke, function value}  x  {0, 1, 2 arguments}, every callee user-defined; tainted
    data reaches every callee (through the arguments, or through a global for the argument-less ones) so that on-demand
    summarisation builds them; plus globals written in package initialisers, in init functions, in generic instances, and
    closures created in init."""
    o = ["package main", "", 'import "fmt"', "",
         "func source() string  { return fmt.Sprint(\"s\") }", "func sink(x string)     {}", "",
         "type I interface {\n\tM0()\n\tM1(a string)\n\tM2(a, b string)\n}", "type T struct{ f string }",
         "func (t T) M0()             { sink(t.f + gT) }", "func (t T) M1(a string)     { sink(a + t.f) }",
         "func (t T) M2(a, b string)  { sink(a + b) }", "type U struct{}",
         "func (U) M0()            { sink(gU) }", "func (U) M1(a string)    { sink(a) }", "func (U) M2(a, b string) { sink(b) }",
         "var gT, gU, gS, gV, gC string", "var sel int", "",
         "func f0()            { sink(gS) }", "func f1(a string)    { sink(a) }", "func f2(a, b string) { sink(a + b) }",
         "func h0()            { sink(gV) }", "func h1(a string)    { sink(a + \"h\") }", "func h2(a, b string) { sink(b + a) }",
         "func pick0() func() {\n\tif sel > 1 {\n\t\treturn f0\n\t}\n\treturn h0\n}",
         "func pick1() func(string) {\n\tif sel > 1 {\n\t\treturn f1\n\t}\n\treturn h1\n}",
         "func pick2() func(string, string) {\n\tif sel > 1 {\n\t\treturn f2\n\t}\n\treturn h2\n}",
         "func pickI() I {\n\tif sel > 2 {\n\t\treturn T{f: source()}\n\t}\n\treturn U{}\n}", ""]
    calls = []
    args = {0: "", 1: "x", 2: "x, y"}
    params = {0: "", 1: "a string", 2: "a, b string"}
    body = {0: "sink(gC)", 1: "sink(a)", 2: "sink(a + b)"}
    bodyc = {0: "sink(gC + z)", 1: "sink(a + z)", 2: "sink(a + b + z)"}
    for kw, kn in (("", "call"), ("defer ", "defer"), ("go ", "go")):
        for form in ("static", "closure", "closurecap", "method", "bound", "invoke", "value"):
            for n in (0, 1, 2):
                name = "s_%s_%s_%d" % (kn, form, n)
                pre = ["\tx, y := source(), \"y\"", "\t_, _ = x, y",
                       "\tgT, gU, gS, gV, gC = x, x, x, x, x"]
                if form == "static":
                    st = "%sf%d(%s)" % (kw, n, args[n])
                elif form == "closure":
                    st = "%sfunc(%s) { %s }(%s)" % (kw, params[n], body[n], args[n])
                elif form == "closurecap":
                    pre.append("\tz := x + \"z\"")
                    st = "%sfunc(%s) { %s }(%s)" % (kw, params[n], bodyc[n], args[n])
                elif form == "method":
                    pre.append("\tt := T{f: x}")
                    st = "%st.M%d(%s)" % (kw, n, args[n])
                elif form == "bound":
                    pre.append("\tt := T{f: x}")
                    pre.append("\tm := t.M%d" % n)
                    st = "%sm(%s)" % (kw, args[n])
                elif form == "invoke":
                    pre.append("\ti := pickI()")
                    st = "%si.M%d(%s)" % (kw, n, args[n])
                else:
                    pre.append("\tfv := pick%d()" % n)
                    st = "%sfv(%s)" % (kw, args[n])
                o.append("func %s() {\n%s\n\t%s\n}" % (name, "\n".join(pre), st))
                calls.append("\t%s()" % name)
    o += ["",
          "// globals written in package initialisers, in init functions and in generic instances; closures created in init",
          "var initX = source()", "var initY = wrapInit(initX)", "func wrapInit(a string) string { return a + \"i\" }",
          "var initF func() string", "var initG = mkClosure()",
          "func mkClosure() func() string {\n\tv := source()\n\treturn func() string { return v + initX }\n}",
          "func init() {\n\tw := source()\n\tinitF = func() string { return w + initY }\n\tgo func() { sink(initX) }()\n\tdefer f0()\n}",
          "var gGen string",
          "func setG[A any](a A) A {\n\tgGen = fmt.Sprint(a)\n\treturn a\n}",
          "func getG[A any](d A) (string, A) { return gGen, d }",
          "func useInit() {\n\tsink(initX)\n\tsink(initY)\n\tsink(initF())\n\tsink(initG())\n\tsetG[string](source())\n\tsetG[int](1)\n"
          "\ta, _ := getG[int](0)\n\tsink(a)\n\tb, c := getG[string](\"d\")\n\tsink(b + c)\n}",
          "", "func main() {\n\tsel = len(fmt.Sprint())\n" + "\n".join(calls) + "\n\tuseInit()\n}"]
    return "\n".join(o) + "\n"


SHAPES_CONFIG = """taint-tracking-problems:
  - sources:
      - package: "shapes"
        method: "^source$"
    sinks:
      - package: "shapes"
        method: "^sink$"
slicing-problems:
  - backtracepoints:
      - package: "shapes"
        method: "^sink$"
"""
ALL_SHAPES = {(k, f, n) for k in ("call", "defer", "go") for f in ("static", "closure", "method", "bound", "invoke", "value")
              for n in ("0", "1", "2")}


GEN_CONFIG = """taint-tracking-problems:
  - sources:
      - package: "gen"
        method: "source[0-9]+"
    sinks:
      - package: "gen"
        method: "sink[0-9]+"
slicing-problems:
  - backtracepoints:
      - package: "gen"
        method: "sink[0-9]+"
"""


# ---------------------------------------------------------------------------------- independent re-check of a dump
class World:
    """the closed world of one PROG of the dump, rebuilt from the delta-encoded snapshots (independent of the OCaml
    driver and of the Coq [load])"""

    def __init__(self):
        self.blocks = {}

    def state(self):
        st = {"kind": {}, "sum": {}, "instr": {}, "glob": {}, "write": set(), "calleeS": {}, "closS": {},
              "out": collections.defaultdict(list), "in": {}, "cs": {}, "rc": {}, "gw": set(), "gr": set(),
              "constructed": set(), "name": {}, "outsrc": set(), "shapes": set(), "shapes_unlinked": set()}
        for lines in self.blocks.values():
            for p in lines:
                t = p[0]
                if t == "N":
                    n = p[1]
                    st["kind"][n] = p[2]
                    st["sum"][n] = p[3]
                    st["instr"][n] = p[4]
                    st["glob"][n] = p[5]
                    if p[6] == "1":
                        st["write"].add(n)
                    if p[7] != "0":
                        (st["calleeS"] if p[2] == "C" else st["closS"] if p[2] == "K" else {})[n] = p[7]
                elif t == "O":
                    st["out"][(p[1], p[2])].extend([] if p[3] == "E" else [p[3]])
                    st["outsrc"].add(p[1])
                elif t == "I":
                    st["in"][(p[1], p[2])] = p[3]
                elif t == "CS":
                    st["cs"][(p[1], p[2])] = p[3]
                elif t == "RC":
                    st["rc"][(p[1], p[2])] = p[3]
                elif t == "GW":
                    st["gw"].add((p[1], p[2]))
                elif t == "GR":
                    st["gr"].add((p[1], p[2]))
                elif t == "#":
                    # "# cs <node> <call|defer|go> <form> <nargs> <user-defined callee> <callee summary>"
                    if p[6] == "1":
                        (st["shapes"] if p[7] != "0" else st["shapes_unlinked"]).add((p[3], p[4], p[5]))
                elif t == "S":
                    st["name"][p[1]] = p[5] if len(p) > 5 else "?"
                    if p[2] == "1":
                        st["constructed"].add(p[1])
        return st


def recheck(st):
    """-> {clause: [offending items]} (empty lists = holds)"""
    bad = {c: [] for c in CLAUSES}
    kind, sm = st["kind"], st["sum"]

    def desc(n):
        return "%s:%s@%s" % (n, kind.get(n, "?"), st["name"].get(sm.get(n, ""), "?"))
    for (a, b) in st["out"]:
        if (b, a) not in st["in"]:
            bad["edges"].append(("out-only", kind.get(a, "?"), kind.get(b, "?"), desc(a), desc(b)))
    for (b, a) in st["in"]:
        if (a, b) not in st["out"]:
            bad["edges"].append(("in-only", kind.get(a, "?"), kind.get(b, "?"), desc(a), desc(b)))
    for n, g in st["calleeS"].items():
        if st["cs"].get((g, st["instr"].get(n, "0"))) != n:
            bad["calls"].append(("unregistered-callsite", desc(n), st["name"].get(g, g)))
    for (g, i), n in st["cs"].items():
        if st["calleeS"].get(n) != g or st["instr"].get(n, "0") != i:
            bad["calls"].append(("dangling-callsite", desc(n), st["name"].get(g, g)))
    for n, g in st["closS"].items():
        if st["rc"].get((g, st["instr"].get(n, "0"))) != n:
            bad["closures"].append(("unregistered-closure", desc(n), st["name"].get(g, g)))
    for (g, i), n in st["rc"].items():
        if st["closS"].get(n) != g or st["instr"].get(n, "0") != i:
            bad["closures"].append(("dangling-closure", desc(n), st["name"].get(g, g)))
    wl, rl = set(), set()
    for n, k in kind.items():
        if k != "G":
            continue
        cons = sm[n] in st["constructed"]
        w = n in st["write"]
        has_out = n in st["outsrc"]
        if cons and w:
            wl.add((st["glob"][n], n))
        if cons and not w and has_out:
            rl.add((st["glob"][n], n))
        if not cons and (w or has_out):
            bad["clean"].append(("touched-unbuilt", desc(n)))
    for x in wl - st["gw"]:
        bad["globals"].append(("missing-write-location", desc(x[1])))
    for x in st["gw"] - wl:
        bad["globals"].append(("extra-write-location", desc(x[1])))
    for x in rl - st["gr"]:
        bad["globals"].append(("missing-read-location", desc(x[1])))
    for x in st["gr"] - rl:
        bad["globals"].append(("extra-read-location", desc(x[1])))
    for (a, b), idxs in st["out"].items():
        i = st["in"].get((b, a))
        if not idxs or i is None or any(x != i for x in idxs):
            cls = "multi-index" if (i is not None and i in idxs and len(set(idxs)) > 1) else "mismatch"
            bad["idx"].append((cls, kind.get(a, "?"), kind.get(b, "?"), desc(a), desc(b), "out=%s in=%s" % (idxs, i)))
    for (b, a), i in st["in"].items():
        if i not in st["out"].get((a, b), []):
            bad["idxp"].append(("in-index-not-in-out", desc(a), desc(b)))
    return bad


def walk_dump(path):
    """yields (prog#, dir, mode, snap#, label, world, oplines-since-previous-snapshot, extra '#' lines)"""
    w = None
    prog = 0
    d = mode = ""
    cur = None
    ops = []
    k, label = 0, ""
    for l in open(path):
        l = l.rstrip("\n")
        if not l:
            continue
        if l.startswith("PROG "):
            p = l.split()
            prog += 1
            d, mode = p[1], p[2]
            w = World()
            ops = []
            cur = None
        elif l.startswith("SNAP "):
            p = l.split()
            k, label = int(p[1]), p[2] if len(p) > 2 else ""
        elif l.startswith("B "):
            cur = []
            w.blocks[l[2:]] = cur
        elif l.startswith("X "):
            w.blocks.pop(l[2:], None)
        elif l == "ENDSNAP":
            yield prog, d, mode, k, label, w, ops
            ops = []
        elif l.startswith("OP "):
            ops.append(l)
        elif l.startswith("# cs ") and cur is not None:
            cur.append(l.split())
        elif l.startswith("ENDPROG") or l.startswith("#"):
            continue
        elif cur is not None:
            cur.append(l.split())


# ---------------------------------------------------------------------------------- the check
def run(chk):
    import time
    tier = chk.tier
    quick = tier == "quick"
    t0 = time.time()
    failed = chk.prove("theories/Properties/C17.v")
    t1 = time.time()
    vlib.build_harness(["c17dump"])
    model = vlib.build_model("c17")
    t2 = time.time()
    dump = os.path.join(vlib.BIN, "c17dump")
    work = os.path.join(vlib.BUILD, "c17")
    shutil.rmtree(work, ignore_errors=True)
    os.makedirs(work)

    # generated program (tuples / closures / globals / interfaces)
    gdir = os.path.join(work, "gen")
    os.makedirs(gdir)
    src, shapes = gen_program(chk.seed, 24 if quick else 60)
    open(os.path.join(gdir, "go.mod"), "w").write("module gen\n\ngo 1.22\n")
    open(os.path.join(gdir, "main.go"), "w").write(src)
    open(os.path.join(gdir, "config.yaml"), "w").write(GEN_CONFIG)

    # the call-shape program: call/defer/go x callee form x #arguments, package initialisers, generic instances
    sdir = os.path.join(vlib.VERIF, "corpus", "c17", "shapes")
    if not os.path.exists(os.path.join(sdir, "main.go")):
        sdir = os.path.join(work, "shapes")
        os.makedirs(sdir)
        open(os.path.join(sdir, "go.mod"), "w").write("module shapes\n\ngo 1.22\n")
        open(os.path.join(sdir, "main.go"), "w").write(gen_shapes())
        open(os.path.join(sdir, "config.yaml"), "w").write(SHAPES_CONFIG)

    graphs = [(os.path.join(vlib.REPO, d), m) for d, m in (GRAPHS_QUICK if quick else GRAPHS_THOROUGH)]
    graphs = [(d, m) for d, m in graphs if os.path.isdir(d)]
    graphs.append((gdir, "taint-eager,taint-ondemand,backtrace-ondemand"))
    graphs.append((sdir, "taint-eager,taint-ondemand,backtrace-ondemand" if quick else
                   "taint-eager,taint-ondemand,backtrace-eager,backtrace-ondemand"))
    opsdirs = [os.path.join(vlib.REPO, d) for d in (OPS_QUICK if quick else OPS_THOROUGH)]
    opsdirs = [d for d in opsdirs if os.path.isdir(d)] + [gdir, sdir]
    every, maxsnaps = (3, 6) if quick else (1, 400)
    jobs = []
    for i, (d, m) in enumerate(graphs):
        jobs.append(("graphs", d, os.path.join(work, "g%d.dump" % i),
                     [dump, "graphs", "-every", str(every), "-maxsnaps", str(maxsnaps), "-modes", m, "-o",
                      os.path.join(work, "g%d.dump" % i), d]))
    for i, d in enumerate(opsdirs):
        jobs.append(("ops", d, os.path.join(work, "o%d.dump" % i),
                     [dump, "ops", "-seed", str(chk.seed), "-batches", "4" if quick else "12", "-n", "60", "-targets", "60",
                      "-o", os.path.join(work, "o%d.dump" % i), d]))
    jobtimes = []
    nfb = 2 if quick else 6
    for i in range(nfb):
        jobs.append(("fb", gdir, os.path.join(work, "fb%d.out" % i), [dump, "fb", "-o", os.path.join(work, "fb%d.out" % i), gdir]))

    def do(job):
        kind, d, out, cmd = job
        ts = time.time()
        rc, log = vlib.sh(cmd, timeout=3000)
        jobtimes.append((round(time.time() - ts, 1), kind, os.path.basename(d)))
        if rc != 0:
            return job, rc, log, None
        mout = None
        if kind != "fb":
            rc2, mout, merr = vlib.sh2([model], inp=open(out).read(), timeout=3000)
            if rc2 != 0:
                return job, rc2, "c17model: " + merr[-3000:], None
        return job, 0, log, mout

    with concurrent.futures.ThreadPoolExecutor(max_workers=4 if quick else 6) as ex:
        results = list(ex.map(do, jobs))
    t3 = time.time()

    stats = collections.Counter()
    distinct = set()
    found_concrete = False
    tie_broken = []
    idx_seen = []
    shapes_cov = collections.defaultdict(set)
    shapes_unl = collections.defaultdict(set)

    def report(clause, items, d, mode, k, label, w, ops, outpath):
        """a consistency clause fails on a real graph: concrete violation with replay"""
        nonlocal found_concrete
        it = items[0]
        if clause == "idx":
            key = "in-edge-single-index" if it[0] == "multi-index" else "in-edge-index-mismatch:%s->%s" % (it[1], it[2])
            what = ("tuple index differs between out and in adjacency (%s): %s -> %s %s [%d edges, %s %s snapshot %d %s]"
                    % (it[0], it[3], it[4], it[5], len(items), os.path.basename(d), mode, k, label))
        elif clause == "edges":
            key = "edges:%s:%s->%s" % (it[0], it[1], it[2])
            what = "edge %s -> %s recorded %s [%d edges, %s %s snapshot %d %s]" % (it[3], it[4], it[0], len(items),
                                                                                      os.path.basename(d), mode, k, label)
        else:
            key = "%s:%s" % (clause, it[0])
            what = "%s: %s [%d items, %s %s snapshot %d %s]" % (it[0], " ".join(it[1:]), len(items), os.path.basename(d), mode, k, label)
        if clause in ("idxp", "clean"):
            key = "%s:%s" % (clause, it[0])
        rd = chk.replay_dir(key)
        with open(os.path.join(rd, "replay.txt"), "w") as f:
            f.write("property C17, clause '%s' fails on a graph built by the real code\n%s\n\n" % (clause, what))
            f.write("program: %s\nmode: %s\nsnapshot: %d %s\n" % (d, mode, k, label))
            for x in items[:40]:
                f.write("  %s\n" % (x,))
            if ops:
                f.write("\noperations of the batch (executed on real SummaryGraph objects via analysis/dataflow/verif_c17.go):\n")
                f.write("\n".join(ops) + "\n")
            f.write("\nre-run: cd %s && go build -tags verif -o %s ./cmd/c17dump && %s %s ... %s | %s\n"
                    "(CHECK lines: 1 = clause holds on that snapshot)\n" % (vlib.HARNESS, vlib.BIN + "/", dump,
                                                                          "ops -seed %d" % chk.seed if ops else "graphs -modes " + mode, d, model))
        if d in (gdir, sdir):
            for fn in ("main.go", "config.yaml", "go.mod"):
                shutil.copy(os.path.join(d, fn), rd)
        # the blocks of the summaries involved
        with open(os.path.join(rd, "snapshot.txt"), "w") as f:
            for bk, lines in sorted(w.blocks.items()):
                f.write("B %s\n" % bk)
                for p in lines:
                    f.write(" ".join(p) + "\n")
                if f.tell() > 3_000_000:
                    break
        if chk.violation(key, what, rd):
            found_concrete = True

    for job, rc, log, mout in results:
        kind, d, outpath, cmd = job
        if rc != 0:
            raise vlib.BuildError("%s failed on %s" % (" ".join(cmd[:2]), d), log)
        if kind == "fb":
            continue
        checks = {}
        tdumps = {}
        diffs = collections.defaultdict(list)
        last = None
        for l in mout.splitlines():
            p = l.split()
            if l.startswith("CHECK "):
                checks[(int(p[1]), int(p[2]))] = {x.split("=")[0]: x.split("=")[1] == "1" for x in p[5:]}
            elif l.startswith("TDUMP "):
                last = (int(p[1]), int(p[2]))
                tdumps[last] = (int(p[3].split("=")[1]), p[4] == "equal=1")
            elif l.startswith("DIFF ") and last:
                diffs[last].append(l)
            elif l.startswith("# traversal panicked"):
                chk.notes.append("%s: %s" % (os.path.basename(d), l[:200]))
        seen = 0
        for prog, dd, mode, k, label, w, ops in walk_dump(outpath):
            seen += 1
            st = w.state()
            bad = recheck(st)
            mine = {c: not bad[c] for c in CLAUSES}
            ext = checks.get((prog, k))
            stats["snapshots"] += 1
            stats["snapshots_" + mode] += 1
            if label.startswith("step:"):
                stats["ondemand_step_snapshots"] += 1
            stats["edges_checked"] += len(st["out"])
            stats["callsite_links_checked"] += len(st["calleeS"])
            stats["closure_links_checked"] += len(st["closS"])
            stats["global_locations_checked"] += len(st["gw"]) + len(st["gr"])
            if dd == sdir and kind == "graphs" and k >= 1:
                shapes_cov[mode] |= st["shapes"]
                shapes_unl[mode] |= st["shapes_unlinked"]
            if ext is None or any(ext[c] != mine[c] for c in CLAUSES):
                tie_broken.append(("checker-disagreement", "extracted validators say %s, independent re-check says %s on %s %s snapshot %d"
                                   % (ext, mine, dd, mode, k), outpath))
                continue
            for bk, lines in w.blocks.items():
                es = sorted((st["kind"].get(p[1], "?"), st["kind"].get(p[2], "?"), p[3]) for p in lines if p[0] == "O")
                if es and bk[0] == "s":
                    nm = [p[5] for p in lines if p[0] == "S"]
                    distinct.add(hashlib.sha1(repr((nm, es)).encode()).hexdigest())
            for c in ("edges", "calls", "closures", "globals", "idxp", "clean"):
                if bad[c]:
                    stats["violations_" + c] += 1
                    report(c, bad[c], dd, mode, k, label, w, ops if kind == "ops" else None, outpath)
            # index disagreements on edges that are recorded on both sides (a one-sided edge is the edges clause's business)
            bidx = [x for x in bad["idx"] if not x[5].endswith("in=None")]
            if bidx and kind == "graphs":
                idx_seen.append((dd, mode, k, label, bidx))
                stats["snapshots_with_index_mismatch"] += 1
                report("idx", bidx, dd, mode, k, label, w, None, outpath)
            if kind == "ops" and k > 0:
                stats["op_batches"] += 1
                stats["ops_executed"] += len(ops)
                for o in ops:
                    stats["op_" + o.split()[1]] += 1
                td = tdumps.get((prog, k))
                if td is None or not td[1]:
                    stats["tdump_mismatch"] += 1
                    concrete = [c for c in ("edges", "calls", "closures", "globals") if bad[c]]
                    if not concrete:
                        tie_broken.append(("tie-broken", "T-dump: model and real objects differ after batch %d on %s: %s"
                                           % (k, dd, "; ".join(diffs.get((prog, k), [])[:6])), outpath))
            if len(chk.cov["samples"]) < 5 and k > 0 and st["out"]:
                (a, b), idxs = sorted(st["out"].items())[len(st["out"]) // 2]
                chk.sample({"program": os.path.basename(dd), "mode": mode, "snapshot": "%d %s" % (k, label[:60]),
                            "summaries": len(st["name"]), "nodes": len(st["kind"]), "out_pairs": len(st["out"]),
                            "example_edge": "%s->%s idx out=%s in=%s" % (a, b, idxs, st["in"].get((b, a)))})
        if seen != len(checks):
            tie_broken.append(("checker-disagreement", "driver saw %d snapshots, re-check %d in %s" % (len(checks), seen, outpath), outpath))

    # forward / backward behaviour on the generated program
    fb_miss = collections.Counter()
    fb_pairs = 0
    for job, rc, log, mout in results:
        if job[0] != "fb":
            continue
        fwd, bwd = set(), set()
        for l in open(job[2]):
            p = l.split()
            if p and p[0] == "FWD" and len(p) == 3:
                fwd.add((p[1], p[2]))
            elif p and p[0] == "BWD" and len(p) == 3:
                bwd.add((p[1], p[2]))
        stats["fb_runs"] += 1
        for (s, so) in sorted(fwd):
            m1, m2 = re.match(r"sink(\d+)$", s), re.match(r"source(\d+)$", so)
            if not (m1 and m2 and m1.group(1) == m2.group(1)):
                continue
            fb_pairs += 1
            if (s, so) not in bwd:
                fb_miss[int(m1.group(1))] += 1
    stats["fb_forward_pairs"] = fb_pairs
    stats["fb_backward_missing"] = sum(fb_miss.values())
    for i, cnt in sorted(fb_miss.items()):
        shape = shapes.get(i)
        # tuple shapes: two results of one call reach one node -> the in side keeps one index
        key = "in-edge-single-index" if shape in (0, 1, 2, 3, 6) else "backward-misses-forward:shape%s" % shape
        rd = chk.replay_dir(key + ":fb")
        shutil.copy(os.path.join(gdir, "main.go"), rd)
        shutil.copy(os.path.join(gdir, "config.yaml"), rd)
        shutil.copy(os.path.join(gdir, "go.mod"), rd)
        with open(os.path.join(rd, "replay.txt"), "w") as f:
            f.write("taint analysis reports source%d -> sink%d, backtrace from sink%d does not reach source%d (%d of %d runs; "
                    "depends on map iteration order)\nscenario shape %s, seed %d\n"
                    "re-run: %s fb <this dir>   (FWD/BWD lines)   or   argot taint|backtrace -config config.yaml .\n"
                    % (i, i, i, i, cnt, nfb, shape, chk.seed, dump))
        if chk.violation(key, "forward traversal connects source%d to sink%d, backward traversal from sink%d misses it "
                         "(shape %s, %d/%d runs)" % (i, i, i, shape, cnt, nfb), rd):
            found_concrete = True

    for mode in sorted(shapes_cov):
        stats["call_shapes_linked_" + mode] = len(shapes_cov[mode] & ALL_SHAPES)
        miss = sorted(ALL_SHAPES - shapes_cov[mode])
        if miss:
            chk.notes.append("call shapes without a linked user-defined callee in %s: %s" % (mode, miss[:12]))
    stats["call_shapes_expected"] = len(ALL_SHAPES)

    if not idx_seen and not fb_miss:
        chk.notes.append("stale_known_finding: in-edge-single-index not exhibited in this run")

    if tie_broken and not (found_concrete and chk.has_new_concrete()):
        key, what, path = tie_broken[0]
        rd = chk.replay_dir(key)
        with open(os.path.join(rd, "replay.txt"), "w") as f:
            f.write("%s\n%d such disagreements\ndump: %s\nre-run: %s < %s\n" % (what, len(tie_broken), path, model, path))
            for t in tie_broken[:10]:
                f.write("  %s\n" % t[1][:2000])
        try:
            shutil.copy(path, rd)
        except OSError:
            pass
        chk.violation(key, what[:400], rd, no_input=True)
    chk.proof_broken(failed, found_concrete)

    # evaluations = individual consistency facts checked on real graphs (edges, call-site and closure links, global
    # locations) + operations executed on real objects + forward/backward pairs
    chk.cov["evaluations"] = (stats.get("edges_checked", 0) + stats.get("callsite_links_checked", 0) + stats.get("closure_links_checked", 0)
                              + stats.get("global_locations_checked", 0) + stats["ops_executed"] + fb_pairs)
    chk.cov["distinct_nontrivial"] = len(distinct)
    chk.cov["rule"] = ("consistency facts checked on graph snapshots (every summary of the loaded program incl. std library) + operations executed on "
                       "real objects + forward/backward pairs; non-trivial = summary graph with >=1 edge, distinct = distinct "
                       "(function name, multiset of (source kind, destination kind, index) edges)")
    chk.cov["traces_validated_against_impl"] = stats["snapshots"] + stats["op_batches"] - stats["tdump_mismatch"]
    chk.cov["distribution"] = dict(stats)
    chk.cov["phase_seconds"] = {"coq_make_and_print_assumptions": round(t1 - t0, 1), "go_build_and_extraction": round(t2 - t1, 1),
                                "dump_and_model_runs(4 workers)": round(t3 - t2, 1), "recheck_and_compare": round(time.time() - t3, 1),
                                "jobs": sorted(jobtimes, reverse=True)[:8]}
    chk.assumptions += [
        "closed world of a snapshot = everything reachable from FlowGraph.Summaries through node maps, out/in keys, call-site / "
        "closure registrations and global location sets",
        "on-demand steps are observed through the debug log lines of onDemandIntraProcedural / BuildSummary (quick tier: every "
        "3rd step, at most 6 per run, plus after the intra pass, after BuildGraph and at the end)",
        "T-dump drives updateEdgeInfo/addInEdge, add*EdgeByPos, SyncGlobals, PopulateGraphFromSummary, resolveCalleeSummary and Sync; "
        "the add*Edge dispatchers and RunIntraProcedural are covered by T-cert on the graphs they build",
        "ops_preserve_consistent is proved for valid operations (no second call node of the same instruction linked to one summary; "
        "closure nodes have distinct instructions): link_conflict_refuted shows the hypothesis is needed",
    ]
    return chk.finish()


def replay(chk, path):
    p = os.path.join(path, "replay.txt") if os.path.isdir(path) else path
    print(open(p).read())
    if os.path.isdir(path) and os.path.exists(os.path.join(path, "main.go")) and os.path.exists(os.path.join(path, "go.mod")):
        vlib.build_harness(["c17dump"])
        rc, out = vlib.sh([os.path.join(vlib.BIN, "c17dump"), "fb", path], timeout=1200)
        print(out)
    return 0
