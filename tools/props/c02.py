"""C02 - sanitizers and validators only suppress flows that really pass through them.

proof     : coq/theories/Properties/C02.v  (model: Model/Cond.v, lemmas: Proofs/Cond.v)
tie T-dump: harness/cmd/c02dump (real FindIntraProceduralPath / IsPredicateTo / isValidatorCondition / summary-edge
            conditions / real addNext verdict on real SSA)  ==  extracted model (build/bin/c02model)
spec      : executable spec of the statement at edge level (extracted `ideal_kept`: is there a CFG path source->sink that
            avoids every validated step?) against the real dropped/kept verdict of every real edge
search T-gt: generated validator / sanitizer scenario programs (hand-enumerated CFG shapes x validator forms + random
            goto-CFGs), executed natively with honest validators/sanitizers and a marker-detecting sink, analysed by the
            real taint.Analyze in-process with and without the validator/sanitizer specs:
            suppressed (reported without, silent with) AND marker reaches the sink natively  =>  failing input
"""
import os
import re
import shutil
import concurrent.futures as cf

import vlib

CORPUS_QUICK = ["analysis/taint/testdata/validators", "analysis/taint/testdata/sanitizers"]
CORPUS_THOROUGH = CORPUS_QUICK + ["analysis/taint/testdata/basic", "analysis/taint/testdata/filters",
                                  "analysis/taint/testdata/intra-procedural", "analysis/taint/testdata/fields",
                                  "analysis/taint/testdata/parameters", "analysis/taint/testdata/tuples",
                                  "analysis/taint/testdata/closures", "analysis/backtrace/testdata/validators"]

KNOWN_KEY = "validator-single-path"

# ---------------------------------------------------------------------------------- scenario generator
PRELUDE = '''package main

import (
	"errors"
	"fmt"
	"strings"
)

const MARK = "@@MARK@@"   // marker of the data of taint problem 1 (source)
const MARKB = "@@MRKB@@" // problem 2 / 3 (sourceB)
const MARKC = "@@MRKC@@" // problem 3 (sourceC)

var bits uint
var steps int
var leaks = map[string]bool{}

type stop struct{}

func source() string  { return "a" + MARK + "b" }
func sourceB() string { return "a" + MARKB + "b" }
func sourceC() string { return "a" + MARKC + "b" }

// opaque branch condition: next bit of the current valuation
func c() bool {
	tick()
	b := bits&1 == 1
	bits >>= 1
	return b
}

func tick() {
	steps++
	if steps > 60 {
		panic(stop{})
	}
}

func logit(x any) {}

func hit(k int, x any) {
	s := fmt.Sprint(x)
	if strings.Contains(s, MARK) {
		leaks[fmt.Sprint(k, " A")] = true
	}
	if strings.Contains(s, MARKB) {
		leaks[fmt.Sprint(k, " B")] = true
	}
	if strings.Contains(s, MARKC) {
		leaks[fmt.Sprint(k, " C")] = true
	}
}

// honest validators: accept exactly the data that does not carry the marker
func Validate(x string) bool { return !strings.Contains(x, MARK) }

func ValidateErr(x string) error {
	if strings.Contains(x, MARK) {
		return errors.New("invalid")
	}
	return nil
}

func ValidateTupErr(x string) (string, error) {
	if strings.Contains(x, MARK) {
		return "bad", errors.New("invalid")
	}
	return "ok", nil
}

func ValidateTupOk(x string) (string, bool) {
	if strings.Contains(x, MARK) {
		return "bad", false
	}
	return "ok", true
}

type box struct {
	N int
	S string
}

func ValidateBox(b box) bool { return !strings.Contains(b.S, MARK) }

// honest sanitizer: removes the marker
func Sanitize(x string) string { return strings.ReplaceAll(x, MARK, "") }

func SanitizeVia(x string) string { return Sanitize(x + "!") }

// sanitizers / validators of the OTHER taint problems (honest for their own marker only)
func SanitizeB(x string) string  { return strings.ReplaceAll(x, MARKB, "") }
func SanitizeAB(x string) string { return strings.ReplaceAll(strings.ReplaceAll(x, MARK, ""), MARKB, "") }
func CheckB(x string) bool       { return !strings.Contains(x, MARKB) }
func CheckAB(x string) bool      { return !strings.Contains(x, MARK) && !strings.Contains(x, MARKB) }

func run(f func(), n int) {
	for v := uint(0); v < 1<<uint(n); v++ {
		func() {
			defer func() {
				if r := recover(); r != nil {
					if _, ok := r.(stop); !ok {
						panic(r)
					}
				}
			}()
			bits = v
			steps = 0
			f()
		}()
	}
}
'''

# validator forms: (name, preamble statement, condition true when VALID, condition true when INVALID); {v} = value
FORMS = [
    ("bool", "", "Validate({v})", "!Validate({v})"),
    ("err", "", "ValidateErr({v}) == nil", "ValidateErr({v}) != nil"),
    ("errvar", "err := ValidateErr({v})", "err == nil", "err != nil"),
    ("nil-left", "", "nil == ValidateErr({v})", "nil != ValidateErr({v})"),
    ("tuperr", "_, err := ValidateTupErr({v})", "err == nil", "err != nil"),
    ("tupok", "_, ok := ValidateTupOk({v})", "ok", "!ok"),
    ("notnot", "", "!!Validate({v})", "!Validate({v})"),
]

# validator shapes: body templates; {PRE} preamble, {OK} / {BAD} conditions on x, {S} sink call on x
VSHAPES = [
    ("then-only", 0, "{PRE}\n\tif {OK} {{\n\t\t{S}\n\t}}"),
    ("else-only", 0, "{PRE}\n\tif {OK} {{\n\t\tlogit(1)\n\t}} else {{\n\t\t{S}\n\t}}"),
    ("then-only-bad", 0, "{PRE}\n\tif {BAD} {{\n\t\t{S}\n\t}}"),
    ("else-only-bad", 0, "{PRE}\n\tif {BAD} {{\n\t\tlogit(1)\n\t}} else {{\n\t\t{S}\n\t}}"),
    ("diamond-ok-after", 0, "{PRE}\n\tif {OK} {{\n\t\tlogit(1)\n\t}} else {{\n\t\tlogit(2)\n\t}}\n\t{S}"),
    ("diamond-bad-after", 0, "{PRE}\n\tif {BAD} {{\n\t\tlogit(1)\n\t}} else {{\n\t\tlogit(2)\n\t}}\n\t{S}"),
    ("triangle-ok", 0, "{PRE}\n\tif {OK} {{\n\t\tlogit(1)\n\t}}\n\t{S}"),
    ("triangle-bad", 0, "{PRE}\n\tif {BAD} {{\n\t\tlogit(1)\n\t}}\n\t{S}"),
    ("early-return", 0, "{PRE}\n\tif {BAD} {{\n\t\treturn\n\t}}\n\t{S}"),
    ("early-return-inverted", 0, "{PRE}\n\tif {OK} {{\n\t\treturn\n\t}}\n\t{S}"),
    ("loop-revalidate-zero-iter", 3, "for c() {{\n\t\t{PRE}\n\t\tif {BAD} {{\n\t\t\treturn\n\t\t}}\n\t}}\n\t{S}"),
    ("loop-sink-inside-valid", 3, "for c() {{\n\t\t{PRE}\n\t\tif {OK} {{\n\t\t\t{S}\n\t\t}}\n\t}}"),
    ("loop-continue", 3, "for c() {{\n\t\t{PRE}\n\t\tif {BAD} {{\n\t\t\tcontinue\n\t\t}}\n\t\t{S}\n\t}}"),
    ("retaint-after-check", 0, "{PRE}\n\tif {BAD} {{\n\t\treturn\n\t}}\n\tx = source()\n\t{S}"),
    ("retaint-in-arm", 1, "{PRE}\n\tif {BAD} {{\n\t\treturn\n\t}}\n\tif c() {{\n\t\tx = x + source()\n\t}}\n\t{S}"),
    ("opaque-guarded-check", 1, "if c() {{\n\t\t{PRE}\n\t\tif {BAD} {{\n\t\t\treturn\n\t\t}}\n\t}}\n\t{S}"),
    ("nested-valid", 1, "if c() {{\n\t\t{PRE}\n\t\tif {OK} {{\n\t\t\t{S}\n\t\t}}\n\t}}"),
    ("one-arm-checked", 1, "if c() {{\n\t\t{PRE}\n\t\tif {BAD} {{\n\t\t\treturn\n\t\t}}\n\t}} else {{\n\t\tlogit(1)\n\t}}\n\t{S}"),
    ("both-arms-checked", 1, "if c() {{\n\t\t{PRE}\n\t\tif {BAD} {{\n\t\t\treturn\n\t\t}}\n\t}} else {{\n\t\t{PRE}\n\t\tif {BAD} {{\n\t\t\treturn\n\t\t}}\n\t}}\n\t{S}"),
    ("and-valid", 1, "{PRE}\n\tif {OK} && c() {{\n\t\t{S}\n\t}}"),
    ("or-valid", 1, "{PRE}\n\tif {OK} || c() {{\n\t\t{S}\n\t}}"),
    ("or-bad-return", 1, "{PRE}\n\tif {BAD} || c() {{\n\t\treturn\n\t}}\n\t{S}"),
    ("and-bad-return", 1, "{PRE}\n\tif {BAD} && c() {{\n\t\treturn\n\t}}\n\t{S}"),
    ("opaque-and-bad-return", 1, "{PRE}\n\tif c() && {BAD} {{\n\t\treturn\n\t}}\n\t{S}"),
    ("switch-true", 1, "{PRE}\n\tswitch {{\n\tcase {BAD}:\n\t\tlogit(1)\n\tcase c():\n\t\tlogit(2)\n\t}}\n\t{S}"),
    ("dowhile-sink-then-check", 0, "for {{\n\t\ttick()\n\t\t{S}\n\t\t{PRE}\n\t\tif {BAD} {{\n\t\t\tbreak\n\t\t}}\n\t}}"),
    ("dowhile-sink-then-continue-if-ok", 0, "for {{\n\t\ttick()\n\t\t{S}\n\t\t{PRE}\n\t\tif {OK} {{\n\t\t\tcontinue\n\t\t}}\n\t\tbreak\n\t}}"),
    ("sink-before-check", 0, "{S}\n\t{PRE}\n\tif {BAD} {{\n\t\treturn\n\t}}"),
]

# shapes where the checked value differs from / aliases the value reaching the sink (only some forms)
XSHAPES = [
    ("check-on-copy", 0, "y := x\n\tif !Validate(y) {\n\t\treturn\n\t}\n\t{S}"),
    ("check-other-data", 0, "z := \"clean\"\n\tif !Validate(z) {\n\t\treturn\n\t}\n\t{S}"),
    ("check-other-data-err", 0, "z := \"clean\"\n\tif err := ValidateErr(z); err != nil {\n\t\treturn\n\t}\n\t{S}"),
    ("check-concat", 0, "if !Validate(x + \"s\") {\n\t\treturn\n\t}\n\t{S}"),
    ("check-deref", 0, "p := &x\n\tif !Validate(*p) {\n\t\treturn\n\t}\n\tsink{K}(*p)"),
    ("check-deref-bypass", 0, "p := &x\n\tif !Validate(*p) {\n\t\tlogit(1)\n\t}\n\tsink{K}(*p)"),
    ("check-struct", 0, "b := box{1, x}\n\tif !ValidateBox(b) {\n\t\treturn\n\t}\n\tsink{K}(b)"),
    ("check-struct-bypass", 0, "b := box{1, x}\n\tif !ValidateBox(b) {\n\t\tlogit(1)\n\t}\n\tsink{K}(b)"),
    ("stored-verdict", 0, "ok := Validate(x)\n\tlogit(ok)\n\tif ok {\n\t\t{S}\n\t}"),
    ("stored-verdict-negated", 0, "ok := Validate(x)\n\tif !ok {\n\t\t{S}\n\t}"),
    ("stored-verdict-bypass", 0, "ok := Validate(x)\n\tif !ok {\n\t\tlogit(1)\n\t}\n\t{S}"),
    ("first-tuple-element", 0, "s, _ := ValidateTupErr(x)\n\tif s != \"ok\" {\n\t\treturn\n\t}\n\t{S}"),
    ("validator-result-ignored", 0, "Validate(x)\n\t{S}"),
    ("validator-compared-false", 0, "if Validate(x) == false {\n\t\treturn\n\t}\n\t{S}"),
]

# a validator verdict NEGATED and STORED, branched on later: the only way to reach the `!` case of isValidatorCondition
# (go/ssa compiles a plain `if !f(x)` by swapping the successors)
NSHAPES = [
    ("stored-negation-sink-on-invalid", 0, "invalid := !Validate(x)\n\tif invalid {\n\t\t{S}\n\t}"),
    ("stored-negation-return-on-invalid", 0, "invalid := !Validate(x)\n\tlogit(invalid)\n\tif invalid {\n\t\treturn\n\t}\n\t{S}"),
    ("stored-negation-else-sink", 0, "invalid := !Validate(x)\n\tif invalid {\n\t\tlogit(1)\n\t} else {\n\t\t{S}\n\t}"),
    ("stored-negation-bypass", 0, "invalid := !Validate(x)\n\tif invalid {\n\t\tlogit(1)\n\t}\n\t{S}"),
    ("stored-double-negation-sink-on-valid", 0, "inv := !Validate(x)\n\tok := !inv\n\tif ok {\n\t\t{S}\n\t}"),
    ("stored-double-negation-sink-on-invalid", 0, "inv := !Validate(x)\n\tok := !inv\n\tif ok {\n\t\treturn\n\t}\n\t{S}"),
    ("stored-double-negation-else-sink", 0, "inv := !Validate(x)\n\tok := !inv\n\tif ok {\n\t\tlogit(1)\n\t} else {\n\t\t{S}\n\t}"),
    ("stored-negated-errcmp-sink-on-invalid", 0, "bad := ValidateErr(x) != nil\n\tok := !bad\n\tif ok {\n\t\treturn\n\t}\n\t{S}"),
    ("stored-negated-errcmp-sink-on-valid", 0, "bad := ValidateErr(x) != nil\n\tok := !bad\n\tif ok {\n\t\t{S}\n\t}"),
    ("stored-negated-erreq-sink-on-invalid", 0, "good := ValidateErr(x) == nil\n\tnotgood := !good\n\tif notgood {\n\t\t{S}\n\t}"),
    ("stored-negated-erreq-return-on-invalid", 0, "good := ValidateErr(x) == nil\n\tnotgood := !good\n\tif notgood {\n\t\treturn\n\t}\n\t{S}"),
    ("stored-negated-tupok-sink-on-invalid", 0, "_, ok := ValidateTupOk(x)\n\tbad := !ok\n\tif bad {\n\t\t{S}\n\t}"),
    ("stored-negated-tuperr-sink-on-invalid", 0, "_, err := ValidateTupErr(x)\n\tfine := !(err != nil)\n\tif fine {\n\t\treturn\n\t}\n\t{S}"),
    ("stored-negation-phi-same", 1, "invalid := !Validate(x)\n\tvar t bool\n\tif c() {\n\t\tt = invalid\n\t} else {\n\t\tt = invalid\n\t}\n\tif t {\n\t\t{S}\n\t}"),
    ("stored-negation-phi-mixed", 1, "invalid := !Validate(x)\n\tif c() {\n\t\tinvalid = true\n\t}\n\tif invalid {\n\t\t{S}\n\t}"),
    ("stored-negation-phi-return", 1, "invalid := !Validate(x)\n\tvar t bool\n\tif c() {\n\t\tt = invalid\n\t} else {\n\t\tt = invalid\n\t}\n\tif t {\n\t\treturn\n\t}\n\t{S}"),
]

# several taint problems: data of one problem crossing the sanitizers / validators of another one.  {SRC}: source call
# (x is declared by the template), sinks: {K} = scenario id.  (shape, nbits, sink function prefix, body)
CSHAPES = [
    ("p1-through-sanitizer-of-p2", 0, "sink", "x := source()\n\tsink{K}(SanitizeB(x))"),
    ("p2-through-sanitizer-of-p1", 0, "sink", "x := sourceB()\n\tsink{K}(Sanitize(x))"),
    ("p2-through-own-sanitizer", 0, "sinkB", "x := sourceB()\n\tsinkB{K}(SanitizeB(x))"),
    ("p1-through-shared-sanitizer", 0, "sink", "x := source()\n\tsink{K}(SanitizeAB(x))"),
    ("p2-through-shared-sanitizer", 0, "sinkB", "x := sourceB()\n\tsinkB{K}(SanitizeAB(x))"),
    ("both-through-sanitizer-of-p2", 0, "sink", "x := source() + sourceB()\n\tsink{K}(SanitizeB(x))"),
    ("both-through-sanitizer-of-p1", 0, "sink", "x := source() + sourceB()\n\tsink{K}(Sanitize(x))"),
    ("p1-sanitizer-of-p2-one-arm", 1, "sink", "x := source()\n\ty := SanitizeB(x)\n\tif c() {\n\t\ty = Sanitize(x)\n\t}\n\tsink{K}(y)"),
    ("p1-validated-by-p2-then", 0, "sink", "x := source()\n\tif CheckB(x) {\n\t\tsink{K}(x)\n\t}"),
    ("p1-validated-by-p2-early-return", 0, "sink", "x := source()\n\tok := CheckB(x)\n\tlogit(ok)\n\tif !ok {\n\t\treturn\n\t}\n\tsink{K}(x)"),
    ("p2-validated-by-p1-then", 0, "sink", "x := sourceB()\n\tif Validate(x) {\n\t\tsink{K}(x)\n\t}"),
    ("p2-validated-by-p1-err-early-return", 0, "sinkB", "x := sourceB()\n\tif err := ValidateErr(x); err != nil {\n\t\treturn\n\t}\n\tsinkB{K}(x)"),
    ("p2-validated-by-own-then", 0, "sinkB", "x := sourceB()\n\tif CheckB(x) {\n\t\tsinkB{K}(x)\n\t}"),
    ("p1-validated-by-shared-then", 0, "sink", "x := source()\n\tif CheckAB(x) {\n\t\tsink{K}(x)\n\t}"),
    ("p2-validated-by-shared-early-return", 0, "sink", "x := sourceB()\n\tok := CheckAB(x)\n\tlogit(ok)\n\tif !ok {\n\t\treturn\n\t}\n\tsink{K}(x)"),
    ("both-validated-by-p2-early-return", 0, "sink", "x := source() + sourceB()\n\tok := CheckB(x)\n\tlogit(ok)\n\tif !ok {\n\t\treturn\n\t}\n\tsink{K}(x)"),
    ("p1-stored-negation-of-p2-validator", 0, "sink", "x := source()\n\tbad := !CheckB(x)\n\tif bad {\n\t\treturn\n\t}\n\tsink{K}(x)"),
    ("p3-through-everything", 0, "sinkC", "x := sourceC()\n\ty := SanitizeB(Sanitize(x))\n\tif CheckB(y) && Validate(y) {\n\t\tsinkC{K}(y)\n\t}"),
    ("p3-shared-source-through-sanitizer-of-p1", 0, "sinkC", "x := sourceB()\n\tsinkC{K}(Sanitize(x))"),
    ("p3-shared-source-through-sanitizer-of-p2", 0, "sinkC", "x := sourceB()\n\tsinkC{K}(SanitizeB(x))"),
    ("p3-validated-by-p1-early-return", 0, "sinkC", "x := sourceC()\n\tif err := ValidateErr(x); err != nil {\n\t\treturn\n\t}\n\tsinkC{K}(x)"),
    ("p1-data-to-p3-sink", 0, "sinkC", "x := source()\n\tsinkC{K}(x)"),
]

# the taint problems of the generated configuration: (sources, sink regex, markers whose arrival is a leak)
PROBLEMS = [
    {"name": "P1", "sources": {"source"}, "sinks": r"^sink[0-9]+$", "markers": {"A"}},
    {"name": "P2", "sources": {"sourceB"}, "sinks": r"^sink(B)?[0-9]+$", "markers": {"B"}},
    {"name": "P3", "sources": {"sourceB", "sourceC"}, "sinks": r"^sinkC[0-9]+$", "markers": {"B", "C"}},
]

# sanitizer shapes
SSHAPES = [
    ("sanitized", 0, "y := Sanitize(x)\n\tsink{K}(y)"),
    ("sanitizer-one-arm", 1, "y := x\n\tif c() {\n\t\ty = Sanitize(x)\n\t}\n\tsink{K}(y)"),
    ("sanitizer-other-arm", 1, "var y string\n\tif c() {\n\t\ty = x\n\t} else {\n\t\ty = Sanitize(x)\n\t}\n\tsink{K}(y)"),
    ("sanitizer-result-unused", 0, "_ = Sanitize(x)\n\tsink{K}(x)"),
    ("sanitizer-result-unused2", 0, "y := Sanitize(x)\n\tlogit(y)\n\tsink{K}(x)"),
    ("sanitized-plus-raw", 0, "y := Sanitize(x) + x\n\tsink{K}(y)"),
    ("sanitized-then-retaint", 1, "y := Sanitize(x)\n\tif c() {\n\t\ty = y + x\n\t}\n\tsink{K}(y)"),
    ("sanitizer-in-callee", 0, "y := SanitizeVia(x)\n\tsink{K}(y)"),
    ("sanitize-reassign", 0, "x = Sanitize(x)\n\tsink{K}(x)"),
    ("sanitize-loop-zero-iter", 2, "for c() {\n\t\tx = Sanitize(x)\n\t}\n\tsink{K}(x)"),
    ("sanitize-copy-only", 0, "y := x\n\t_ = Sanitize(y)\n\tsink{K}(x)"),
    ("sanitize-other-data", 0, "y := Sanitize(\"k\")\n\tsink{K}(x + y)"),
    ("sanitize-struct-field", 0, "b := box{1, x}\n\tb.S = Sanitize(b.S)\n\tsink{K}(b.N)\n\tlogit(b)"),
    ("sanitized-box-raw-field", 0, "b := box{1, Sanitize(x)}\n\tc2 := box{2, x}\n\tlogit(b)\n\tsink{K}(c2)"),
]


def gen_random_cfg(rnd, k0, nfun):
    """random goto-CFG functions: blocks end in `if <validator cond|opaque> goto A; goto B` / goto / return, some blocks
    call a sink.  Returns (list of (name, source text, nbits), list of scenario dicts)."""
    out = []
    scen = []
    k = k0
    for i in range(nfun):
        nb = 3 + rnd(5)
        name = "rc%d" % i
        form = FORMS[rnd(len(FORMS))]
        lines = ["func %s() {" % name, "\tx := source()", "\tvar err error", "\tvar ok bool", "\t_, _ = err, ok"]
        targets = set()
        segs = []
        nsink = 0
        for b in range(nb):
            body = ["\ttick()"]
            if rnd(3) == 0 and nsink < 2:
                body.append("\tsink%d(x)" % k)
                scen.append({"k": k, "shape": "random-cfg", "form": form[0], "fn": name})
                k += 1
                nsink += 1
            t = rnd(10)
            if b == nb - 1 or t < 1:
                body.append("\treturn")
            elif t < 8:
                t1 = rnd(nb) or min(nb - 1, b + 1)
                t2 = rnd(nb) or min(nb - 1, b + 1)
                targets.update([t1, t2])
                ck = rnd(5)
                if ck < 2:
                    pre, cond = form[1], form[2]
                elif ck < 4:
                    pre, cond = form[1], form[3]
                else:
                    pre, cond = "", "c()"
                pre = pre.replace(":=", "=").format(v="x")
                if pre:
                    body.append("\t" + pre)
                body.append("\tif %s {\n\t\tgoto L%d\n\t}\n\tgoto L%d" % (cond.format(v="x"), t1, t2))
            else:
                t1 = rnd(nb) or min(nb - 1, b + 1)
                targets.add(t1)
                body.append("\tgoto L%d" % t1)
            segs.append(body)
        if nsink == 0:
            segs[nb - 1].insert(1, "\tsink%d(x)" % k)
            scen.append({"k": k, "shape": "random-cfg", "form": form[0], "fn": name})
            k += 1
        for b, body in enumerate(segs):
            if b in targets:
                lines.append("L%d:" % b)
            lines.extend(body)
        lines.append("}")
        out.append((name, "\n".join(lines), 5))
    return out, scen


def gen_program(seed, nrandom, quick=False):
    """-> (main.go text, scenarios [{k, shape, form, fn}])"""
    rnd = vlib.lcg(seed)
    funcs = []
    scen = []
    k = 0

    def add(shape, form, body, nbits, param=False):
        nonlocal k
        name = "sc%d" % k
        if param:
            funcs.append((name, "func %s() {\n\t%sin(source())\n}\n\nfunc %sin(x string) {\n\t%s\n}" % (name, name, name, body), nbits))
        else:
            funcs.append((name, "func %s() {\n\tx := source()\n\t%s\n}" % (name, body), nbits))
        scen.append({"k": k, "shape": shape, "form": form, "fn": name + ("in" if param else "")})
        k += 1

    forms = [f for f in FORMS if f[0] in ("bool", "errvar", "tuperr", "tupok", "nil-left")] if quick else FORMS
    pforms = [FORMS[0]] if quick else [FORMS[0], FORMS[2], FORMS[5]]
    for sname, nbits, tmpl in VSHAPES:
        for fname, pre, okc, badc in forms:
            body = tmpl.format(PRE=pre.format(v="x"), OK=okc.format(v="x"), BAD=badc.format(v="x"), S="sink%d(x)" % k)
            body = "\n".join(l for l in body.split("\n") if l.strip())
            if body.count(":= ValidateErr") + body.count(":= ValidateTup") > 1:
                # the same preamble twice in sibling scopes is fine, in the same scope it is not: both-arms uses scopes
                pass
            add(sname, fname, body, nbits)
    # the same shapes on a PARAMETER (source = first instruction of the callee's entry block), a few forms
    for sname, nbits, tmpl in VSHAPES:
        for fname, pre, okc, badc in pforms:
            body = tmpl.format(PRE=pre.format(v="x"), OK=okc.format(v="x"), BAD=badc.format(v="x"), S="sink%d(x)" % k)
            body = "\n".join(l for l in body.split("\n") if l.strip())
            add(sname + "/param", fname, body, nbits, param=True)
    for sname, nbits, tmpl in XSHAPES:
        add(sname, "-", tmpl.replace("{S}", "sink%d(x)" % k).replace("{K}", str(k)), nbits)
    for sname, nbits, tmpl in SSHAPES:
        add(sname, "sanitizer", tmpl.replace("{K}", str(k)), nbits)
    for sname, nbits, tmpl in NSHAPES:
        add(sname, "stored", tmpl.replace("{S}", "sink%d(x)" % k), nbits)
        if not quick:
            add(sname + "/param", "stored", tmpl.replace("{S}", "sink%d(x)" % k), nbits, param=True)
    for sname, nbits, prefix, tmpl in CSHAPES:
        name = "sc%d" % k
        funcs.append((name, "func %s() {\n\t%s\n}" % (name, tmpl.replace("{K}", str(k))), nbits))
        scen.append({"k": k, "shape": sname, "form": "multi-problem", "fn": name, "sink": "%s%d" % (prefix, k)})
        k += 1
    rfun, rscen = gen_random_cfg(rnd, 10000, nrandom)
    funcs += rfun
    scen += rscen
    src = [PRELUDE]
    for s in scen:
        s.setdefault("sink", "sink%d" % s["k"])
        src.append("func %s(x any) { hit(%d, x) }" % (s["sink"], s["k"]))
    for _, text, _ in funcs:
        src.append(text)
    main = ["func main() {"]
    for name, _, nbits in funcs:
        main.append("\trun(%s, %d)" % (name, nbits))
    main.append("\tfor k := range leaks {\n\t\tfmt.Println(\"LEAK\", k)\n\t}\n}")
    src.append("\n".join(main))
    return "\n\n".join(src) + "\n", scen


CONFIG_A = """taint-tracking-problems:
  -
    sources:
      - package: "{pkg}"
        method: "^source$"
    sinks:
      - package: "{pkg}"
        method: "^sink[0-9]+$"
    validators:
      - package: "{pkg}"
        method: "^Validate.*"
      - package: "{pkg}"
        method: "^CheckAB$"
    sanitizers:
      - package: "{pkg}"
        method: "^Sanitize$"
      - package: "{pkg}"
        method: "^SanitizeAB$"
  -
    sources:
      - package: "{pkg}"
        method: "^sourceB$"
    sinks:
      - package: "{pkg}"
        method: "^sink[0-9]+$"
      - package: "{pkg}"
        method: "^sinkB[0-9]+$"
    validators:
      - package: "{pkg}"
        method: "^Check(B|AB)$"
    sanitizers:
      - package: "{pkg}"
        method: "^Sanitize(B|AB)$"
  -
    sources:
      - package: "{pkg}"
        method: "^source(B|C)$"
    sinks:
      - package: "{pkg}"
        method: "^sinkC[0-9]+$"
options:
  log-level: 1
"""
CONFIG_B = """taint-tracking-problems:
  -
    sources:
      - package: "{pkg}"
        method: "^source$"
    sinks:
      - package: "{pkg}"
        method: "^sink[0-9]+$"
  -
    sources:
      - package: "{pkg}"
        method: "^sourceB$"
    sinks:
      - package: "{pkg}"
        method: "^sink(B)?[0-9]+$"
  -
    sources:
      - package: "{pkg}"
        method: "^source(B|C)$"
    sinks:
      - package: "{pkg}"
        method: "^sinkC[0-9]+$"
options:
  log-level: 1
"""


# ---------------------------------------------------------------------------------- dump parsing
def parse(path):
    """-> (programs: {dir: {"flows": {tag: set((sink name, source name))}, "err": [...], "stat": {}}}, fns: {(dir, fid): fn})"""
    progs = {}
    fns = {}
    cur = None
    prog = None
    for l in open(path, errors="replace"):
        l = l.rstrip("\n")
        if not l:
            continue
        if l.startswith("P "):
            prog = l[2:]
            progs.setdefault(prog, {"flows": {"A": set(), "B": set()}, "err": [], "stat": {}})
        elif l.startswith("FLOW "):
            p = l.split()
            progs[prog]["flows"][p[1]].add((p[2], p[5] if len(p) > 5 else "?"))
        elif l.startswith("STAT "):
            for kv in l.split()[1:]:
                k, _, v = kv.partition("=")
                progs[prog]["stat"][k] = int(v)
        elif l.startswith(("ERR", "PANIC", "FAIL")):
            progs[prog]["err"].append(l)
        elif l.startswith("F "):
            p = l.split()
            cur = {"id": p[1], "name": p[2], "kind": p[3] if len(p) > 3 else "?", "prog": prog, "B": [], "C": {}, "X": {},
                   "R": {}, "I": {}, "tag": {}, "W": None, "S": {}, "QS": {}}
            fns[(prog, p[1])] = cur
        elif cur is None:
            continue
        elif l[0] == "B":
            cur["B"].append(l)
        elif l[:2] == "C ":
            p = l.split(None, 2)
            cur["C"][p[1]] = p[2] if len(p) > 2 else ""
        elif l[:2] == "X ":
            p = l.split(None, 2)
            cur["X"][p[1]] = p[2] if len(p) > 2 else ""
        elif l[:2] in ("RP", "RM", "RV", "RE"):
            k, _, v = l.partition(" = ")
            cur["R"][k] = v.strip()
        elif l[:2] == "RS":
            k, _, v = l.partition(" = ")
            cur["S"][k[3:]] = v.strip()
        elif l[:2] == "QS":
            p = l.split()
            cur["QS"][p[1]] = p[2]
        elif l[:2] == "RI":
            k, _, v = l.partition(" = ")
            cur["I"][k[3:]] = v.strip().split()[0]
        elif l[:2] == "W ":
            cur["W"] = l.split()[1:]
        elif l[:2] == "QE":
            p = l.split()
            cur["tag"]["RE " + " ".join(p[1:7])] = p[7] if len(p) > 7 else ""
    return progs, fns


def fn_text(fn):
    return "\n".join(["F %s %s" % (fn["id"], fn["name"])] + fn["B"] + ["C %s %s" % kv for kv in fn["C"].items()] +
                     ["X %s %s" % kv for kv in fn["X"].items()])



# ---------------------------------------------------------------------------------- the check
def run(chk):
    tier = chk.tier
    failed = chk.prove("theories/Properties/C02.v")
    vlib.build_harness(["c02dump"])
    model = vlib.build_model("c02")
    work = os.path.join(vlib.BUILD, "c02")
    shutil.rmtree(work, ignore_errors=True)
    os.makedirs(work)

    # ---- generated scenario programs
    nprog = 1 if tier == "quick" else 4
    gens = []
    for g in range(nprog):
        d = os.path.join(work, "gen%d" % g)
        os.makedirs(d)
        text, scen = gen_program(chk.seed * 100 + g, 30 if tier == "quick" else 150, quick=(tier == "quick"))
        open(os.path.join(d, "go.mod"), "w").write("module c02gen%d\n\ngo 1.22\n" % g)
        open(os.path.join(d, "main.go"), "w").write(text)
        open(os.path.join(d, "config.yaml"), "w").write(CONFIG_A.format(pkg="c02gen%d" % g))
        open(os.path.join(d, "config_b.yaml"), "w").write(CONFIG_B.format(pkg="c02gen%d" % g))
        gens.append((d, scen))
    corpus = [os.path.join(vlib.REPO, p) for p in (CORPUS_QUICK if tier == "quick" else CORPUS_THOROUGH)]
    corpus = [p for p in corpus if os.path.isdir(p)]

    # ---- run the dumper (one process per program, in parallel), the natives, then the model
    exe = os.path.join(vlib.BIN, "c02dump")
    maxfn = "100" if tier == "quick" else "1500"

    def dump(job):
        tag, d, gt = job
        out = os.path.join(work, tag + ".dump")
        cmd = [exe, "-seed", str(chk.seed), "-maxfn", maxfn if not gt else "0", "-o", out] + (["-gt"] if gt else []) + [d]
        rc, log = vlib.sh(cmd, timeout=1500)
        return tag, d, out, rc, log

    def native(d):
        rc, out, err = vlib.sh2(["go", "run", "."], cwd=d, timeout=900)
        return d, rc, out, err

    jobs = [("gen%d" % i, d, True) for i, (d, _) in enumerate(gens)] + [("corpus%d" % i, d, False) for i, d in enumerate(corpus)]
    with cf.ThreadPoolExecutor(max_workers=min(6, len(jobs) + len(gens))) as ex:
        nat_f = [ex.submit(native, d) for d, _ in gens]
        dump_f = [ex.submit(dump, j) for j in jobs]
        dumps = [f.result() for f in dump_f]
        nats = {r[0]: r for r in (f.result() for f in nat_f)}
    good = []
    for tag, d, out, rc, log in dumps:
        if rc != 0 or not os.path.exists(out):
            detail = log[-3000:] + (open(out, errors="replace").read()[-1500:] if os.path.exists(out) else "")
            if tag.startswith("gen") or tier == "quick":
                raise vlib.BuildError("c02dump failed on %s (rc=%s)" % (d, rc), detail)
            chk.notes.append("corpus program %s skipped: c02dump rc=%s %s" % (d, rc, detail[-300:].replace("\n", " | ")))
            continue
        good.append((tag, d, out, rc, log))
    dumps = good

    stats = {"functions": 0, "functions_with_if": 0, "path_queries": 0, "paths_found": 0, "paths_with_conditions": 0,
             "predicate_queries": 0, "predicate_true": 0, "validator_verdict_queries": 0, "validator_conditions": 0,
             "real_edges": 0, "real_edges_conditioned": 0, "real_edges_dropped": 0, "edges_unmodelled_form": 0,
             "sanitizer_node_verdicts": 0, "sanitizer_nodes": 0, "sanitizer_verdicts_oracle_only": 0, "sanitizer_mismatch": 0,
             "leaf_verdicts_own_matcher": 0, "leaf_verdicts_oracle": 0, "taint_problems_dumped": 0,
             "model_mismatch": 0, "impl_more_conservative": 0, "edge_spec_failures_known_class": 0,
             "edge_spec_failures_other": 0, "scenarios": 0, "scenario_problem_pairs": 0, "pairs_leaking": 0, "pairs_suppressed": 0,
             "pairs_suppressed_and_leaking": 0, "pairs_unattributed_miss": 0, "stale_known_finding": 0,
             "cfg_not_wf": 0, "conds_not_wf": 0}
    distinct = set()
    shape_dist = {}
    found_concrete = False
    tie_broken = []
    edge_viol = []      # edge-level spec failures outside the known class; reported after the natively confirmed ones
    san_viol = []       # real isSanitizer verdict of a node differs from the problem's own sanitizer list
    problems_seen = set()

    allfns = {}
    allprogs = {}
    for tag, d, out, rc, log in dumps:
        rc2, mout, merr = vlib.sh2([model], inp=open(out, errors="replace").read(), timeout=1200)
        if rc2 != 0:
            raise vlib.BuildError("c02model failed on %s" % tag, merr[-3000:])
        mp = os.path.join(work, tag + ".model")
        open(mp, "w").write(mout)
        progs, impl = parse(out)
        _, mod = parse(mp)
        allprogs.update(progs)
        for p in progs.values():
            if p["err"]:
                chk.notes.append("analysis messages for %s: %s" % (d, "; ".join(p["err"])[:300]))
            stats["leaf_verdicts_own_matcher"] += p["stat"].get("leaf_own", 0)
            stats["leaf_verdicts_oracle"] += p["stat"].get("leaf_oracle", 0)
        for key, fn in impl.items():
            allfns[key] = fn
            m = mod.get(key, {"R": {}, "I": {}, "W": None})
            fn["model"] = m
            stats["functions"] += 1
            problems_seen.add((fn["prog"], fn["id"].split(".")[0]))
            if any(" - |" not in b for b in fn["B"]):
                stats["functions_with_if"] += 1
            sig = (tuple(b.split("|")[1].strip() for b in fn["B"]), tuple(sorted(fn["C"].values())))
            interesting = False
            for k, v in fn["R"].items():
                mv = m["R"].get(k)
                kind = k[:2]
                if kind == "RP":
                    stats["path_queries"] += 1
                    if not v.startswith("nil"):
                        stats["paths_found"] += 1
                        if v.split(";")[1].strip():
                            stats["paths_with_conditions"] += 1
                            interesting = True
                elif kind == "RM":
                    stats["predicate_queries"] += 1
                    stats["predicate_true"] += v == "1"
                elif kind == "RV":
                    stats["validator_verdict_queries"] += 1
                    stats["validator_conditions"] += "1" in v
                elif kind == "RE":
                    stats["real_edges"] += 1
                    if k.split()[1] == "s":
                        stats["edges_unmodelled_form"] += 1
                        continue
                    if v.split(";")[0].strip():
                        stats["real_edges_conditioned"] += 1
                    if v.endswith("d=1"):
                        stats["real_edges_dropped"] += 1
                    if v.endswith("d=x"):
                        continue
                if mv == v:
                    continue
                # disagreement: classify by direction
                if kind == "RE" and mv is not None and mv.endswith("d=1") and v.endswith("d=0"):
                    stats["impl_more_conservative"] += 1     # impl keeps an edge the faithful model drops: never an alarm
                    if m["I"].get(k[3:]) == "bypass":
                        stats["stale_known_finding"] += 1
                    continue
                stats["model_mismatch"] += 1
                tie_broken.append((fn, k, v, mv))
            # sanitizer verdict of every call node / call argument node for THIS problem vs the problem's own sanitizer list
            for site, real in fn["S"].items():
                stats["sanitizer_node_verdicts"] += 1
                stats["sanitizer_nodes"] += real == "1"
                own = fn["QS"].get(site, "?")
                if own == "?":
                    stats["sanitizer_verdicts_oracle_only"] += 1
                elif own != real:
                    stats["sanitizer_mismatch"] += 1
                    san_viol.append((fn, site, real, own))
            if m.get("W") is not None:
                stats["cfg_not_wf"] += m["W"][0] != "1"
                stats["conds_not_wf"] += m["W"][1] != "1"
            if interesting and len(fn["B"]) >= 3:
                distinct.add(hash(sig))
            # executable spec at edge level: a dropped edge must have no bypass path
            for k, v in fn["R"].items():
                if k[:2] != "RE" or not v.endswith("d=1"):
                    continue
                if m["I"].get(k[3:]) != "bypass":
                    continue
                if (m["R"].get(k) or "").endswith("d=1"):      # the faithful single-path model drops this edge too
                    stats["edge_spec_failures_known_class"] += 1
                    if stats["edge_spec_failures_known_class"] <= 3:
                        dd = chk.replay_dir(KNOWN_KEY + ":" + fn["name"] + k)
                        write_replay(dd, fn, k, v, "edge dropped by a validator condition collected on the single path found, "
                                     "but another CFG path from the source block to the call avoids every validated branch", fn["prog"])
                        chk.violation(KNOWN_KEY, "edge %s of %s dropped although a CFG path bypasses the validated branch" % (k, fn["name"]), dd)
                else:
                    stats["edge_spec_failures_other"] += 1
                    found_concrete = True
                    edge_viol.append((fn, k, v, m["R"].get(k)))
            if (any(kk[:2] == "RE" and vv.split(";")[0].strip() for kk, vv in fn["R"].items()) and len(chk.cov["samples"]) < 6):
                chk.sample({"function": fn["name"], "taint_problem": fn["id"].split(".")[0], "blocks": fn["B"], "conditions": fn["C"],
                            "edges": {kk: vv for kk, vv in fn["R"].items() if kk[:2] == "RE" and vv.split(";")[0].strip()},
                            "ideal": {kk: vv for kk, vv in m["I"].items()}})
    stats["taint_problems_dumped"] = len(problems_seen)

    # ---- ground truth on the generated scenarios, per (scenario, taint problem)
    nrep = {}
    for d, scen in gens:
        _, rc, out, err = nats[d]
        if rc != 0:
            raise vlib.BuildError("generated scenario program does not run: %s" % d, err[-3000:])
        leaks = set()
        for l in out.splitlines():
            if l.startswith("LEAK "):
                p = l.split()
                leaks.add((int(p[1]), p[2]))
        flows = allprogs[d]["flows"]
        byname = {}
        for (p, fid), fn in allfns.items():
            if p == d:
                byname[(int(fid.split(".")[0]), fn["name"].split(".")[-1])] = fn
        for s in scen:
            k = s["k"]
            stats["scenarios"] += 1
            for pi, prob in enumerate(PROBLEMS):
                if not re.match(prob["sinks"], s["sink"]):
                    continue
                a = any(sk == s["sink"] and src in prob["sources"] for sk, src in flows["A"])
                b = any(sk == s["sink"] and src in prob["sources"] for sk, src in flows["B"])
                leak = any((k, mk) in leaks for mk in prob["markers"])
                if not (a or b or leak):
                    continue            # no data of this problem in the scenario
                stats["scenario_problem_pairs"] += 1
                stats["pairs_leaking"] += leak
                cls = "%s|%s A=%d B=%d leak=%d" % (s["shape"], prob["name"], a, b, leak)
                shape_dist[cls] = shape_dist.get(cls, 0) + 1
                if b and not a:
                    stats["pairs_suppressed"] += 1
                if leak and not a and not b:
                    stats["pairs_unattributed_miss"] += 1
                    chk.notes.append("scenario %s/%s (%s, %s): marker reaches the sink natively but no flow is reported even WITHOUT "
                                     "validator/sanitizer specs (a C01 matter, not attributed to C02)" % (s["shape"], s["form"], s["sink"], prob["name"]))
                if not (leak and b and not a):
                    continue
                stats["pairs_suppressed_and_leaking"] += 1
                # is the suppression the single-path class exhibited by the faithful model?
                fn = byname.get((pi, s["fn"]))
                explained = False
                why = "no dropped edge into %s found in %s for %s" % (s["sink"], s["fn"], prob["name"])
                if fn is not None:
                    # known class <=> the faithful single-path model reproduces EVERY edge verdict of this function (for this problem),
                    # every sanitizer verdict agrees with the problem's own list, and some dropped edge into this sink has a bypass
                    # path (the situation of validator_drop_refuted)
                    res = {kk: vv for kk, vv in fn["R"].items() if kk[:2] == "RE" and kk.split()[1] != "s" and not vv.endswith("d=x")}
                    agree = all(fn["model"]["R"].get(kk) == vv for kk, vv in res.items())
                    san_ok = all(fn["QS"].get(site, "?") in ("?", real) for site, real in fn["S"].items())
                    dropped = [kk for kk, vv in res.items() if vv.endswith("d=1") and fn["tag"].get(kk, "").endswith("->%s#0" % s["sink"])]
                    bypass = [kk for kk in dropped if fn["model"]["I"].get(kk[3:]) == "bypass"]
                    explained = agree and san_ok and len(bypass) > 0
                    why = ("%s: edges into %s dropped by the real addNext: %s; of these with a CFG path bypassing the validated branch: %s; "
                           "faithful single-path model reproduces all %d edge verdicts of the function: %s; sanitizer verdicts as specified: %s"
                           % (prob["name"], s["sink"], dropped, bypass, len(res), agree, san_ok))
                key = KNOWN_KEY if explained else "suppressed-flow:%s:%s:%s" % (s["shape"], s["form"], prob["name"])
                nrep[key] = nrep.get(key, 0) + 1
                if explained and nrep[key] > 2:
                    chk.violation(key, "scenario %s/%s (%s)" % (s["shape"], s["form"], s["sink"]), "")    # known class: two replays suffice
                    continue
                dd = chk.replay_dir(key + str(k))
                write_scenario_replay(dd, d, s, why)
                if chk.violation(key, "scenario %s/%s, taint problem %s: the flow %s -> %s is reported without validator/sanitizer specs, "
                                 "silent with them, and the unvalidated/unsanitised marker reaches the sink natively (%s)"
                                 % (s["shape"], s["form"], prob["name"], "/".join(sorted(prob["sources"])), s["sink"], why), dd):
                    found_concrete = True

    for fn, k, v, mv in edge_viol[:20]:
        dd = chk.replay_dir("edge-bypass:" + fn["name"] + k)
        write_replay(dd, fn, k, v, "the real addNext drops this edge, a CFG path from the source block to the call avoids "
                     "every validated branch, and the faithful single-path model does NOT predict the drop (model: %s)" % mv, fn["prog"])
        chk.violation("edge-dropped-with-bypass:%s" % fn["name"].split(".")[-1],
                      "edge %s (%s) of %s (taint problem %s) is dropped by the validator test although a CFG path bypasses the check"
                      % (k, fn["tag"].get(k, ""), fn["name"], fn["id"].split(".")[0]), dd)
    for fn, site, real, own in san_viol[:20]:
        # concrete: a named call node of a named program whose sanitizer verdict contradicts the problem's own sanitizer list
        found_concrete = True
        dd = chk.replay_dir("sanitizer-verdict:" + fn["name"] + site + fn["id"])
        write_replay(dd, fn, "RS " + site, real, "isSanitizer of the call node / argument %s (block.instr.callee.arg) for taint problem %s answers %s, "
                     "but the sanitizer list of THAT problem says %s (statement: a flow is dropped because of a sanitizer only if the data was "
                     "returned by a sanitizer call OF THE PROBLEM BEING SOLVED)" % (site, fn["id"].split(".")[0], real, own), fn["prog"])
        chk.violation("sanitizer-verdict:%s:%s" % (site.split(".")[2], "extra" if real == "1" else "missing"),
                      "real isSanitizer(problem %s, %s in %s) = %s, the problem's sanitizer specs say %s"
                      % (fn["id"].split(".")[0], site, fn["name"], real, own), dd)

    if tie_broken and not (found_concrete and chk.has_new_concrete()):
        fn, k, v, mv = tie_broken[0]
        dd = chk.replay_dir("tie")
        write_replay(dd, fn, k, v, "T-dump tie broken: extracted model Model/Cond.v answers '%s', the implementation '%s' (%d answers differ); "
                     "the theorems of Properties/C02.v no longer describe this code" % (mv, v, len(tie_broken)), fn["prog"])
        chk.violation("tie-broken", "model/implementation correspondence broken on %d answers, e.g. %s of %s: impl '%s' model '%s'"
                      % (len(tie_broken), k, fn["name"], v, mv), dd, no_input=True)
    chk.proof_broken(failed, found_concrete)

    nq = (stats["path_queries"] + stats["predicate_queries"] + stats["validator_verdict_queries"] + stats["real_edges"]
          + stats["sanitizer_node_verdicts"])
    chk.cov["evaluations"] = nq + stats["scenario_problem_pairs"]
    chk.cov["distinct_nontrivial"] = len(distinct) + len(shape_dist)
    chk.cov["rule"] = ("T-dump: every summarised function of the corpus/generated programs, once PER TAINT PROBLEM of the configuration, plus a "
                       "seed-sampled set of If-containing standard-library functions: all block pairs (<=12 blocks, else 40 sampled pairs) "
                       "through the real FindIntraProceduralPath, every (If condition, call argument) through IsPredicateTo, every If condition "
                       "through isValidatorCondition of that problem, every real summary edge into a call argument through the real addNext of "
                       "that problem, every call node / argument node through the real isSanitizer of that problem; non-trivial = function "
                       "with >=3 blocks and a found path carrying >=1 condition, distinct = distinct (successor lists, condition expressions); "
                       "T-gt: distinct (scenario shape, taint problem, reported with specs, reported without, leaks natively) classes")
    chk.cov["traces_validated_against_impl"] = nq - stats["model_mismatch"] - stats["sanitizer_mismatch"]
    stats["scenario_classes"] = shape_dist
    chk.cov["distribution"] = stats
    chk.assumptions += [
        "validator/sanitizer matching of a callee against ONE problem's code identifiers: decided by the harness's own matcher (package + "
        "method regexes, static callee) for %d leaf verdicts, taken from the real IsMatchingCodeIDWithCallee / not compared for %d (other "
        "identifier fields, interface calls); source/sink matching is an oracle (property C04)"
        % (stats["leaf_verdicts_own_matcher"], stats["leaf_verdicts_oracle"]),
        "CFG, SSA values and types as built by x/tools/go/ssa; the translation of SSA values to the model's vexpr/cexpr is done by "
        "harness/cmd/c02dump (trusted, syntactic)",
        "native ground truth uses honest validators (accept exactly the data free of the marker of the problems that list them) and honest "
        "sanitizers; all valuations of <=5 opaque branch conditions per scenario, loops cut after 60 steps; generated configuration: 3 taint "
        "problems with overlapping sinks (P1/P2), overlapping sources (P2/P3), shared and private sanitizers/validators",
        "hypotheses of the theorems checked on every dumped function by the extracted wf_cfgb / wf_conds: %d CFGs not well-formed, "
        "%d functions with an ill-formed condition" % (stats["cfg_not_wf"], stats["conds_not_wf"]),
        "edges into parameters/free variables decorated at call sites (addParamEdge/addFreeVarEdge with a condition) and call values of "
        "function type (path to the first reachable referrer) are not compared (%d edges of unmodelled form)" % stats["edges_unmodelled_form"],
    ]
    return chk.finish()


def write_replay(d, fn, k, v, msg, prog):
    with open(os.path.join(d, "replay.txt"), "w") as f:
        f.write(msg + "\n\nprogram: %s\nquery: %s\nimplementation: %s\nmodel: %s\nspec (bypass path?): %s\n\n%s\n\n"
                % (prog, k, v, fn.get("model", {}).get("R", {}).get(k), fn.get("model", {}).get("I", {}).get(k[3:]), fn_text(fn)))
        f.write("re-run: build/bin/c02dump -maxfn 0 %s | tee impl.txt | build/bin/c02model   (compare the R* lines of function %s)\n"
                % (prog, fn["name"]))
    src = os.path.join(prog, "main.go")
    if prog.startswith(vlib.BUILD) and os.path.exists(src):
        for n in ("main.go", "go.mod", "config.yaml", "config_b.yaml"):
            if os.path.exists(os.path.join(prog, n)):
                shutil.copy(os.path.join(prog, n), d)


def write_scenario_replay(d, prog, s, why):
    text = open(os.path.join(prog, "main.go")).read()
    k = s["k"]
    m = re.search(r"func %s\(\) \{.*?\n\}\n" % re.escape(s["fn"].replace("in", "") if s["fn"].endswith("in") else s["fn"]), text, flags=re.S)
    body = m.group(0) if m else ""
    if s["fn"].endswith("in"):
        m2 = re.search(r"func %s\(x string\) \{.*?\n\}\n" % re.escape(s["fn"]), text, flags=re.S)
        body += "\n" + (m2.group(0) if m2 else "")
    for n in ("main.go", "go.mod", "config.yaml", "config_b.yaml"):
        shutil.copy(os.path.join(prog, n), d)
    with open(os.path.join(d, "replay.txt"), "w") as f:
        f.write("scenario %s / form %s, sink %s, function %s\n%s\n\n%s\n" % (s["shape"], s["form"], s["sink"], s["fn"], why, body))
        f.write("expected: the flow into %s is reported (the marker reaches it in a native run: `go run .` prints LEAK %d <A|B|C>)\n"
                "observed: `argot taint -config config.yaml .` does not report it, `argot taint -config config_b.yaml .` (same problems "
                "without validators / sanitizers) does\nre-run: cd <this dir>; go run . | grep 'LEAK %d '; "
                "build/bin/c02dump -gt -maxfn 0 . | grep ' %s '\n" % (s["sink"], k, k, s["sink"]))


def replay(chk, path):
    p = os.path.join(path, "replay.txt") if os.path.isdir(path) else path
    print(open(p).read())
    if os.path.isdir(path) and os.path.exists(os.path.join(path, "main.go")):
        vlib.build_harness(["c02dump"])
        rc, out = vlib.sh([os.path.join(vlib.BIN, "c02dump"), "-gt", "-maxfn", "0", path], timeout=900)
        print("\n".join(l for l in out.splitlines() if l.startswith(("FLOW", "ERR", "PANIC", "FAIL"))))
        rc, out, err = vlib.sh2(["go", "run", "."], cwd=path, timeout=600)
        print(out)
    return 0
