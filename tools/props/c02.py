"""C02 - sanitizers and validators only suppress flows that really pass through them.

proof     : coq/theories/Properties/C02.v  (model: Model/Cond.v, lemmas: Proofs/Cond.v)
tie T-dump: harness/cmd/c02dump (real FindIntraProceduralPath / IsPredicateTo / isValidatorCondition / summary-edge
            conditions / real addNext verdict on real SSA)  ==  extracted model (build/bin/c02model)
spec      : executable spec of the statement at edge level (extracted `ideal_kept`: is there a CFG path source->sink that
            avoids every validated step?) against the real dropped/kept verdict of every real edge
search T-gt: generated validator / sanitizer scenario programs (hand-enumerated CFG shapes x validator forms + random
            goto-CFGs), executed natively with honest validators/sanitizers and a marker-detecting sink, analysed by the
            real taint.Analyze in-process with and without the validator/sanitizer specs:
            suppressed (reported without, silent with) AND marker reaches the sink natively  =>  failing input
"""
import os
import re
import shutil
import concurrent.futures as cf

import vlib

CORPUS_QUICK = ["analysis/taint/testdata/validators", "analysis/taint/testdata/sanitizers"]
CORPUS_THOROUGH = CORPUS_QUICK + ["analysis/taint/testdata/basic", "analysis/taint/testdata/filters",
                                  "analysis/taint/testdata/intra-procedural", "analysis/taint/testdata/fields",
                                  "analysis/taint/testdata/parameters", "analysis/taint/testdata/tuples",
                                  "analysis/taint/testdata/closures", "analysis/backtrace/testdata/validators"]

KNOWN_KEY = "validator-single-path"
DUP_KEY = "validator-dup-last-block"

# ---------------------------------------------------------------------------------- scenario generator
PRELUDE = '''package main

import (
	"errors"
	"fmt"
	"strings"
)

const MARK = "@@MARK@@"

var bits uint
var steps int
var leaks = map[int]bool{}

type stop struct{}

func source() string { return "a" + MARK + "b" }

// opaque branch condition: next bit of the current valuation
func c() bool {
	tick()
	b := bits&1 == 1
	bits >>= 1
	return b
}

func tick() {
	steps++
	if steps > 60 {
		panic(stop{})
	}
}

func logit(x any) {}

func hit(k int, x any) {
	if strings.Contains(fmt.Sprint(x), MARK) {
		leaks[k] = true
	}
}

// honest validators: accept exactly the data that does not carry the marker
func Validate(x string) bool { return !strings.Contains(x, MARK) }

func ValidateErr(x string) error {
	if strings.Contains(x, MARK) {
		return errors.New("invalid")
	}
	return nil
}

func ValidateTupErr(x string) (string, error) {
	if strings.Contains(x, MARK) {
		return "bad", errors.New("invalid")
	}
	return "ok", nil
}

func ValidateTupOk(x string) (string, bool) {
	if strings.Contains(x, MARK) {
		return "bad", false
	}
	return "ok", true
}

type box struct {
	N int
	S string
}

func ValidateBox(b box) bool { return !strings.Contains(b.S, MARK) }

// honest sanitizer: removes the marker
func Sanitize(x string) string { return strings.ReplaceAll(x, MARK, "") }

func SanitizeVia(x string) string { return Sanitize(x + "!") }

func run(f func(), n int) {
	for v := uint(0); v < 1<<uint(n); v++ {
		func() {
			defer func() {
				if r := recover(); r != nil {
					if _, ok := r.(stop); !ok {
						panic(r)
					}
				}
			}()
			bits = v
			steps = 0
			f()
		}()
	}
}
'''

# validator forms: (name, preamble statement, condition true when VALID, condition true when INVALID); {v} = value
FORMS = [
    ("bool", "", "Validate({v})", "!Validate({v})"),
    ("err", "", "ValidateErr({v}) == nil", "ValidateErr({v}) != nil"),
    ("errvar", "err := ValidateErr({v})", "err == nil", "err != nil"),
    ("nil-left", "", "nil == ValidateErr({v})", "nil != ValidateErr({v})"),
    ("tuperr", "_, err := ValidateTupErr({v})", "err == nil", "err != nil"),
    ("tupok", "_, ok := ValidateTupOk({v})", "ok", "!ok"),
    ("notnot", "", "!!Validate({v})", "!Validate({v})"),
]

# validator shapes: body templates; {PRE} preamble, {OK} / {BAD} conditions on x, {S} sink call on x
VSHAPES = [
    ("then-only", 0, "{PRE}\n\tif {OK} {{\n\t\t{S}\n\t}}"),
    ("else-only", 0, "{PRE}\n\tif {OK} {{\n\t\tlogit(1)\n\t}} else {{\n\t\t{S}\n\t}}"),
    ("then-only-bad", 0, "{PRE}\n\tif {BAD} {{\n\t\t{S}\n\t}}"),
    ("else-only-bad", 0, "{PRE}\n\tif {BAD} {{\n\t\tlogit(1)\n\t}} else {{\n\t\t{S}\n\t}}"),
    ("diamond-ok-after", 0, "{PRE}\n\tif {OK} {{\n\t\tlogit(1)\n\t}} else {{\n\t\tlogit(2)\n\t}}\n\t{S}"),
    ("diamond-bad-after", 0, "{PRE}\n\tif {BAD} {{\n\t\tlogit(1)\n\t}} else {{\n\t\tlogit(2)\n\t}}\n\t{S}"),
    ("triangle-ok", 0, "{PRE}\n\tif {OK} {{\n\t\tlogit(1)\n\t}}\n\t{S}"),
    ("triangle-bad", 0, "{PRE}\n\tif {BAD} {{\n\t\tlogit(1)\n\t}}\n\t{S}"),
    ("early-return", 0, "{PRE}\n\tif {BAD} {{\n\t\treturn\n\t}}\n\t{S}"),
    ("early-return-inverted", 0, "{PRE}\n\tif {OK} {{\n\t\treturn\n\t}}\n\t{S}"),
    ("loop-revalidate-zero-iter", 3, "for c() {{\n\t\t{PRE}\n\t\tif {BAD} {{\n\t\t\treturn\n\t\t}}\n\t}}\n\t{S}"),
    ("loop-sink-inside-valid", 3, "for c() {{\n\t\t{PRE}\n\t\tif {OK} {{\n\t\t\t{S}\n\t\t}}\n\t}}"),
    ("loop-continue", 3, "for c() {{\n\t\t{PRE}\n\t\tif {BAD} {{\n\t\t\tcontinue\n\t\t}}\n\t\t{S}\n\t}}"),
    ("retaint-after-check", 0, "{PRE}\n\tif {BAD} {{\n\t\treturn\n\t}}\n\tx = source()\n\t{S}"),
    ("retaint-in-arm", 1, "{PRE}\n\tif {BAD} {{\n\t\treturn\n\t}}\n\tif c() {{\n\t\tx = x + source()\n\t}}\n\t{S}"),
    ("opaque-guarded-check", 1, "if c() {{\n\t\t{PRE}\n\t\tif {BAD} {{\n\t\t\treturn\n\t\t}}\n\t}}\n\t{S}"),
    ("nested-valid", 1, "if c() {{\n\t\t{PRE}\n\t\tif {OK} {{\n\t\t\t{S}\n\t\t}}\n\t}}"),
    ("one-arm-checked", 1, "if c() {{\n\t\t{PRE}\n\t\tif {BAD} {{\n\t\t\treturn\n\t\t}}\n\t}} else {{\n\t\tlogit(1)\n\t}}\n\t{S}"),
    ("both-arms-checked", 1, "if c() {{\n\t\t{PRE}\n\t\tif {BAD} {{\n\t\t\treturn\n\t\t}}\n\t}} else {{\n\t\t{PRE}\n\t\tif {BAD} {{\n\t\t\treturn\n\t\t}}\n\t}}\n\t{S}"),
    ("and-valid", 1, "{PRE}\n\tif {OK} && c() {{\n\t\t{S}\n\t}}"),
    ("or-valid", 1, "{PRE}\n\tif {OK} || c() {{\n\t\t{S}\n\t}}"),
    ("or-bad-return", 1, "{PRE}\n\tif {BAD} || c() {{\n\t\treturn\n\t}}\n\t{S}"),
    ("and-bad-return", 1, "{PRE}\n\tif {BAD} && c() {{\n\t\treturn\n\t}}\n\t{S}"),
    ("opaque-and-bad-return", 1, "{PRE}\n\tif c() && {BAD} {{\n\t\treturn\n\t}}\n\t{S}"),
    ("switch-true", 1, "{PRE}\n\tswitch {{\n\tcase {BAD}:\n\t\tlogit(1)\n\tcase c():\n\t\tlogit(2)\n\t}}\n\t{S}"),
    ("dowhile-sink-then-check", 0, "for {{\n\t\ttick()\n\t\t{S}\n\t\t{PRE}\n\t\tif {BAD} {{\n\t\t\tbreak\n\t\t}}\n\t}}"),
    ("dowhile-sink-then-continue-if-ok", 0, "for {{\n\t\ttick()\n\t\t{S}\n\t\t{PRE}\n\t\tif {OK} {{\n\t\t\tcontinue\n\t\t}}\n\t\tbreak\n\t}}"),
    ("sink-before-check", 0, "{S}\n\t{PRE}\n\tif {BAD} {{\n\t\treturn\n\t}}"),
]

# shapes where the checked value differs from / aliases the value reaching the sink (only some forms)
XSHAPES = [
    ("check-on-copy", 0, "y := x\n\tif !Validate(y) {\n\t\treturn\n\t}\n\t{S}"),
    ("check-other-data", 0, "z := \"clean\"\n\tif !Validate(z) {\n\t\treturn\n\t}\n\t{S}"),
    ("check-other-data-err", 0, "z := \"clean\"\n\tif err := ValidateErr(z); err != nil {\n\t\treturn\n\t}\n\t{S}"),
    ("check-concat", 0, "if !Validate(x + \"s\") {\n\t\treturn\n\t}\n\t{S}"),
    ("check-deref", 0, "p := &x\n\tif !Validate(*p) {\n\t\treturn\n\t}\n\tsink{K}(*p)"),
    ("check-deref-bypass", 0, "p := &x\n\tif !Validate(*p) {\n\t\tlogit(1)\n\t}\n\tsink{K}(*p)"),
    ("check-struct", 0, "b := box{1, x}\n\tif !ValidateBox(b) {\n\t\treturn\n\t}\n\tsink{K}(b)"),
    ("check-struct-bypass", 0, "b := box{1, x}\n\tif !ValidateBox(b) {\n\t\tlogit(1)\n\t}\n\tsink{K}(b)"),
    ("stored-verdict", 0, "ok := Validate(x)\n\tlogit(ok)\n\tif ok {\n\t\t{S}\n\t}"),
    ("stored-verdict-negated", 0, "ok := Validate(x)\n\tif !ok {\n\t\t{S}\n\t}"),
    ("stored-verdict-bypass", 0, "ok := Validate(x)\n\tif !ok {\n\t\tlogit(1)\n\t}\n\t{S}"),
    ("first-tuple-element", 0, "s, _ := ValidateTupErr(x)\n\tif s != \"ok\" {\n\t\treturn\n\t}\n\t{S}"),
    ("validator-result-ignored", 0, "Validate(x)\n\t{S}"),
    ("validator-compared-false", 0, "if Validate(x) == false {\n\t\treturn\n\t}\n\t{S}"),
]

# sanitizer shapes
SSHAPES = [
    ("sanitized", 0, "y := Sanitize(x)\n\tsink{K}(y)"),
    ("sanitizer-one-arm", 1, "y := x\n\tif c() {\n\t\ty = Sanitize(x)\n\t}\n\tsink{K}(y)"),
    ("sanitizer-other-arm", 1, "var y string\n\tif c() {\n\t\ty = x\n\t} else {\n\t\ty = Sanitize(x)\n\t}\n\tsink{K}(y)"),
    ("sanitizer-result-unused", 0, "_ = Sanitize(x)\n\tsink{K}(x)"),
    ("sanitizer-result-unused2", 0, "y := Sanitize(x)\n\tlogit(y)\n\tsink{K}(x)"),
    ("sanitized-plus-raw", 0, "y := Sanitize(x) + x\n\tsink{K}(y)"),
    ("sanitized-then-retaint", 1, "y := Sanitize(x)\n\tif c() {\n\t\ty = y + x\n\t}\n\tsink{K}(y)"),
    ("sanitizer-in-callee", 0, "y := SanitizeVia(x)\n\tsink{K}(y)"),
    ("sanitize-reassign", 0, "x = Sanitize(x)\n\tsink{K}(x)"),
    ("sanitize-loop-zero-iter", 2, "for c() {\n\t\tx = Sanitize(x)\n\t}\n\tsink{K}(x)"),
    ("sanitize-copy-only", 0, "y := x\n\t_ = Sanitize(y)\n\tsink{K}(x)"),
    ("sanitize-other-data", 0, "y := Sanitize(\"k\")\n\tsink{K}(x + y)"),
    ("sanitize-struct-field", 0, "b := box{1, x}\n\tb.S = Sanitize(b.S)\n\tsink{K}(b.N)\n\tlogit(b)"),
    ("sanitized-box-raw-field", 0, "b := box{1, Sanitize(x)}\n\tc2 := box{2, x}\n\tlogit(b)\n\tsink{K}(c2)"),
]


def gen_random_cfg(rnd, k0, nfun):
    """random goto-CFG functions: blocks end in `if <validator cond|opaque> goto A; goto B` / goto / return, some blocks
    call a sink.  Returns (list of (name, source text, nbits), list of scenario dicts)."""
    out = []
    scen = []
    k = k0
    for i in range(nfun):
        nb = 3 + rnd(5)
        name = "rc%d" % i
        form = FORMS[rnd(len(FORMS))]
        lines = ["func %s() {" % name, "\tx := source()", "\tvar err error", "\tvar ok bool", "\t_, _ = err, ok"]
        targets = set()
        segs = []
        nsink = 0
        for b in range(nb):
            body = ["\ttick()"]
            if rnd(3) == 0 and nsink < 2:
                body.append("\tsink%d(x)" % k)
                scen.append({"k": k, "shape": "random-cfg", "form": form[0], "fn": name})
                k += 1
                nsink += 1
            t = rnd(10)
            if b == nb - 1 or t < 1:
                body.append("\treturn")
            elif t < 8:
                t1 = rnd(nb) or min(nb - 1, b + 1)
                t2 = rnd(nb) or min(nb - 1, b + 1)
                targets.update([t1, t2])
                ck = rnd(5)
                if ck < 2:
                    pre, cond = form[1], form[2]
                elif ck < 4:
                    pre, cond = form[1], form[3]
                else:
                    pre, cond = "", "c()"
                pre = pre.replace(":=", "=").format(v="x")
                if pre:
                    body.append("\t" + pre)
                body.append("\tif %s {\n\t\tgoto L%d\n\t}\n\tgoto L%d" % (cond.format(v="x"), t1, t2))
            else:
                t1 = rnd(nb) or min(nb - 1, b + 1)
                targets.add(t1)
                body.append("\tgoto L%d" % t1)
            segs.append(body)
        if nsink == 0:
            segs[nb - 1].insert(1, "\tsink%d(x)" % k)
            scen.append({"k": k, "shape": "random-cfg", "form": form[0], "fn": name})
            k += 1
        for b, body in enumerate(segs):
            if b in targets:
                lines.append("L%d:" % b)
            lines.extend(body)
        lines.append("}")
        out.append((name, "\n".join(lines), 5))
    return out, scen


def gen_program(seed, nrandom, quick=False):
    """-> (main.go text, scenarios [{k, shape, form, fn}])"""
    rnd = vlib.lcg(seed)
    funcs = []
    scen = []
    k = 0

    def add(shape, form, body, nbits, param=False):
        nonlocal k
        name = "sc%d" % k
        if param:
            funcs.append((name, "func %s() {\n\t%sin(source())\n}\n\nfunc %sin(x string) {\n\t%s\n}" % (name, name, name, body), nbits))
        else:
            funcs.append((name, "func %s() {\n\tx := source()\n\t%s\n}" % (name, body), nbits))
        scen.append({"k": k, "shape": shape, "form": form, "fn": name + ("in" if param else "")})
        k += 1

    forms = [f for f in FORMS if f[0] in ("bool", "errvar", "tuperr", "tupok", "nil-left")] if quick else FORMS
    pforms = [FORMS[0]] if quick else [FORMS[0], FORMS[2], FORMS[5]]
    for sname, nbits, tmpl in VSHAPES:
        for fname, pre, okc, badc in forms:
            body = tmpl.format(PRE=pre.format(v="x"), OK=okc.format(v="x"), BAD=badc.format(v="x"), S="sink%d(x)" % k)
            body = "\n".join(l for l in body.split("\n") if l.strip())
            if body.count(":= ValidateErr") + body.count(":= ValidateTup") > 1:
                # the same preamble twice in sibling scopes is fine, in the same scope it is not: both-arms uses scopes
                pass
            add(sname, fname, body, nbits)
    # the same shapes on a PARAMETER (source = first instruction of the callee's entry block), a few forms
    for sname, nbits, tmpl in VSHAPES:
        for fname, pre, okc, badc in pforms:
            body = tmpl.format(PRE=pre.format(v="x"), OK=okc.format(v="x"), BAD=badc.format(v="x"), S="sink%d(x)" % k)
            body = "\n".join(l for l in body.split("\n") if l.strip())
            add(sname + "/param", fname, body, nbits, param=True)
    for sname, nbits, tmpl in XSHAPES:
        add(sname, "-", tmpl.replace("{S}", "sink%d(x)" % k).replace("{K}", str(k)), nbits)
    for sname, nbits, tmpl in SSHAPES:
        add(sname, "sanitizer", tmpl.replace("{K}", str(k)), nbits)
    rfun, rscen = gen_random_cfg(rnd, 10000, nrandom)
    funcs += rfun
    scen += rscen
    src = [PRELUDE]
    for s in scen:
        src.append("func sink%d(x any) { hit(%d, x) }" % (s["k"], s["k"]))
    for _, text, _ in funcs:
        src.append(text)
    main = ["func main() {"]
    for name, _, nbits in funcs:
        main.append("\trun(%s, %d)" % (name, nbits))
    main.append("\tfor k := range leaks {\n\t\tfmt.Println(\"LEAK\", k)\n\t}\n}")
    src.append("\n".join(main))
    return "\n\n".join(src) + "\n", scen


CONFIG_A = """taint-tracking-problems:
  -
    sources:
      - package: "{pkg}"
        method: "^source$"
    sinks:
      - package: "{pkg}"
        method: "^sink[0-9]+$"
    validators:
      - package: "{pkg}"
        method: "^Validate.*"
    sanitizers:
      - package: "{pkg}"
        method: "^Sanitize$"
options:
  log-level: 1
"""
CONFIG_B = """taint-tracking-problems:
  -
    sources:
      - package: "{pkg}"
        method: "^source$"
    sinks:
      - package: "{pkg}"
        method: "^sink[0-9]+$"
options:
  log-level: 1
"""


# ---------------------------------------------------------------------------------- dump parsing
def parse(path):
    """-> (programs: {dir: {"flows": {tag: set(sink name)}, "err": [...]}}, fns: {(dir, fid): fn})"""
    progs = {}
    fns = {}
    cur = None
    prog = None
    for l in open(path, errors="replace"):
        l = l.rstrip("\n")
        if not l:
            continue
        if l.startswith("P "):
            prog = l[2:]
            progs.setdefault(prog, {"flows": {"A": set(), "B": set()}, "err": []})
        elif l.startswith("FLOW "):
            p = l.split()
            progs[prog]["flows"][p[1]].add(p[2])
        elif l.startswith(("ERR", "PANIC", "FAIL")):
            progs[prog]["err"].append(l)
        elif l.startswith("F "):
            p = l.split()
            cur = {"id": p[1], "name": p[2], "kind": p[3] if len(p) > 3 else "?", "prog": prog, "B": [], "C": {}, "X": {},
                   "R": {}, "I": {}, "tag": {}, "dup": set(), "W": None}
            fns[(prog, p[1])] = cur
        elif cur is None:
            continue
        elif l[0] == "B":
            cur["B"].append(l)
        elif l[:2] == "C ":
            p = l.split(None, 2)
            cur["C"][p[1]] = p[2] if len(p) > 2 else ""
        elif l[:2] == "X ":
            p = l.split(None, 2)
            cur["X"][p[1]] = p[2] if len(p) > 2 else ""
        elif l[:2] in ("RP", "RM", "RV", "RE"):
            k, _, v = l.partition(" = ")
            cur["R"][k] = v.strip()
        elif l[:2] == "RI":
            k, _, v = l.partition(" = ")
            v = v.strip()
            cur["I"][k[3:]] = v.split()[0]
            if " dup" in v:
                cur["dup"].add(k[3:])
        elif l[:2] == "W ":
            cur["W"] = l.split()[1:]
        elif l[:2] == "QE":
            p = l.split()
            cur["tag"]["RE " + " ".join(p[1:7])] = p[7] if len(p) > 7 else ""
    return progs, fns


def fn_text(fn):
    return "\n".join(["F %s %s" % (fn["id"], fn["name"])] + fn["B"] + ["C %s %s" % kv for kv in fn["C"].items()] +
                     ["X %s %s" % kv for kv in fn["X"].items()])



def repaired_dup(kind, v, mv):
    """True when impl and faithful model differ ONLY by the artefact of PathToLeaf's duplicated last block, the
    implementation being the one without it (non-alarm direction: the impl is closer to the spec than the model)."""
    if mv is None:
        return False
    if kind == "RP":
        b1, _, c1 = v.partition(";")
        b2, _, c2 = mv.partition(";")
        b1, b2, c1, c2 = b1.split(), b2.split(), c1.split(), c2.split()
        return len(b1) >= 1 and b1[0] != "nil" and b2 == b1 + [b1[-1]] and (c1 == c2 or c1 == c2[:-1])
    if kind == "RE":
        c1 = v.split(";")[0].split()
        c2 = mv.split(";")[0].split()
        d1, d2 = v.rsplit("d=", 1)[-1], mv.rsplit("d=", 1)[-1]
        return len(c2) > 0 and c1 == c2[:-1] and (d1 == d2 or (d1 == "0" and d2 == "1"))
    return False


# ---------------------------------------------------------------------------------- the check
def run(chk):
    tier = chk.tier
    failed = chk.prove("theories/Properties/C02.v")
    vlib.build_harness(["c02dump"])
    model = vlib.build_model("c02")
    work = os.path.join(vlib.BUILD, "c02")
    shutil.rmtree(work, ignore_errors=True)
    os.makedirs(work)

    # ---- generated scenario programs
    nprog = 1 if tier == "quick" else 4
    gens = []
    for g in range(nprog):
        d = os.path.join(work, "gen%d" % g)
        os.makedirs(d)
        text, scen = gen_program(chk.seed * 100 + g, 30 if tier == "quick" else 150, quick=(tier == "quick"))
        open(os.path.join(d, "go.mod"), "w").write("module c02gen%d\n\ngo 1.22\n" % g)
        open(os.path.join(d, "main.go"), "w").write(text)
        open(os.path.join(d, "config.yaml"), "w").write(CONFIG_A.format(pkg="c02gen%d" % g))
        open(os.path.join(d, "config_b.yaml"), "w").write(CONFIG_B.format(pkg="c02gen%d" % g))
        gens.append((d, scen))
    corpus = [os.path.join(vlib.REPO, p) for p in (CORPUS_QUICK if tier == "quick" else CORPUS_THOROUGH)]
    corpus = [p for p in corpus if os.path.isdir(p)]

    # ---- run the dumper (one process per program, in parallel), the natives, then the model
    exe = os.path.join(vlib.BIN, "c02dump")
    maxfn = "100" if tier == "quick" else "1500"

    def dump(job):
        tag, d, gt = job
        out = os.path.join(work, tag + ".dump")
        cmd = [exe, "-seed", str(chk.seed), "-maxfn", maxfn if not gt else "0", "-o", out] + (["-gt"] if gt else []) + [d]
        rc, log = vlib.sh(cmd, timeout=1500)
        return tag, d, out, rc, log

    def native(d):
        rc, out, err = vlib.sh2(["go", "run", "."], cwd=d, timeout=900)
        return d, rc, out, err

    jobs = [("gen%d" % i, d, True) for i, (d, _) in enumerate(gens)] + [("corpus%d" % i, d, False) for i, d in enumerate(corpus)]
    with cf.ThreadPoolExecutor(max_workers=min(6, len(jobs) + len(gens))) as ex:
        nat_f = [ex.submit(native, d) for d, _ in gens]
        dump_f = [ex.submit(dump, j) for j in jobs]
        dumps = [f.result() for f in dump_f]
        nats = {r[0]: r for r in (f.result() for f in nat_f)}
    good = []
    for tag, d, out, rc, log in dumps:
        if rc != 0 or not os.path.exists(out):
            detail = log[-3000:] + (open(out, errors="replace").read()[-1500:] if os.path.exists(out) else "")
            if tag.startswith("gen") or tier == "quick":
                raise vlib.BuildError("c02dump failed on %s (rc=%s)" % (d, rc), detail)
            chk.notes.append("corpus program %s skipped: c02dump rc=%s %s" % (d, rc, detail[-300:].replace("\n", " | ")))
            continue
        good.append((tag, d, out, rc, log))
    dumps = good

    stats = {"functions": 0, "functions_with_if": 0, "path_queries": 0, "paths_found": 0, "paths_with_conditions": 0,
             "predicate_queries": 0, "predicate_true": 0, "validator_verdict_queries": 0, "validator_conditions": 0,
             "real_edges": 0, "real_edges_conditioned": 0, "real_edges_dropped": 0, "edges_unmodelled_form": 0,
             "model_mismatch": 0, "impl_more_conservative": 0, "edge_spec_failures_known_class": 0,
             "edge_spec_failures_other": 0, "scenarios": 0, "scenarios_leaking": 0, "scenarios_suppressed": 0,
             "scenarios_suppressed_and_leaking": 0, "scenarios_unattributed_miss": 0, "stale_known_finding": 0,
             "edge_spec_failures_dup_class": 0, "repaired_dup_artefact": 0, "cfg_not_wf": 0, "conds_not_wf": 0}
    distinct = set()
    shape_dist = {}
    found_concrete = False
    tie_broken = []
    edge_viol = []      # edge-level spec failures outside the known classes; reported after the natively confirmed ones

    allfns = {}
    allprogs = {}
    for tag, d, out, rc, log in dumps:
        rc2, mout, merr = vlib.sh2([model], inp=open(out, errors="replace").read(), timeout=1200)
        if rc2 != 0:
            raise vlib.BuildError("c02model failed on %s" % tag, merr[-3000:])
        mp = os.path.join(work, tag + ".model")
        open(mp, "w").write(mout)
        progs, impl = parse(out)
        _, mod = parse(mp)
        allprogs.update(progs)
        for p in progs.values():
            if p["err"]:
                chk.notes.append("analysis messages for %s: %s" % (d, "; ".join(p["err"])[:300]))
        for key, fn in impl.items():
            allfns[key] = fn
            m = mod.get(key, {"R": {}, "I": {}, "dup": set(), "W": None})
            fn["model"] = m
            stats["functions"] += 1
            if any(" - |" not in b for b in fn["B"]):
                stats["functions_with_if"] += 1
            sig = (tuple(b.split("|")[1].strip() for b in fn["B"]), tuple(sorted(fn["C"].values())))
            interesting = False
            for k, v in fn["R"].items():
                mv = m["R"].get(k)
                kind = k[:2]
                if kind == "RP":
                    stats["path_queries"] += 1
                    if not v.startswith("nil"):
                        stats["paths_found"] += 1
                        if v.split(";")[1].strip():
                            stats["paths_with_conditions"] += 1
                            interesting = True
                elif kind == "RM":
                    stats["predicate_queries"] += 1
                    stats["predicate_true"] += v == "1"
                elif kind == "RV":
                    stats["validator_verdict_queries"] += 1
                    stats["validator_conditions"] += "1" in v
                elif kind == "RE":
                    stats["real_edges"] += 1
                    if k.split()[1] == "s":
                        stats["edges_unmodelled_form"] += 1
                        continue
                    if v.split(";")[0].strip():
                        stats["real_edges_conditioned"] += 1
                    if v.endswith("d=1"):
                        stats["real_edges_dropped"] += 1
                    if v.endswith("d=x"):
                        continue
                if mv == v:
                    continue
                # disagreement: classify by direction
                if kind == "RE" and mv is not None and mv.endswith("d=1") and v.endswith("d=0"):
                    stats["impl_more_conservative"] += 1     # impl keeps an edge the faithful model drops: never an alarm
                    if m["I"].get(k[3:]) == "bypass":
                        stats["stale_known_finding"] += 1
                    continue
                if repaired_dup(kind, v, mv):
                    stats["repaired_dup_artefact"] += 1     # PathToLeaf no longer duplicates the last block: impl closer to the spec
                    if kind == "RE" and v.endswith("d=0") and mv.endswith("d=1"):
                        stats["stale_known_finding"] += 1
                    continue
                stats["model_mismatch"] += 1
                tie_broken.append((fn, k, v, mv))
            if m.get("W") is not None:
                stats["cfg_not_wf"] += m["W"][0] != "1"
                stats["conds_not_wf"] += m["W"][1] != "1"
            if interesting and len(fn["B"]) >= 3:
                distinct.add(hash(sig))
            # executable spec at edge level: a dropped edge must have no bypass path
            for k, v in fn["R"].items():
                if k[:2] != "RE" or not v.endswith("d=1"):
                    continue
                ideal = m["I"].get(k[3:])
                if ideal != "bypass":
                    continue
                explained = (m["R"].get(k) or "").endswith("d=1")      # the faithful model drops this edge too
                if explained and k[3:] in m["dup"]:
                    stats["edge_spec_failures_dup_class"] += 1
                    if stats["edge_spec_failures_dup_class"] <= 3:
                        dd = chk.replay_dir(DUP_KEY + ":" + fn["name"] + k)
                        write_replay(dd, fn, k, v, "edge dropped ONLY because of the condition collected on the duplicated last block of the "
                                     "found path (PathToLeaf emits the destination block twice): the call is reached before that branch", fn["prog"])
                        chk.violation(DUP_KEY, "edge %s of %s dropped by the self-loop branch of its own destination block" % (k, fn["name"]), dd)
                elif explained:
                    stats["edge_spec_failures_known_class"] += 1
                    if stats["edge_spec_failures_known_class"] <= 3:
                        dd = chk.replay_dir(KNOWN_KEY + ":" + fn["name"] + k)
                        write_replay(dd, fn, k, v, "edge dropped by a validator condition collected on the single path found, "
                                     "but another CFG path from the source block to the call avoids every validated branch", fn["prog"])
                        chk.violation(KNOWN_KEY, "edge %s of %s dropped although a CFG path bypasses the validated branch" % (k, fn["name"]), dd)
                else:
                    stats["edge_spec_failures_other"] += 1
                    found_concrete = True
                    edge_viol.append((fn, k, v, m["R"].get(k)))
            if (stats["real_edges_conditioned"] and any(kk[:2] == "RE" and vv.split(";")[0].strip() for kk, vv in fn["R"].items())
                    and len(chk.cov["samples"]) < 6):
                chk.sample({"function": fn["name"], "blocks": fn["B"], "conditions": fn["C"],
                            "edges": {kk: vv for kk, vv in fn["R"].items() if kk[:2] == "RE" and vv.split(";")[0].strip()},
                            "ideal": {kk: vv for kk, vv in m["I"].items()}})

    # ---- ground truth on the generated scenarios
    nrep = {}
    for d, scen in gens:
        _, rc, out, err = nats[d]
        if rc != 0:
            raise vlib.BuildError("generated scenario program does not run: %s" % d, err[-3000:])
        leaks = set(int(l.split()[1]) for l in out.splitlines() if l.startswith("LEAK "))
        flows = allprogs[d]["flows"]
        byname = {}
        for (p, fid), fn in allfns.items():
            if p == d:
                byname[fn["name"].split(".")[-1]] = fn
        for s in scen:
            k = s["k"]
            stats["scenarios"] += 1
            a = ("sink%d" % k) in flows["A"]
            b = ("sink%d" % k) in flows["B"]
            leak = k in leaks
            stats["scenarios_leaking"] += leak
            cls = "%s|A=%d B=%d leak=%d" % (s["shape"], a, b, leak)
            shape_dist[cls] = shape_dist.get(cls, 0) + 1
            if b and not a:
                stats["scenarios_suppressed"] += 1
            if leak and not a and not b:
                stats["scenarios_unattributed_miss"] += 1
                chk.notes.append("scenario %s/%s (sink%d): marker reaches the sink natively but no flow is reported even WITHOUT "
                                 "validator/sanitizer specs (a C01 matter, not attributed to C02)" % (s["shape"], s["form"], k))
            if not (leak and b and not a):
                continue
            stats["scenarios_suppressed_and_leaking"] += 1
            # is the suppression the single-path class exhibited by the faithful model?
            fn = byname.get(s["fn"])
            explained = False
            why = "no dropped edge into sink%d found in %s" % (k, s["fn"])
            if fn is not None:
                # known class <=> the faithful single-path model reproduces EVERY edge verdict of this function and some dropped
                # edge into this sink has a bypass path (the situation of validator_drop_refuted)
                res = {kk: vv for kk, vv in fn["R"].items() if kk[:2] == "RE" and kk.split()[1] != "s" and not vv.endswith("d=x")}
                agree = all(fn["model"]["R"].get(kk) == vv or repaired_dup("RE", vv, fn["model"]["R"].get(kk)) for kk, vv in res.items())
                dropped = [kk for kk, vv in res.items() if vv.endswith("d=1") and fn["tag"].get(kk, "").endswith("->sink%d#0" % k)]
                bypass = [kk for kk in dropped if fn["model"]["I"].get(kk[3:]) == "bypass"]
                explained = agree and len(bypass) > 0
                why = ("edges into sink%d dropped by the real addNext: %s; of these with a CFG path bypassing the validated branch: %s; "
                       "faithful single-path model reproduces all %d edge verdicts of the function: %s" % (k, dropped, bypass, len(res), agree))
                if explained and all(kk[3:] in fn["model"]["dup"] for kk in bypass):
                    explained = "dup"
            key = (DUP_KEY if explained == "dup" else KNOWN_KEY) if explained else "suppressed-flow:%s:%s" % (s["shape"], s["form"])
            nrep[key] = nrep.get(key, 0) + 1
            if explained and nrep[key] > 2:
                chk.violation(key, "scenario %s/%s (sink%d)" % (s["shape"], s["form"], k), "")    # known class: first two replays suffice
                continue
            dd = chk.replay_dir(key + str(k))
            write_scenario_replay(dd, d, s, why)
            if chk.violation(key, "scenario %s/%s: the flow source -> sink%d is reported without validator/sanitizer specs, silent with "
                             "them, and the unvalidated/unsanitised marker reaches the sink natively (%s)" % (s["shape"], s["form"], k, why), dd):
                found_concrete = True

    for fn, k, v, mv in edge_viol[:20]:
        dd = chk.replay_dir("edge-bypass:" + fn["name"] + k)
        write_replay(dd, fn, k, v, "the real addNext drops this edge, a CFG path from the source block to the call avoids "
                     "every validated branch, and the faithful single-path model does NOT predict the drop (model: %s)" % mv, fn["prog"])
        chk.violation("edge-dropped-with-bypass:%s" % fn["name"].split(".")[-1],
                      "edge %s (%s) of %s is dropped by the validator test although a CFG path bypasses the check" % (k, fn["tag"].get(k, ""), fn["name"]), dd)

    if tie_broken and not found_concrete:
        fn, k, v, mv = tie_broken[0]
        dd = chk.replay_dir("tie")
        write_replay(dd, fn, k, v, "T-dump tie broken: extracted model Model/Cond.v answers '%s', the implementation '%s' (%d answers differ); "
                     "the theorems of Properties/C02.v no longer describe this code" % (mv, v, len(tie_broken)), fn["prog"])
        chk.violation("tie-broken", "model/implementation correspondence broken on %d answers, e.g. %s of %s: impl '%s' model '%s'"
                      % (len(tie_broken), k, fn["name"], v, mv), dd, no_input=True)
    chk.proof_broken(failed, found_concrete)

    nq = stats["path_queries"] + stats["predicate_queries"] + stats["validator_verdict_queries"] + stats["real_edges"]
    chk.cov["evaluations"] = nq + stats["scenarios"]
    chk.cov["distinct_nontrivial"] = len(distinct) + len(shape_dist)
    chk.cov["rule"] = ("T-dump: every summarised function of the corpus/generated programs plus a seed-sampled set of If-containing "
                       "standard-library functions: all block pairs (<=12 blocks, else 40 sampled pairs) through the real "
                       "FindIntraProceduralPath, every (If condition, call argument) through IsPredicateTo, every If condition through "
                       "isValidatorCondition, every real summary edge into a call argument through the real addNext; non-trivial = "
                       "function with >=3 blocks and a found path carrying >=1 condition, distinct = distinct (successor lists, condition "
                       "expressions); T-gt: distinct (scenario shape, reported with specs, reported without, leaks natively) classes")
    chk.cov["traces_validated_against_impl"] = nq - stats["model_mismatch"]
    stats["scenario_classes"] = shape_dist
    chk.cov["distribution"] = stats
    chk.assumptions += [
        "validator/sanitizer/source/sink matching (code identifiers) is an oracle here (property C04); the leaf verdict 'callee is a "
        "validator' is taken from the real IsMatchingCodeIDWithCallee",
        "CFG, SSA values and types as built by x/tools/go/ssa; the translation of SSA values to the model's vexpr/cexpr is done by "
        "harness/cmd/c02dump (trusted, syntactic)",
        "native ground truth uses honest validators (accept exactly marker-free data) and an honest sanitizer (removes the marker); all "
        "valuations of <=5 opaque branch conditions per scenario, loops cut after 60 steps",
        "hypotheses of the theorems checked on every dumped function by the extracted wf_cfgb / wf_conds: %d CFGs not well-formed, "
        "%d functions with an ill-formed condition" % (stats["cfg_not_wf"], stats["conds_not_wf"]),
        "edges into parameters/free variables decorated at call sites (addParamEdge/addFreeVarEdge with a condition) and call values of "
        "function type (path to the first reachable referrer) are not compared (%d edges of unmodelled form)" % stats["edges_unmodelled_form"],
    ]
    return chk.finish()


def write_replay(d, fn, k, v, msg, prog):
    with open(os.path.join(d, "replay.txt"), "w") as f:
        f.write(msg + "\n\nprogram: %s\nquery: %s\nimplementation: %s\nmodel: %s\nspec (bypass path?): %s\n\n%s\n\n"
                % (prog, k, v, fn.get("model", {}).get("R", {}).get(k), fn.get("model", {}).get("I", {}).get(k[3:]), fn_text(fn)))
        f.write("re-run: build/bin/c02dump -maxfn 0 %s | tee impl.txt | build/bin/c02model   (compare the R* lines of function %s)\n"
                % (prog, fn["name"]))
    src = os.path.join(prog, "main.go")
    if prog.startswith(vlib.BUILD) and os.path.exists(src):
        for n in ("main.go", "go.mod", "config.yaml", "config_b.yaml"):
            if os.path.exists(os.path.join(prog, n)):
                shutil.copy(os.path.join(prog, n), d)


def write_scenario_replay(d, prog, s, why):
    text = open(os.path.join(prog, "main.go")).read()
    k = s["k"]
    m = re.search(r"func %s\(\) \{.*?\n\}\n" % re.escape(s["fn"].replace("in", "") if s["fn"].endswith("in") else s["fn"]), text, flags=re.S)
    body = m.group(0) if m else ""
    if s["fn"].endswith("in"):
        m2 = re.search(r"func %s\(x string\) \{.*?\n\}\n" % re.escape(s["fn"]), text, flags=re.S)
        body += "\n" + (m2.group(0) if m2 else "")
    for n in ("main.go", "go.mod", "config.yaml", "config_b.yaml"):
        shutil.copy(os.path.join(prog, n), d)
    with open(os.path.join(d, "replay.txt"), "w") as f:
        f.write("scenario %s / validator form %s, sink%d, function %s\n%s\n\n%s\n" % (s["shape"], s["form"], k, s["fn"], why, body))
        f.write("expected: the flow source() -> sink%d is reported (the marker reaches sink%d in a native run: `go run .` prints LEAK %d)\n"
                "observed: `argot taint -config config.yaml .` does not report it, `argot taint -config config_b.yaml .` (no validators / "
                "sanitizers) does\nre-run: cd <this dir>; go run . | grep 'LEAK %d$'; build/bin/c02dump -gt -maxfn 0 . | grep 'sink%d '\n"
                % (k, k, k, k, k))


def replay(chk, path):
    p = os.path.join(path, "replay.txt") if os.path.isdir(path) else path
    print(open(p).read())
    if os.path.isdir(path) and os.path.exists(os.path.join(path, "main.go")):
        vlib.build_harness(["c02dump"])
        rc, out = vlib.sh([os.path.join(vlib.BIN, "c02dump"), "-gt", "-maxfn", "0", path], timeout=900)
        print("\n".join(l for l in out.splitlines() if l.startswith(("FLOW", "ERR", "PANIC", "FAIL"))))
        rc, out, err = vlib.sh2(["go", "run", "."], cwd=path, timeout=600)
        print(out)
    return 0
